/-
  hydrv — line-protocol driver for the executable models (core Lean only: no Mathlib
  import may be reachable from here, or the executable will not link).
  usage: hydrv <component> < ops > results     (one result line per op line)
-/
import Hy.Drv.Frame
import Hy.Drv.Auth
import Hy.Drv.Masq

open Hy.Drv

/-- stateless component: one output line per input line -/
partial def loopPure (h : IO.FS.Stream) (out : IO.FS.Stream) (f : String → String) : IO Unit := do
  let line ← h.getLine
  if line.isEmpty then return ()
  out.putStrLn (f (line.trimAscii.toString))
  loopPure h out f

/-- stateful component -/
partial def loopState {σ} (h : IO.FS.Stream) (out : IO.FS.Stream) (f : σ → String → σ × String) (s : σ) : IO Unit := do
  let line ← h.getLine
  if line.isEmpty then return ()
  let (s', o) := f s (line.trimAscii.toString)
  out.putStrLn o
  loopState h out f s'

def main (args : List String) : IO UInt32 := do
  let stdin ← IO.getStdin
  let stdout ← IO.getStdout
  match args with
  | ["frame"] => loopPure stdin stdout Frame.step; return 0
  | ["auth"] => loopPure stdin stdout Auth.step; return 0
  | ["masq"] => loopState stdin stdout Masq.step Masq.init; return 0
  | _ => IO.eprintln "usage: hydrv <component>"; return 2
