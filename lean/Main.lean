/-
  hydrv — line-protocol driver for the executable models (core Lean only: no Mathlib
  import may be reachable from here, or the executable will not link).
  usage: hydrv <component> < ops > results     (one result line per op line)
-/
import Hy.Drv.Frame
import Hy.Drv.Speedtest
import Hy.Drv.Rate
import Hy.Drv.Frag
import Hy.Drv.Salamander
import Hy.Drv.Acl
import Hy.Drv.Punch
import Hy.Drv.PunchSrv
import Hy.Drv.Stats
import Hy.Drv.Reconnect
import Hy.Drv.QuicInitial
import Hy.Drv.Brutal
import Hy.Drv.Gecko
import Hy.Drv.PortUnion
import Hy.Drv.Hop
import Hy.Drv.HopAddr
import Hy.Drv.UdpAcl
import Hy.Drv.UdpSession
import Hy.Drv.Ring
import Hy.Drv.Bbr
import Hy.Drv.C18
import Hy.Drv.C18Mux
import Hy.Drv.C18Mgr
import Hy.Drv.Relay
import Hy.Drv.Auth
import Hy.Drv.Masq
import Hy.Drv.ClientUdp

open Hy.Drv

/-- stateless component: one output line per input line -/
partial def loopPure (h : IO.FS.Stream) (out : IO.FS.Stream) (f : String → String) : IO Unit := do
  let line ← h.getLine
  if line.isEmpty then return ()
  out.putStrLn (f (line.trimAscii.toString))
  loopPure h out f

/-- stateful component -/
partial def loopState {σ} (h : IO.FS.Stream) (out : IO.FS.Stream) (f : σ → String → σ × String) (s : σ) : IO Unit := do
  let line ← h.getLine
  if line.isEmpty then return ()
  let (s', o) := f s (line.trimAscii.toString)
  out.putStrLn o
  loopState h out f s'

def main (args : List String) : IO UInt32 := do
  let stdin ← IO.getStdin
  let stdout ← IO.getStdout
  match args with
  | ["frame"] => loopPure stdin stdout Frame.step; return 0
  | ["speedtest"] => loopPure stdin stdout Speedtest.step; return 0
  | ["cudp"] => loopState stdin stdout ClientUdp.stepLine ClientUdp.initSt; return 0
  | ["rate"] => loopPure stdin stdout Rate.step; return 0
  | ["frag"] => loopPure stdin stdout Frag.step; return 0
  | ["defrag"] => loopState stdin stdout Frag.stepSt Frag.init; return 0
  | ["salamander"] => loopPure stdin stdout Salamander.step; return 0
  | ["acl"] => loopState stdin stdout Acl.step Acl.init; return 0
  | ["punchcodec"] => loopPure stdin stdout Punch.stepCodec; return 0
  | ["punchconn"] => loopState stdin stdout Punch.stepConn Punch.initConn; return 0
  | ["punchsrv"] => loopState stdin stdout PunchSrv.step PunchSrv.init; return 0
  | ["stats"] => loopState stdin stdout Stats.step Stats.init; return 0
  | ["reconnect"] => loopPure stdin stdout Reconnect.step; return 0
  | ["sniff"] => loopPure stdin stdout QuicInitial.step; return 0
  | ["brutal"] => loopState stdin stdout Brutal.step Brutal.init; return 0
  | ["gecko"] => loopState stdin stdout Gecko.step Gecko.init; return 0
  | ["portunion"] => loopPure stdin stdout PortUnion.step; return 0
  | ["hop"] => loopState stdin stdout Hop.step Hop.init; return 0
  | ["hopaddr"] => loopPure stdin stdout HopAddr.step; return 0
  | ["udpacl"] => loopState stdin stdout UdpAcl.step UdpAcl.init; return 0
  | ["udpsession"] => loopState stdin stdout UdpSession.step UdpSession.init; return 0
  | ["ring"] => loopState stdin stdout Ring.ringStep Ring.ringInit; return 0
  | ["bbrcore"] => loopState stdin stdout Bbr.stepCore Bbr.initCore; return 0
  | ["bbr"] => loopState stdin stdout Bbr.step Bbr.init; return 0
  | ["pnq"] => loopState stdin stdout Ring.pnqStep Ring.pnqInit; return 0
  | ["c18"] => loopPure stdin stdout C18.step; return 0
  | ["c18mux"] => loopPure stdin stdout (fun line =>
      match Hy.Drv.fields line with
      | "mgr" :: toks => C18Mgr.step toks
      | _ => C18Mux.step line); return 0
  | ["relay"] => loopPure stdin stdout Relay.step; return 0
  | ["auth"] => loopPure stdin stdout Auth.step; return 0
  | ["masq"] => loopState stdin stdout Masq.step Masq.init; return 0
  | _ => IO.eprintln "usage: hydrv <component>"; return 2
