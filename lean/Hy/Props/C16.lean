/-
  C16 — Reconnecting client: one live connection, reconnect on loss, Close is final.
  Property theorems only; the invariant and its preservation are in Hy.Proofs.Reconnect.

  Model: Hy.Model.Reconnect (core/client/reconnect.go with fixes/D4.patch applied =
  `Reconnect.fixed`; the pinned tree = `Reconnect.pinned`, kept for the leak witness).
  "Reachable" = `run fixed init tr` for an arbitrary `tr : List Label`: every interleaving of
  calls from any number of goroutines at the lock boundaries, every fault history (kills at
  arbitrary points, failing configFunc / verifyAndFill / ConnFactory.New / handshake), lazy or
  eager start, Close at any point, and ANY answer of f(client) (ok, ClosedError,
  stream-limit, other) at any time.
-/
import Hy.Proofs.Reconnect
import Hy.Gen.Core
import Hy.Gen.App
set_option linter.unusedSimpArgs false
set_option linter.unusedVariables false
namespace Hy.Props.C16
open Hy Hy.Reconnect

/-! ### obligations on the facts regenerated from core/client/reconnect.go (go/ast, every run)

Exactly two functions assign `rc.client` (clientDo drops it, reconnect replaces it); the
clientDo drop path closes the dropped client before `rc.client = nil` (false on the pinned
tree: defect D4); reconnect closes a still-referenced client before replacing it; Close sets
the permanent flag and closes the current client; all under rc.m. -/
theorem gen_assigners : Gen.c16_rcClientAssignFuncs = 2 ∧ Gen.c16_assign_clientDo = 1 ∧
    Gen.c16_assign_reconnect = 1 := by decide
theorem gen_drop_closes : Gen.c16_clientDo_drop_closes = 1 := by decide
theorem gen_reconnect_closes_old : Gen.c16_reconnect_closes_old = 1 := by decide
theorem gen_close : Gen.c16_Close_sets_closed = 1 ∧ Gen.c16_Close_closes_client = 1 := by decide
theorem gen_count : Gen.c16_count_incr_sites = 1 ∧ Gen.c16_count_incr_in_reconnect_success = 1 := by decide
/-- closed-error classification, read from the COMPILED wrapIfConnectionClosed: the error quic-go's
    OpenStream returns at the stream limit (`*quic.StreamLimitReachedError`) passes through unwrapped
    (`FRes.recoverable`; false on the pinned tree: defect D4b), every other error becomes ClosedError. -/
theorem gen_classification : Gen.c16_streamlimit_unwrapped = 1 ∧ Gen.c16_other_errors_wrapped_closed = 1 := by decide
theorem gen_parsed : Gen.c16_shape_parsed = 1 := by decide

/-- connect() of core/client/client.go, read with go/ast on every run: for each `return` in source
    order, the kind of error it returns (1 = the factory's error, 2 = ConnectError, 3 = AuthError,
    4 = nil) and the Close calls that precede it ON ITS PATH (1 conn unconditionally, 8 conn under
    `conn != nil`, 2 tr, 4 pktConn; +100 per resource closed twice). The expected table is not
    written down here: it is what a RUN of the model `Hy.Connect.connect` closes on that exit, with
    the guard evaluated for the path on which DialEarly failed (conn = nil) and on which it had
    succeeded. The RoundTrip-error return must not close conn unconditionally (conn may be nil). -/
theorem gen_connect_exits :
    Gen.c16_connect_returns = 4 ∧
    Gen.c16_connect_ret0_kind = 1 ∧ Gen.c16_connect_ret0_mask = Connect.modelMask .factoryErr ∧
    Gen.c16_connect_ret1_kind = 2 ∧ Gen.c16_connect_ret1_mask < 16 ∧ Gen.c16_connect_ret1_mask % 2 = 0 ∧
    Connect.applyGuard Gen.c16_connect_ret1_mask false = Connect.modelMask .dialErr ∧
    Connect.applyGuard Gen.c16_connect_ret1_mask true = Connect.modelMask .roundTripErr ∧
    Gen.c16_connect_ret2_kind = 3 ∧ Gen.c16_connect_ret2_mask < 16 ∧
    Connect.applyGuard Gen.c16_connect_ret2_mask true = Connect.modelMask .authErr ∧
    Gen.c16_connect_ret3_kind = 4 ∧ Gen.c16_connect_ret3_mask = Connect.modelMask .ok ∧
    Gen.c16_connect_success_assigns = 7 := by decide
/-- clientImpl.Close closes conn, tr, pktConn (in this order, each once); NewClient returns no client
    when connect failed. -/
theorem gen_client_close : Gen.c16_clientClose_mask = 7 ∧ Gen.c16_clientClose_order = 123 ∧
    Gen.c16_newclient_err_returns_nil = 1 := by decide
/-- app/cmd/client.go: the function handed to NewReconnectableClient is the method value
    `config.Config` (not a closure over an already built *client.Config); Config() builds a fresh
    client.Config and runs fillServerAddr, which resolves the configured server string (plain and
    port-hopping form) on every call and stores nothing on the receiver. The dynamic side is the
    stream `c16cfg` (a fake DNS server whose answer changes between evaluations). -/
theorem gen_app_config_fresh : Gen.c16_app_parsed = 1 ∧ Gen.c16_app_configfunc_is_method_value = 1 ∧ Gen.c16_app_config_allocates_fresh = 1 ∧
    Gen.c16_app_fillServerAddr_resolves = 1 ∧ Gen.c16_app_fillServerAddr_stores_nothing = 1 := by decide

/-! ### connect() and clientImpl.Close as programs over (packet conn, transport, QUIC conn) -/

/-- On EVERY failing exit of connect() each resource acquired so far is closed exactly once, no
    Close goes through a nil pointer, nothing is left held, and NewClient returns no client. -/
theorem connect_failure_releases_everything (e : Connect.Exit) (he : e ≠ .ok) :
    let r := (Connect.connect e).1
    (Connect.connect e).2 ≠ .ok ∧ r.nilDeref = false ∧
    r.pkt.once = true ∧ r.tr.once = true ∧ r.conn.once = true ∧ Connect.held r = false ∧
    (Connect.newClient true e).2.2 = false := by
  cases e <;> first | exact absurd rfl he | decide

/-- which resources each failing exit had acquired (so "closed exactly once" is not vacuous) -/
theorem connect_acquires :
    (Connect.connect .factoryErr).1 = {} ∧
    (Connect.connect .dialErr).1 = { pkt := some 1, tr := some 1, conn := none } ∧
    (Connect.connect .roundTripErr).1 = { pkt := some 1, tr := some 1, conn := some 1 } ∧
    (Connect.connect .authErr).1 = { pkt := some 1, tr := some 1, conn := some 1 } := by decide

/-- an invalid configuration is rejected before anything is acquired -/
theorem newClient_bad_config (e : Connect.Exit) : Connect.newClient false e = ({}, .cfgErr, false) := rfl

/-- On success the client owns all three resources, none of them closed, and is returned. -/
theorem connect_success_owns_three :
    Connect.connect .ok = (Connect.owned, .ok) ∧ (Connect.newClient true .ok).2.2 = true ∧
    Connect.held Connect.owned = true := by decide

/-- clientImpl.Close on what a successful connect owns closes each of the three exactly once. -/
theorem close_releases_three :
    Connect.close Connect.owned = { pkt := some 1, tr := some 1, conn := some 1, nilDeref := false } := by decide

/-- … and however often Close is called, and on whatever it is called, nothing stays held. -/
theorem close_releases_any (r : Connect.R3) : Connect.held (Connect.close r) = false := held_close r

/-! ### one_live — at EVERY reachable state, not only quiescent ones -/

/-- At most one socket obtained from the ConnFactory is open, it is the current client's, and
    every other socket the factory ever returned (every superseded client, every failed
    attempt) is closed. -/
theorem one_live (tr : List Label) :
    let s := run fixed init tr
    (openList s).length ≤ 1 ∧
    (∀ x y, s.sock x = some true → s.sock y = some true → x = y) ∧
    (∀ x, s.sock x = some true → s.client = some x) ∧
    (∀ x, x ∈ newSocks s.log → s.client ≠ some x → s.sock x = some false) := by
  intro s
  have h : Inv s := inv_run tr init inv_init
  refine ⟨openList_le_one s h, ?_, h.live, ?_⟩
  · intro x y hx hy
    have := h.live x hx
    rw [h.live y hy] at this
    exact (Option.some.inj this).symm
  · intro x hx hne
    rw [h.socks] at hx
    have hlt : x < s.nextId := by simpa using hx
    have hu := h.used x hlt
    cases hsx : s.sock x with
    | none => exact absurd hsx hu
    | some b =>
      cases b with
      | false => rfl
      | true => exact absurd (h.live x hsx) hne

/-- `openList` really is the set of open sockets (so `one_live` counts the right thing). -/
theorem openList_spec (tr : List Label) (x : Nat) :
    x ∈ openList (run fixed init tr) ↔ (run fixed init tr).sock x = some true :=
  mem_openList _ (inv_run tr init inv_init) x

/-! ### close_final -/

/-- Once Close has run: the flag stays set, no factory socket is open at any later state, and no
    later step evaluates configFunc, calls connectedFunc, asks the factory for a socket or bumps
    the count — whatever the goroutines and the environment do afterwards. -/
theorem close_final (tr tr' : List Label) (hc : (run fixed init tr).closed = true) :
    let s := run fixed init tr
    let s' := run fixed s tr'
    s'.closed = true ∧ openList s' = [] ∧ (∀ x, s'.sock x ≠ some true) ∧
    cfgCount s'.log = cfgCount s.log ∧ connArgs s'.log = connArgs s.log ∧
    s'.nextId = s.nextId ∧ s'.count = s.count := by
  intro s s'
  have h : Inv s := inv_run tr init inv_init
  have h' : Inv s' := inv_run tr' s h
  have hk := closed_run fixed tr' s hc (h.cs hc)
  refine ⟨hk.1, ?_, h'.fin hk.1, hk.2.2.1, hk.2.2.2.1, hk.2.2.2.2.1, hk.2.2.2.2.2⟩
  exact openList_nil_of_quiet s' (h'.fin hk.1)

/-- Every call that begins after Close returns ClosedError at once, in one step, touching nothing
    (in particular without evaluating configFunc), whatever the environment would have answered. -/
theorem close_final_calls (tr : List Label) (g : Nat) (a : Att)
    (hc : (run fixed init tr).closed = true) (hg : (run fixed init tr).pc g = .idle) :
    let s := run fixed init tr
    step fixed s (.callBegin g a) = { s with log := .ret g .closed :: s.log } := by
  intro s
  have h : Inv s := inv_run tr init inv_init
  have hs : s.started = true := h.cs hc
  have hc' : s.closed = true := hc
  have hg' : s.pc g = .idle := hg
  simp [step, hs, hg', hc']

/-- Close closes: after `close` on a handed-out client the flag is set and nothing is open. -/
theorem close_closes (tr : List Label) (hs : (run fixed init tr).started = true) :
    let s' := step fixed (run fixed init tr) .close
    s'.closed = true ∧ openList s' = [] := by
  intro s'
  have h' : Inv s' := inv_step _ _ (inv_run tr init inv_init)
  have hcl : s'.closed = true := by
    show (step fixed (run fixed init tr) .close).closed = true
    simp only [step, hs, Bool.not_true, Bool.false_eq_true, if_false]
    split <;> rfl
  exact ⟨hcl, openList_nil_of_quiet s' (h'.fin hcl)⟩

-- non-vacuity: a history with two live clients in sequence, then Close, then a call
example : (run fixed init [.start true .ok, .callBegin 0 .ok, .kill 0, .callEnd 0 .closedErr,
    .callBegin 1 .ok, .close]).closed = true := by decide
example : (run fixed init [.start true .ok, .callBegin 0 .ok, .kill 0, .callEnd 0 .closedErr,
    .callBegin 1 .ok, .close]).pc 0 = .idle := by decide
example : (run fixed init [.start true .ok, .callBegin 0 .ok]).started = true := by decide

/-! ### reconnect_on_loss -/

/-- A call that fails with ClosedError on the client that is still current drops it AND closes
    its socket, and reports `closed` to its caller; the count is untouched. -/
theorem loss_drops (tr : List Label) (g c : Nat)
    (hg : (run fixed init tr).pc g = .using c) (hcur : (run fixed init tr).client = some c) :
    let s := run fixed init tr
    let s1 := step fixed s (.callEnd g .closedErr)
    s1.client = none ∧ s1.sock c = some false ∧ s1.pc g = .idle ∧
    s1.log = .ret g .closed :: s.log ∧ s1.count = s.count ∧ openList s1 = [] := by
  intro s s1
  have h1 : Inv s1 := inv_step _ _ (inv_run tr init inv_init)
  have e : s1 = { (closeSock { s with pc := upd s.pc g .idle, log := .ret g .closed :: s.log } c) with client := none } := by
    show step fixed s (.callEnd g .closedErr) = _
    have hg' : s.pc g = .using c := hg
    have hcur' : s.client = some c := hcur
    simp [step, hg', hcur', fixed, FRes.toRet]
  have hq : ∀ x, s1.sock x ≠ some true := by
    intro x hx
    have := h1.live x hx
    rw [e] at this
    cases this
  refine ⟨by rw [e], by rw [e]; simp [closeSock], by rw [e]; simp [closeSock], by rw [e]; rfl, by rw [e]; rfl,
    openList_nil_of_quiet s1 hq⟩

/-- At any state with no current client (handed out, not closed), the next call by an idle
    goroutine evaluates configFunc afresh exactly once and — if the attempt succeeds — takes a
    fresh factory socket, increments the count and calls connectedFunc with the new count; the
    caller goes on with the new client. -/
theorem next_call_reconnects (cfg : Cfg) (s : St) (g : Nat)
    (hs : s.started = true) (hc : s.closed = false) (hn : s.client = none) (hg : s.pc g = .idle) :
    step cfg s (.callBegin g .ok) =
      { s with client := some s.nextId, nextId := s.nextId + 1, sock := upd s.sock s.nextId (some true),
               res := upd s.res s.nextId (some Connect.owned),
               count := s.count + 1, pc := upd s.pc g (.using s.nextId),
               log := .connected (s.count + 1) :: .new s.nextId :: .cfg :: s.log } := by
  simp [step, hs, hg, hc, hn, reconnect_ok_none s hn, enter]

-- non-vacuity: a handed-out, not closed client without a connection and an idle goroutine (lazy start)
example : (run fixed init [.start true .ok]).started = true ∧ (run fixed init [.start true .ok]).closed = false ∧
    (run fixed init [.start true .ok]).client = none ∧ (run fixed init [.start true .ok]).pc 3 = .idle := by decide

/-- reconnect_on_loss, end to end: from any reachable state in which goroutine g is using the
    current client c (not closed), `f` failing with ClosedError followed by g's next call yields
    exactly: ret closed, configFunc, factory socket, connectedFunc(count+1); the old socket is
    closed, the new one is open and current. -/
theorem reconnect_on_loss (tr : List Label) (g c : Nat)
    (hg : (run fixed init tr).pc g = .using c) (hcur : (run fixed init tr).client = some c)
    (hcl : (run fixed init tr).closed = false) :
    let s := run fixed init tr
    let s2 := run fixed s [.callEnd g .closedErr, .callBegin g .ok]
    s2.log = .connected (s.count + 1) :: .new s.nextId :: .cfg :: .ret g .closed :: s.log ∧
    s2.client = some s.nextId ∧ s2.count = s.count + 1 ∧ s2.pc g = .using s.nextId ∧
    s2.sock c = some false ∧ s2.sock s.nextId = some true ∧ openList s2 = [s.nextId] := by
  intro s s2
  have h : Inv s := inv_run tr init inv_init
  have hst : s.started = true := started_of_using fixed tr g c hg
  have hd := loss_drops tr g c hg hcur
  let s1 := step fixed s (.callEnd g .closedErr)
  have h1 : Inv s1 := inv_step _ _ h
  have hs1 : s1.started = true := by rw [step_started_mono fixed s _ hst]
  have hc1 : s1.closed = false := by
    show (step fixed s (.callEnd g .closedErr)).closed = false
    rw [callEnd_closed]; exact hcl
  have hn1 : s1.nextId = s.nextId := callEnd_nextId fixed s g .closedErr
  have e2 : s2 = step fixed s1 (.callBegin g .ok) := rfl
  have hlt : c < s.nextId := h.cur c hcur
  have e3 := next_call_reconnects fixed s1 g hs1 hc1 hd.1 hd.2.2.1
  have h2 : Inv s2 := by rw [e2]; exact inv_step _ _ h1
  have hopen : s2.sock s.nextId = some true := by rw [e2, e3, hn1]; simp
  have hcur2 : s2.client = some s.nextId := by rw [e2, e3, hn1]
  refine ⟨?_, hcur2, ?_, ?_, ?_, hopen, ?_⟩
  · rw [e2, e3, hd.2.2.2.1, hd.2.2.2.2.1, hn1]
  · rw [e2, e3, hd.2.2.2.2.1]
  · rw [e2, e3, hn1]; simp
  · rw [e2, e3, hn1]
    have : c ≠ s.nextId := by omega
    simp only [upd_apply, this, if_false]
    exact hd.2.1
  · exact openList_eq_singleton s2 h2 s.nextId hopen

-- non-vacuity: client 0 is current and in use by goroutine 0 after [start, callBegin, kill]
example : (run fixed init [.start true .ok, .callBegin 0 .ok, .kill 0]).pc 0 = .using 0 ∧
    (run fixed init [.start true .ok, .callBegin 0 .ok, .kill 0]).client = some 0 ∧
    (run fixed init [.start true .ok, .callBegin 0 .ok, .kill 0]).closed = false := by decide
example : (step fixed (run fixed init [.start true .ok, .callBegin 0 .ok, .kill 0]) (.callEnd 0 .closedErr)).client = none ∧
    (step fixed (run fixed init [.start true .ok, .callBegin 0 .ok, .kill 0]) (.callEnd 0 .closedErr)).pc 0 = .idle := by decide

/-! ### recoverable_no_reconnect -/

/-- Any answer of f other than ClosedError (ok, the stream-limit error, a dial error) changes
    nothing but the caller's program counter and the log: client, count, census, configuration
    evaluations all stay. Holds for the pinned code too. -/
theorem recoverable_keeps_client (cfg : Cfg) (s : St) (g c : Nat) (r : FRes)
    (hr : r ≠ .closedErr) (hg : s.pc g = .using c) :
    step cfg s (.callEnd g r) = { s with pc := upd s.pc g .idle, log := .ret g r.toRet :: s.log } := by
  simp [step, hg, hr]

-- non-vacuity: goroutine 0 is inside a call on client 0, and the stream-limit answer is not ClosedError
example : (run fixed init [.start false .ok, .callBegin 0 .cfgErr]).pc 0 = .using 0 ∧ FRes.recoverable ≠ .closedErr := by decide

/-- A call that finds a current client uses it: no configFunc, no socket, whatever the
    environment would have answered to an attempt. -/
theorem call_reuses_client (cfg : Cfg) (s : St) (g c : Nat) (a : Att)
    (hs : s.started = true) (hc : s.closed = false) (hcur : s.client = some c) (hg : s.pc g = .idle) :
    step cfg s (.callBegin g a) = { s with pc := upd s.pc g (.using c) } := by
  simp [step, hs, hg, hc, hcur, enter]

-- non-vacuity: after an eager start goroutine 1 is idle and client 0 is current
example : (run fixed init [.start false .ok]).started = true ∧ (run fixed init [.start false .ok]).closed = false ∧
    (run fixed init [.start false .ok]).client = some 0 ∧ (run fixed init [.start false .ok]).pc 1 = .idle := by decide

/-- recoverable_no_reconnect, end to end: a stream-limit error followed by the same goroutine's
    next call stays on the same client with no configuration evaluation and no new socket. -/
theorem recoverable_no_reconnect (tr : List Label) (g c : Nat) (a : Att)
    (hg : (run fixed init tr).pc g = .using c) (hcur : (run fixed init tr).client = some c)
    (hcl : (run fixed init tr).closed = false) :
    let s := run fixed init tr
    let s2 := run fixed s [.callEnd g .recoverable, .callBegin g a]
    s2.client = some c ∧ s2.pc g = .using c ∧ s2.count = s.count ∧ s2.nextId = s.nextId ∧
    s2.sock = s.sock ∧ cfgCount s2.log = cfgCount s.log ∧ connArgs s2.log = connArgs s.log ∧
    s2.log = .ret g .recoverable :: s.log := by
  intro s s2
  have hst : s.started = true := started_of_using fixed tr g c hg
  have e1 := recoverable_keeps_client fixed s g c .recoverable (by decide) hg
  have e2 : s2 = step fixed (step fixed s (.callEnd g .recoverable)) (.callBegin g a) := rfl
  have e3 := call_reuses_client fixed
    { s with pc := upd s.pc g .idle, log := .ret g FRes.recoverable.toRet :: s.log } g c a hst hcl hcur (by simp)
  rw [e2, e1, e3]
  have hcur' : s.client = some c := hcur
  simp [cfgCount, connArgs, FRes.toRet, hcur']

-- non-vacuity (recoverable_no_reconnect): in use, current, not closed — and the attempt answer is irrelevant
example : (run fixed init [.start false .ok, .callBegin 0 .newErr]).pc 0 = .using 0 ∧
    (run fixed init [.start false .ok, .callBegin 0 .newErr]).client = some 0 ∧
    (run fixed init [.start false .ok, .callBegin 0 .newErr]).closed = false := by decide

/-! ### failed_reconnect_leaks_nothing -/

/-- A call whose reconnect attempt fails (configFunc error, invalid config, ConnFactory.New error,
    handshake/auth failure — the last one after a socket was obtained) leaves the set of open
    factory sockets exactly as it was, leaves client/count/connectedFunc calls unchanged, and is
    reported to the caller; this holds for a call in any state (attempt made or not). -/
theorem failed_reconnect_leaks_nothing (tr : List Label) (g : Nat) (a : Att) (ha : a ≠ .ok) :
    let s := run fixed init tr
    let s' := step fixed s (.callBegin g a)
    openList s' = openList s ∧ (∀ x, s'.sock x = some true ↔ s.sock x = some true) ∧
    s'.client = s.client ∧ s'.count = s.count ∧ connArgs s'.log = connArgs s.log := by
  intro s s'
  have h : Inv s := inv_run tr init inv_init
  have h' : Inv s' := inv_step _ _ h
  have hsock : ∀ x, s'.sock x = some true ↔ s.sock x = some true := callBegin_fail_open fixed s g a h ha
  have hrest := callBegin_fail_rest fixed s g a ha
  exact ⟨openList_congr s' s h' h hsock, hsock, hrest⟩

/-- the same for a failing eager start: nothing is handed out and nothing stays open -/
theorem failed_start_leaks_nothing (tr : List Label) (a : Att) (ha : a ≠ .ok)
    (hns : (run fixed init tr).started = false) :
    let s := run fixed init tr
    let s' := step fixed s (.start false a)
    s'.started = false ∧ openList s' = [] ∧ s'.count = s.count := by
  intro s s'
  have h : Inv s := inv_run tr init inv_init
  have h' : Inv s' := inv_step _ _ h
  have hq : ∀ x, s.sock x ≠ some true := fun x hx => by
    have := never_started_quiet fixed tr hns x
    exact this hx
  have hn : s.client = none := never_started_client fixed tr hns
  obtain ⟨hc, hcnt, _, hs, herr⟩ := reconnect_fail_none s a hn ha
  have e : s' = { (reconnect s a).1 with log := .startRet (reconnect s a).2 :: (reconnect s a).1.log } := by
    show step fixed s (.start false a) = _
    have hns' : s.started = false := hns
    cases hr : reconnect s a with
    | mk s1 e1 =>
      cases e1 with
      | none => rw [hr] at herr; exact absurd rfl herr
      | some e1 => simp [step, hns', hr]
  refine ⟨by rw [e, reconnect_started]; exact hns, ?_, by rw [e]; exact hcnt⟩
  apply openList_nil_of_quiet
  intro x hx
  rw [e] at hx
  exact hq x (hs x hx)

-- non-vacuity (failed_start_leaks_nothing): nothing handed out yet — initially, and after a failed eager start
example : (run fixed init []).started = false ∧ (run fixed init [.start false .authErr]).started = false ∧
    Att.authErr ≠ .ok := by decide
-- non-vacuity: a failing attempt is really made (configFunc is evaluated, a socket is obtained and closed)
example : cfgCount (run fixed init [.start true .ok, .callBegin 0 .authErr]).log = 1 ∧
    (run fixed init [.start true .ok, .callBegin 0 .authErr]).nextId = 1 ∧
    (run fixed init [.start true .ok, .callBegin 0 .authErr]).sock 0 = some false := by decide

/-- failed_reconnect_leaks_nothing at the level of connect()'s resources: when a call really makes
    an attempt (handed out, not closed, no current client, caller idle) and the attempt fails, then
    either no socket was obtained (configFunc / verifyAndFill / ConnFactory.New failed) or the socket
    obtained is entered in the census with exactly the resources connect()'s failing exit leaves
    behind — packet conn and transport closed exactly once, the QUIC conn closed exactly once if
    DialEarly had returned one, no nil dereference — and is therefore recorded as closed. The census
    bit is computed from connect()'s run (`Connect.held`), not assumed. -/
theorem failed_reconnect_releases_resources (tr : List Label) (g : Nat) (a : Att) (ha : a ≠ .ok)
    (hs : (run fixed init tr).started = true) (hc : (run fixed init tr).closed = false)
    (hn : (run fixed init tr).client = none) (hg : (run fixed init tr).pc g = .idle) :
    let s := run fixed init tr
    let s' := step fixed s (.callBegin g a)
    (s'.nextId = s.nextId ∧ s'.res = s.res ∧ (a = .cfgErr ∨ a = .badCfg ∨ a = .newErr)) ∨
    (s'.nextId = s.nextId + 1 ∧ a.failsWithSocket ∧
      s'.res s.nextId = some (Connect.connect a.exit).1 ∧
      (Connect.connect a.exit).1.pkt = some 1 ∧ (Connect.connect a.exit).1.tr = some 1 ∧
      (Connect.connect a.exit).1.conn.once = true ∧ (Connect.connect a.exit).1.nilDeref = false ∧
      s'.sock s.nextId = some (Connect.held (Connect.connect a.exit).1) ∧ s'.sock s.nextId = some false) := by
  intro s s'
  have hs' : s.started = true := hs
  have hc' : s.closed = false := hc
  have hn' : s.client = none := hn
  have hg' : s.pc g = .idle := hg
  have e : s' = { (attempt s a).1 with log := .ret g ((attempt s a).2.getD .ok) :: (attempt s a).1.log } := by
    show step fixed s (.callBegin g a) = _
    have herr : (attempt s a).2 ≠ none := fun h => ha ((attempt_err s a).mp h)
    cases hat : attempt s a with
    | mk s1 e1 =>
      rw [hat] at herr
      cases e1 with
      | none => exact absurd rfl herr
      | some e1 => simp [step, hs', hg', hc', hn', reconnect, closeOld_none s hn', hat]
  rcases att_cases a with h | h | h | h | h
  · left; subst h; rw [e, attempt_cfgErr]; exact ⟨rfl, rfl, Or.inl rfl⟩
  · left; subst h; rw [e, attempt_badCfg]; exact ⟨rfl, rfl, Or.inr (Or.inl rfl)⟩
  · left; subst h; rw [e, attempt_newErr]; exact ⟨rfl, rfl, Or.inr (Or.inr rfl)⟩
  · right
    rw [e, attempt_failSock s a h]
    have hcf := connect_fail_clean a h
    have hk : (Connect.connect a.exit).1.pkt = some 1 ∧ (Connect.connect a.exit).1.tr = some 1 ∧
        (Connect.connect a.exit).1.conn.once = true := by
      rcases h with h | h | h <;> subst h <;> decide
    refine ⟨rfl, h, by simp, hk.1, hk.2.1, hk.2.2, hcf.1, by simp [hcf.2.2.2], by simp⟩
  · exact absurd h ha

-- non-vacuity: after a lazy start a call that fails in the handshake / at authentication is such an attempt
example : (run fixed init [.start true .ok]).started = true ∧ (run fixed init [.start true .ok]).closed = false ∧
    (run fixed init [.start true .ok]).client = none ∧ (run fixed init [.start true .ok]).pc 0 = .idle ∧
    Att.dialErr ≠ .ok ∧ Att.rtErr ≠ .ok ∧ Att.authErr ≠ .ok := by decide

/-- one_live at the level of the three resources, at EVERY reachable state: behind every socket the
    factory ever returned stands a recorded run of connect()/Close with no nil dereference; an open
    socket's client owns packet conn, transport and QUIC conn, all unclosed; for every other socket
    each of the three was either never acquired or has been closed. The census bit of the base
    model is exactly `Connect.held`. -/
theorem one_live_resources (tr : List Label) :
    let s := run fixed init tr
    ∀ x, x ∈ newSocks s.log → ∃ r, s.res x = some r ∧ s.sock x = some (Connect.held r) ∧ r.nilDeref = false ∧
      (s.sock x = some true → r = Connect.owned ∧ s.client = some x) ∧
      (s.client ≠ some x → r.pkt.released = true ∧ r.tr.released = true ∧ r.conn.released = true) := by
  intro s x hx
  obtain ⟨h, hr⟩ := inv_rinv_run tr init inv_init rinv_init
  rw [h.socks] at hx
  have hlt : x < s.nextId := by simpa using hx
  have hu := h.used x hlt
  have hl := hr.link x
  cases hres : s.res x with
  | none => rw [hres] at hl; exact absurd hl hu
  | some r =>
    rw [hres] at hl
    simp only [Option.map_some] at hl
    refine ⟨r, rfl, hl, (hr.clean x r hres).1, ?_, ?_⟩
    · intro ho
      have := hr.owns x ho
      rw [hres] at this
      exact ⟨Option.some.inj this, h.live x ho⟩
    · intro hne
      have hf : Connect.held r = false := by
        cases hh : Connect.held r with
        | false => rfl
        | true => rw [hh] at hl; exact absurd (h.live x hl) hne
      cases r with
      | mk p t c nd =>
        cases p with
        | none => cases t <;> cases c <;> simp_all [Connect.held, Connect.Rsrc.released]
        | some n => cases t <;> cases c <;> simp_all [Connect.held, Connect.Rsrc.released]

/-! ### the count -/

/-- connectedFunc has been called with exactly 1, 2, …, count, in this order (newest first in
    the log), at every reachable state. -/
theorem count_exact (tr : List Label) :
    connArgs (run fixed init tr).log = countdown (run fixed init tr).count :=
  (inv_run tr init inv_init).cnt

/-- One step changes the count by at most one, and it increments exactly when a reconnect
    attempt succeeded in that step: the label carries `Att.ok`, connectedFunc is called with the
    new count, and the new client's fresh socket is open and current. -/
theorem count_step (cfg : Cfg) (s : St) (l : Label) :
    let s' := step cfg s l
    (s'.count = s.count ∧ connArgs s'.log = connArgs s.log) ∨
    (s'.count = s.count + 1 ∧ connArgs s'.log = (s.count + 1) :: connArgs s.log ∧
      ((∃ g, l = .callBegin g .ok) ∨ l = .start false .ok) ∧
      s'.client = some s.nextId ∧ s'.sock s.nextId = some true ∧ s'.nextId = s.nextId + 1) :=
  count_step_aux cfg s l

/-! ### the pinned tree (defect D4): the invariant is false -/

/-- On the pinned code (`rc.client = nil` without Close) the history
    [lazy start, call begins (connect), kill, call ends with ClosedError, next call] leaves TWO
    factory sockets open: `one_live` fails. -/
theorem one_live_pinned_counterexample :
    (openList (run pinned init
      [.start true .ok, .callBegin 0 .ok, .kill 0, .callEnd 0 .closedErr, .callBegin 0 .ok])).length = 2 := by
  decide

/-- … and the same history on the repaired code leaves exactly one. -/
theorem one_live_fixed_same_history :
    openList (run fixed init
      [.start true .ok, .callBegin 0 .ok, .kill 0, .callEnd 0 .closedErr, .callBegin 0 .ok]) = [1] := by
  decide

/-- On the pinned code Close is not final for the leaked socket either. -/
theorem close_final_pinned_counterexample :
    openList (run pinned init
      [.start true .ok, .callBegin 0 .ok, .kill 0, .callEnd 0 .closedErr, .callBegin 0 .ok, .close]) = [0] := by
  decide

end Hy.Props.C16
