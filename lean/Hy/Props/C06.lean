/-
  C06 — TCP relay preserves the byte stream and accounts it exactly.
  Property theorems only; helper lemmas live in Hy.Proofs.Relay.

  Model: Hy.Model.Relay — copyBufferLog (core/server/copy.go) as a program of atomic
  steps; copyTwoWayEx + the tail of handleTCPRequest (core/server/server.go) as two such
  programs and the teardown steps under an arbitrary schedule; the dial / TCPResponse /
  Client.TCP exchange (core/client/client.go) on top of the framing of C04.  The model
  is of the code with the repairs D5 and D11; `Variant.pinned` is the pinned tree, for
  the two witnesses at the end.

  "for every schedule" is `∀ sched : List Label`; what the environment decides (read
  results, verdicts, write results, paddings, chunkings) is universally quantified.
-/
import Hy.Proofs.Relay
import Hy.Props.C04
set_option linter.unusedSimpArgs false
set_option linter.unusedVariables false
namespace Hy.Props.C06
open Hy Hy.Relay

/-! ### obligations on the regenerated constants -/
theorem const_copybuf : Gen.copyBufSize = 32768 := by decide
theorem const_copybuf_pos : 1 ≤ Gen.copyBufSize := by decide
theorem const_maxmsg : Gen.MaxMessageLength = 2048 := by decide
/-- the close code of a traffic-logger refusal is HTTP/3 "excessive load" -/
theorem const_closecode : Gen.closeErrCodeTrafficLimitReached = 0x107 := by decide

/-! ### the relay's inputs -/

/-- everything the environment of one relay decides: per direction the source's read
    results, the logger's verdicts, the sink's write results -/
structure Scripts where
  upSrc : List Rd
  upVerd : List Bool
  upW : List (Option Nat)
  downSrc : List Rd
  downVerd : List Bool
  downW : List (Option Nat)

/-- io.Reader contract: no Read returns more than the buffer it was given -/
def Scripts.Contract (sc : Scripts) : Prop :=
  (∀ r ∈ sc.upSrc, r.data.length ≤ Gen.copyBufSize) ∧ (∀ r ∈ sc.downSrc, r.data.length ≤ Gen.copyBufSize)

def start (sc : Scripts) : St :=
  St.init (G.init sc.upSrc sc.upVerd sc.upW) (G.init sc.downSrc sc.downVerd sc.downW)

/-- the bytes the source of direction `l` produces -/
def Scripts.data (sc : Scripts) : Label → Bytes
  | .down => (sc.downSrc.map (·.data)).flatten
  | _ => (sc.upSrc.map (·.data)).flatten

/-- whatever a source has available, handing it out through `Read(buf)` meets the
    contract and neither adds, drops nor reorders a byte -/
theorem deliver_meets_contract (src : List Rd) :
    (∀ r ∈ deliver Gen.copyBufSize src, r.data.length ≤ Gen.copyBufSize) ∧
    ((deliver Gen.copyBufSize src).map (·.data)).flatten = (src.map (·.data)).flatten :=
  ⟨deliver_bound _ const_copybuf_pos src, deliver_data _ src⟩

theorem reachable (v : Variant) (sc : Scripts) (hc : sc.Contract) (sched : List Label) :
    RInv Gen.copyBufSize v (run v (start sc) sched) :=
  run_rinv v sched _ (init_rinv v _ _ (init_inv _ _ _ hc.1) (init_inv _ _ _ hc.2)
    (init_linv _ _ _) (init_linv _ _ _) rfl rfl)

theorem reachable_dir (v : Variant) (sc : Scripts) (hc : sc.Contract) (sched : List Label) (l : Label) :
    Inv Gen.copyBufSize ((run v (start sc) sched).dir l) ∧ LInv Gen.copyBufSize ((run v (start sc) sched).dir l) := by
  have h := reachable v sc hc sched
  cases l <;> exact ⟨by first | exact h.up | exact h.down, by first | exact h.lup | exact h.ldown⟩

theorem source_of_run (v : Variant) (sc : Scripts) (sched : List Label) (l : Label) :
    ((run v (start sc) sched).dir l).source = sc.data l := by
  obtain ⟨h1, h2⟩ := run_source v sched (start sc)
  cases l <;> simp only [St.dir, Scripts.data] <;> (first | rw [h1] | rw [h2]) <;>
    simp [start, St.init, G.init, G.source]

/-! ### copy_prefix: what has been forwarded is a prefix of what the source produced —
    nothing injected, duplicated, reordered or altered — per direction, at every point
    of every schedule, whatever is closed when and whatever errors occur. -/
theorem copy_prefix (v : Variant) (sc : Scripts) (hc : sc.Contract) (sched : List Label) (l : Label) :
    ((run v (start sc) sched).dir l).written.flatten <+: sc.data l := by
  obtain ⟨hi, _⟩ := reachable_dir v sc hc sched l
  rw [← source_of_run v sc sched l]
  exact hi.prefix_source

/-- the same for copyBufferLog run alone, after any number of its steps -/
theorem copy_prefix_loop (src : List Rd) (verd : List Bool) (wres : List (Option Nat)) (n : Nat)
    (hc : ∀ r ∈ src, r.data.length ≤ Gen.copyBufSize) :
    (runG n (G.init src verd wres)).written.flatten <+: (src.map (·.data)).flatten := by
  have hi := runG_inv n _ (init_inv (buf := Gen.copyBufSize) src verd wres hc)
  have hsrc : (runG n (G.init src verd wres)).source = (src.map (·.data)).flatten := by
    rw [runG_source]; simp [G.init, G.source]
  rw [← hsrc]
  exact hi.prefix_source

/-! ### copy_accounting: the bytes the logger approved equal the bytes forwarded plus what
    is in flight; in flight is at most one chunk, a chunk is at most the copy buffer, and
    once the loop has returned it is zero unless a write failed after the log call.  What
    the logger was handed in total exceeds what it approved by exactly the refused chunk. -/
theorem copy_accounting (v : Variant) (sc : Scripts) (hc : sc.Contract) (sched : List Label) (l : Label) :
    let g := (run v (start sc) sched).dir l
    g.logged = g.written.flatten.length + g.inflight ∧
    g.inflight ≤ Gen.copyBufSize ∧
    (g.out ≠ none → g.inflight ≠ 0 → g.out = some .writeErr) ∧
    g.offered = g.logged + g.vetoed.length ∧ g.vetoed.length ≤ Gen.copyBufSize := by
  exact (reachable_dir v sc hc sched l).1.accounting

/-! ### approved_before_forwarded: every call of `dst.Write` directly follows the logger's
    approval of exactly that chunk (trace newest first: index i+1 is the call before i),
    so at no time has more been handed to the sink than was approved. -/
theorem approved_before_forwarded (v : Variant) (sc : Scripts) (hc : sc.Contract) (sched : List Label)
    (l : Label) :
    let g := (run v (start sc) sched).dir l
    (∀ i n k, g.trace[i]? = some (.write n k) → g.trace[i + 1]? = some (.log n true)) ∧
    g.written.flatten.length ≤ g.logged := by
  have hi := (reachable_dir v sc hc sched l).1
  exact ⟨hi.approved, by have := hi.account; omega⟩

/-! ### veto_forwards_nothing.  (a) When the logger answers false the loop returns
    errDisconnect in that very step, writes nothing, and (repaired code) the connection
    is closed — in BOTH directions and whatever the other goroutine or handleTCPRequest
    have done meanwhile.  (b) Whenever a direction's result is errDisconnect: the
    forwarded bytes end exactly where the refused chunk begins, the refusal was the last
    thing that direction did, every earlier verdict was true, and the connection is closed. -/
theorem veto_forwards_nothing (sc : Scripts) (hc : sc.Contract) (sched : List Label)
    (l : Label) (hl : l ≠ .main) (d : Bytes) (e : Option Bool) :
    let s := run .fixed (start sc) sched
    (s.dir l).pc = .log d e → headV (s.dir l).verd = false →
    ((step .fixed s l).dir l).out = some .disconnect ∧
    ((step .fixed s l).dir l).written = (s.dir l).written ∧
    ((step .fixed s l).dir l).veto = some d ∧
    (step .fixed s l).connClosed = true := by
  intro s hpc hv
  cases l with
  | main => exact absurd rfl hl
  | up =>
    simp only [St.dir] at hpc hv ⊢
    simp [step, gstep, hpc, hv, stepLog, finishWith, applyEff]
  | down =>
    simp only [St.dir] at hpc hv ⊢
    simp [step, gstep, hpc, hv, stepLog, finishWith, applyEff]

theorem veto_forwards_nothing_inv (sc : Scripts) (hc : sc.Contract) (sched : List Label) (l : Label) :
    let s := run .fixed (start sc) sched
    (s.dir l).out = some .disconnect →
    ∃ d, (s.dir l).veto = some d ∧ (s.dir l).written.flatten ++ d = (s.dir l).consumed ∧
      (s.dir l).trace.head? = some (.log d.length false) ∧
      (∀ p ∈ (logsOf (s.dir l).trace).tail, p.2 = true) ∧
      s.connClosed = true := by
  intro s ho
  obtain ⟨hi, hlg⟩ := reachable_dir .fixed sc hc sched l
  have hr := reachable .fixed sc hc sched
  obtain ⟨d, h1, h2, h3, h4⟩ := hi.disconnect_facts hlg ho
  refine ⟨d, h1, h2, h3, h4, ?_⟩
  cases l with
  | down => exact hr.discDown rfl ho
  | up => exact hr.discUp rfl ho
  | main => exact hr.discUp rfl ho

/-! ### complete_if_no_early_close (PARTIAL: fairness is a hypothesis).
    If the source of a direction ends with EOF (possibly delivered together with the last
    bytes), the logger approves and the sink accepts, then once that direction has been
    scheduled often enough to return (`out ≠ none` — the fairness hypothesis) and nothing
    has been closed up to that point, it has forwarded EVERYTHING, returned nil, and
    logged exactly the forwarded amount. -/
theorem run_flags_mono (v : Variant) (sched : List Label) (s : St) :
    (s.targetClosed = true → (run v s sched).targetClosed = true) ∧
    (s.streamClosed = true → (run v s sched).streamClosed = true) ∧
    (s.connClosed = true → (run v s sched).connClosed = true) := by
  induction sched generalizing s with
  | nil => exact ⟨id, id, id⟩
  | cons l rest ih =>
    obtain ⟨a, b, c⟩ := ih (step v s l)
    have hstep : (s.targetClosed = true → (step v s l).targetClosed = true) ∧
        (s.streamClosed = true → (step v s l).streamClosed = true) ∧
        (s.connClosed = true → (step v s l).connClosed = true) := by
      cases l with
      | main =>
        simp only [step, stepMain]
        split
        · split <;> simp
        all_goals simp_all
      | up =>
        simp only [step]
        generalize gstep (s.streamClosed || s.connClosed) s.targetClosed s.up = r
        cases hr : r.2 with
        | none => simp [applyEff]
        | refused => cases v <;> simp [applyEff]
        | sent o => simp [applyEff]
      | down =>
        simp only [step]
        generalize gstep s.targetClosed (s.streamClosed || s.connClosed) s.down = r
        cases hr : r.2 with
        | none => simp [applyEff]
        | refused => cases v <;> simp [applyEff]
        | sent o => simp [applyEff]
    exact ⟨fun h => a (hstep.1 h), fun h => b (hstep.2.1 h), fun h => c (hstep.2.2 h)⟩

theorem run_clean (v : Variant) (sched : List Label) (s : St) (l : Label)
    (hr : RInv Gen.copyBufSize v s) (hc : Clean (s.dir l))
    (h1 : (run v s sched).targetClosed = false) (h2 : (run v s sched).streamClosed = false)
    (h3 : (run v s sched).connClosed = false) : Clean ((run v s sched).dir l) := by
  induction sched generalizing s with
  | nil => exact hc
  | cons x rest ih =>
    obtain ⟨m1, m2, m3⟩ := run_flags_mono v rest (step v s x)
    have f1 : (step v s x).targetClosed = false := by
      cases h : (step v s x).targetClosed with
      | false => rfl
      | true => have := m1 h; simp only [run, List.foldl_cons] at h1; simp only [run] at this; rw [this] at h1; cases h1
    have f2 : (step v s x).streamClosed = false := by
      cases h : (step v s x).streamClosed with
      | false => rfl
      | true => have := m2 h; simp only [run, List.foldl_cons] at h2; simp only [run] at this; rw [this] at h2; cases h2
    have f3 : (step v s x).connClosed = false := by
      cases h : (step v s x).connClosed with
      | false => rfl
      | true => have := m3 h; simp only [run, List.foldl_cons] at h3; simp only [run] at this; rw [this] at h3; cases h3
    obtain ⟨n1, n2, n3⟩ := run_flags_mono v [x] s
    have g1 : s.targetClosed = false := by
      cases h : s.targetClosed with
      | false => rfl
      | true => have := n1 h; simp only [run, List.foldl_cons, List.foldl_nil] at this; rw [this] at f1; cases f1
    have g2 : s.streamClosed = false := by
      cases h : s.streamClosed with
      | false => rfl
      | true => have := n2 h; simp only [run, List.foldl_cons, List.foldl_nil] at this; rw [this] at f2; cases f2
    have g3 : s.connClosed = false := by
      cases h : s.connClosed with
      | false => rfl
      | true => have := n3 h; simp only [run, List.foldl_cons, List.foldl_nil] at this; rw [this] at f3; cases f3
    apply ih (step v s x) (step_rinv v s x hr) _ h1 h2 h3
    -- one step keeps the direction clean
    cases x with
    | main =>
      obtain ⟨a, b, _⟩ := stepMain_dirs s
      cases l <;> simp only [St.dir, step] at hc ⊢ <;> (first | (rw [a]; exact hc) | (rw [b]; exact hc))
    | up =>
      simp only [step]
      obtain ⟨a, b, _⟩ := applyEff_dirs v
        { s with up := (gstep (s.streamClosed || s.connClosed) s.targetClosed s.up).1 }
        (gstep (s.streamClosed || s.connClosed) s.targetClosed s.up).2
      cases l with
      | down => simp only [St.dir] at hc ⊢; rw [b]; exact hc
      | up =>
        simp only [St.dir] at hc ⊢; rw [a]
        simp only [g1, g2, g3, Bool.or_self]
        exact gnext_clean s.up hr.up hc
      | main =>
        simp only [St.dir] at hc ⊢; rw [a]
        simp only [g1, g2, g3, Bool.or_self]
        exact gnext_clean s.up hr.up hc
    | down =>
      simp only [step]
      obtain ⟨a, b, _⟩ := applyEff_dirs v
        { s with down := (gstep s.targetClosed (s.streamClosed || s.connClosed) s.down).1 }
        (gstep s.targetClosed (s.streamClosed || s.connClosed) s.down).2
      cases l with
      | up => simp only [St.dir] at hc ⊢; rw [a]; exact hc
      | main => simp only [St.dir] at hc ⊢; rw [a]; exact hc
      | down =>
        simp only [St.dir] at hc ⊢; rw [b]
        simp only [g1, g2, g3, Bool.or_self]
        exact gnext_clean s.down hr.down hc

/-- the three script components of direction `l` -/
def Scripts.src (sc : Scripts) : Label → List Rd
  | .down => sc.downSrc
  | _ => sc.upSrc
def Scripts.verd (sc : Scripts) : Label → List Bool
  | .down => sc.downVerd
  | _ => sc.upVerd
def Scripts.wres (sc : Scripts) : Label → List (Option Nat)
  | .down => sc.downW
  | _ => sc.upW

theorem complete_if_no_early_close_partial (v : Variant) (sc : Scripts) (hc : sc.Contract)
    (sched : List Label) (l : Label)
    (hsrc : CleanSrc (sc.src l)) (hverd : ∀ b ∈ sc.verd l, b = true) (hw : ∀ w ∈ sc.wres l, w = none) :
    let s := run v (start sc) sched
    s.targetClosed = false → s.streamClosed = false → s.connClosed = false →
    (s.dir l).out ≠ none →
    (s.dir l).out = some .done ∧ (s.dir l).written.flatten = sc.data l ∧
    (s.dir l).logged = (sc.data l).length ∧ (s.dir l).inflight = 0 := by
  intro s h1 h2 h3 hfin
  have hr0 : RInv Gen.copyBufSize v (start sc) := reachable v sc hc []
  have hc0 : Clean ((start sc).dir l) := by
    cases l <;> exact init_clean _ _ _ hsrc hverd hw
  have hcl := run_clean v sched (start sc) l hr0 hc0 h1 h2 h3
  obtain ⟨hi, _⟩ := reachable_dir v sc hc sched l
  have := clean_complete _ hi hcl hfin
  rw [source_of_run v sc sched l] at this
  exact this

/-- the full statement: under a FAIR infinite schedule (every label is taken again and
    again) the direction does return, so the hypothesis `out ≠ none` is discharged.  Not
    proved here: it needs the step-counting argument of `copyLoop_returns` lifted to
    interleaved schedules; below the model, that QUIC delivers what was written before a
    FIN and that the Go scheduler is fair is assumed, not modelled. -/
def complete_if_no_early_close_full : Prop :=
  ∀ (v : Variant) (sc : Scripts) (f : Nat → Label) (l : Label), sc.Contract → l ≠ .main →
    (∀ n, ∃ m, n ≤ m ∧ f m = l) →
    CleanSrc (sc.src l) → (∀ b ∈ sc.verd l, b = true) → (∀ w ∈ sc.wres l, w = none) →
    ∃ n, let s := run v (start sc) ((List.range n).map f)
      (s.dir l).out ≠ none ∧
      (s.targetClosed = false → s.streamClosed = false → s.connClosed = false →
        (s.dir l).written.flatten = sc.data l)

/-- copyBufferLog run alone always returns (the fuel of `copyLoop` suffices), and for a
    source that ends with EOF, an approving logger and an accepting sink it returns nil
    having forwarded and logged everything — including a last chunk that arrives
    together with EOF. -/
theorem copyLoop_returns (src : List Rd) (verd : List Bool) (wres : List (Option Nat))
    (hc : ∀ r ∈ src, r.data.length ≤ Gen.copyBufSize) : (copyLoop src verd wres).out ≠ none := by
  unfold copyLoop
  apply runG_returns _ _ (init_inv (buf := Gen.copyBufSize) src verd wres hc)
  simp [Relay.measure, G.init]

theorem copyLoop_complete (src : List Rd) (verd : List Bool) (wres : List (Option Nat))
    (hc : ∀ r ∈ src, r.data.length ≤ Gen.copyBufSize)
    (hsrc : CleanSrc src) (hverd : ∀ b ∈ verd, b = true) (hw : ∀ w ∈ wres, w = none) :
    (copyLoop src verd wres).out = some .done ∧
    (copyLoop src verd wres).written.flatten = (src.map (·.data)).flatten ∧
    (copyLoop src verd wres).logged = ((src.map (·.data)).flatten).length := by
  have hi0 := init_inv (buf := Gen.copyBufSize) src verd wres hc
  have hi := runG_inv (3 * src.length + 1) _ hi0
  have hcl := runG_clean (3 * src.length + 1) _ hi0 (init_clean src verd wres hsrc hverd hw)
  have hr := copyLoop_returns src verd wres hc
  have hs : (copyLoop src verd wres).source = (src.map (·.data)).flatten := by
    unfold copyLoop; rw [runG_source]; simp [G.init, G.source]
  have := clean_complete _ hi hcl hr
  unfold copyLoop at hs ⊢
  rw [hs] at this
  exact ⟨this.1, this.2.1, this.2.2.1⟩

/-! ### teardown: handleTCPRequest closes nothing before copyTwoWayEx has returned a
    result, and when it is through both ends are closed — and the connection too if the
    returned result was errDisconnect. -/
def MainOk (s : St) : Prop :=
  match s.mpc with
  | .recv => s.targetClosed = false ∧ s.streamClosed = false ∧ s.ret = none
  | .closeTarget => s.ret ≠ none ∧ s.streamClosed = false
  | .closeStream => s.ret ≠ none ∧ s.targetClosed = true
  | .closeConn => s.ret = some .disconnect ∧ s.targetClosed = true ∧ s.streamClosed = true
  | .done => s.ret ≠ none ∧ s.targetClosed = true ∧ s.streamClosed = true ∧
      (s.ret = some .disconnect → s.connClosed = true)

theorem step_mainOk (v : Variant) (s : St) (l : Label) (h : MainOk s) : MainOk (step v s l) := by
  cases l with
  | main =>
    simp only [step, stepMain]
    cases hm : s.mpc with
    | recv =>
      simp only [MainOk, hm] at h
      cases hch : s.chan with
      | nil => simpa [MainOk, hm] using h
      | cons o rest => simp [MainOk, h.2.1]
    | closeTarget => simp only [MainOk, hm] at h; simp [MainOk, h.1]
    | closeStream =>
      simp only [MainOk, hm] at h
      by_cases hd : s.ret = some .disconnect
      · simp [MainOk, hd, h.2]
      · simp [MainOk, hd, h.1, h.2]
    | closeConn => simp only [MainOk, hm] at h; simp [MainOk, h.1, h.2.1, h.2.2]
    | done => simpa [MainOk, hm] using h
  | up =>
    simp only [step]
    generalize gstep (s.streamClosed || s.connClosed) s.targetClosed s.up = r
    cases hr : r.2 with
    | none => simpa [applyEff, MainOk] using h
    | sent o => simpa [applyEff, MainOk] using h
    | refused =>
      cases v with
      | pinned => simpa [applyEff, MainOk] using h
      | fixed =>
        simp only [applyEff, MainOk] at h ⊢
        cases hm : s.mpc <;> simp only [hm] at h ⊢ <;> simp_all
  | down =>
    simp only [step]
    generalize gstep s.targetClosed (s.streamClosed || s.connClosed) s.down = r
    cases hr : r.2 with
    | none => simpa [applyEff, MainOk] using h
    | sent o => simpa [applyEff, MainOk] using h
    | refused =>
      cases v with
      | pinned => simpa [applyEff, MainOk] using h
      | fixed =>
        simp only [applyEff, MainOk] at h ⊢
        cases hm : s.mpc <;> simp only [hm] at h ⊢ <;> simp_all

theorem relay_teardown (v : Variant) (sc : Scripts) (sched : List Label) :
    let s := run v (start sc) sched
    ((s.targetClosed = true ∨ s.streamClosed = true) → s.ret ≠ none) ∧
    (s.mpc = .done → s.targetClosed = true ∧ s.streamClosed = true ∧
      (s.ret = some .disconnect → s.connClosed = true)) := by
  intro s
  have hm : MainOk s := by
    have : ∀ (sched : List Label) (s0 : St), MainOk s0 → MainOk (run v s0 sched) := by
      intro sched
      induction sched with
      | nil => intro s0 h; exact h
      | cons l rest ih => intro s0 h; exact ih _ (step_mainOk v s0 l h)
    exact this sched _ (by simp [MainOk, start, St.init])
  constructor
  · intro hcl
    cases hpc : s.mpc <;> simp only [MainOk, hpc] at hm
    · rcases hcl with h | h <;> simp_all
    · exact hm.1
    · exact hm.1
    · rw [hm.1]; simp
    · exact hm.1
  · intro hd
    simp only [MainOk, hd] at hm
    exact ⟨hm.2.1, hm.2.2.1, hm.2.2.2⟩

/-! ### the relations the loopback trace validation checks are consequences of the model:
    whatever state a relay is in, what an observer of a direction sees passes
    `Obs.check`; with nothing in flight it passes the exact form. -/
theorem obs_check_sound (v : Variant) (sc : Scripts) (hc : sc.Contract) (sched : List Label) (l : Label) :
    let g := (run v (start sc) sched).dir l
    g.obs.check Gen.copyBufSize false = none ∧ (g.inflight = 0 → g.obs.check Gen.copyBufSize true = none) := by
  obtain ⟨hi, hl⟩ := reachable_dir v sc hc sched l
  exact obs_check_of_inv hi hl

/-! ### dial_error_delivered: if `Outbound.TCP` fails with text `s`, then for every padding
    the writer can draw, every way the transport chunks the response, and whatever
    follows on the stream, the client — eager, or lazily on the first Read with fast
    open — decides `DialError` with the message `s` cut to MaxMessageLength (all of `s`
    when it is ≤ 2048 bytes), and the server does not enter the relay.  Uses C04. -/
theorem dial_error_delivered (s pad rest : Bytes) (cs : List Bytes)
    (hp : pad.length < Gen.tcpResponsePaddingMax)
    (hcs : cs.flatten = (serverRespond .fixed (some s) pad).1 ++ rest) :
    clientOpen cs = .dialError (boundMsg s) ∧ (serverRespond .fixed (some s) pad).2 = false ∧
    (s.length ≤ Gen.MaxMessageLength → boundMsg s = s) ∧ boundMsg s <+: s := by
  have hb : (boundMsg s).length ≤ 2048 := by
    unfold boundMsg; rw [const_maxmsg]; simp; omega
  have hrt := C04.go_response_roundtrip false (boundMsg s) pad rest cs hb hp
    (by simpa [serverRespond] using hcs)
  refine ⟨?_, rfl, ?_, ?_⟩
  · unfold clientOpen
    cases hx : Frame.readResponse Frame.chunked cs with
    | ok a st =>
      rw [hx] at hrt
      simp only [Frame.Rd.map, Frame.Rd.ok.injEq] at hrt
      obtain ⟨ha, _⟩ := hrt
      subst ha
      rfl
    | eof => rw [hx] at hrt; simp [Frame.Rd.map] at hrt
    | proto st => rw [hx] at hrt; simp [Frame.Rd.map] at hrt
  · intro hle; unfold boundMsg; exact List.take_of_length_le hle
  · unfold boundMsg; exact List.take_prefix _ _

/-- and when the dial succeeds the client consumes exactly the response and what its Reads
    deliver afterwards is exactly what the relay wrote — with fast open too (a client
    that skipped the response read would hand the header to the application). -/
theorem dial_ok_payload_exact (pad payload : Bytes) (cs : List Bytes)
    (hp : pad.length < Gen.tcpResponsePaddingMax)
    (hcs : cs.flatten = (serverRespond .fixed none pad).1 ++ payload) :
    (∃ rest, clientOpen cs = .established rest ∧ rest.flatten = payload) ∧
    (serverRespond .fixed none pad).2 = true := by
  have hrt := C04.go_response_roundtrip true connectedMsg pad payload cs (by decide) hp
    (by simpa [serverRespond] using hcs)
  refine ⟨?_, rfl⟩
  unfold clientOpen
  cases hx : Frame.readResponse Frame.chunked cs with
  | ok a st =>
    rw [hx] at hrt
    simp only [Frame.Rd.map, Frame.Rd.ok.injEq] at hrt
    obtain ⟨ha, hst⟩ := hrt
    subst ha
    exact ⟨st, rfl, hst⟩
  | eof => rw [hx] at hrt; simp [Frame.Rd.map] at hrt
  | proto st => rw [hx] at hrt; simp [Frame.Rd.map] at hrt

/-! ### the pinned tree (before the repairs): witnesses -/

/-- D5: without the bound, an error text of 2049..16383 bytes makes the client's own
    ReadTCPResponse reject the response — the client never sees a DialError. -/
theorem d5_pinned_counterexample (s pad rest : Bytes) (cs : List Bytes)
    (h1 : 2048 < s.length) (h2 : s.length ≤ 16383)
    (hcs : cs.flatten = (serverRespond .pinned (some s) pad).1 ++ rest) :
    clientOpen cs = .failed true := by
  have hflat := C04.chunking_irrelevant_response cs
  rw [hcs] at hflat
  have hdec : Varint.dec (Varint.enc s.length ++ (s ++ (Varint.enc pad.length ++ (pad ++ rest)))) =
      some (s.length, s ++ (Varint.enc pad.length ++ (pad ++ rest))) :=
    Varint.dec_enc _ _ (by unfold Varint.maxVarInt8; omega)
  have hrej := (C04.overlimit_message_rejected_early (byte 1) _ _ _ hdec h1).1
  have heq : (serverRespond .pinned (some s) pad).1 ++ rest =
      byte 1 :: (Varint.enc s.length ++ (s ++ (Varint.enc pad.length ++ (pad ++ rest)))) := by
    simp [serverRespond, Frame.writeResponse]
  rw [heq, hrej] at hflat
  unfold clientOpen
  cases hx : Frame.readResponse Frame.chunked cs with
  | ok a st => rw [hx] at hflat; simp [Frame.Rd.map] at hflat
  | eof => rw [hx] at hflat; simp [Frame.Rd.map] at hflat
  | proto st => rfl

/-- D11 scripts: the client→target direction ends at once (EOF); the target has one byte
    for the client, which the logger refuses. -/
def d11Scripts : Scripts :=
  { upSrc := [], upVerd := [], upW := [], downSrc := [⟨[byte 1], none⟩], downVerd := [false], downW := [] }

/-- [down: read 1 byte; up: read EOF; up: send nil; main: return nil, close target, close
    stream; down: log → false; down: send] — every goroutine has finished -/
def d11Sched : List Label := [.down, .up, .up, .main, .main, .main, .down, .down]

/-- D11 on the pinned tree: the logger refused, the direction returned errDisconnect, all
    three parties are through — and the connection was never closed. -/
theorem d11_pinned_counterexample :
    let s := run .pinned (start d11Scripts) d11Sched
    s.down.out = some .disconnect ∧ s.ret = some .done ∧ s.mpc = .done ∧
    s.up.pc = .fin ∧ s.down.pc = .fin ∧ s.connClosed = false := by decide

/-! ### non-vacuity -/

/-- the same schedule on the repaired code closes the connection -/
example : (run .fixed (start d11Scripts) d11Sched).connClosed = true ∧
    (run .fixed (start d11Scripts) d11Sched).down.written = [] := by decide

example : d11Scripts.Contract := by
  constructor <;> intro r hr <;> simp [d11Scripts] at hr <;> subst hr <;> decide

/-- a clean source whose last bytes arrive together with EOF; hypotheses of
    `complete_if_no_early_close_partial` / `copyLoop_complete` -/
example : CleanSrc [⟨[byte 1, byte 2], none⟩, ⟨[], none⟩, ⟨[byte 3], some true⟩] := by
  simp [CleanSrc]

example : (copyLoop [⟨[byte 1, byte 2], none⟩, ⟨[], none⟩, ⟨[byte 3], some true⟩] [] []).written =
    [[byte 1, byte 2], [byte 3]] ∧
    (copyLoop [⟨[byte 1, byte 2], none⟩, ⟨[], none⟩, ⟨[byte 3], some true⟩] [] []).out = some .done := by decide

/-- a reachable state that meets the hypotheses of `veto_forwards_nothing` -/
example : ((run .fixed (start d11Scripts) [.down]).dir .down).pc = .log [byte 1] none ∧
    headV ((run .fixed (start d11Scripts) [.down]).dir .down).verd = false := by decide

/-- short write: 2 of 3 bytes accepted, the third is in flight -/
example : (copyLoop [⟨[byte 7, byte 8, byte 9], none⟩] [true] [some 2]).written = [[byte 7, byte 8]] ∧
    (copyLoop [⟨[byte 7, byte 8, byte 9], none⟩] [true] [some 2]).logged = 3 ∧
    (copyLoop [⟨[byte 7, byte 8, byte 9], none⟩] [true] [some 2]).inflight = 1 ∧
    (copyLoop [⟨[byte 7, byte 8, byte 9], none⟩] [true] [some 2]).out = some .writeErr := by decide

/-- a dial error text that needs the bound, and one that does not -/
example : (boundMsg (List.replicate 2100 (byte 97))).length = 2048 := by
  rw [boundMsg, const_maxmsg, List.length_take, List.length_replicate]; decide

example : clientOpen [Frame.writeResponse false [byte 110, byte 111] [byte 0]] = .dialError [byte 110, byte 111] := by
  decide

end Hy.Props.C06
