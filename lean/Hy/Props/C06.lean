/-
  C06 — TCP relay preserves the byte stream and accounts it exactly.
  Property theorems only; helper lemmas live in Hy.Proofs.Relay.

  Model: Hy.Model.Relay — copyBufferLog (core/server/copy.go) as a program of atomic
  steps; copyTwoWayEx + the tail of handleTCPRequest (core/server/server.go) as two such
  programs and the teardown steps under an arbitrary schedule; the dial / TCPResponse /
  Client.TCP exchange (core/client/client.go) on top of the framing of C04.  The model
  is of the code with the repairs D5 and D11; `Variant.pinned` is the pinned tree, for
  the two witnesses at the end.

  "for every schedule" is `∀ sched : List Label`; what the environment decides (read
  results, verdicts, write results, paddings, chunkings) is universally quantified.
-/
import Hy.Proofs.Relay
import Hy.Proofs.QStream
import Hy.Gen.QShape
import Hy.Props.C04
set_option linter.unusedSimpArgs false
set_option linter.unusedVariables false
namespace Hy.Props.C06
open Hy Hy.Relay Hy.QStream

/-! ### obligations on the regenerated constants -/
theorem const_copybuf : Gen.copyBufSize = 32768 := by decide
theorem const_copybuf_pos : 1 ≤ Gen.copyBufSize := by decide
theorem const_maxmsg : Gen.MaxMessageLength = 2048 := by decide
/-- the close code of a traffic-logger refusal is HTTP/3 "excessive load" -/
theorem const_closecode : Gen.closeErrCodeTrafficLimitReached = 0x107 := by decide

/-- whatever a source has available, handing it out through `Read(buf)` meets the
    contract and neither adds, drops nor reorders a byte -/
theorem deliver_meets_contract (src : List Rd) :
    (∀ r ∈ deliver Gen.copyBufSize src, r.data.length ≤ Gen.copyBufSize) ∧
    ((deliver Gen.copyBufSize src).map (·.data)).flatten = (src.map (·.data)).flatten :=
  ⟨deliver_bound _ const_copybuf_pos src, deliver_data _ src⟩


/-! ### copy_prefix: what has been forwarded is a prefix of what the source produced —
    nothing injected, duplicated, reordered or altered — per direction, at every point
    of every schedule, whatever is closed when and whatever errors occur. -/
theorem copy_prefix (v : Variant) (sc : Scripts) (hc : sc.Contract) (sched : List Label) (l : Label) :
    ((run v (start sc) sched).dir l).written.flatten <+: sc.data l := by
  obtain ⟨hi, _⟩ := reachable_dir v sc hc sched l
  rw [← source_of_run v sc sched l]
  exact hi.prefix_source

/-- the same for copyBufferLog run alone, after any number of its steps -/
theorem copy_prefix_loop (src : List Rd) (verd : List Bool) (wres : List (Option Nat)) (n : Nat)
    (hc : ∀ r ∈ src, r.data.length ≤ Gen.copyBufSize) :
    (runG n (G.init src verd wres)).written.flatten <+: (src.map (·.data)).flatten := by
  have hi := runG_inv n _ (init_inv (buf := Gen.copyBufSize) src verd wres hc)
  have hsrc : (runG n (G.init src verd wres)).source = (src.map (·.data)).flatten := by
    rw [runG_source]; simp [G.init, G.source]
  rw [← hsrc]
  exact hi.prefix_source

/-! ### copy_accounting: the bytes the logger approved equal the bytes forwarded plus what
    is in flight; in flight is at most one chunk, a chunk is at most the copy buffer, and
    once the loop has returned it is zero unless a write failed after the log call.  What
    the logger was handed in total exceeds what it approved by exactly the refused chunk. -/
theorem copy_accounting (v : Variant) (sc : Scripts) (hc : sc.Contract) (sched : List Label) (l : Label) :
    let g := (run v (start sc) sched).dir l
    g.logged = g.written.flatten.length + g.inflight ∧
    g.inflight ≤ Gen.copyBufSize ∧
    (g.out ≠ none → g.inflight ≠ 0 → g.out = some .writeErr) ∧
    g.offered = g.logged + g.vetoed.length ∧ g.vetoed.length ≤ Gen.copyBufSize := by
  exact (reachable_dir v sc hc sched l).1.accounting

/-! ### approved_before_forwarded: every call of `dst.Write` directly follows the logger's
    approval of exactly that chunk (trace newest first: index i+1 is the call before i),
    so at no time has more been handed to the sink than was approved. -/
theorem approved_before_forwarded (v : Variant) (sc : Scripts) (hc : sc.Contract) (sched : List Label)
    (l : Label) :
    let g := (run v (start sc) sched).dir l
    (∀ i n k, g.trace[i]? = some (.write n k) → g.trace[i + 1]? = some (.log n true)) ∧
    g.written.flatten.length ≤ g.logged := by
  have hi := (reachable_dir v sc hc sched l).1
  exact ⟨hi.approved, by have := hi.account; omega⟩

/-! ### veto_forwards_nothing.  (a) When the logger answers false the loop returns
    errDisconnect in that very step, writes nothing, and (repaired code) the connection
    is closed — in BOTH directions and whatever the other goroutine or handleTCPRequest
    have done meanwhile.  (b) Whenever a direction's result is errDisconnect: the
    forwarded bytes end exactly where the refused chunk begins, the refusal was the last
    thing that direction did, every earlier verdict was true, and the connection is closed. -/
theorem veto_forwards_nothing (sc : Scripts) (hc : sc.Contract) (sched : List Label)
    (l : Label) (hl : l ≠ .main) (d : Bytes) (e : Option Bool) :
    let s := run .fixed (start sc) sched
    (s.dir l).pc = .log d e → headV (s.dir l).verd = false →
    ((step .fixed s l).dir l).out = some .disconnect ∧
    ((step .fixed s l).dir l).written = (s.dir l).written ∧
    ((step .fixed s l).dir l).veto = some d ∧
    (step .fixed s l).connClosed = true := by
  intro s hpc hv
  cases l with
  | main => exact absurd rfl hl
  | up =>
    simp only [St.dir] at hpc hv ⊢
    simp [step, gstep, hpc, hv, stepLog, finishWith, applyEff]
  | down =>
    simp only [St.dir] at hpc hv ⊢
    simp [step, gstep, hpc, hv, stepLog, finishWith, applyEff]

theorem veto_forwards_nothing_inv (sc : Scripts) (hc : sc.Contract) (sched : List Label) (l : Label) :
    let s := run .fixed (start sc) sched
    (s.dir l).out = some .disconnect →
    ∃ d, (s.dir l).veto = some d ∧ (s.dir l).written.flatten ++ d = (s.dir l).consumed ∧
      (s.dir l).trace.head? = some (.log d.length false) ∧
      (∀ p ∈ (logsOf (s.dir l).trace).tail, p.2 = true) ∧
      s.connClosed = true := by
  intro s ho
  obtain ⟨hi, hlg⟩ := reachable_dir .fixed sc hc sched l
  have hr := reachable .fixed sc hc sched
  obtain ⟨d, h1, h2, h3, h4⟩ := hi.disconnect_facts hlg ho
  refine ⟨d, h1, h2, h3, h4, ?_⟩
  cases l with
  | down => exact hr.discDown rfl ho
  | up => exact hr.discUp rfl ho
  | main => exact hr.discUp rfl ho

/-! ### complete_if_no_early_close (PARTIAL: fairness is a hypothesis).
    If the source of a direction ends with EOF (possibly delivered together with the last
    bytes), the logger approves and the sink accepts, then once that direction has been
    scheduled often enough to return (`out ≠ none` — the fairness hypothesis) and nothing
    has been closed up to that point, it has forwarded EVERYTHING, returned nil, and
    logged exactly the forwarded amount. -/
theorem complete_if_no_early_close_partial (v : Variant) (sc : Scripts) (hc : sc.Contract)
    (sched : List Label) (l : Label)
    (hsrc : CleanSrc (sc.src l)) (hverd : ∀ b ∈ sc.verd l, b = true) (hw : ∀ w ∈ sc.wres l, w = none) :
    let s := run v (start sc) sched
    s.targetClosed = false → s.streamClosed = false → s.connClosed = false →
    (s.dir l).out ≠ none →
    (s.dir l).out = some .done ∧ (s.dir l).written.flatten = sc.data l ∧
    (s.dir l).logged = (sc.data l).length ∧ (s.dir l).inflight = 0 := by
  intro s h1 h2 h3 hfin
  have hr0 : RInv Gen.copyBufSize v (start sc) := reachable v sc hc []
  have hc0 : Clean ((start sc).dir l) := by
    cases l <;> exact init_clean _ _ _ hsrc hverd hw
  have hcl := run_clean v sched (start sc) l hr0 hc0 h1 h2 h3
  obtain ⟨hi, _⟩ := reachable_dir v sc hc sched l
  have := clean_complete _ hi hcl hfin
  rw [source_of_run v sc sched l] at this
  exact this

/-- the full statement: under a FAIR infinite schedule (every label is taken again and
    again) the direction does return, so the hypothesis `out ≠ none` is discharged.  Not
    proved here: it needs the step-counting argument of `copyLoop_returns` lifted to
    interleaved schedules; below the model, that QUIC delivers what was written before a
    FIN and that the Go scheduler is fair is assumed, not modelled. -/
def complete_if_no_early_close_full : Prop :=
  ∀ (v : Variant) (sc : Scripts) (f : Nat → Label) (l : Label), sc.Contract → l ≠ .main →
    (∀ n, ∃ m, n ≤ m ∧ f m = l) →
    CleanSrc (sc.src l) → (∀ b ∈ sc.verd l, b = true) → (∀ w ∈ sc.wres l, w = none) →
    ∃ n, let s := run v (start sc) ((List.range n).map f)
      (s.dir l).out ≠ none ∧
      (s.targetClosed = false → s.streamClosed = false → s.connClosed = false →
        (s.dir l).written.flatten = sc.data l)

/-- copyBufferLog run alone always returns (the fuel of `copyLoop` suffices), and for a
    source that ends with EOF, an approving logger and an accepting sink it returns nil
    having forwarded and logged everything — including a last chunk that arrives
    together with EOF. -/
theorem copyLoop_returns (src : List Rd) (verd : List Bool) (wres : List (Option Nat))
    (hc : ∀ r ∈ src, r.data.length ≤ Gen.copyBufSize) : (copyLoop src verd wres).out ≠ none := by
  unfold copyLoop
  apply runG_returns _ _ (init_inv (buf := Gen.copyBufSize) src verd wres hc)
  simp [Relay.measure, G.init]

theorem copyLoop_complete (src : List Rd) (verd : List Bool) (wres : List (Option Nat))
    (hc : ∀ r ∈ src, r.data.length ≤ Gen.copyBufSize)
    (hsrc : CleanSrc src) (hverd : ∀ b ∈ verd, b = true) (hw : ∀ w ∈ wres, w = none) :
    (copyLoop src verd wres).out = some .done ∧
    (copyLoop src verd wres).written.flatten = (src.map (·.data)).flatten ∧
    (copyLoop src verd wres).logged = ((src.map (·.data)).flatten).length := by
  have hi0 := init_inv (buf := Gen.copyBufSize) src verd wres hc
  have hi := runG_inv (3 * src.length + 1) _ hi0
  have hcl := runG_clean (3 * src.length + 1) _ hi0 (init_clean src verd wres hsrc hverd hw)
  have hr := copyLoop_returns src verd wres hc
  have hs : (copyLoop src verd wres).source = (src.map (·.data)).flatten := by
    unfold copyLoop; rw [runG_source]; simp [G.init, G.source]
  have := clean_complete _ hi hcl hr
  unfold copyLoop at hs ⊢
  rw [hs] at this
  exact ⟨this.1, this.2.1, this.2.2.1⟩

/-! ### teardown: handleTCPRequest closes nothing before copyTwoWayEx has returned a
    result, and when it is through both ends are closed — and the connection too if the
    returned result was errDisconnect. -/
theorem relay_teardown (v : Variant) (sc : Scripts) (sched : List Label) :
    let s := run v (start sc) sched
    ((s.targetClosed = true ∨ s.streamClosed = true) → s.ret ≠ none) ∧
    (s.mpc = .done → s.targetClosed = true ∧ s.streamClosed = true ∧
      (s.ret = some .disconnect → s.connClosed = true)) := by
  intro s
  have hm : MainOk s := by
    have : ∀ (sched : List Label) (s0 : St), MainOk s0 → MainOk (run v s0 sched) := by
      intro sched
      induction sched with
      | nil => intro s0 h; exact h
      | cons l rest ih => intro s0 h; exact ih _ (step_mainOk v s0 l h)
    exact this sched _ (by simp [MainOk, start, St.init])
  constructor
  · intro hcl
    cases hpc : s.mpc <;> simp only [MainOk, hpc] at hm
    · rcases hcl with h | h <;> simp_all
    · exact hm.1
    · exact hm.1
    · rw [hm.1]; simp
    · exact hm.1
  · intro hd
    simp only [MainOk, hd] at hm
    exact ⟨hm.2.1, hm.2.2.1, hm.2.2.2⟩

/-! ### the relations the loopback trace validation checks are consequences of the model:
    whatever state a relay is in, what an observer of a direction sees passes
    `Obs.check` in modes 0 and 1; with nothing in flight it passes the exact mode 2. -/
theorem obs_check_sound (v : Variant) (sc : Scripts) (hc : sc.Contract) (sched : List Label) (l : Label) :
    let g := (run v (start sc) sched).dir l
    g.obs.check Gen.copyBufSize 0 = none ∧ g.obs.check Gen.copyBufSize 1 = none ∧
    (g.inflight = 0 → g.obs.check Gen.copyBufSize 2 = none) := by
  obtain ⟨hi, hl⟩ := reachable_dir v sc hc sched l
  exact obs_check_of_inv hi hl

/-! ### dial_error_delivered: if `Outbound.TCP` fails with text `s`, then for every padding
    the writer can draw, every way the transport chunks the response, and whatever
    follows on the stream, the client — eager, or lazily on the first Read with fast
    open — decides `DialError` with the message `s` cut to MaxMessageLength (all of `s`
    when it is ≤ 2048 bytes), and the server does not enter the relay.  Uses C04. -/
theorem dial_error_delivered (s pad rest : Bytes) (cs : List Bytes)
    (hp : pad.length < Gen.tcpResponsePaddingMax)
    (hcs : cs.flatten = (serverRespond .fixed (some s) pad).1 ++ rest) :
    clientOpen cs = .dialError (boundMsg s) ∧ (serverRespond .fixed (some s) pad).2 = false ∧
    (s.length ≤ Gen.MaxMessageLength → boundMsg s = s) ∧ boundMsg s <+: s := by
  have hb : (boundMsg s).length ≤ 2048 := by
    unfold boundMsg; rw [const_maxmsg]; simp; omega
  have hrt := C04.go_response_roundtrip false (boundMsg s) pad rest cs hb hp
    (by simpa [serverRespond] using hcs)
  refine ⟨?_, rfl, ?_, ?_⟩
  · unfold clientOpen
    cases hx : Frame.readResponse Frame.chunked cs with
    | ok a st =>
      rw [hx] at hrt
      simp only [Frame.Rd.map, Frame.Rd.ok.injEq] at hrt
      obtain ⟨ha, _⟩ := hrt
      subst ha
      rfl
    | eof => rw [hx] at hrt; simp [Frame.Rd.map] at hrt
    | proto st => rw [hx] at hrt; simp [Frame.Rd.map] at hrt
  · intro hle; unfold boundMsg; exact List.take_of_length_le hle
  · unfold boundMsg; exact List.take_prefix _ _

/-- the same at the two call sites: without fast open `TCP()` itself returns the DialError;
    with fast open `TCP()` returns a conn and its first `Read` returns the DialError. -/
theorem dial_error_delivered_calls (s pad rest : Bytes) (cs : List Bytes)
    (hp : pad.length < Gen.tcpResponsePaddingMax)
    (hcs : cs.flatten = (serverRespond .fixed (some s) pad).1 ++ rest) :
    clientTCP false cs = .dialError (boundMsg s) ∧
    clientTCP true cs = .conn ∧ clientFirstRead cs = .dialError (boundMsg s) := by
  have h := (dial_error_delivered s pad rest cs hp hcs).1
  simp [clientTCP, clientFirstRead, h]

/-- and when the dial succeeds the client consumes exactly the response and what its Reads
    deliver afterwards is exactly what the relay wrote — with fast open too (a client
    that skipped the response read would hand the header to the application). -/
theorem dial_ok_payload_exact (pad payload : Bytes) (cs : List Bytes)
    (hp : pad.length < Gen.tcpResponsePaddingMax)
    (hcs : cs.flatten = (serverRespond .fixed none pad).1 ++ payload) :
    (∃ rest, clientOpen cs = .established rest ∧ rest.flatten = payload) ∧
    (serverRespond .fixed none pad).2 = true := by
  have hrt := C04.go_response_roundtrip true connectedMsg pad payload cs (by decide) hp
    (by simpa [serverRespond] using hcs)
  refine ⟨?_, rfl⟩
  unfold clientOpen
  cases hx : Frame.readResponse Frame.chunked cs with
  | ok a st =>
    rw [hx] at hrt
    simp only [Frame.Rd.map, Frame.Rd.ok.injEq] at hrt
    obtain ⟨ha, hst⟩ := hrt
    subst ha
    exact ⟨st, rfl, hst⟩
  | eof => rw [hx] at hrt; simp [Frame.Rd.map] at hrt
  | proto st => rw [hx] at hrt; simp [Frame.Rd.map] at hrt

/-! ### one_response_header_per_request: whether no hook is configured, a configured hook
    declines the request or it intercepts it, and whether the dial fails or succeeds,
    handleTCPRequest writes EXACTLY ONE TCPResponse; with a declining hook it is byte for
    byte the response of the hook-less server (so `dial_error_delivered` and
    `dial_ok_payload_exact` apply unchanged). -/
theorem one_response_header_per_request (v : Variant) (hook : Hook) (dial : Option Bytes) (pad1 pad2 : Bytes) :
    (serverResponses v hook dial pad1 pad2).1.length = 1 ∧
    (hook ≠ .intercepts → (serverResponses v hook dial pad1 pad2).1 = [(serverRespond v dial pad2).1]) ∧
    (serverResponses v hook dial pad1 pad2).2 = (serverRespond v dial pad2).2 := by
  cases hook <;> cases dial <;> simp [serverResponses, serverRespond]

/-! ### response_read_exactly_once_even_after_failed_read: `Established` is set only after a
    successful response read, so Reads that time out before the response arrives change
    nothing; whatever mix of timed-out and proceeding Reads follows `TCP()`, with or
    without fast open, the bytes handed to the application are a prefix of what the relay
    wrote after the response (no header byte is ever delivered as payload), and after a
    failed dial the first Read that proceeds returns the DialError however many Reads
    timed out before it. -/
theorem response_read_exactly_once_even_after_failed_read (pad payload : Bytes) (cs : List Bytes)
    (fo : Bool) (evs : List RdEv)
    (hp : pad.length < Gen.tcpResponsePaddingMax)
    (hcs : cs.flatten = (serverRespond .fixed none pad).1 ++ payload) :
    ∃ c, connAfterTCP fo cs = some c ∧ dataOf (appReads c evs) <+: payload := by
  obtain ⟨⟨rest, hopen, hrest⟩, _⟩ := dial_ok_payload_exact pad payload cs hp hcs
  cases fo with
  | false =>
    refine ⟨⟨true, rest⟩, by simp [connAfterTCP, hopen], ?_⟩
    rw [← hrest]
    exact appReads_established_prefix evs ⟨true, rest⟩ rfl
  | true =>
    refine ⟨⟨false, cs⟩, by simp [connAfterTCP], ?_⟩
    rw [← hrest]
    exact appReads_fresh_prefix evs cs rest hopen

theorem dial_error_after_failed_reads (s pad rest : Bytes) (cs : List Bytes) (k : Nat)
    (hp : pad.length < Gen.tcpResponsePaddingMax)
    (hcs : cs.flatten = (serverRespond .fixed (some s) pad).1 ++ rest) :
    connAfterTCP true cs = some ⟨false, cs⟩ ∧
    appReads ⟨false, cs⟩ (List.replicate k .timeout ++ [.go]) =
      List.replicate k .timeout ++ [.dialError (boundMsg s)] := by
  refine ⟨by simp [connAfterTCP], ?_⟩
  obtain ⟨r', hr⟩ := clientOpen_dialError_read (dial_error_delivered s pad rest cs hp hcs).1
  induction k with
  | zero => simp [appReads, connRead, hr]
  | succ k ih => simpa [List.replicate_succ, appReads, connRead] using ih

/-! ### QStream (core/internal/utils/qstream.go) and tcpConn's write/close half
    (core/client/client.go) over the contract of *quic.Stream -/

/-- the programs the model is made of ARE the statements of the current source: go/ast
    extracts every method body on each run (Hy.Gen.QShape), `render` prints the model's
    programs, and the two are equal — in particular Close is `CancelRead(0)` followed by
    `return Close()` on the embedded stream, in that order, and nothing else. -/
theorem qshape_qstream :
    Gen.QShape.QStream_Close = render "s.Stream" QStream.closeP ∧
    Gen.QShape.QStream_Read = render "s.Stream" QStream.readP ∧
    Gen.QShape.QStream_Write = render "s.Stream" QStream.writeP ∧
    Gen.QShape.QStream_CancelRead = render "s.Stream" QStream.cancelReadP ∧
    Gen.QShape.QStream_CancelWrite = render "s.Stream" QStream.cancelWriteP ∧
    Gen.QShape.QStream_SetDeadline = render "s.Stream" QStream.setDeadlineP ∧
    Gen.QShape.QStream_SetReadDeadline = render "s.Stream" QStream.setReadDeadlineP ∧
    Gen.QShape.QStream_SetWriteDeadline = render "s.Stream" QStream.setWriteDeadlineP := by decide

set_option maxRecDepth 8000 in
/-- tcpConn: Write, Close and the deadline setters pass straight through to the QStream;
    Read is the lazy response read (`Established` set after a successful read only —
    Hy.Relay.connRead) followed by the pass-through Read. -/
theorem qshape_tcpconn :
    Gen.QShape.tcpConn_Write = [tcpWriteM.render] ∧
    Gen.QShape.tcpConn_Close = [tcpCloseM.render] ∧
    Gen.QShape.tcpConn_SetDeadline = [tcpSetDeadlineM.render] ∧
    Gen.QShape.tcpConn_SetReadDeadline = [tcpSetReadDeadlineM.render] ∧
    Gen.QShape.tcpConn_SetWriteDeadline = [tcpSetWriteDeadlineM.render] ∧
    Gen.QShape.tcpConn_Read =
      ["if !c.Established { ok, msg, err := protocol.ReadTCPResponse(c.Orig) if err != nil { return 0, err } if !ok { return 0, coreErrs.DialError{Message: msg} } c.Established = true }",
       tcpReadTailM.render] := by decide

/-- qstream_close_finishes_send_and_cancels_read: on a stream whose send side is open,
    QStream.Close returns nil, puts FIN after EVERYTHING written so far (the peer is
    guaranteed exactly `sent` and then FIN: Close itself drops nothing), stops the receive
    side, calls CancelRead before Close and nothing else, and afterwards Read and Write fail. -/
theorem qstream_close_finishes_send_and_cancels_read (q : Q) (p : Bytes) (h : q.send = .open) :
    (QStream.close q).2 = .ok ∧
    (QStream.close q).1.send = .fin ∧ (QStream.close q).1.sent = q.sent ∧
    (QStream.close q).1.wire = .finAfter q.sent ∧
    (QStream.close q).1.recvCancelled = some (q.recvCancelled.getD 0) ∧
    (QStream.close q).1.calls = .close :: .cancelRead 0 :: q.calls ∧
    (QStream.read (QStream.close q).1).2 = .err ∧
    (QStream.write (QStream.close q).1 p).2 = .err := by
  cases hr : q.recvCancelled <;>
    simp [QStream.close, QStream.read, QStream.write, QStream.closeP, QStream.readP, QStream.writeP, exec,
      Prim.exec, ArgSrc.val, Q.cancelRead, Q.close, Q.read, Q.write, Q.wire, h, hr]

/-- close_idempotent_or_as_is: a repeated Close returns nil and changes nothing but the call
    trace — whatever state the first one found; and the FIRST Close reports an error
    exactly when the send side had been reset (CancelWrite) and not closed before — as
    quic-go's SendStream.Close does. -/
theorem close_idempotent_or_as_is (q : Q) :
    (QStream.close (QStream.close q).1).2 = .ok ∧
    (QStream.close (QStream.close q).1).1.send = (QStream.close q).1.send ∧
    (QStream.close (QStream.close q).1).1.sent = (QStream.close q).1.sent ∧
    (QStream.close (QStream.close q).1).1.recvCancelled = (QStream.close q).1.recvCancelled ∧
    (QStream.close (QStream.close q).1).1.incoming = (QStream.close q).1.incoming ∧
    ((QStream.close q).2 = .err ↔ ∃ c, q.send = .reset c false) := by
  cases hs : q.send with
  | «open» =>
    cases hr : q.recvCancelled <;>
      simp [QStream.close, QStream.closeP, exec, Prim.exec, ArgSrc.val, Q.cancelRead, Q.close, hs, hr]
  | fin =>
    cases hr : q.recvCancelled <;>
      simp [QStream.close, QStream.closeP, exec, Prim.exec, ArgSrc.val, Q.cancelRead, Q.close, hs, hr]
  | reset c b =>
    cases b <;> cases hr : q.recvCancelled <;>
      simp [QStream.close, QStream.closeP, exec, Prim.exec, ArgSrc.val, Q.cancelRead, Q.close, hs, hr]

/-- tcpconn_write_is_stream_write: whatever the application does with the conn between
    `TCP()` and `Close()` — writes, Reads that time out, deadline changes, fast open or not
    — the stream has been handed the request header ONCE and then exactly the written
    bytes, unmodified and in order, and nothing else; the send side is still open. -/
theorem tcpconn_write_is_stream_write (fo : Bool) (addr pad : Bytes) (inc : List Bytes) (ops : List COp) :
    ((tcpOpen fo addr pad inc).run ops).orig.sent = Frame.writeRequest addr pad ++ writesOf ops ∧
    ((tcpOpen fo addr pad inc).run ops).orig.send = .open ∧
    ((tcpOpen fo addr pad inc).run ops).orig.wire = .open (Frame.writeRequest addr pad ++ writesOf ops) := by
  have h0 : (tcpOpen fo addr pad inc).orig.send = .open ∧
      (tcpOpen fo addr pad inc).orig.sent = Frame.writeRequest addr pad := by
    simp [tcpOpen, QStream.write, QStream.writeP, exec, Prim.exec, Q.write]
  obtain ⟨h1, h2⟩ := run_keeps_open ops _ h0.1
  rw [h0.2] at h2
  exact ⟨h2, h1, by simp [Q.wire, h1, h2]⟩

/-- and what the server's dispatcher + ReadTCPRequest make of it, for every chunking: the
    requested address, and as relay payload exactly the bytes written through the conn (C04) -/
theorem server_reads_what_client_wrote (fo : Bool) (addr pad : Bytes) (inc : List Bytes) (ops : List COp)
    (cs : List Bytes) (ha : 1 ≤ addr.length) (ha' : addr.length ≤ 2048)
    (hp : pad.length < Gen.tcpRequestPaddingMax)
    (hcs : cs.flatten = ((tcpOpen fo addr pad inc).run ops).orig.sent) :
    (Frame.readFramedRequest Frame.chunked cs).map List.flatten = .ok addr (writesOf ops) := by
  rw [(tcpconn_write_is_stream_write fo addr pad inc ops).1] at hcs
  exact C04.go_request_roundtrip addr pad (writesOf ops) cs ha ha' hp hcs

/-- tcpConn.Close after any such use: nil, and the peer is guaranteed the request, every
    written byte, and then FIN — the tail written just before Close is not dropped. -/
theorem client_close_delivers_everything (fo : Bool) (addr pad : Bytes) (inc : List Bytes) (ops : List COp) :
    (((tcpOpen fo addr pad inc).run ops).close).2 = .ok ∧
    (((tcpOpen fo addr pad inc).run ops).close).1.orig.wire =
      .finAfter (Frame.writeRequest addr pad ++ writesOf ops) := by
  obtain ⟨h1, h2, _⟩ := tcpconn_write_is_stream_write fo addr pad inc ops
  have := qstream_close_finishes_send_and_cancels_read ((tcpOpen fo addr pad inc).run ops).orig [] h2
  simp only [TcpC.close, tcpCloseM, QMeth.body]
  exact ⟨this.1, by rw [← h1]; exact this.2.2.2.1⟩

/-- client_write_close_relay_complete: the completeness clause without assuming what
    QStream.Close means.  The client writes and closes; the server has read the request
    and is handed the rest of the stream in any chunks `rest` (then the FIN that Close
    queued: an exhausted script).  With an approving logger and an accepting target, once
    the up direction has returned with nothing closed yet, the target has received
    exactly the bytes written through the conn, all of them. -/
theorem client_write_close_relay_complete (v : Variant) (fo : Bool) (addr pad : Bytes) (inc : List Bytes)
    (ops : List COp) (cs rest : List Bytes) (sc : Scripts) (sched : List Label)
    (ha : 1 ≤ addr.length) (ha' : addr.length ≤ 2048) (hp : pad.length < Gen.tcpRequestPaddingMax)
    (hwire : (((tcpOpen fo addr pad inc).run ops).close).1.orig.wire = .finAfter cs.flatten)
    (hreq : (Frame.readFramedRequest Frame.chunked cs) = .ok addr rest)
    (hup : sc.upSrc = deliver Gen.copyBufSize (srcOfChunks rest))
    (hdown : ∀ r ∈ sc.downSrc, r.data.length ≤ Gen.copyBufSize)
    (hverd : ∀ b ∈ sc.upVerd, b = true) (hw : ∀ w ∈ sc.upW, w = none) :
    let s := run v (start sc) sched
    s.targetClosed = false → s.streamClosed = false → s.connClosed = false → s.up.out ≠ none →
    s.up.out = some .done ∧ s.up.written.flatten = writesOf ops ∧ s.up.logged = (writesOf ops).length := by
  intro s h1 h2 h3 hfin
  have hwire' := (client_close_delivers_everything fo addr pad inc ops).2
  rw [hwire'] at hwire
  have hflat : cs.flatten = Frame.writeRequest addr pad ++ writesOf ops := by
    injection hwire with h; exact h.symm
  have hrt := C04.go_request_roundtrip addr pad (writesOf ops) cs ha ha' hp hflat
  rw [hreq] at hrt
  simp only [Frame.Rd.map, Frame.Rd.ok.injEq, true_and] at hrt
  have hc : sc.Contract := ⟨by rw [hup]; exact deliver_bound _ const_copybuf_pos _, hdown⟩
  have hclean : CleanSrc (sc.src .up) := by
    simp only [Scripts.src, hup]; exact deliver_chunks_clean _ _
  have := complete_if_no_early_close_partial v sc hc sched .up hclean hverd hw h1 h2 h3 hfin
  have hdata : sc.data .up = writesOf ops := by
    simp only [Scripts.data, hup]; rw [deliver_chunks_data, hrt]
  rw [hdata] at this
  exact ⟨this.1, this.2.1, this.2.2.1⟩

/-! ### the pinned tree (before the repairs): witnesses -/

/-- D5: without the bound, an error text of 2049..16383 bytes makes the client's own
    ReadTCPResponse reject the response — the client never sees a DialError. -/
theorem d5_pinned_counterexample (s pad rest : Bytes) (cs : List Bytes)
    (h1 : 2048 < s.length) (h2 : s.length ≤ 16383)
    (hcs : cs.flatten = (serverRespond .pinned (some s) pad).1 ++ rest) :
    clientOpen cs = .failed true := by
  have hflat := C04.chunking_irrelevant_response cs
  rw [hcs] at hflat
  have hdec : Varint.dec (Varint.enc s.length ++ (s ++ (Varint.enc pad.length ++ (pad ++ rest)))) =
      some (s.length, s ++ (Varint.enc pad.length ++ (pad ++ rest))) :=
    Varint.dec_enc _ _ (by unfold Varint.maxVarInt8; omega)
  have hrej := (C04.overlimit_message_rejected_early (byte 1) _ _ _ hdec h1).1
  have heq : (serverRespond .pinned (some s) pad).1 ++ rest =
      byte 1 :: (Varint.enc s.length ++ (s ++ (Varint.enc pad.length ++ (pad ++ rest)))) := by
    simp [serverRespond, Frame.writeResponse]
  rw [heq, hrej] at hflat
  unfold clientOpen
  cases hx : Frame.readResponse Frame.chunked cs with
  | ok a st => rw [hx] at hflat; simp [Frame.Rd.map] at hflat
  | eof => rw [hx] at hflat; simp [Frame.Rd.map] at hflat
  | proto st => rfl

/-- at the call sites: eager `TCP()` reports a closed connection, the fast-open Read a
    protocol error — neither is a DialError -/
theorem d5_pinned_counterexample_calls (s pad rest : Bytes) (cs : List Bytes)
    (h1 : 2048 < s.length) (h2 : s.length ≤ 16383)
    (hcs : cs.flatten = (serverRespond .pinned (some s) pad).1 ++ rest) :
    clientTCP false cs = .closedError ∧ clientFirstRead cs = .error true := by
  have h := d5_pinned_counterexample s pad rest cs h1 h2 hcs
  simp [clientTCP, clientFirstRead, h]

/-- D11 scripts: the client→target direction ends at once (EOF); the target has one byte
    for the client, which the logger refuses. -/
def d11Scripts : Scripts :=
  { upSrc := [], upVerd := [], upW := [], downSrc := [⟨[byte 1], none⟩], downVerd := [false], downW := [] }

/-- [down: read 1 byte; up: read EOF; up: send nil; main: return nil, close target, close
    stream; down: log → false; down: send] — every goroutine has finished -/
def d11Sched : List Label := [.down, .up, .up, .main, .main, .main, .down, .down]

/-- D11 on the pinned tree: the logger refused, the direction returned errDisconnect, all
    three parties are through — and the connection was never closed. -/
theorem d11_pinned_counterexample :
    let s := run .pinned (start d11Scripts) d11Sched
    s.down.out = some .disconnect ∧ s.ret = some .done ∧ s.mpc = .done ∧
    s.up.pc = .fin ∧ s.down.pc = .fin ∧ s.connClosed = false := by decide

/-! ### non-vacuity -/

/-- the same schedule on the repaired code closes the connection -/
example : (run .fixed (start d11Scripts) d11Sched).connClosed = true ∧
    (run .fixed (start d11Scripts) d11Sched).down.written = [] := by decide

example : d11Scripts.Contract := by
  constructor <;> intro r hr <;> simp [d11Scripts] at hr <;> subst hr <;> decide

/-- a clean source whose last bytes arrive together with EOF; hypotheses of
    `complete_if_no_early_close_partial` / `copyLoop_complete` -/
example : CleanSrc [⟨[byte 1, byte 2], none⟩, ⟨[], none⟩, ⟨[byte 3], some true⟩] := by
  simp [CleanSrc]

example : (copyLoop [⟨[byte 1, byte 2], none⟩, ⟨[], none⟩, ⟨[byte 3], some true⟩] [] []).written =
    [[byte 1, byte 2], [byte 3]] ∧
    (copyLoop [⟨[byte 1, byte 2], none⟩, ⟨[], none⟩, ⟨[byte 3], some true⟩] [] []).out = some .done := by decide

/-- a run that meets the hypotheses of `complete_if_no_early_close_partial`: the down
    direction (last byte together with EOF) has returned and nothing is closed yet -/
def cleanEx : Scripts :=
  { upSrc := [⟨[byte 5], none⟩], upVerd := [], upW := [],
    downSrc := [⟨[byte 1], some true⟩], downVerd := [], downW := [] }

example : (run .fixed (start cleanEx) [.down, .up, .down, .down]).targetClosed = false ∧
    (run .fixed (start cleanEx) [.down, .up, .down, .down]).streamClosed = false ∧
    (run .fixed (start cleanEx) [.down, .up, .down, .down]).connClosed = false ∧
    ((run .fixed (start cleanEx) [.down, .up, .down, .down]).dir .down).out ≠ none := by decide

example : CleanSrc (cleanEx.src .down) := by simp [cleanEx, Scripts.src, CleanSrc]

/-- hypotheses of `dial_error_delivered`: a padding the writer can draw, a chunking -/
example : ([byte 0, byte 0] : Bytes).length < Gen.tcpResponsePaddingMax ∧
    ([[byte 1], [], (serverRespond .fixed (some [byte 110]) [byte 0, byte 0]).1.drop 1 ++ [byte 9]] : List Bytes).flatten =
      (serverRespond .fixed (some [byte 110]) [byte 0, byte 0]).1 ++ [byte 9] := by decide

/-- a reachable state that meets the hypotheses of `veto_forwards_nothing` -/
example : ((run .fixed (start d11Scripts) [.down]).dir .down).pc = .log [byte 1] none ∧
    headV ((run .fixed (start d11Scripts) [.down]).dir .down).verd = false := by decide

/-- short write: 2 of 3 bytes accepted, the third is in flight -/
example : (copyLoop [⟨[byte 7, byte 8, byte 9], none⟩] [true] [some 2]).written = [[byte 7, byte 8]] ∧
    (copyLoop [⟨[byte 7, byte 8, byte 9], none⟩] [true] [some 2]).logged = 3 ∧
    (copyLoop [⟨[byte 7, byte 8, byte 9], none⟩] [true] [some 2]).inflight = 1 ∧
    (copyLoop [⟨[byte 7, byte 8, byte 9], none⟩] [true] [some 2]).out = some .writeErr := by decide

/-- hypotheses of `d5_pinned_counterexample`: an error text one byte over the limit -/
example : 2048 < (List.replicate 2049 (byte 97)).length ∧ (List.replicate 2049 (byte 97)).length ≤ 16383 := by
  rw [List.length_replicate]; decide

/-- two Reads time out, then the response of a failed dial is read: DialError, nothing else -/
example : appReads ⟨false, [Frame.writeResponse false [byte 110, byte 111] [byte 0]]⟩ [.timeout, .timeout, .go] =
    [.timeout, .timeout, .dialError [byte 110, byte 111]] := by decide

/-- a timed-out Read, then the payload: the header is consumed exactly once, never delivered -/
example : dataOf (appReads ⟨false, [Frame.writeResponse true connectedMsg [byte 0], [byte 7, byte 8]]⟩
    [.timeout, .go, .timeout, .go]) = [byte 7, byte 8] := by decide

/-- a declining hook: one response, the hook-less one; an intercepting hook: one response too -/
example : (serverResponses .fixed .declines (some [byte 110]) [] []).1 = [(serverRespond .fixed (some [byte 110]) []).1] ∧
    (serverResponses .fixed .intercepts (some [byte 110]) [] []).1.length = 1 := by decide

/-- hypotheses of `qstream_close_finishes_send_and_cancels_read` / `client_write_close_relay_complete`
    on a concrete conn: fast open, one Read that times out, two writes, Close -/
example : ((tcpOpen true [byte 97] [] []).run [.readTimeout, .write [byte 1], .write [byte 2, byte 3]]).orig.send = .open ∧
    (((tcpOpen true [byte 97] [] []).run [.readTimeout, .write [byte 1], .write [byte 2, byte 3]]).close).1.orig.wire =
      .finAfter (Frame.writeRequest [byte 97] [] ++ [byte 1, byte 2, byte 3]) ∧
    Frame.readFramedRequest Frame.chunked [Frame.writeRequest [byte 97] [], [byte 1], [byte 2, byte 3]] =
      .ok [byte 97] [[], [byte 1], [byte 2, byte 3]] := by decide

/-- Close on a stream whose send side was reset before reports the error once, then nil -/
example : (QStream.close (QStream.cancelWrite {} 7).1).2 = .err ∧
    (QStream.close (QStream.close (QStream.cancelWrite {} 7).1).1).2 = .ok := by decide

/-- a dial error text that needs the bound, and one that does not -/
example : (boundMsg (List.replicate 2100 (byte 97))).length = 2048 := by
  rw [boundMsg, const_maxmsg, List.length_take, List.length_replicate]; decide

example : clientOpen [Frame.writeResponse false [byte 110, byte 111] [byte 0]] = .dialError [byte 110, byte 111] := by
  decide

end Hy.Props.C06
