/-
  C18 — Local SOCKS5/HTTP inbounds gate on credentials and relay bytes intact.
  Property theorems only; helper lemmas live in Hy.Proofs.C18Stream / C18Gate / C18Mux.

  Models: Hy.Model.Socks5 (app/internal/socks5/server.go over txthinking/socks5's parsers),
  Hy.Model.HttpIn (app/internal/http/server.go with http.ReadRequest as an oracle),
  Hy.Model.Mux (app/internal/proxymux/mux.go: connWithOneByte, and the mux as a transition
  system whose schedules are arbitrary lists of atomic-step labels).
  The client's byte stream is `List Bytes`: the chunks in which the transport delivers it
  (every chunking, empty reads included); AuthFunc is an arbitrary function.
-/
import Hy.Proofs.C18Gate
import Hy.Proofs.C18Mux
import Hy.Proofs.C18Mgr
import Hy.Gen.App
import Hy.Gen.C18Shape
set_option linter.unusedSimpArgs false
set_option linter.unusedVariables false
namespace Hy.Props.C18
open Hy Hy.Conn

/-! ### obligations on the regenerated constants of github.com/txthinking/socks5
    (a changed protocol constant in the compiled module fails here) -/
theorem const_socks :
    Gen.c18_socks_Ver = Socks5.ver ∧ Gen.c18_socks_MethodNone = Socks5.methodNone ∧
    Gen.c18_socks_MethodUsernamePassword = Socks5.methodUserPass ∧
    Gen.c18_socks_MethodUnsupportAll = Socks5.methodUnsupportAll ∧
    Gen.c18_socks_UserPassVer = Socks5.userPassVer ∧
    Gen.c18_socks_UserPassStatusSuccess = 0 ∧ Gen.c18_socks_UserPassStatusFailure = 1 ∧
    Gen.c18_socks_CmdConnect = Socks5.cmdConnect ∧ Gen.c18_socks_CmdUDP = Socks5.cmdUDP ∧
    Gen.c18_socks_ATYPIPv4 = Socks5.atypIPv4 ∧ Gen.c18_socks_ATYPDomain = Socks5.atypDomain ∧
    Gen.c18_socks_ATYPIPv6 = Socks5.atypIPv6 ∧ Gen.c18_socks_RepSuccess = Socks5.repSuccess ∧
    Gen.c18_socks_RepServerFailure = Socks5.repServerFailure ∧
    Gen.c18_socks_RepHostUnreachable = Socks5.repHostUnreachable ∧
    Gen.c18_socks_RepCommandNotSupported = Socks5.repCommandNotSupported := by decide

/-- regenerated go/ast fact about the current mux.go: the buffer `(*muxListener).dispatch` reads the
    protocol-detection byte into is not a field of the mux / a package-level variable (directly or
    through a local alias) — every dispatch goroutine has its own byte, which is what the model's
    per-connection `got b` / `pending b t` statuses assume -/
theorem detect_buffer_not_shared : Gen.C18Shape.dispatchBufKind ≠ 2 := by decide

/-! ## SOCKS5 -/
section socks
open Hy.Socks5

/-- With AuthFunc set, for EVERY client byte stream under EVERY chunking, every AuthFunc and
    every environment behaviour: an upstream-opening effect (HyClient.TCP / HyClient.UDP) is
    preceded by an AuthFunc call that returned true, made on credentials that are framed
    (RFC 1929: ULEN UNAME PLEN PASSWD) in this client's own stream. -/
theorem socks_gate (c : Cfg) (hauth : c.authSet = true) (cs : Stream)
    (pre post : List Eff) (e : Eff) (hrun : run c cs = pre ++ e :: post) (he : isHy e = true) :
    ∃ u p, Eff.authCall u p true ∈ pre ∧ c.auth u p = true ∧ CredsIn cs u p := by
  unfold run at hrun
  have hno := negotiate_noHy c cs
  have hne : e ∉ (negotiate c cs).2.1 := fun hm => by
    have := hno e hm; rw [he] at this; exact absurd this (by simp)
  split at hrun
  · rename_i effs s1 heq
    rw [heq] at hne
    obtain ⟨pre', _, h2⟩ := prefix_of_not_mem _ _ _ _ _ hrun hne
    cases pre' with
    | nil => simp at h2; obtain ⟨rfl, _⟩ := h2; simp [isHy] at he
    | cons x xs => simp at h2
  · rename_i effs s1 heq
    rw [heq] at hne
    obtain ⟨u, p, w1, w2, rfl, hau, hcr⟩ := negotiate_ok c hauth cs s1 effs heq
    obtain ⟨pre', h1, _⟩ := prefix_of_not_mem _ _ _ _ _ hrun hne
    exact ⟨u, p, by rw [h1]; simp, hau, hcr⟩

/-- the negotiation never accepts "no authentication" (or anything but method 2) when
    credentials are configured: the reply is NO ACCEPTABLE METHODS and the conn is closed -/
theorem socks_noauth_refused (c : Cfg) (hauth : c.authSet = true) (cs s1 : Stream) (ms : Bytes)
    (hm : readMethods cs = some (ms, s1)) (hno : ∀ m ∈ ms, m.val ≠ 2) :
    run c cs = [.write [byte 5, byte 255], .close] := by
  have : ms.any (fun m => m.val == methodUserPass) = false := by
    rw [List.any_eq_false]; intro m hmem; simpa [methodUserPass] using hno m hmem
  simp [run, negotiate, hm, hauth, this, ver, methodUnsupportAll]

/-- without an accepted AuthFunc verdict nothing is opened upstream at all -/
theorem socks_rejected_opens_nothing (c : Cfg) (hauth : c.authSet = true) (cs : Stream)
    (hrej : ∀ u p, c.auth u p = false) : ∀ e ∈ run c cs, isHy e = false := by
  intro e he
  by_cases h : isHy e = true
  · obtain ⟨pre, post, hsplit⟩ := List.append_of_mem he
    obtain ⟨u, p, _, hau, _⟩ := socks_gate c hauth cs pre post e hsplit h
    rw [hrej] at hau; exact absurd hau (by simp)
  · simpa using h

/-- the bytes the client pipelines behind its SOCKS5 request reach the upstream unmodified and
    in order: what the upstream conn receives is exactly the rest of the client's stream -/
theorem socks_relay_intact (c : Cfg) (cs : Stream) (bs : Bytes) (h : Eff.upstream bs ∈ run c cs) :
    ∃ consumed, cs.flatten = consumed ++ bs := by
  unfold run at h
  have hn := negotiate_effs c cs
  split at h
  · rename_i effs s1 heq
    rw [heq] at hn
    simp at h
    rcases hn _ h with ⟨w, hw⟩ | ⟨u, p, r, hw⟩ <;> cases hw
  · rename_i effs s1 heq
    rw [heq] at hn
    obtain ⟨pre, hpre⟩ := negotiate_suffix c cs s1 effs heq
    rcases List.mem_append.mp h with h | h
    · rcases hn _ h with ⟨w, hw⟩ | ⟨u, p, r, hw⟩ <;> cases hw
    · unfold serve at h
      split at h
      · simp at h
      · rename_i r rest hr
        obtain ⟨pre2, hp2⟩ := readRequest_suffix _ _ _ hr
        split at h
        · unfold handleTCP at h
          simp at h
          split at h
          · simp at h
            exact ⟨pre ++ pre2, by rw [hpre, hp2, h]; simp⟩
          · simp at h
        · split at h
          · split at h
            · simp at h
            · unfold handleUDP at h
              split at h
              · simp at h
              · simp at h
                split at h <;> simp at h
          · simp at h

end socks

/-! ## HTTP -/
section http
open Hy.HttpIn

/-- With AuthFunc set, for EVERY sequence of results of the request parser (so for every client
    byte stream and chunking, whatever net/http makes of it): a HyClient.TCP — for CONNECT and
    for plain requests alike — is IMMEDIATELY preceded by an AuthFunc call that returned true on
    the credentials decoded from the Proxy-Authorization value of that very request. -/
theorem http_gate (c : Cfg) (hauth : c.authSet = true) (reqs : List Req)
    (pre post : List Eff) (a : Bytes) (h : dispatch c reqs = pre ++ .hyTCP a :: post) :
    ∃ pre1 u p, pre = pre1 ++ [.authCall u p true] ∧ c.auth u p = true ∧
      ∃ r ∈ reqs, credsOf r.pauth = some (u, p) := by
  induction reqs generalizing pre with
  | nil => simp [dispatch] at h; cases pre <;> simp at h
  | cons r rs ih =>
    simp only [dispatch] at h
    have hcases : (∃ pre0 post0, (iter c r).1 = pre0 ++ .hyTCP a :: post0 ∧ pre = pre0) ∨
        (∃ pre', pre = (iter c r).1 ++ pre' ∧ dispatch c rs = pre' ++ .hyTCP a :: post) := by
      split at h
      · rcases List.append_eq_append_iff.mp h with ⟨a', h1, h2⟩ | ⟨c', h1, h2⟩
        · exact Or.inr ⟨a', h1, h2⟩
        · cases c' with
          | nil => simp at h1 h2; exact Or.inr ⟨[], by simp [h1], h2.symm⟩
          | cons x xs =>
            simp at h2
            exact Or.inl ⟨pre, xs, by rw [h1, h2.1], rfl⟩
      · exact Or.inl ⟨pre, post, h, rfl⟩
    rcases hcases with ⟨pre0, post0, hi, rfl⟩ | ⟨pre', rfl, hd⟩
    · obtain ⟨u, p, hp, hau, hcr⟩ := iter_gate c hauth r pre post0 a hi
      exact ⟨[], u, p, by simp [hp], hau, r, by simp, hcr⟩
    · obtain ⟨pre1, u, p, hp, hau, r', hr', hcr⟩ := ih pre' hd
      exact ⟨(iter c r).1 ++ pre1, u, p, by rw [hp]; simp, hau, r', by simp [hr'], hcr⟩

/-- cachedConn under EVERY sequence of read sizes (zero-length reads included): what has been
    read so far followed by what is still to come is always  buffered ++ rest  — nothing is
    lost, duplicated or reordered. -/
theorem pipelined_intact (buffered : Bytes) (rest : Stream) (ns : List Nat) :
    let r := Cached.reads ns { buf := buffered, conn := rest }
    r.1.flatten ++ r.2.pending = buffered ++ rest.flatten :=
  Cached.reads_pending ns { buf := buffered, conn := rest }

/-- what the upstream of a CONNECT receives (io.Copy to the end of the client's stream) is
    exactly the bytes the parser left buffered followed by everything still on the conn —
    whatever the request declares about a body: the CONNECT branch of dispatch never touches
    `req.Body` (no read, no Close, which would drain a declared `Content-Length` / chunked body
    out of the shared bufio reader), so `Req` has no body field and every byte behind the header
    block is tunnel payload. The c18http stream drives CONNECTs with `Content-Length: N`
    (N <, =, > the pipelined bytes) and `Transfer-Encoding: chunked` against the real handler. -/
theorem connect_upstream_intact (r : Req) (bs : Bytes) (h : Eff.upstream bs ∈ handleConnect r) :
    bs = r.buffered ++ r.connRest.flatten := by
  unfold handleConnect at h
  simp at h
  split at h
  · simp at h
    subst h
    split
    · rw [relayAll_eq]; rfl
    · rename_i hb
      rw [relayAll_eq]
      have : r.buffered = [] := by
        cases hbb : r.buffered with
        | nil => rfl
        | cons x xs => simp [hbb] at hb
      simp [Cached.pending, this]
  · simp at h

end http

/-! ## the shared port -/
section mux
open Hy.Mux

/-- connWithOneByte under EVERY sequence of read sizes, zero-length reads included: the
    bytes read so far followed by what is still to come are always  b :: rest -/
theorem first_byte_preserved (b : Byte) (rest : Stream) (ns : List Nat) :
    let r := OneByte.reads ns { b := b, bRead := false, conn := rest }
    r.1.flatten ++ r.2.pending = b :: rest.flatten := by
  have := OneByte.reads_pending ns { b := b, bRead := false, conn := rest }
  simpa [OneByte.pending] using this

/-- a zero-length read before the first byte consumes nothing; the first non-empty read
    returns exactly the peeked byte -/
theorem first_read (b : Byte) (rest : Stream) (n : Nat) :
    ((OneByte.read 0 { b := b, bRead := false, conn := rest }).1 = [] ∧
     (OneByte.read 0 { b := b, bRead := false, conn := rest }).2 = { b := b, bRead := false, conn := rest }) ∧
    (0 < n → (OneByte.read n { b := b, bRead := false, conn := rest }).1 = [b]) := by
  refine ⟨by simp [OneByte.read], ?_⟩
  intro hn
  have : n ≠ 0 := by omega
  simp [OneByte.read, this]

/-- dispatch's read of the detection byte, for EVERY chunking of the client's stream — empty
    chunks ((0,nil) reads) before the byte included, io.ReadFull loops over them: the step it
    takes records exactly the first byte the client sent (so `routing` below routes on the REAL
    first byte), or closes the conn if the client sent nothing at all. -/
theorem detect_every_chunking (cs : Stream) :
    (∀ b rest, detect cs = some (b, rest) → cs.flatten = b :: rest.flatten) ∧
    (detect cs = none → cs.flatten = []) ∧
    (∀ (s : St) (c : Nat), s.conn c = .reading →
      (∃ b, cs.flatten.head? = some b ∧ (step fixed s (readLabel c cs)).conn c = .got b) ∨
      (cs.flatten = [] ∧ (step fixed s (readLabel c cs)).conn c = .closed)) := by
  refine ⟨fun b rest h => detect_some cs b rest h, detect_none cs, ?_⟩
  intro s c hc
  cases hd : detect cs with
  | none => right; exact ⟨detect_none cs hd, by simp [readLabel, hd, step, hc]⟩
  | some p =>
    obtain ⟨b, rest⟩ := p
    left
    exact ⟨b, by rw [detect_some cs b rest hd]; rfl, by simp [readLabel, hd, step, hc]⟩

/-- end to end behind the detection byte, for EVERY chunking (leading empty chunks included)
    and EVERY sequence of the handler's read sizes (zero-length reads included): what the
    handler has read through the wrapper, followed by what is still to come, is exactly the
    client's stream — nothing fabricated in front of it, nothing lost -/
theorem detect_then_replay_intact (cs : Stream) (w : OneByte) (ns : List Nat) (h : wrapped cs = some w) :
    (OneByte.reads ns w).1.flatten ++ (OneByte.reads ns w).2.pending = cs.flatten := by
  unfold wrapped at h
  split at h
  · rename_i b rest hd
    simp at h; subst h
    rw [OneByte.reads_pending, detect_some cs b rest hd]
    simp [OneByte.pending]
  · simp at h

/-- why it has to be io.ReadFull: with a single conn.Read an empty first read leaves 0x00 in
    the buffer — a SOCKS5 stream would be routed to HTTP with a fabricated byte in front -/
theorem single_read_would_misroute :
    detect [[], [byte 5, byte 1]] = some (byte 5, [[byte 1]]) ∧
    detectOneRead [[], [byte 5, byte 1]] = (byte 0, [[byte 5, byte 1]]) ∧
    route (detectOneRead [[], [byte 5, byte 1]]).1 = .http ∧ route (byte 5) = .socks := by decide

/-- routing, for every schedule: a connection is only ever queued for / delivered to a
    sub-listener of the kind its first byte selects — 0x05 → SOCKS5, anything else → HTTP -/
theorem routing (sched : List Label) (c : Nat) (b : Byte) (t : Nat)
    (h : (run fixed init sched).conn c = .delivered b t ∨ (run fixed init sched).conn c = .pending b t) :
    ∃ sb, (run fixed init sched).subs[t]? = some sb ∧
      sb.kind = (if b.val = 5 then Kind.socks else Kind.http) := by
  have inv := inv_run init sched inv_init
  rcases h with h | h
  · obtain ⟨sb, g, gk⟩ := inv.deliv c b t h; exact ⟨sb, g, by rw [gk]; rfl⟩
  · obtain ⟨sb, g, gk, _⟩ := inv.pend c b t h; exact ⟨sb, g, by rw [gk]; rfl⟩

/-- the fixed code never panics and never drops a connection, for every schedule -/
theorem no_panic_no_leak (sched : List Label) :
    (run fixed init sched).panicked = false ∧ ∀ c, (run fixed init sched).conn c ≠ .leaked :=
  ⟨(inv_run init sched inv_init).noPanic, (inv_run init sched inv_init).noLeak⟩

/-- For EVERY schedule of registration / close / arrival / dispatch steps and every connection:
    * the log holds exactly one terminal event (delivered-to-one-Accept or closed) if the
      connection is delivered or closed, and none otherwise — never two, never both;
    * delivered / closed are final under every continuation;
    * the connection is never leaked and the process never panics;
    * in every other status that does not wait for the environment, a step of the mux itself is
      enabled that takes it onward: `got` → pick; `pending` on a closed sub-listener → closed;
      `held` → handed to mainLoop, or closed once the port is shut. The only waits are for the
      client's first byte (`reading`) and for the Accept of a sub-listener that is open and
      still registered (then `deliver` is enabled). -/
theorem exactly_one_or_closed (sched : List Label) (c : Nat) :
    let s := run fixed init sched
    (nEv s c = (terminal (s.conn c)).toNat) ∧
    (∀ more, terminal (s.conn c) = true → (run fixed s more).conn c = s.conn c) ∧
    s.conn c ≠ .leaked ∧ s.panicked = false ∧
    (∀ b, s.conn c = .got b →
      (step fixed s (.pick c)).conn c = .closed ∨ ∃ t, (step fixed s (.pick c)).conn c = .pending b t) ∧
    (∀ b t, s.conn c = .pending b t → ∃ sb, s.subs[t]? = some sb ∧
      ((sb.closed = true ∧ (step fixed s (.dropClosed c)).conn c = .closed) ∨
       (sb.closed = false ∧ s.slot (route b) = some t ∧ (step fixed s (.deliver c)).conn c = .delivered b t))) ∧
    (s.conn c = .held →
      (s.phase = .running ∧ (step fixed s .handToMain).conn c = .reading) ∨
      (s.phase = .exiting ∧ (step fixed s .exitA).phase = .chanClosed) ∨
      ((s.phase = .chanClosed ∨ s.phase = .exited) ∧ (step fixed s .aloopQuit).conn c = .closed)) := by
  intro s
  have inv : Inv s := inv_run init sched inv_init
  refine ⟨inv.count c, fun more ht => run_terminal s more inv c ht, inv.noLeak c, inv.noPanic, ?_, ?_, ?_⟩
  · intro b hb
    simp only [step, hb]
    split
    · left; simp
    · rename_i t _; right; exact ⟨t, by simp⟩
  · intro b t hp
    obtain ⟨sb, g, gk, hd⟩ := inv.pend c b t hp
    refine ⟨sb, g, ?_⟩
    have hsc : subClosed s.subs t = sb.closed := by simp [subClosed, g]
    cases hcl : sb.closed with
    | true => left; refine ⟨rfl, ?_⟩; simp [step, hp, hsc, hcl, fixed]
    | false =>
      right
      rcases hd with h1 | h1
      · rw [hcl] at h1; exact absurd h1 (by simp)
      · refine ⟨rfl, h1, ?_⟩
        simp [step, hp, subChanClosed_false s inv.chanOpen]
  · intro hh
    have ha : s.aloop = .holding c := (inv.held c).mp hh
    cases hph : s.phase with
    | running => left; refine ⟨rfl, ?_⟩; simp [step, ha, hph]
    | exiting => right; left; refine ⟨rfl, ?_⟩; simp [step, hph]
    | chanClosed => right; right; refine ⟨Or.inl rfl, ?_⟩; simp [step, ha, hph, fixed]
    | exited => right; right; refine ⟨Or.inr rfl, ?_⟩; simp [step, ha, hph, fixed]

/-! ### the pinned tree (mux.go as found): `decide`-checked witnesses of D6, D7 and D13 -/

/-- D6: first byte read, sub-listener closed before anyone Accepts → the connection is
    neither delivered nor closed -/
theorem D6_pinned_counterexample :
    (run pinned init [.listen .socks, .baseAccept 0, .handToMain, .firstByte 0 (byte 5), .pick 0,
      .closeSub 0, .dropClosed 0]).conn 0 = .leaked := by decide

/-- D7: the base listener's Accept fails while a dispatch is pending → the exit path closes the
    sub-listener's accept channel and the pending send panics -/
theorem D7_pinned_counterexample :
    (run pinned init [.listen .socks, .baseAccept 0, .handToMain, .firstByte 0 (byte 5), .pick 0,
      .baseAcceptErr, .mainSeesAcceptClosed, .exitA, .exitB, .sendPanic 0]).panicked = true := by decide

/-- D13: a connection returned by base.Accept() while mainLoop shuts the port down is dropped by
    acceptLoop without being closed -/
theorem D13_pinned_counterexample :
    (run pinned init [.listen .socks, .closeSub 0, .mainSeesSubClosed .socks, .baseAccept 0, .exitA,
      .aloopQuit]).conn 0 = .leaked := by decide

/-- each repair is needed on its own: with the other two applied the same histories still fail -/
theorem each_fix_needed :
    (run ⟨false, true, true⟩ init [.listen .socks, .baseAccept 0, .handToMain, .firstByte 0 (byte 5), .pick 0,
      .closeSub 0, .dropClosed 0]).conn 0 = .leaked ∧
    (run ⟨true, true, false⟩ init [.listen .socks, .baseAccept 0, .handToMain, .firstByte 0 (byte 5), .pick 0,
      .baseAcceptErr, .mainSeesAcceptClosed, .exitA, .exitB, .sendPanic 0]).panicked = true ∧
    (run ⟨true, false, true⟩ init [.listen .socks, .closeSub 0, .mainSeesSubClosed .socks, .baseAccept 0, .exitA,
      .aloopQuit]).conn 0 = .leaked := by decide

/-- … and on the fixed code the same three histories end with the connection closed -/
theorem fixed_histories_close :
    (run fixed init [.listen .socks, .baseAccept 0, .handToMain, .firstByte 0 (byte 5), .pick 0,
      .closeSub 0, .dropClosed 0]).conn 0 = .closed ∧
    (run fixed init [.listen .socks, .baseAccept 0, .handToMain, .firstByte 0 (byte 5), .pick 0,
      .baseAcceptErr, .mainSeesAcceptClosed, .exitA, .exitB, .sendPanic 0, .dropClosed 0]).conn 0 = .closed ∧
    (run fixed init [.listen .socks, .closeSub 0, .mainSeesSubClosed .socks, .baseAccept 0, .exitA,
      .aloopQuit]).conn 0 = .closed := by decide

end mux

/-! ## the manager (manager.go): canonical address ↦ mux, registration, release -/
section mgr
open Hy.Mux Hy.MuxMgr

/-- every mux state reached through the manager API — under EVERY manager-level schedule of
    ListenSOCKS/ListenHTTP calls (two steps each), closes, arrivals and mux steps, with or
    without a wake-up on registration — is a state of the mux transition system, so `routing`,
    `no_panic_no_leak`, `exactly_one_or_closed` … hold for every mux the manager ever created -/
theorem mgr_projects_to_mux (wake : Bool) (msched : List MLabel) (id : Nat) (w : MuxW)
    (h : (mrun wake minit msched).muxes[id]? = some w) : ∃ sched, w.st = run fixed init sched :=
  mux_reachable wake msched id w h

/-- `exactly_one_or_closed`, ranging over manager-level schedules -/
theorem exactly_one_or_closed_mgr (wake : Bool) (msched : List MLabel) (id : Nat) (w : MuxW) (c : Nat)
    (h : (mrun wake minit msched).muxes[id]? = some w) :
    nEv w.st c = (terminal (w.st.conn c)).toNat ∧
    (∀ more, terminal (w.st.conn c) = true → (run fixed w.st more).conn c = w.st.conn c) ∧
    w.st.conn c ≠ .leaked ∧ w.st.panicked = false ∧
    (∀ b t, w.st.conn c = .delivered b t ∨ w.st.conn c = .pending b t →
      ∃ sb, w.st.subs[t]? = some sb ∧ sb.kind = (if b.val = 5 then Kind.socks else Kind.http)) := by
  obtain ⟨sched, hs⟩ := mux_reachable wake msched id w h
  have e := exactly_one_or_closed sched c
  simp only [] at e
  rw [hs]
  exact ⟨e.1, e.2.1, e.2.2.1, e.2.2.2.1, fun b t hbt => routing sched c b t hbt⟩

/-- one muxListener — one base listener, one routing decision — per canonical address:
    (1) a call on an address that is in the map creates nothing and is directed to the mux that
    is there; (2) at every moment at most one OPEN base listener exists per address, and it is
    the one the map points to (so a base listener is never orphaned while open) -/
theorem one_mux_per_address (wake : Bool) (msched : List MLabel) :
    let m := mrun wake minit msched
    (∀ (k : Kind) (key : Nat) (ok : Bool) (id : Nat), m.table key = some id →
      (mstep wake m (.call k key ok)).muxes = m.muxes ∧ (mstep wake m (.call k key ok)).table = m.table ∧
      (mstep wake m (.call k key ok)).pending = m.pending ++ [(k, id)]) ∧
    (∀ (i j : Nat) (wi wj : MuxW), m.muxes[i]? = some wi → m.muxes[j]? = some wj → wi.baseOpen = true → wj.baseOpen = true →
      wi.key = wj.key → i = j) ∧
    (∀ (i : Nat) (wi : MuxW), m.muxes[i]? = some wi → wi.baseOpen = true → m.table wi.key = some i) := by
  intro m
  have inv : MInv m := minv_run wake minit msched minv_init
  refine ⟨?_, ?_, inv.t2⟩
  · intro k key ok id h; simp [mstep, h]
  · intro i j wi wj hi hj bi bj hk
    have a := inv.t2 i wi hi bi
    have b := inv.t2 j wj hj bj
    rw [hk, b] at a; simpa using a.symm

/-- a second SOCKS — or HTTP — registration on a mux whose sub-listener of that kind is live is
    refused (ErrProtocolInUse) and changes nothing but the log -/
theorem kind_registered_at_most_once (s : St) (k : Kind) (t : Nat)
    (hs : s.slot k = some t) (hlive : subClosed s.subs t = false) :
    let s' := step fixed s (.listen k)
    s'.log = .listen k .inUse :: s.log ∧ s'.subs = s.subs ∧ s'.socks = s.socks ∧ s'.http = s.http ∧
    s'.conn = s.conn ∧ s'.phase = s.phase ∧ s'.aloop = s.aloop := by
  simp [step, listen, hs, hlive]

/-- release, for the code AS IT IS (and for the hypothetical wake variant alike): in every
    reachable manager state, for every order of registrations and closes that led there — once
    every sub-listener of a mux is closed AND mainLoop's view is current (`CaptureCurrent`: it
    is at its loop head, e.g. because a connection has just been handed to it, or the close
    channels it captured are those of the registered sub-listeners, i.e. every registration
    precedes its current capture), mainLoop's own next five steps (capture, see SOCKS closed,
    capture, see HTTP closed, run the deferred function) close the base listener and delete the
    map entry. Without that hypothesis release can be late: `D16_late_registration_observation`. -/
theorem release_on_last_close (wake : Bool) (msched : List MLabel) (id : Nat) (w : MuxW)
    (h : (mrun wake minit msched).muxes[id]? = some w) (hall : allClosed w = true) (hopen : w.baseOpen = true)
    (hcur : CaptureCurrent w) :
    let m' := mrun wake (mrun wake minit msched) (releaseSched id)
    (∃ w', m'.muxes[id]? = some w' ∧ w'.baseOpen = false) ∧ m'.table w.key = none := by
  intro m'
  have hw : WInv w := mux_induction WInv wake winv_new (fun w k => winv_register wake w k) winv_capture winv_stepMux msched id w h
  obtain ⟨sched, hs⟩ := mux_reachable wake msched id w h
  have hi : SlotValid w.st := by rw [hs]; exact (inv_run init sched inv_init).slotValid
  have hc := releaseW_closes w hw hcur hi hall
  obtain ⟨g, gt⟩ := release_run wake _ id w h
  exact ⟨⟨releaseW w, g, hc⟩, gt hopen hc⟩

/-- the hypothesis is met whenever mainLoop has just been woken (it is at its loop head): so one
    further accepted connection always brings the release -/
theorem capture_current_at_loop_head (w : MuxW) (h : w.atTop = true) : CaptureCurrent w := by
  intro _ h2; rw [h] at h2; simp at h2

/-- … and only then: the base listener is closed only by mainLoop's deferred function, and
    mainLoop leaves its loop only when both registration slots are empty or the base listener's
    Accept has failed -/
theorem base_closed_only_on_exit (w : MuxW) (l : Label) (hopen : w.baseOpen = true)
    (hclosed : (stepMux w l).baseOpen = false) : l = .exitA ∧ w.st.phase = .exiting := by
  cases l <;> simp only [stepMux] at hclosed
  case exitA =>
    split at hclosed
    · rename_i hp; exact ⟨rfl, hp⟩
    · rw [hopen] at hclosed; simp at hclosed
  all_goals (repeat' split at hclosed) <;> simp_all

theorem exit_only_when_idle_or_accept_failed (s : St) (l : Label)
    (h1 : s.phase = .running) (h2 : (step fixed s l).phase = .exiting) :
    ((step fixed s l).socks = none ∧ (step fixed s l).http = none) ∨ s.aloop = .done := by
  cases l <;> simp only [step, listen] at h2 ⊢
  all_goals (repeat' split at h2) <;> simp_all

/-- a listen on a RELEASED address (no map entry: never listened on, or its mux has run its
    deferred function) creates a fresh mux with a new, open base listener and makes the map
    point to it -/
theorem relisten_opens_fresh (wake : Bool) (m : MSt) (k : Kind) (key : Nat) (h : m.table key = none) :
    let m' := mstep wake m (.call k key true)
    m'.table key = some m.muxes.length ∧
    ∃ w, m'.muxes[m.muxes.length]? = some w ∧ w.key = key ∧ w.baseOpen = true ∧ w.st.subs = [] ∧ w.st.phase = .running := by
  simp [mstep, h]

/-- an observation about the code as it is (noticed, not part of the property: no connection is
    affected): mainLoop reaches its select before the first sub-listener is registered (the
    history `mgr lLS@a0 X0` of the harness); that sub-listener is closed; mainLoop's release steps
    do nothing — the base listener stays open and the address stays in the map — until one more
    connection is accepted: it finds no handler and is closed, mainLoop wakes, and the same
    release steps now close the base listener and delete the map entry -/
theorem D16_late_registration_observation :
    let late : List MLabel := [.call .socks 0 true, .capture 0, .register 0 .socks, .mux 0 (.closeSub 0)]
    let m := mrun false minit (late ++ releaseSched 0)
    let m2 := mrun false m ([.mux 0 (.baseAccept 7), .mux 0 .handToMain, .mux 0 (.readFail 7)] ++ releaseSched 0)
    (m.muxes.map (·.baseOpen)) = [true] ∧ m.table 0 = some 0 ∧ (m.muxes.map allClosed) = [true] ∧
    (m2.muxes.map (·.baseOpen)) = [false] ∧ m2.table 0 = none ∧ (m2.muxes.map (fun w => w.st.conn 7)) = [.closed] := by
  decide

/-- the hypothesis of `release_on_last_close` is an invariant of the hypothetical variant in
    which a registration wakes mainLoop — which is exactly what the code does not do -/
theorem capture_current_if_registration_woke (msched : List MLabel) (id : Nat) (w : MuxW)
    (h : (mrun true minit msched).muxes[id]? = some w) : CaptureCurrent w :=
  captureCurrent_wake msched id w h

end mgr

/-! ### non-vacuity: concrete instances -/
section examples
set_option maxRecDepth 20000 in
open Hy.Socks5 in
/-- a full user/pass negotiation + CONNECT to 1.2.3.4:80 with two pipelined bytes, delivered in
    awkward chunks (one of them empty): gate passed, upstream gets exactly the two bytes -/
example :
    run { authSet := true, auth := fun u p => decide (u = [byte 97] ∧ p = [byte 98]), disableUDP := false,
          dialOk := true, udpOk := true, localOk := true }
      [[byte 5], [byte 1, byte 2, byte 1], [], [byte 1, byte 97, byte 1, byte 98, byte 5, byte 1, byte 0, byte 1],
       [byte 1, byte 2, byte 3, byte 4, byte 0, byte 80, byte 200], [byte 201]] =
    [.write [byte 5, byte 2], .authCall [byte 97] [byte 98] true, .write [byte 1, byte 0],
     .hyTCP (ascii "1.2.3.4:80"), .write (simpleReply 0), .upstream [byte 200, byte 201], .close] := by decide

open Hy.Socks5 in
/-- only "no authentication" offered while credentials are configured: refused, nothing opened -/
example :
    run { authSet := true, auth := fun _ _ => true, disableUDP := false, dialOk := true, udpOk := true, localOk := true }
      [[byte 5, byte 1, byte 0, byte 5, byte 1, byte 0, byte 1, byte 1, byte 2, byte 3, byte 4, byte 0, byte 80]] =
    [.write [byte 5, byte 255], .close] := by decide

open Hy.HttpIn in
/-- "Basic YTpi" = a:b -/
example : credsOf (ascii "bAsIc YTpi") = some ([byte 97], [byte 98]) := by decide

open Hy.Mux in
example : (OneByte.reads [0, 0, 1, 0, 5] { b := byte 5, bRead := false, conn := [[byte 1], [], [byte 2, byte 3]] }).1 =
    [[], [], [byte 5], [], [byte 1]] := by decide

end examples

end Hy.Props.C18
