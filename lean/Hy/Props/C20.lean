/-
  C20 — Hole-punch demux diverts only punch/STUN packets.
  Property theorems only; helper lemmas live in Hy.Proofs.Punch.

  Model: Hy.Model.Punch (extras/realm/punch.go, punch_conn.go, the logic of stun.go around
  pion/stun, addrToAddrPort).  Every theorem about the codec is stated for an ARBITRARY hash
  function `H` whose digests are non-empty (`H (key ++ salt)` is sha256(key ‖ salt) in the
  code); `sha256_digest_nonempty` discharges that hypothesis for the executable SHA-256 the
  driver runs, and the `*_sha256` corollaries restate the main results for it.
  Quantified inputs: the packet / padding / salt bytes, the metadata strings, pion/stun's
  verdict on each packet (`StunView`), the source address, the attempt Go's map iteration tries
  first (`hint`), the registry's history, and the schedule of add / remove / recv / scan steps.
-/
import Hy.Proofs.Punch
import Hy.Proofs.PunchSrv
import Hy.Gen.Extras
set_option linter.unusedSimpArgs false
set_option linter.unusedVariables false
namespace Hy.Props.C20
open Hy Hy.Punch

/-! ### obligations on the regenerated constants (a changed constant fails here) -/

theorem const_salt : Gen.punchSaltLen = saltLen := by decide
theorem const_header : Gen.punchHeaderLen = headerLen ∧ headerLen = magic.length + 1 + nonceSize := by decide
theorem const_pad : Gen.MaxPunchPadding = maxPad := by decide
theorem const_window : Gen.punchMinWireLen = minWire ∧ Gen.punchMaxWireLen = maxWire ∧
    minWire = saltLen + headerLen ∧ maxWire = minWire + maxPad := by decide
theorem const_magic : Gen.punchMagicLen = magic.length ∧
    Gen.punchMagicBE = magic.foldl (fun acc b => acc * 256 + b.val) 0 := by decide
theorem const_types : Gen.PunchPacketHello = typeHello.val ∧ Gen.PunchPacketAck = typeAck.val := by decide
theorem const_meta : Gen.PunchNonceSize = nonceSize ∧ Gen.PunchObfsKeySize = keySize := by decide
theorem const_event_buffer : Gen.defaultPunchEventBuffer = defaultEventBuffer := by decide

/-- the executable SHA-256 satisfies the only hypothesis the codec theorems put on the hash -/
theorem sha256_digest_nonempty : ∀ x, 0 < (Sha256.hash x).length := by
  intro x; rw [Sha256.hash_length]; decide

/-- the executable SHA-256 reproduces the FIPS 180-4 example digests ("abc", "", the 448-bit
    two-block message); evaluated by the kernel in Hy.Crypto.Sha256, re-exported here so that the
    axiom audit covers them.  (The `sha` ops of the punchcodec stream compare it with crypto/sha256
    on random strings of 0..300 bytes on every run.) -/
theorem sha256_fips_vectors :
    Sha256.vals (Sha256.hash [97, 98, 99]) =
      [0xba, 0x78, 0x16, 0xbf, 0x8f, 0x01, 0xcf, 0xea, 0x41, 0x41, 0x40, 0xde, 0x5d, 0xae, 0x22, 0x23,
       0xb0, 0x03, 0x61, 0xa3, 0x96, 0x17, 0x7a, 0x9c, 0xb4, 0x10, 0xff, 0x61, 0xf2, 0x00, 0x15, 0xad] ∧
    Sha256.vals (Sha256.hash []) =
      [0xe3, 0xb0, 0xc4, 0x42, 0x98, 0xfc, 0x1c, 0x14, 0x9a, 0xfb, 0xf4, 0xc8, 0x99, 0x6f, 0xb9, 0x24,
       0x27, 0xae, 0x41, 0xe4, 0x64, 0x9b, 0x93, 0x4c, 0xa4, 0x95, 0x99, 0x1b, 0x78, 0x52, 0xb8, 0x55] ∧
    Sha256.vals (Sha256.hash Sha256.msg448) =
      [0x24, 0x8d, 0x6a, 0x61, 0xd2, 0x06, 0x38, 0xb8, 0xe5, 0xc0, 0x26, 0x93, 0x0c, 0x3e, 0x60, 0x39,
       0xa3, 0x3c, 0xe4, 0x59, 0x64, 0xff, 0x21, 0x67, 0xf6, 0xec, 0xed, 0xd4, 0x19, 0xdb, 0x06, 0xc1] :=
  ⟨Sha256.vector_abc, Sha256.vector_empty, Sha256.vector_448⟩

/-! ### codec -/

/-- a concrete valid metadata used by the examples: nonce "00…0" (32 hex digits), key "00…0" (64) -/
def exMeta : Meta := ⟨List.replicate 32 48, List.replicate 64 48⟩
theorem exMeta_ok : decodeMeta exMeta = .ok (List.replicate 16 0, List.replicate 32 0) := by decide

/-- decode ∘ encode = id: for every hash, type, metadata, padding of at most 1024 bytes and
    salt, EncodePunchPacket succeeds, produces 33 + |pad| bytes and DecodePunchPacket under the
    same metadata returns the type and the padding length. -/
theorem decode_encode (H : Bytes → Bytes) (hH : ∀ x, 0 < (H x).length) (t : Byte) (m : Meta)
    (nonce key pad salt : Bytes) (hm : decodeMeta m = .ok (nonce, key)) (ht : validType t = true)
    (hs : salt.length = 8) (hp : pad.length ≤ 1024) :
    ∃ pkt, encode H t m pad salt = .ok pkt ∧ pkt.length = 33 + pad.length ∧
      decode H pkt m = .ok (t, pad.length) :=
  decode_encode_aux H hH t m nonce key pad salt hm ht hs hp

example : ∃ pkt, encode Sha256.hash typeAck exMeta [1, 2, 3] [9, 8, 7, 6, 5, 4, 3, 2] = .ok pkt ∧
    pkt.length = 36 ∧ decode Sha256.hash pkt exMeta = .ok (typeAck, 3) :=
  decode_encode Sha256.hash sha256_digest_nonempty typeAck exMeta _ _ [1, 2, 3] [9, 8, 7, 6, 5, 4, 3, 2]
    exMeta_ok (by decide) (by decide) (by decide)

/-- what EncodePunchPacket produces (for valid input): salt, then header and padding XORed with the mask -/
theorem encode_wire (H : Bytes → Bytes) (hH : ∀ x, 0 < (H x).length) (t : Byte) (m : Meta)
    (nonce key pad salt : Bytes) (hm : decodeMeta m = .ok (nonce, key)) (ht : validType t = true) :
    encode H t m pad salt = .ok (wire H t nonce key pad salt) :=
  encode_eq H hH t m nonce key pad salt hm ht

/-- EXACT acceptance condition: a packet is accepted under metadata m with result (t, n) iff m is
    valid, the length is in the window, t is hello/ack, n is the length minus 33, and the 25 bytes
    after the salt are the header (magic, t, m's nonce) XORed with the mask of (m's key, the salt).
    In particular the first 33 bytes of an accepted packet are determined by salt, type and metadata. -/
theorem decode_accepts_iff (H : Bytes → Bytes) (hH : ∀ x, 0 < (H x).length) (pkt : Bytes) (m : Meta)
    (t : Byte) (n : Nat) :
    decode H pkt m = .ok (t, n) ↔
      ∃ nonce key, decodeMeta m = .ok (nonce, key) ∧ 33 ≤ pkt.length ∧ pkt.length ≤ 1057 ∧
        validType t = true ∧ n = pkt.length - 33 ∧
        (pkt.drop 8).take 25 = lxor (hdr t nonce) (stream (H (key ++ pkt.take 8)) 0 25) :=
  decode_ok_iff H hH pkt m t n

/-- the same key with a different nonce never decodes (no hash assumption needed) -/
theorem decode_other_nonce (H : Bytes → Bytes) (hH : ∀ x, 0 < (H x).length) (t : Byte)
    (nonce key pad salt : Bytes) (m' : Meta) (nonce' : Bytes)
    (hn : nonce.length = 16) (hs : salt.length = 8) (hp : pad.length ≤ 1024)
    (hm' : decodeMeta m' = .ok (nonce', key)) (hne : nonce' ≠ nonce) :
    decode H (wire H t nonce key pad salt) m' = .reject :=
  decode_other_nonce_aux H hH t nonce key pad salt m' nonce' hn hs hp hm' hne

example : decode Sha256.hash (wire Sha256.hash typeHello (List.replicate 16 1) (List.replicate 32 0) [] (List.replicate 8 5))
    exMeta = .reject :=
  decode_other_nonce Sha256.hash sha256_digest_nonempty typeHello (List.replicate 16 1) (List.replicate 32 0) []
    (List.replicate 8 5) exMeta (List.replicate 16 0) (by decide) (by decide) (by decide) exMeta_ok (by decide)

/-- decoding under ANOTHER valid metadata (nonce', key') succeeds, with type t', exactly when the
    XOR of the first 25 bytes of the two mask streams equals (0⁸, t ⊕ t', nonce ⊕ nonce') with t'
    a valid type: a 200-bit coincidence between sha256(key‖salt) and sha256(key'‖salt).
    (That this has probability ≈ 2⁻¹⁹² for key' ≠ key is the PRF assumption on SHA-256 — stated,
    not proved.) -/
theorem decode_other_key (H : Bytes → Bytes) (hH : ∀ x, 0 < (H x).length) (t : Byte)
    (nonce key pad salt : Bytes) (m' : Meta) (nonce' key' : Bytes)
    (hn : nonce.length = 16) (hs : salt.length = 8) (hp : pad.length ≤ 1024)
    (hm' : decodeMeta m' = .ok (nonce', key')) (t' : Byte) (n : Nat) :
    decode H (wire H t nonce key pad salt) m' = .ok (t', n) ↔
      validType t' = true ∧ n = pad.length ∧
      lxor (stream (H (key ++ salt)) 0 25) (stream (H (key' ++ salt)) 0 25)
        = List.replicate 8 0 ++ [bxor t t'] ++ lxor nonce nonce' :=
  decode_wire_iff H hH t nonce key pad salt m' nonce' key' hn hs hp hm' t' n

/-- the coincidence can happen for a bad hash: with a constant hash every key has the same mask,
    so a packet decodes under any key that carries the same nonce (non-vacuity of the ↔, and the
    reason the cross-key clause is reduced to the hash rather than proved) -/
example : decode (fun _ => [7]) (wire (fun _ => [7]) typeHello (List.replicate 16 0) (List.replicate 32 9) []
    (List.replicate 8 5)) exMeta = .ok (typeHello, 0) := by decide

/-- anything shorter than salt+header is rejected — in particular every truncation of a punch packet below 33 bytes -/
theorem truncated_rejected (H : Bytes → Bytes) (pkt : Bytes) (m : Meta) (h : pkt.length < 33) :
    decode H pkt m = .reject := decode_short H pkt m h

/-- anything longer than salt+header+1024 is rejected -/
theorem overlong_rejected (H : Bytes → Bytes) (pkt : Bytes) (m : Meta) (h : 1057 < pkt.length) :
    decode H pkt m = .reject := decode_long H pkt m h

/-- replacing any one byte of the masked magic or nonce (wire offsets 8..15, 17..32) of an encoded
    packet by a different value makes it undecodable under its own metadata -/
theorem flipped_header_byte_rejected (H : Bytes → Bytes) (hH : ∀ x, 0 < (H x).length) (t : Byte) (m : Meta)
    (nonce key pad salt : Bytes) (hm : decodeMeta m = .ok (nonce, key))
    (hs : salt.length = 8) (hp : pad.length ≤ 1024) (i : Nat) (hi : i < 25) (h8 : i ≠ 8) (b old : Byte)
    (hold : (wire H t nonce key pad salt)[8 + i]? = some old) (hb : b ≠ old) :
    decode H ((wire H t nonce key pad salt).set (8 + i) b) m = .reject := by
  apply decode_reject_of_not_ok H hH
  intro t' n' hd
  exact hb ((flipped_header_aux H hH t m nonce key pad salt hm hs hp i hi b old hold t' n' hd).1 h8)

/-- flipping any single bit anywhere in the 25 masked header bytes (type byte included) of an
    encoded packet makes it undecodable under its own metadata.  (A multi-bit change of the type
    byte can turn hello into ack: the type is not authenticated; see `type_byte_not_authenticated`.) -/
theorem flipped_header_bit_rejected (H : Bytes → Bytes) (hH : ∀ x, 0 < (H x).length) (t : Byte) (m : Meta)
    (nonce key pad salt : Bytes) (hm : decodeMeta m = .ok (nonce, key)) (ht : validType t = true)
    (hs : salt.length = 8) (hp : pad.length ≤ 1024) (i : Nat) (hi : i < 25) (k : Fin 8) (old : Byte)
    (hold : (wire H t nonce key pad salt)[8 + i]? = some old) :
    decode H ((wire H t nonce key pad salt).set (8 + i) (bxor old (byte (2 ^ k.val)))) m = .reject := by
  apply decode_reject_of_not_ok H hH
  intro t' n' hd
  have haux := flipped_header_aux H hH t m nonce key pad salt hm hs hp i hi _ old hold t' n' hd
  by_cases h8 : i = 8
  · have ht' := haux.2 h8
    have hv' : validType t' = true := by
      rw [decode_ok_iff H hH] at hd
      obtain ⟨_, _, _, _, _, hv, _⟩ := hd
      exact hv
    rw [bxor_swap_cancel] at ht'
    rw [ht', validType_flip t k ht] at hv'
    cases hv'
  · exact bit_flip_ne old k (haux.1 h8)

example : (wire (fun _ => [7]) typeHello (List.replicate 16 0) (List.replicate 32 0) [] (List.replicate 8 5))[8 + 3]?
    = some 75 := by decide

/-- the type byte is not authenticated: changing the masked type byte by hello ⊕ ack turns a hello into an ack -/
theorem type_byte_not_authenticated :
    decode (fun _ => [7]) ((wire (fun _ => [7]) typeHello (List.replicate 16 0) (List.replicate 32 0) []
      (List.replicate 8 5)).set 16 5) exMeta = .ok (typeAck, 0) := by decide

/-- DecodePunchPacket never panics: every byte string and every metadata give a value or an error -/
theorem decode_total (H : Bytes → Bytes) (hH : ∀ x, 0 < (H x).length) (pkt : Bytes) (m : Meta) :
    Res.NoPanic (decode H pkt m) := decode_noPanic H hH pkt m

/-- the hypothesis on the hash is needed: an empty digest is Go's `i % len(mask)` with len 0 -/
example : decode (fun _ => []) (List.replicate 33 0) exMeta = .panic := by decide

/-- EncodePunchPacket never panics -/
theorem encode_total (H : Bytes → Bytes) (hH : ∀ x, 0 < (H x).length) (t : Byte) (m : Meta)
    (pad salt : Bytes) : Res.NoPanic (encode H t m pad salt) := encode_noPanic H hH t m pad salt

/-! ### the reader -/

/-- divert_iff: one packet is withheld from the caller iff pion/stun's verdict makes it a binding
    success response with a usable mapped address, or its source is a usable UDP address and it
    decodes under the metadata of some attempt registered at that moment -/
theorem divert_iff (H : Bytes → Bytes) (hH : ∀ x, 0 < (H x).length) (r : Registry) (p : PktIn) :
    (∃ v, classify H r p = .ok v) ∧
    (classify H r p ≠ .ok .pass ↔
      ((decodeStun p.sv).isSome = true ∨
       ((addrToAddrPort p.src).isSome = true ∧ ∃ e ∈ r, ∃ t n, decode H p.data e.2 = .ok (t, n)))) := by
  refine ⟨classify_total H hH r p, ?_⟩
  rw [Ne, classify_pass_iff H hH r p, Classical.not_not]
  unfold diverts
  constructor
  · rintro (h | ⟨hs, e, he, hok⟩)
    · exact Or.inl h
    · obtain ⟨⟨t, n⟩, hd⟩ := (isOk_iff _).mp hok
      exact Or.inr ⟨hs, e, he, t, n, hd⟩
  · rintro (h | ⟨hs, e, he, t, n, hd⟩)
    · exact Or.inl h
    · exact Or.inr ⟨hs, e, he, by rw [hd]; rfl⟩

/-- a punch event names an attempt that is registered at that moment, under whose metadata the
    packet decodes to the reported type and padding length, and the packet's own source address —
    whatever entry the map iteration happened to reach first -/
theorem punch_event_sound (H : Bytes → Bytes) (hH : ∀ x, 0 < (H x).length) (r : Registry) (p : PktIn)
    (ev : PunchEvent) (h : classify H r p = .ok (.punch ev)) :
    ∃ m, (ev.id, m) ∈ r ∧ decode H p.data m = .ok (ev.type, ev.padLen) ∧
      addrToAddrPort p.src = some ev.src ∧ decodeStun p.sv = none := by
  rcases classify_spec H hH r p with ⟨a, _, h'⟩ | ⟨hs, ⟨_, h'⟩ | ⟨src, e, t, n, ha, he, hd, h'⟩⟩
  · rw [h'] at h; cases h
  · rw [h'] at h; cases h
  · rw [h'] at h
    injection h with h; injection h with h
    subst h
    exact ⟨e.2, he, hd, ha, hs⟩

/-- passthrough: whatever run of diverted packets precedes it, the first packet that is neither a
    STUN response nor (from a usable source) decodable under a currently registered attempt is
    what ReadFrom returns — its own bytes, its own source address; the registry is untouched -/
theorem passthrough (H : Bytes → Bytes) (hH : ∀ x, 0 < (H x).length) (c : Conn) (pre : List PktIn)
    (p : PktIn) (rest : List Input) (hpre : ∀ q ∈ pre, diverts H c.reg q) (hp : ¬ diverts H c.reg p) :
    ∃ c', readFrom H c (pre.map Input.pkt ++ .pkt p :: rest) = .ok (c', .pkt p.data p.src, pre.length + 1) ∧
      c'.reg = c.reg := by
  induction pre generalizing c with
  | nil =>
    refine ⟨c, ?_, rfl⟩
    simp [readFrom, (classify_pass_iff H hH c.reg p).mpr hp]
  | cons q qs ih =>
    obtain ⟨v, hv⟩ := classify_total H hH c.reg q
    have hq := hpre q (List.mem_cons_self ..)
    cases v with
    | pass => exact absurd hq ((classify_pass_iff H hH c.reg q).mp hv)
    | stun a =>
      obtain ⟨c', h1, h2⟩ := ih { c with stun := offer c.stun c.cap a }
        (fun x hx => hpre x (List.mem_cons_of_mem _ hx)) hp
      exact ⟨c', by simp [readFrom, hv, h1], h2⟩
    | punch ev =>
      obtain ⟨c', h1, h2⟩ := ih { c with events := offer c.events c.cap ev }
        (fun x hx => hpre x (List.mem_cons_of_mem _ hx)) hp
      exact ⟨c', by simp [readFrom, hv, h1], h2⟩

/-- a QUIC-like packet that no attempt decodes, behind a punch packet of a registered attempt -/
example : (match readFrom (fun _ => [7]) ⟨[([1], exMeta)], 1, [], []⟩
    [.pkt ⟨wire (fun _ => [7]) typeHello (List.replicate 16 0) (List.replicate 32 0) [] (List.replicate 8 5),
            ⟨true, [10, 0, 0, 1], 4000⟩, ⟨false, false, false, none, none, []⟩, []⟩,
     .pkt ⟨List.replicate 40 64, ⟨true, [10, 0, 0, 1], 4000⟩, ⟨false, false, false, none, none, []⟩, []⟩] with
    | .ok (c', r, k) => some (r, k, c'.events.length)
    | _ => none)
    = some (.pkt (List.replicate 40 64) ⟨true, [10, 0, 0, 1], 4000⟩, 2, 1) := by decide

/-- complete description of ReadFrom (converse of `passthrough` included): the packets consumed
    before the returned one are exactly a run of packets satisfying `diverts`; the call ends with
    the wrapped conn's error or with the first non-divertible packet, byte-identical with its
    source address; it never panics and never touches the registry -/
theorem read_spec (H : Bytes → Bytes) (hH : ∀ x, 0 < (H x).length) (ins : List Input) (c : Conn) :
    ∃ (pre : List PktIn) (rest : List Input) (c' : Conn),
      ins = pre.map Input.pkt ++ rest ∧ (∀ q ∈ pre, diverts H c.reg q) ∧
      c'.reg = c.reg ∧ c'.cap = c.cap ∧
      ((rest = [] ∧ readFrom H c ins = .ok (c', .err, pre.length)) ∨
       (∃ rest', rest = .err :: rest' ∧ readFrom H c ins = .ok (c', .err, pre.length + 1)) ∨
       (∃ p rest', rest = .pkt p :: rest' ∧ ¬ diverts H c.reg p ∧
          readFrom H c ins = .ok (c', .pkt p.data p.src, pre.length + 1))) :=
  readFrom_spec H hH ins c

/-- removal (registry level): after RemovePunchAttempt id, a packet that is not a STUN response and
    decodes under no OTHER registered attempt is handed to the caller -/
theorem removal (H : Bytes → Bytes) (hH : ∀ x, 0 < (H x).length) (r : Registry) (id : Id) (p : PktIn)
    (hs : decodeStun p.sv = none)
    (honly : ∀ e ∈ r, e.1 ≠ id → isOk (decode H p.data e.2) = false) :
    classify H (r.remove id) p = .ok .pass := by
  rw [classify_pass_iff H hH]
  rintro (h | ⟨_, e, he, hok⟩)
  · rw [hs] at h; cases h
  · have ⟨he1, he2⟩ := (mem_remove r id e).mp he
    rw [honly e he1 he2] at hok; cases hok

example : classify (fun _ => [7]) (Registry.remove [([1], exMeta)] [1])
    ⟨wire (fun _ => [7]) typeHello (List.replicate 16 0) (List.replicate 32 0) [] (List.replicate 8 5),
      ⟨true, [10, 0, 0, 1], 4000⟩, ⟨false, false, false, none, none, []⟩, []⟩ = .ok .pass := by decide

/-! ### registrations, removals and the reader as concurrently scheduled atomic steps -/

/-- for EVERY schedule of add / remove / recv / scan steps the conn's registry is exactly the map
    "id ↦ metadata of the last successful registration of id not followed by its removal" of the
    history (no lost or resurrected entry, no duplicate id), and nothing panics -/
theorem registry_refines (H : Bytes → Bytes) (hH : ∀ x, 0 < (H x).length) (n : Int) (sched : List Label) :
    let s := run H (Sys.init (Conn.new n)) sched
    (∀ id, s.conn.reg.get? id = absReg sched id) ∧ Uniq s.conn.reg ∧ s.panicked = false := by
  have h := run_inv H hH sched (Sys.init (Conn.new n)) (fun _ => none) (init_inv _ rfl)
  exact ⟨h.agree, h.uniq, h.nopanic⟩

/-- registry_atomic: in EVERY interleaving, the verdict of each scan — the packet received by the
    reader earlier (`recv`), classified now — is determined by the registrations and removals that
    precede the scan in the schedule, all of them and only them: the packet is withheld iff it is a
    STUN response or (usable source and) decodes under an attempt of `absReg pre`.  Steps between
    the packet's arrival and its scan count; steps after the scan cannot change the verdict. -/
theorem registry_atomic (H : Bytes → Bytes) (hH : ∀ x, 0 < (H x).length) (n : Int)
    (pre post : List Label) (p : PktIn)
    (hheld : (run H (Sys.init (Conn.new n)) pre).held = some p) :
    ∃ v more, (run H (Sys.init (Conn.new n)) (pre ++ .scan :: post)).log
        = (run H (Sys.init (Conn.new n)) pre).log ++ (p, v) :: more ∧
      (v = .pass ↔ ¬ divertsAbs H (absReg pre) p) := by
  have hinv := run_inv H hH pre (Sys.init (Conn.new n)) (fun _ => none) (init_inv _ rfl)
  obtain ⟨v, hlog, hv⟩ := scan_step H hH _ p hheld
  obtain ⟨more, hmore⟩ := log_grows H post (step H (run H (Sys.init (Conn.new n)) pre) .scan)
  refine ⟨v, more, ?_, ?_⟩
  · rw [run_append]
    show (run H (step H (run H (Sys.init (Conn.new n)) pre) .scan) post).log = _
    rw [hmore, hlog, List.append_assoc]
    rfl
  · rw [hv, diverts_iff_abs H _ _ p hinv.uniq hinv.agree]
    rfl

/-- a packet received while its attempt is registered but scanned after the removal is NOT diverted -/
example : (run (fun _ => [7]) (Sys.init (Conn.new 1))
    [.add [1] exMeta,
     .recv ⟨wire (fun _ => [7]) typeHello (List.replicate 16 0) (List.replicate 32 0) [] (List.replicate 8 5),
            ⟨true, [10, 0, 0, 1], 4000⟩, ⟨false, false, false, none, none, []⟩, []⟩,
     .remove [1], .scan]).log.map (·.2) = [.pass] := by decide

/-- removal (history level): once `remove id` has happened and `id` is not registered again, no
    scan — under any interleaving of the remaining steps — can see `id` registered -/
theorem removal_final (id : Id) (pre post : List Label) (h : NoAdd id post) :
    absReg (pre ++ .remove id :: post) id = none := absReg_after_remove id pre post h

/-- concurrent registration/removal around a stable set (what the `conc` experiment runs): under
    EVERY interleaving in which the writers only (re-)register stable attempts with their own
    metadata, register volatile attempts under non-stable ids and remove non-stable ids, every
    logged verdict satisfies: divertible under the stable set ⇒ withheld; withheld ⇒ divertible
    under stable ∪ volatile.  Nothing panics. -/
theorem conc_sandwich (H : Bytes → Bytes) (hH : ∀ x, 0 < (H x).length) (stable vol : Registry)
    (hu : Uniq stable) (cap : Nat) (sched : List Label) (hd : ∀ l ∈ sched, Disciplined stable vol l) :
    let s := run H (Sys.init ⟨stable, cap, [], []⟩) sched
    (∀ pv ∈ s.log, (diverts H stable pv.1 → pv.2 ≠ .pass) ∧ (pv.2 ≠ .pass → diverts H (stable ++ vol) pv.1)) ∧
    s.panicked = false := by
  have h := sandwich_run H hH stable vol hu sched (Sys.init ⟨stable, cap, [], []⟩) hd
    ⟨fun e he => he, fun e he => List.mem_append_left _ he, by simp [Sys.init], rfl⟩
  exact ⟨h.logged, h.nopanic⟩

example : Uniq [([1], exMeta)] ∧
    ∀ l ∈ [Label.add [2] exMeta, .remove [2], .add [1] exMeta, .scan], Disciplined [([1], exMeta)] [([2], exMeta)] l := by
  refine ⟨by simp [Uniq], ?_⟩
  intro l hl
  simp only [List.mem_cons, List.mem_nil_iff, or_false] at hl
  rcases hl with rfl | rfl | rfl | rfl <;> simp [Disciplined]

/-! ### the consumer of the STUN events (DiscoverWithDemux) -/

/-- stun_events_have_message: whatever packets are read, under whatever verdicts of pion/stun,
    every event on the STUN channel carries its parsed message (Go: `ev.Message != nil`), because
    decodeSTUNPacket emits an event only from a successfully parsed binding response.  This is the
    fact DiscoverWithDemux relies on when it evaluates `ev.Message.TransactionID`. -/
theorem stun_events_have_message (H : Bytes → Bytes) (hH : ∀ x, 0 < (H x).length) (c c' : Conn)
    (ins : List Input) (r : Ret) (k : Nat) (hc : ∀ e ∈ c.stun, e.message.isSome = true)
    (h : readFrom H c ins = .ok (c', r, k)) : ∀ e ∈ c'.stun, e.message.isSome = true :=
  readFrom_hasMsg H hH ins c c' r k hc h

/-- the same for every interleaving of add / remove / recv / scan steps, from a fresh conn -/
theorem stun_events_have_message_sched (H : Bytes → Bytes) (hH : ∀ x, 0 < (H x).length) (n : Int)
    (sched : List Label) : ∀ e ∈ (run H (Sys.init (Conn.new n)) sched).conn.stun, e.message.isSome = true :=
  run_hasMsg H hH sched _ (by intro e he; cases he)

/-- the consumer is total on such a channel: DiscoverWithDemux's event loop never dereferences a
    nil Message, leaves only message-carrying events behind and does not touch the registry —
    for every set of open transactions and every answer the reader may classify meanwhile -/
theorem discover_total (H : Bytes → Bytes) (hH : ∀ x, 0 < (H x).length) (c : Conn) (txs : List Bytes)
    (answer : Option PktIn) (hc : ∀ e ∈ c.stun, e.message.isSome = true) :
    ∃ c' r, discover H c txs answer = .ok (c', r) ∧ (∀ e ∈ c'.stun, e.message.isSome = true) ∧
      c'.reg = c.reg :=
  Hy.Punch.discover_total H hH c txs answer hc

/-- the hypothesis is what protects the consumer: an event with a nil Message (which the model's
    decodeSTUNPacket cannot produce) is a nil-pointer panic in the loop -/
example : discover (fun _ => [7]) ⟨[], 1, [], [⟨none, ([], 0)⟩]⟩ [[1, 2, 3]] none = .panic := by decide

example : discover (fun _ => [7]) ⟨[], 2, [], [⟨some [9], ([1, 1, 1, 1], 5)⟩, ⟨some [1, 2, 3], ([10, 0, 0, 1], 4000)⟩]⟩
    [[1, 2, 3]] none = .ok (⟨[], 2, [], []⟩, .addrs [([10, 0, 0, 1], 4000)]) := by decide

/-! ### ServerPuncher (extras/realm/server_punch.go): any number of concurrent Respond calls

  `srun H (Srv.init (Conn.new n)) sched` is the state after an arbitrary schedule of the labels of
  Hy.Model.PunchSrv: calls entering (`call k …` for any k), their lock regions and conn operations,
  tickers, events, timeouts, cancellations, the deferred removal, the conn's reader and the
  dispatch goroutine — in any interleaving. -/

/-- attempt_always_removed: for EVERY schedule and EVERY outcome (success, timeout, cancellation,
    duplicate, refused arguments, failed registration), when a Respond call has returned
    (a) the conn operations it performed are exactly: nothing — or one AddPunchAttempt followed by
        one RemovePunchAttempt of its id (the latter exactly for success / timeout / cancellation);
    (b) whatever is registered on the conn under its id belongs to ANOTHER call that is in progress
        now (a later attempt re-using the id) — never to the returned call. -/
theorem attempt_always_removed (H : Bytes → Bytes) (hH : ∀ x, 0 < (H x).length) (n : Int)
    (sched : List SLabel) (k : Nat) (o : Outcome)
    (hret : ((srun H (Srv.init (Conn.new n)) sched).procs k).pc = .returned o) :
    let s := srun H (Srv.init (Conn.new n)) sched
    opsOf k s.connOps = (if addedOutcome o then [⟨k, true, (s.procs k).id⟩, ⟨k, false, (s.procs k).id⟩] else []) ∧
    ∀ m, s.sys.conn.reg.get? (s.procs k).id = some m →
      ∃ k', k' ≠ k ∧ s.pmap (s.procs k).id = some k' ∧ onConn (s.procs k').pc = true ∧ (s.procs k').md = m := by
  have hinv := srv_init_run H hH n sched
  generalize srun H (Srv.init (Conn.new n)) sched = s at hret hinv ⊢
  obtain ⟨hown, hlogs, _⟩ := hinv
  dsimp only
  constructor
  · rw [hlogs.ops k]
    simp only [expectedOps, hret, wasRemoved, wasAdded]
    cases addedOutcome o <;> simp
  · intro m hm
    have hr := hown.reg (s.procs k).id
    rw [hm] at hr
    simp only [regOf] at hr
    cases hp : s.pmap (s.procs k).id with
    | none => rw [hp] at hr; cases hr
    | some k' =>
      rw [hp] at hr
      simp only [] at hr
      split at hr
      · rename_i hoc
        injection hr with hr
        refine ⟨k', ?_, rfl, hoc, hr.symm⟩
        intro e
        rw [e, hret] at hoc
        simp [onConn] at hoc
      · cases hr

/-- a call that times out: registered, then unregistered before it returns -/
def exTimeout : Srv := srun (fun _ => [7]) (Srv.init (Conn.new 1))
  [.call 0 [1] exMeta [([10, 0, 0, 1], 4000)] true, .reg 0, .connAdd 0, .timeout 0, .connRemove 0, .pmapDelete 0]
example : (exTimeout.procs 0).pc = .returned .timeout ∧ exTimeout.sys.conn.reg = [] ∧
    exTimeout.connOps = [⟨0, true, [1]⟩, ⟨0, false, [1]⟩] := by decide

/-- hence no stale diversion: once every call that was started has returned, the conn has no
    registered attempt at all, and every packet that is not a STUN response — in particular every
    punch packet of a finished attempt — is handed to QUIC -/
theorem no_stale_diversion (H : Bytes → Bytes) (hH : ∀ x, 0 < (H x).length) (n : Int) (sched : List SLabel)
    (hall : ∀ k, ((srun H (Srv.init (Conn.new n)) sched).procs k).pc = .idle ∨
      ∃ o, ((srun H (Srv.init (Conn.new n)) sched).procs k).pc = .returned o) :
    let s := srun H (Srv.init (Conn.new n)) sched
    s.sys.conn.reg = [] ∧ ∀ p : PktIn, decodeStun p.sv = none → classify H s.sys.conn.reg p = .ok .pass := by
  have hinv := srv_init_run H hH n sched
  generalize srun H (Srv.init (Conn.new n)) sched = s at hall hinv ⊢
  obtain ⟨hown, _, _⟩ := hinv
  dsimp only
  have hnil : s.sys.conn.reg = [] := by
    apply reg_nil_of_get?
    intro id
    rw [hown.reg id]
    simp only [regOf]
    cases hp : s.pmap id with
    | none => rfl
    | some k =>
      have hf := (hown.holds id k hp).2
      rcases hall k with h | ⟨o, h⟩ <;> (rw [h] at hf; simp [inFlight] at hf)
  refine ⟨hnil, ?_⟩
  intro p hs
  rw [hnil, classify_pass_iff H hH]
  rintro (h | ⟨_, e, he, _⟩)
  · rw [hs] at h; cases h
  · cases he

/-- registry_owned: at every moment, whatever the conn has registered under an id is the metadata of
    the one call that holds that id in the puncher's map and is between its AddPunchAttempt and its
    RemovePunchAttempt.  This is what makes the conn's "last add wins" map safe: no two calls ever
    operate on the same id at the same time. -/
theorem registry_owned (H : Bytes → Bytes) (hH : ∀ x, 0 < (H x).length) (n : Int) (sched : List SLabel)
    (id : Id) (m : Meta) :
    let s := srun H (Srv.init (Conn.new n)) sched
    s.sys.conn.reg.get? id = some m ↔
      ∃ k, s.pmap id = some k ∧ (s.procs k).id = id ∧ (s.procs k).md = m ∧ onConn (s.procs k).pc = true := by
  have hinv := srv_init_run H hH n sched
  generalize srun H (Srv.init (Conn.new n)) sched = s at hinv ⊢
  obtain ⟨hown, _, _⟩ := hinv
  dsimp only
  rw [hown.reg id]
  simp only [regOf]
  constructor
  · intro h
    cases hp : s.pmap id with
    | none => rw [hp] at h; cases h
    | some k =>
      rw [hp] at h
      simp only [] at h
      split at h
      · rename_i hoc
        injection h with h
        exact ⟨k, rfl, (hown.holds id k hp).1, h, hoc⟩
      · cases h
  · rintro ⟨k, hp, _, hm, hoc⟩
    rw [hp]
    simp [hoc, hm]

/-- duplicate_rejected_without_side_effect, the step: addAttempt's lock region on an id that is
    held refuses the call and changes NOTHING else — not the conn, not the puncher's map, not any
    other call, no packet is sent -/
theorem duplicate_rejected_without_side_effect (H : Bytes → Bytes) (s : Srv) (k k' : Nat)
    (hpc : (s.procs k).pc = .validated) (hheld : s.pmap (s.procs k).id = some k') :
    let s' := sstep H s (.reg k)
    (s'.procs k).pc = .returned .duplicate ∧ s'.sys = s.sys ∧ s'.pmap = s.pmap ∧ s'.sent = s.sent ∧
    s'.connOps = s.connOps ∧ s'.disp = s.disp ∧ ∀ j, j ≠ k → s'.procs j = s.procs j := by
  simp only [sstep, hpc, hheld, withPc]
  refine ⟨by simp [setProc], trivial, trivial, trivial, trivial, trivial, ?_⟩
  intro j hj
  simp [setProc, hj]

/-- …and the whole call: under every schedule, a call that returned "duplicate" has performed no
    operation on the conn and has sent nothing, while the holder's registration is intact
    (`registry_owned`) -/
theorem duplicate_call_touched_nothing (H : Bytes → Bytes) (hH : ∀ x, 0 < (H x).length) (n : Int)
    (sched : List SLabel) (k : Nat)
    (hret : ((srun H (Srv.init (Conn.new n)) sched).procs k).pc = .returned .duplicate) :
    let s := srun H (Srv.init (Conn.new n)) sched
    opsOf k s.connOps = [] ∧ ∀ x ∈ s.sent, x.k ≠ k := by
  have hinv := srv_init_run H hH n sched
  generalize srun H (Srv.init (Conn.new n)) sched = s at hret hinv ⊢
  obtain ⟨_, hlogs, _⟩ := hinv
  dsimp only
  constructor
  · rw [hlogs.ops k]
    simp [expectedOps, hret, wasRemoved, wasAdded, addedOutcome]
  · intro x hx e
    have := hlogs.sends x hx
    rw [e, hret] at this
    simp [wasAdded, addedOutcome] at this

/-- a second call with a live id and OTHER metadata is refused; the conn keeps the first call's metadata -/
def exDuplicate : Srv := srun (fun _ => [7]) (Srv.init (Conn.new 1))
  [.call 0 [1] exMeta [([10, 0, 0, 1], 4000)] true, .reg 0, .connAdd 0,
   .call 1 [1] ⟨List.replicate 32 49, List.replicate 64 48⟩ [([10, 0, 0, 2], 4000)] true, .reg 1, .connAdd 1]
example : (exDuplicate.procs 1).pc = .returned .duplicate ∧ exDuplicate.sys.conn.reg = [([1], exMeta)] ∧
    exDuplicate.sent.length = 1 := by decide

/-- responds_to_hello_only_for_registered: under every schedule, every ack a call has sent answers
    a packet the conn's reader classified as a punch event of that call's id, of type hello, whose
    (usable) source address is the ack's destination, and that packet decoded as a hello under the
    metadata of a call `k'` with that id that had been registered on the conn.  (`k'` is the sender
    itself whenever no two calls used the same id — next theorem.) -/
theorem responds_to_hello_only_for_registered (H : Bytes → Bytes) (hH : ∀ x, 0 < (H x).length) (n : Int)
    (sched : List SLabel) (x : Send)
    (hx : x ∈ (srun H (Srv.init (Conn.new n)) sched).sent) (ht : x.type = typeAck) :
    let s := srun H (Srv.init (Conn.new n)) sched
    ∃ p ev k', (p, Verdict.punch ev) ∈ s.sys.log ∧ ev.id = (s.procs x.k).id ∧ ev.type = typeHello ∧
      ev.src = x.dst ∧ addrToAddrPort p.src = some x.dst ∧
      (s.procs k').id = ev.id ∧ wasAdded (s.procs k').pc = true ∧
      decode H p.data (s.procs k').md = .ok (typeHello, ev.padLen) := by
  have hinv := srv_init_run H hH n sched
  generalize srun H (Srv.init (Conn.new n)) sched = s at hx hinv ⊢
  obtain ⟨_, _, hprov⟩ := hinv
  dsimp only
  obtain ⟨_, ev, hev, hid, hty, hsrc⟩ := hprov.acks x hx ht
  obtain ⟨p, hp⟩ := mem_emitted s ev hev
  obtain ⟨k', h1, h2, h3, h4⟩ := hprov.sound p ev hp
  exact ⟨p, ev, k', hp, hid, hty, hsrc, by rw [← hsrc]; exact h4, h1, h2, by rw [← hty]; exact h3⟩

/-- with attempt ids that are not re-used (the realm server draws them at random), the hello
    decoded under the metadata of the very call that sent the ack -/
theorem responds_to_own_hello (H : Bytes → Bytes) (hH : ∀ x, 0 < (H x).length) (n : Int)
    (sched : List SLabel) (x : Send)
    (hx : x ∈ (srun H (Srv.init (Conn.new n)) sched).sent) (ht : x.type = typeAck)
    (huniq : ∀ k1 k2, ((srun H (Srv.init (Conn.new n)) sched).procs k1).pc ≠ .idle →
      ((srun H (Srv.init (Conn.new n)) sched).procs k2).pc ≠ .idle →
      ((srun H (Srv.init (Conn.new n)) sched).procs k1).id = ((srun H (Srv.init (Conn.new n)) sched).procs k2).id →
      k1 = k2) :
    let s := srun H (Srv.init (Conn.new n)) sched
    ∃ p ev, (p, Verdict.punch ev) ∈ s.sys.log ∧ ev.src = x.dst ∧ addrToAddrPort p.src = some x.dst ∧
      decode H p.data (s.procs x.k).md = .ok (typeHello, ev.padLen) := by
  have hinv := srv_init_run H hH n sched
  have hmain := responds_to_hello_only_for_registered H hH n sched x hx ht
  generalize srun H (Srv.init (Conn.new n)) sched = s at hx hinv hmain huniq ⊢
  obtain ⟨_, _, hprov⟩ := hinv
  dsimp only at hmain ⊢
  obtain ⟨p, ev, k', hp, hid, _, hsrc, haddr, hid', hwa, hdec⟩ := hmain
  have hk : k' = x.k := huniq k' x.k (wasAdded_ne_idle hwa) (hprov.acks x hx ht).1 (by rw [hid', hid])
  rw [hk] at hdec
  exact ⟨p, ev, hp, hsrc, haddr, hdec⟩

/-- a hello arrives for a call in progress: one ack, to the packet's source; the call completes and unregisters -/
def exHello : Srv := srun (fun _ => [7]) (Srv.init (Conn.new 1))
  [.call 0 [1] exMeta [([10, 0, 0, 1], 4000)] true, .reg 0, .connAdd 0,
   .recv ⟨wire (fun _ => [7]) typeHello (List.replicate 16 0) (List.replicate 32 0) [] (List.replicate 8 5),
          ⟨true, [10, 0, 0, 9], 4001⟩, ⟨false, false, false, none, none, []⟩, []⟩,
   .scan, .dispTake, .dispLookup, .dispSend, .event 0, .connRemove 0, .pmapDelete 0]
example : exHello.sent.filter (·.type == typeAck) = [⟨0, typeAck, ([10, 0, 0, 9], 4001)⟩] ∧
    (exHello.procs 0).pc = .returned (.success ([10, 0, 0, 9], 4001) typeHello) ∧ exHello.sys.conn.reg = [] := by
  decide

/-- nothing in the composed system panics, under any schedule -/
theorem server_puncher_no_panic (H : Bytes → Bytes) (hH : ∀ x, 0 < (H x).length) (n : Int) (sched : List SLabel) :
    (srun H (Srv.init (Conn.new n)) sched).sys.panicked = false :=
  (srv_init_run H hH n sched).1.nopanic

/-! ### the same, for the SHA-256 the driver executes -/

theorem decode_total_sha256 (pkt : Bytes) (m : Meta) : Res.NoPanic (decode Sha256.hash pkt m) :=
  decode_total _ sha256_digest_nonempty pkt m

theorem decode_encode_sha256 (t : Byte) (m : Meta) (nonce key pad salt : Bytes)
    (hm : decodeMeta m = .ok (nonce, key)) (ht : validType t = true)
    (hs : salt.length = 8) (hp : pad.length ≤ 1024) :
    ∃ pkt, encode Sha256.hash t m pad salt = .ok pkt ∧ pkt.length = 33 + pad.length ∧
      decode Sha256.hash pkt m = .ok (t, pad.length) :=
  decode_encode _ sha256_digest_nonempty t m nonce key pad salt hm ht hs hp

theorem read_total_sha256 (ins : List Input) (c : Conn) :
    ∃ c' r k, readFrom Sha256.hash c ins = .ok (c', r, k) ∧ c'.reg = c.reg := by
  obtain ⟨pre, rest, c', _, _, hreg, _, h⟩ := read_spec _ sha256_digest_nonempty ins c
  rcases h with ⟨_, h⟩ | ⟨_, _, h⟩ | ⟨_, _, _, _, h⟩ <;> exact ⟨c', _, _, h, hreg⟩

end Hy.Props.C20
