/-
  C20 — Hole-punch demux diverts only punch/STUN packets.
  Property theorems only; helper lemmas live in Hy.Proofs.Punch.

  Model: Hy.Model.Punch (extras/realm/punch.go, punch_conn.go, the logic of stun.go around
  pion/stun, addrToAddrPort).  Every theorem about the codec is stated for an ARBITRARY hash
  function `H` whose digests are non-empty (`H (key ++ salt)` is sha256(key ‖ salt) in the
  code); `sha256_digest_nonempty` discharges that hypothesis for the executable SHA-256 the
  driver runs, and the `*_sha256` corollaries restate the main results for it.
  Quantified inputs: the packet / padding / salt bytes, the metadata strings, pion/stun's
  verdict on each packet (`StunView`), the source address, the attempt Go's map iteration tries
  first (`hint`), the registry's history, and the schedule of add / remove / recv / scan steps.
-/
import Hy.Proofs.Punch
import Hy.Gen.Extras
set_option linter.unusedSimpArgs false
set_option linter.unusedVariables false
namespace Hy.Props.C20
open Hy Hy.Punch

/-! ### obligations on the regenerated constants (a changed constant fails here) -/

theorem const_salt : Gen.punchSaltLen = saltLen := by decide
theorem const_header : Gen.punchHeaderLen = headerLen ∧ headerLen = magic.length + 1 + nonceSize := by decide
theorem const_pad : Gen.MaxPunchPadding = maxPad := by decide
theorem const_window : Gen.punchMinWireLen = minWire ∧ Gen.punchMaxWireLen = maxWire ∧
    minWire = saltLen + headerLen ∧ maxWire = minWire + maxPad := by decide
theorem const_magic : Gen.punchMagicLen = magic.length ∧
    Gen.punchMagicBE = magic.foldl (fun acc b => acc * 256 + b.val) 0 := by decide
theorem const_types : Gen.PunchPacketHello = typeHello.val ∧ Gen.PunchPacketAck = typeAck.val := by decide
theorem const_meta : Gen.PunchNonceSize = nonceSize ∧ Gen.PunchObfsKeySize = keySize := by decide
theorem const_event_buffer : Gen.defaultPunchEventBuffer = defaultEventBuffer := by decide

/-- the executable SHA-256 satisfies the only hypothesis the codec theorems put on the hash -/
theorem sha256_digest_nonempty : ∀ x, 0 < (Sha256.hash x).length := by
  intro x; rw [Sha256.hash_length]; decide

/-- the executable SHA-256 reproduces the FIPS 180-4 example digests ("abc", "", the 448-bit
    two-block message); evaluated by the kernel in Hy.Crypto.Sha256, re-exported here so that the
    axiom audit covers them.  (The `sha` ops of the punchcodec stream compare it with crypto/sha256
    on random strings of 0..300 bytes on every run.) -/
theorem sha256_fips_vectors :
    Sha256.vals (Sha256.hash [97, 98, 99]) =
      [0xba, 0x78, 0x16, 0xbf, 0x8f, 0x01, 0xcf, 0xea, 0x41, 0x41, 0x40, 0xde, 0x5d, 0xae, 0x22, 0x23,
       0xb0, 0x03, 0x61, 0xa3, 0x96, 0x17, 0x7a, 0x9c, 0xb4, 0x10, 0xff, 0x61, 0xf2, 0x00, 0x15, 0xad] ∧
    Sha256.vals (Sha256.hash []) =
      [0xe3, 0xb0, 0xc4, 0x42, 0x98, 0xfc, 0x1c, 0x14, 0x9a, 0xfb, 0xf4, 0xc8, 0x99, 0x6f, 0xb9, 0x24,
       0x27, 0xae, 0x41, 0xe4, 0x64, 0x9b, 0x93, 0x4c, 0xa4, 0x95, 0x99, 0x1b, 0x78, 0x52, 0xb8, 0x55] ∧
    Sha256.vals (Sha256.hash Sha256.msg448) =
      [0x24, 0x8d, 0x6a, 0x61, 0xd2, 0x06, 0x38, 0xb8, 0xe5, 0xc0, 0x26, 0x93, 0x0c, 0x3e, 0x60, 0x39,
       0xa3, 0x3c, 0xe4, 0x59, 0x64, 0xff, 0x21, 0x67, 0xf6, 0xec, 0xed, 0xd4, 0x19, 0xdb, 0x06, 0xc1] :=
  ⟨Sha256.vector_abc, Sha256.vector_empty, Sha256.vector_448⟩

/-! ### codec -/

/-- a concrete valid metadata used by the examples: nonce "00…0" (32 hex digits), key "00…0" (64) -/
def exMeta : Meta := ⟨List.replicate 32 48, List.replicate 64 48⟩
theorem exMeta_ok : decodeMeta exMeta = .ok (List.replicate 16 0, List.replicate 32 0) := by decide

/-- decode ∘ encode = id: for every hash, type, metadata, padding of at most 1024 bytes and
    salt, EncodePunchPacket succeeds, produces 33 + |pad| bytes and DecodePunchPacket under the
    same metadata returns the type and the padding length. -/
theorem decode_encode (H : Bytes → Bytes) (hH : ∀ x, 0 < (H x).length) (t : Byte) (m : Meta)
    (nonce key pad salt : Bytes) (hm : decodeMeta m = .ok (nonce, key)) (ht : validType t = true)
    (hs : salt.length = 8) (hp : pad.length ≤ 1024) :
    ∃ pkt, encode H t m pad salt = .ok pkt ∧ pkt.length = 33 + pad.length ∧
      decode H pkt m = .ok (t, pad.length) :=
  decode_encode_aux H hH t m nonce key pad salt hm ht hs hp

example : ∃ pkt, encode Sha256.hash typeAck exMeta [1, 2, 3] [9, 8, 7, 6, 5, 4, 3, 2] = .ok pkt ∧
    pkt.length = 36 ∧ decode Sha256.hash pkt exMeta = .ok (typeAck, 3) :=
  decode_encode Sha256.hash sha256_digest_nonempty typeAck exMeta _ _ [1, 2, 3] [9, 8, 7, 6, 5, 4, 3, 2]
    exMeta_ok (by decide) (by decide) (by decide)

/-- what EncodePunchPacket produces (for valid input): salt, then header and padding XORed with the mask -/
theorem encode_wire (H : Bytes → Bytes) (hH : ∀ x, 0 < (H x).length) (t : Byte) (m : Meta)
    (nonce key pad salt : Bytes) (hm : decodeMeta m = .ok (nonce, key)) (ht : validType t = true) :
    encode H t m pad salt = .ok (wire H t nonce key pad salt) :=
  encode_eq H hH t m nonce key pad salt hm ht

/-- EXACT acceptance condition: a packet is accepted under metadata m with result (t, n) iff m is
    valid, the length is in the window, t is hello/ack, n is the length minus 33, and the 25 bytes
    after the salt are the header (magic, t, m's nonce) XORed with the mask of (m's key, the salt).
    In particular the first 33 bytes of an accepted packet are determined by salt, type and metadata. -/
theorem decode_accepts_iff (H : Bytes → Bytes) (hH : ∀ x, 0 < (H x).length) (pkt : Bytes) (m : Meta)
    (t : Byte) (n : Nat) :
    decode H pkt m = .ok (t, n) ↔
      ∃ nonce key, decodeMeta m = .ok (nonce, key) ∧ 33 ≤ pkt.length ∧ pkt.length ≤ 1057 ∧
        validType t = true ∧ n = pkt.length - 33 ∧
        (pkt.drop 8).take 25 = lxor (hdr t nonce) (stream (H (key ++ pkt.take 8)) 0 25) :=
  decode_ok_iff H hH pkt m t n

/-- the same key with a different nonce never decodes (no hash assumption needed) -/
theorem decode_other_nonce (H : Bytes → Bytes) (hH : ∀ x, 0 < (H x).length) (t : Byte)
    (nonce key pad salt : Bytes) (m' : Meta) (nonce' : Bytes)
    (hn : nonce.length = 16) (hs : salt.length = 8) (hp : pad.length ≤ 1024)
    (hm' : decodeMeta m' = .ok (nonce', key)) (hne : nonce' ≠ nonce) :
    decode H (wire H t nonce key pad salt) m' = .reject :=
  decode_other_nonce_aux H hH t nonce key pad salt m' nonce' hn hs hp hm' hne

example : decode Sha256.hash (wire Sha256.hash typeHello (List.replicate 16 1) (List.replicate 32 0) [] (List.replicate 8 5))
    exMeta = .reject :=
  decode_other_nonce Sha256.hash sha256_digest_nonempty typeHello (List.replicate 16 1) (List.replicate 32 0) []
    (List.replicate 8 5) exMeta (List.replicate 16 0) (by decide) (by decide) (by decide) exMeta_ok (by decide)

/-- decoding under ANOTHER valid metadata (nonce', key') succeeds, with type t', exactly when the
    XOR of the first 25 bytes of the two mask streams equals (0⁸, t ⊕ t', nonce ⊕ nonce') with t'
    a valid type: a 200-bit coincidence between sha256(key‖salt) and sha256(key'‖salt).
    (That this has probability ≈ 2⁻¹⁹² for key' ≠ key is the PRF assumption on SHA-256 — stated,
    not proved.) -/
theorem decode_other_key (H : Bytes → Bytes) (hH : ∀ x, 0 < (H x).length) (t : Byte)
    (nonce key pad salt : Bytes) (m' : Meta) (nonce' key' : Bytes)
    (hn : nonce.length = 16) (hs : salt.length = 8) (hp : pad.length ≤ 1024)
    (hm' : decodeMeta m' = .ok (nonce', key')) (t' : Byte) (n : Nat) :
    decode H (wire H t nonce key pad salt) m' = .ok (t', n) ↔
      validType t' = true ∧ n = pad.length ∧
      lxor (stream (H (key ++ salt)) 0 25) (stream (H (key' ++ salt)) 0 25)
        = List.replicate 8 0 ++ [bxor t t'] ++ lxor nonce nonce' :=
  decode_wire_iff H hH t nonce key pad salt m' nonce' key' hn hs hp hm' t' n

/-- the coincidence can happen for a bad hash: with a constant hash every key has the same mask,
    so a packet decodes under any key that carries the same nonce (non-vacuity of the ↔, and the
    reason the cross-key clause is reduced to the hash rather than proved) -/
example : decode (fun _ => [7]) (wire (fun _ => [7]) typeHello (List.replicate 16 0) (List.replicate 32 9) []
    (List.replicate 8 5)) exMeta = .ok (typeHello, 0) := by decide

/-- anything shorter than salt+header is rejected — in particular every truncation of a punch packet below 33 bytes -/
theorem truncated_rejected (H : Bytes → Bytes) (pkt : Bytes) (m : Meta) (h : pkt.length < 33) :
    decode H pkt m = .reject := decode_short H pkt m h

/-- anything longer than salt+header+1024 is rejected -/
theorem overlong_rejected (H : Bytes → Bytes) (pkt : Bytes) (m : Meta) (h : 1057 < pkt.length) :
    decode H pkt m = .reject := decode_long H pkt m h

/-- replacing any one byte of the masked magic or nonce (wire offsets 8..15, 17..32) of an encoded
    packet by a different value makes it undecodable under its own metadata -/
theorem flipped_header_byte_rejected (H : Bytes → Bytes) (hH : ∀ x, 0 < (H x).length) (t : Byte) (m : Meta)
    (nonce key pad salt : Bytes) (hm : decodeMeta m = .ok (nonce, key))
    (hs : salt.length = 8) (hp : pad.length ≤ 1024) (i : Nat) (hi : i < 25) (h8 : i ≠ 8) (b old : Byte)
    (hold : (wire H t nonce key pad salt)[8 + i]? = some old) (hb : b ≠ old) :
    decode H ((wire H t nonce key pad salt).set (8 + i) b) m = .reject := by
  apply decode_reject_of_not_ok H hH
  intro t' n' hd
  exact hb ((flipped_header_aux H hH t m nonce key pad salt hm hs hp i hi b old hold t' n' hd).1 h8)

/-- flipping any single bit anywhere in the 25 masked header bytes (type byte included) of an
    encoded packet makes it undecodable under its own metadata.  (A multi-bit change of the type
    byte can turn hello into ack: the type is not authenticated; see `type_byte_not_authenticated`.) -/
theorem flipped_header_bit_rejected (H : Bytes → Bytes) (hH : ∀ x, 0 < (H x).length) (t : Byte) (m : Meta)
    (nonce key pad salt : Bytes) (hm : decodeMeta m = .ok (nonce, key)) (ht : validType t = true)
    (hs : salt.length = 8) (hp : pad.length ≤ 1024) (i : Nat) (hi : i < 25) (k : Fin 8) (old : Byte)
    (hold : (wire H t nonce key pad salt)[8 + i]? = some old) :
    decode H ((wire H t nonce key pad salt).set (8 + i) (bxor old (byte (2 ^ k.val)))) m = .reject := by
  apply decode_reject_of_not_ok H hH
  intro t' n' hd
  have haux := flipped_header_aux H hH t m nonce key pad salt hm hs hp i hi _ old hold t' n' hd
  by_cases h8 : i = 8
  · have ht' := haux.2 h8
    have hv' : validType t' = true := by
      rw [decode_ok_iff H hH] at hd
      obtain ⟨_, _, _, _, _, hv, _⟩ := hd
      exact hv
    rw [bxor_swap_cancel] at ht'
    rw [ht', validType_flip t k ht] at hv'
    cases hv'
  · exact bit_flip_ne old k (haux.1 h8)

example : (wire (fun _ => [7]) typeHello (List.replicate 16 0) (List.replicate 32 0) [] (List.replicate 8 5))[8 + 3]?
    = some 75 := by decide

/-- the type byte is not authenticated: changing the masked type byte by hello ⊕ ack turns a hello into an ack -/
theorem type_byte_not_authenticated :
    decode (fun _ => [7]) ((wire (fun _ => [7]) typeHello (List.replicate 16 0) (List.replicate 32 0) []
      (List.replicate 8 5)).set 16 5) exMeta = .ok (typeAck, 0) := by decide

/-- DecodePunchPacket never panics: every byte string and every metadata give a value or an error -/
theorem decode_total (H : Bytes → Bytes) (hH : ∀ x, 0 < (H x).length) (pkt : Bytes) (m : Meta) :
    Res.NoPanic (decode H pkt m) := decode_noPanic H hH pkt m

/-- the hypothesis on the hash is needed: an empty digest is Go's `i % len(mask)` with len 0 -/
example : decode (fun _ => []) (List.replicate 33 0) exMeta = .panic := by decide

/-- EncodePunchPacket never panics -/
theorem encode_total (H : Bytes → Bytes) (hH : ∀ x, 0 < (H x).length) (t : Byte) (m : Meta)
    (pad salt : Bytes) : Res.NoPanic (encode H t m pad salt) := encode_noPanic H hH t m pad salt

/-! ### the reader -/

/-- divert_iff: one packet is withheld from the caller iff pion/stun's verdict makes it a binding
    success response with a usable mapped address, or its source is a usable UDP address and it
    decodes under the metadata of some attempt registered at that moment -/
theorem divert_iff (H : Bytes → Bytes) (hH : ∀ x, 0 < (H x).length) (r : Registry) (p : PktIn) :
    (∃ v, classify H r p = .ok v) ∧
    (classify H r p ≠ .ok .pass ↔
      ((decodeStun p.sv).isSome = true ∨
       ((addrToAddrPort p.src).isSome = true ∧ ∃ e ∈ r, ∃ t n, decode H p.data e.2 = .ok (t, n)))) := by
  refine ⟨classify_total H hH r p, ?_⟩
  rw [Ne, classify_pass_iff H hH r p, Classical.not_not]
  unfold diverts
  constructor
  · rintro (h | ⟨hs, e, he, hok⟩)
    · exact Or.inl h
    · obtain ⟨⟨t, n⟩, hd⟩ := (isOk_iff _).mp hok
      exact Or.inr ⟨hs, e, he, t, n, hd⟩
  · rintro (h | ⟨hs, e, he, t, n, hd⟩)
    · exact Or.inl h
    · exact Or.inr ⟨hs, e, he, by rw [hd]; rfl⟩

/-- a punch event names an attempt that is registered at that moment, under whose metadata the
    packet decodes to the reported type and padding length, and the packet's own source address —
    whatever entry the map iteration happened to reach first -/
theorem punch_event_sound (H : Bytes → Bytes) (hH : ∀ x, 0 < (H x).length) (r : Registry) (p : PktIn)
    (ev : PunchEvent) (h : classify H r p = .ok (.punch ev)) :
    ∃ m, (ev.id, m) ∈ r ∧ decode H p.data m = .ok (ev.type, ev.padLen) ∧
      addrToAddrPort p.src = some ev.src ∧ decodeStun p.sv = none := by
  rcases classify_spec H hH r p with ⟨a, _, h'⟩ | ⟨hs, ⟨_, h'⟩ | ⟨src, e, t, n, ha, he, hd, h'⟩⟩
  · rw [h'] at h; cases h
  · rw [h'] at h; cases h
  · rw [h'] at h
    injection h with h; injection h with h
    subst h
    exact ⟨e.2, he, hd, ha, hs⟩

/-- passthrough: whatever run of diverted packets precedes it, the first packet that is neither a
    STUN response nor (from a usable source) decodable under a currently registered attempt is
    what ReadFrom returns — its own bytes, its own source address; the registry is untouched -/
theorem passthrough (H : Bytes → Bytes) (hH : ∀ x, 0 < (H x).length) (c : Conn) (pre : List PktIn)
    (p : PktIn) (rest : List Input) (hpre : ∀ q ∈ pre, diverts H c.reg q) (hp : ¬ diverts H c.reg p) :
    ∃ c', readFrom H c (pre.map Input.pkt ++ .pkt p :: rest) = .ok (c', .pkt p.data p.src, pre.length + 1) ∧
      c'.reg = c.reg := by
  induction pre generalizing c with
  | nil =>
    refine ⟨c, ?_, rfl⟩
    simp [readFrom, (classify_pass_iff H hH c.reg p).mpr hp]
  | cons q qs ih =>
    obtain ⟨v, hv⟩ := classify_total H hH c.reg q
    have hq := hpre q (List.mem_cons_self ..)
    cases v with
    | pass => exact absurd hq ((classify_pass_iff H hH c.reg q).mp hv)
    | stun a =>
      obtain ⟨c', h1, h2⟩ := ih { c with stun := offer c.stun c.cap a }
        (fun x hx => hpre x (List.mem_cons_of_mem _ hx)) hp
      exact ⟨c', by simp [readFrom, hv, h1], h2⟩
    | punch ev =>
      obtain ⟨c', h1, h2⟩ := ih { c with events := offer c.events c.cap ev }
        (fun x hx => hpre x (List.mem_cons_of_mem _ hx)) hp
      exact ⟨c', by simp [readFrom, hv, h1], h2⟩

/-- a QUIC-like packet that no attempt decodes, behind a punch packet of a registered attempt -/
example : (match readFrom (fun _ => [7]) ⟨[([1], exMeta)], 1, [], []⟩
    [.pkt ⟨wire (fun _ => [7]) typeHello (List.replicate 16 0) (List.replicate 32 0) [] (List.replicate 8 5),
            ⟨true, [10, 0, 0, 1], 4000⟩, ⟨false, false, false, none, none, []⟩, []⟩,
     .pkt ⟨List.replicate 40 64, ⟨true, [10, 0, 0, 1], 4000⟩, ⟨false, false, false, none, none, []⟩, []⟩] with
    | .ok (c', r, k) => some (r, k, c'.events.length)
    | _ => none)
    = some (.pkt (List.replicate 40 64) ⟨true, [10, 0, 0, 1], 4000⟩, 2, 1) := by decide

/-- complete description of ReadFrom (converse of `passthrough` included): the packets consumed
    before the returned one are exactly a run of packets satisfying `diverts`; the call ends with
    the wrapped conn's error or with the first non-divertible packet, byte-identical with its
    source address; it never panics and never touches the registry -/
theorem read_spec (H : Bytes → Bytes) (hH : ∀ x, 0 < (H x).length) (ins : List Input) (c : Conn) :
    ∃ (pre : List PktIn) (rest : List Input) (c' : Conn),
      ins = pre.map Input.pkt ++ rest ∧ (∀ q ∈ pre, diverts H c.reg q) ∧
      c'.reg = c.reg ∧ c'.cap = c.cap ∧
      ((rest = [] ∧ readFrom H c ins = .ok (c', .err, pre.length)) ∨
       (∃ rest', rest = .err :: rest' ∧ readFrom H c ins = .ok (c', .err, pre.length + 1)) ∨
       (∃ p rest', rest = .pkt p :: rest' ∧ ¬ diverts H c.reg p ∧
          readFrom H c ins = .ok (c', .pkt p.data p.src, pre.length + 1))) :=
  readFrom_spec H hH ins c

/-- removal (registry level): after RemovePunchAttempt id, a packet that is not a STUN response and
    decodes under no OTHER registered attempt is handed to the caller -/
theorem removal (H : Bytes → Bytes) (hH : ∀ x, 0 < (H x).length) (r : Registry) (id : Id) (p : PktIn)
    (hs : decodeStun p.sv = none)
    (honly : ∀ e ∈ r, e.1 ≠ id → isOk (decode H p.data e.2) = false) :
    classify H (r.remove id) p = .ok .pass := by
  rw [classify_pass_iff H hH]
  rintro (h | ⟨_, e, he, hok⟩)
  · rw [hs] at h; cases h
  · have ⟨he1, he2⟩ := (mem_remove r id e).mp he
    rw [honly e he1 he2] at hok; cases hok

example : classify (fun _ => [7]) (Registry.remove [([1], exMeta)] [1])
    ⟨wire (fun _ => [7]) typeHello (List.replicate 16 0) (List.replicate 32 0) [] (List.replicate 8 5),
      ⟨true, [10, 0, 0, 1], 4000⟩, ⟨false, false, false, none, none, []⟩, []⟩ = .ok .pass := by decide

/-! ### registrations, removals and the reader as concurrently scheduled atomic steps -/

/-- for EVERY schedule of add / remove / recv / scan steps the conn's registry is exactly the map
    "id ↦ metadata of the last successful registration of id not followed by its removal" of the
    history (no lost or resurrected entry, no duplicate id), and nothing panics -/
theorem registry_refines (H : Bytes → Bytes) (hH : ∀ x, 0 < (H x).length) (n : Int) (sched : List Label) :
    let s := run H (Sys.init (Conn.new n)) sched
    (∀ id, s.conn.reg.get? id = absReg sched id) ∧ Uniq s.conn.reg ∧ s.panicked = false := by
  have h := run_inv H hH sched (Sys.init (Conn.new n)) (fun _ => none) (init_inv _ rfl)
  exact ⟨h.agree, h.uniq, h.nopanic⟩

/-- registry_atomic: in EVERY interleaving, the verdict of each scan — the packet received by the
    reader earlier (`recv`), classified now — is determined by the registrations and removals that
    precede the scan in the schedule, all of them and only them: the packet is withheld iff it is a
    STUN response or (usable source and) decodes under an attempt of `absReg pre`.  Steps between
    the packet's arrival and its scan count; steps after the scan cannot change the verdict. -/
theorem registry_atomic (H : Bytes → Bytes) (hH : ∀ x, 0 < (H x).length) (n : Int)
    (pre post : List Label) (p : PktIn)
    (hheld : (run H (Sys.init (Conn.new n)) pre).held = some p) :
    ∃ v more, (run H (Sys.init (Conn.new n)) (pre ++ .scan :: post)).log
        = (run H (Sys.init (Conn.new n)) pre).log ++ (p, v) :: more ∧
      (v = .pass ↔ ¬ divertsAbs H (absReg pre) p) := by
  have hinv := run_inv H hH pre (Sys.init (Conn.new n)) (fun _ => none) (init_inv _ rfl)
  obtain ⟨v, hlog, hv⟩ := scan_step H hH _ p hheld
  obtain ⟨more, hmore⟩ := log_grows H post (step H (run H (Sys.init (Conn.new n)) pre) .scan)
  refine ⟨v, more, ?_, ?_⟩
  · rw [run_append]
    show (run H (step H (run H (Sys.init (Conn.new n)) pre) .scan) post).log = _
    rw [hmore, hlog, List.append_assoc]
    rfl
  · rw [hv, diverts_iff_abs H _ _ p hinv.uniq hinv.agree]
    rfl

/-- a packet received while its attempt is registered but scanned after the removal is NOT diverted -/
example : (run (fun _ => [7]) (Sys.init (Conn.new 1))
    [.add [1] exMeta,
     .recv ⟨wire (fun _ => [7]) typeHello (List.replicate 16 0) (List.replicate 32 0) [] (List.replicate 8 5),
            ⟨true, [10, 0, 0, 1], 4000⟩, ⟨false, false, false, none, none, []⟩, []⟩,
     .remove [1], .scan]).log.map (·.2) = [.pass] := by decide

/-- removal (history level): once `remove id` has happened and `id` is not registered again, no
    scan — under any interleaving of the remaining steps — can see `id` registered -/
theorem removal_final (id : Id) (pre post : List Label) (h : NoAdd id post) :
    absReg (pre ++ .remove id :: post) id = none := absReg_after_remove id pre post h

/-- concurrent registration/removal around a stable set (what the `conc` experiment runs): under
    EVERY interleaving in which the writers only (re-)register stable attempts with their own
    metadata, register volatile attempts under non-stable ids and remove non-stable ids, every
    logged verdict satisfies: divertible under the stable set ⇒ withheld; withheld ⇒ divertible
    under stable ∪ volatile.  Nothing panics. -/
theorem conc_sandwich (H : Bytes → Bytes) (hH : ∀ x, 0 < (H x).length) (stable vol : Registry)
    (hu : Uniq stable) (cap : Nat) (sched : List Label) (hd : ∀ l ∈ sched, Disciplined stable vol l) :
    let s := run H (Sys.init ⟨stable, cap, [], []⟩) sched
    (∀ pv ∈ s.log, (diverts H stable pv.1 → pv.2 ≠ .pass) ∧ (pv.2 ≠ .pass → diverts H (stable ++ vol) pv.1)) ∧
    s.panicked = false := by
  have h := sandwich_run H hH stable vol hu sched (Sys.init ⟨stable, cap, [], []⟩) hd
    ⟨fun e he => he, fun e he => List.mem_append_left _ he, by simp [Sys.init], rfl⟩
  exact ⟨h.logged, h.nopanic⟩

example : Uniq [([1], exMeta)] ∧
    ∀ l ∈ [Label.add [2] exMeta, .remove [2], .add [1] exMeta, .scan], Disciplined [([1], exMeta)] [([2], exMeta)] l := by
  refine ⟨by simp [Uniq], ?_⟩
  intro l hl
  simp only [List.mem_cons, List.mem_nil_iff, or_false] at hl
  rcases hl with rfl | rfl | rfl | rfl <;> simp [Disciplined]

/-! ### the consumer of the STUN events (DiscoverWithDemux) -/

/-- stun_events_have_message: whatever packets are read, under whatever verdicts of pion/stun,
    every event on the STUN channel carries its parsed message (Go: `ev.Message != nil`), because
    decodeSTUNPacket emits an event only from a successfully parsed binding response.  This is the
    fact DiscoverWithDemux relies on when it evaluates `ev.Message.TransactionID`. -/
theorem stun_events_have_message (H : Bytes → Bytes) (hH : ∀ x, 0 < (H x).length) (c c' : Conn)
    (ins : List Input) (r : Ret) (k : Nat) (hc : ∀ e ∈ c.stun, e.message.isSome = true)
    (h : readFrom H c ins = .ok (c', r, k)) : ∀ e ∈ c'.stun, e.message.isSome = true :=
  readFrom_hasMsg H hH ins c c' r k hc h

/-- the same for every interleaving of add / remove / recv / scan steps, from a fresh conn -/
theorem stun_events_have_message_sched (H : Bytes → Bytes) (hH : ∀ x, 0 < (H x).length) (n : Int)
    (sched : List Label) : ∀ e ∈ (run H (Sys.init (Conn.new n)) sched).conn.stun, e.message.isSome = true :=
  run_hasMsg H hH sched _ (by intro e he; cases he)

/-- the consumer is total on such a channel: DiscoverWithDemux's event loop never dereferences a
    nil Message, leaves only message-carrying events behind and does not touch the registry —
    for every set of open transactions and every answer the reader may classify meanwhile -/
theorem discover_total (H : Bytes → Bytes) (hH : ∀ x, 0 < (H x).length) (c : Conn) (txs : List Bytes)
    (answer : Option PktIn) (hc : ∀ e ∈ c.stun, e.message.isSome = true) :
    ∃ c' r, discover H c txs answer = .ok (c', r) ∧ (∀ e ∈ c'.stun, e.message.isSome = true) ∧
      c'.reg = c.reg :=
  Hy.Punch.discover_total H hH c txs answer hc

/-- the hypothesis is what protects the consumer: an event with a nil Message (which the model's
    decodeSTUNPacket cannot produce) is a nil-pointer panic in the loop -/
example : discover (fun _ => [7]) ⟨[], 1, [], [⟨none, ([], 0)⟩]⟩ [[1, 2, 3]] none = .panic := by decide

example : discover (fun _ => [7]) ⟨[], 2, [], [⟨some [9], ([1, 1, 1, 1], 5)⟩, ⟨some [1, 2, 3], ([10, 0, 0, 1], 4000)⟩]⟩
    [[1, 2, 3]] none = .ok (⟨[], 2, [], []⟩, .addrs [([10, 0, 0, 1], 4000)]) := by decide

/-! ### the same, for the SHA-256 the driver executes -/

theorem decode_total_sha256 (pkt : Bytes) (m : Meta) : Res.NoPanic (decode Sha256.hash pkt m) :=
  decode_total _ sha256_digest_nonempty pkt m

theorem decode_encode_sha256 (t : Byte) (m : Meta) (nonce key pad salt : Bytes)
    (hm : decodeMeta m = .ok (nonce, key)) (ht : validType t = true)
    (hs : salt.length = 8) (hp : pad.length ≤ 1024) :
    ∃ pkt, encode Sha256.hash t m pad salt = .ok pkt ∧ pkt.length = 33 + pad.length ∧
      decode Sha256.hash pkt m = .ok (t, pad.length) :=
  decode_encode _ sha256_digest_nonempty t m nonce key pad salt hm ht hs hp

theorem read_total_sha256 (ins : List Input) (c : Conn) :
    ∃ c' r k, readFrom Sha256.hash c ins = .ok (c', r, k) ∧ c'.reg = c.reg := by
  obtain ⟨pre, rest, c', _, _, hreg, _, h⟩ := read_spec _ sha256_digest_nonempty ins c
  rcases h with ⟨_, h⟩ | ⟨_, _, h⟩ | ⟨_, _, _, _, h⟩ <;> exact ⟨c', _, _, h, hreg⟩

end Hy.Props.C20
