/-
  C13 — Salamander is transparent, spec-exact, and drops junk.
  Property theorems only; helper lemmas live in Hy.Proofs.Salamander, the kernel-checked
  BLAKE2b known answers in Hy.Proofs.Blake2bKAT.

  Model: Hy.Model.Salamander (Obfuscate / Deobfuscate / the PSK gate of
  extras/obfs/salamander.go; ReadFrom / WriteTo of extras/obfs/conn.go with their
  2048-byte buffers).  Every theorem except the `wire_format*` group is proved for an
  ARBITRARY hash function `H`; `wire_format*` instantiate it with the Lean BLAKE2b-256.

  Quantification: every key of ≥ 4 bytes, every salt of 8 bytes, every payload of 1..2040
  bytes, every reader buffer that holds the payload, every sequence of incoming datagrams
  (junk and valid packets in any interleaving), every schedule of writers, readers and the
  network on one socket (atomic steps = the wrapper's lock regions).
  Outside the property and only described (`above_2040_*`, `empty_datagram_*`,
  `small_buffer_drops`): payloads over 2040 bytes, 0-byte datagrams, reader buffers
  smaller than the packet.
-/
import Hy.Proofs.Salamander
import Hy.Proofs.Blake2bKAT
set_option linter.unusedSimpArgs false
set_option linter.unusedVariables false
namespace Hy.Props.C13
open Hy Hy.Salamander

/-! ### obligations on the regenerated constants (a changed constant fails here) -/
theorem const_salt_len : Gen.smSaltLen = 8 := by decide
theorem const_key_len : Gen.smKeyLen = 32 := by decide
theorem const_psk_min : Gen.smPSKMinLen = 4 := by decide
theorem const_udp_buffer : Gen.udpBufferSize = 2048 := by decide
/-- the largest payload that fits both buffers is 2040 = udpBufferSize − smSaltLen -/
theorem const_max_payload : Gen.udpBufferSize - Gen.smSaltLen = 2040 := by decide

/-! ### why one WriteTo and one ReadFrom iteration may be taken as atomic against each other

  The wrapper runs Obfuscate under `writeMutex` and Deobfuscate under `readMutex` — two
  DIFFERENT mutexes, so a writer and a reader do run at the same time — and both derive the
  packet key through the obfuscator's single scratch buffer `keyInput` (PSK ‖ salt slot:
  `copy(keyInput[len(PSK):], salt); Sum256(keyInput)`).  Without a lock of its own a WriteTo
  could overwrite the salt slot between a concurrent ReadFrom's copy and the end of its hash
  (and vice versa): the packet would be XORed with the keystream of another salt.  Hence BOTH
  directions must hold the obfuscator's own mutex `lk` around the key derivation; that is
  what makes the `send` and `recv` steps of `concurrent_roundtrip` atomic.  The obligation
  below pins it on the regenerated go/ast facts (harness/extras/verifh/c13_facts.go): exactly
  one method touches `keyInput`, Obfuscate and Deobfuscate each use it once, inside a
  top-level `o.lk.Lock() … o.lk.Unlock()` region, never outside, and nobody else uses it.
  The harness op `duplex` (a receive loop against a send loop on one socket, every packet
  spec-checked in both directions) is the dynamic counterpart. -/
theorem key_scratch_buffer_locked_in_both_directions :
    Gen.smKeyInputMethods = 1 ∧ Gen.smOtherKeyUsers = 0 ∧
    Gen.smObfuscateKeyUsesLocked = 1 ∧ Gen.smObfuscateKeyUsesUnlocked = 0 ∧ Gen.smObfuscateLockNested = 0 ∧
    Gen.smDeobfuscateKeyUsesLocked = 1 ∧ Gen.smDeobfuscateKeyUsesUnlocked = 0 ∧ Gen.smDeobfuscateLockNested = 0 := by
  decide

/-! ### the Lean BLAKE2b is BLAKE2b (kernel-evaluated known answers) and is 32 bytes long -/
theorem blake2b_rfc7693_abc : toHex (Blake2b.hash 64 (bytesOfString "abc")) =
    "ba80a53f981c4d0d6a2797b69f12f6e94c212f14685ac4b74b12bb6fdbffa2d17d87c5392aab792dc252d5de4533cc9518d38aa8dbf1925ab92386edd4009923" :=
  Blake2b.kat_rfc7693_abc

theorem blake2b256_abc : toHex (blake2b256 (bytesOfString "abc")) =
    "bddd813c634239723171ef3fee98579b94964e3bb1cb3e427262c8c068d52319" :=
  Blake2b.kat_256_abc

theorem blake2b256_is_32_bytes (x : Bytes) : (blake2b256 x).length = 32 := blake2b256_length x

/-! ### psk_min: keys shorter than 4 bytes are refused, all others accepted -/
theorem psk_min (psk : Bytes) : accepts psk = true ↔ 4 ≤ psk.length := by
  simp only [accepts, cPsk]
  simp

theorem psk_short_refused (psk : Bytes) (h : psk.length < 4) : accepts psk = false := by
  have := (psk_min psk)
  cases ha : accepts psk with
  | false => rfl
  | true => have := this.mp ha; omega

example : accepts [1, 2, 3] = false ∧ accepts [1, 2, 3, 4] = true := by decide

/-! ### roundtrip — for an arbitrary hash function -/

/-- Obfuscate then Deobfuscate with any buffers that are large enough gives the payload
    back, whatever the hash function is. -/
theorem roundtrip (H : Bytes → Bytes) (psk salt p : Bytes) (outCap cap : Nat)
    (hk : 4 ≤ psk.length) (hs : salt.length = 8) (hp : 1 ≤ p.length)
    (ho : p.length + 8 ≤ outCap) (hc : p.length ≤ cap) :
    accepts psk = true ∧
    deobfuscate H psk (obfuscate H psk salt p outCap) cap = some p := by
  refine ⟨(psk_min psk).mpr hk, ?_⟩
  rw [obfuscate_fits H psk salt p outCap ho]
  exact deobfuscate_wire H psk salt p cap hs hp hc

example : (4 ≤ ([1, 2, 3, 4] : Bytes).length) ∧ ([0, 0, 0, 0, 0, 0, 0, 9] : Bytes).length = 8 ∧
    1 ≤ ([7] : Bytes).length ∧ ([7] : Bytes).length + 8 ≤ 2048 ∧ ([7] : Bytes).length ≤ 1 := by decide

/-- Through the wrapper: what WriteTo of one socket puts on the wire, ReadFrom of a socket
    with the same key returns unchanged — payload, byte count |p|, sender address, no
    error — for every payload of 1..2040 bytes and every reader buffer that holds it;
    the datagrams queued behind it are untouched. -/
theorem wrapper_roundtrip (H : Bytes → Bytes) (psk salt p : Bytes) (addr cap : Nat) (rest : List Inc)
    (hk : 4 ≤ psk.length) (hs : salt.length = 8) (hp : 1 ≤ p.length) (hp' : p.length ≤ 2040)
    (hc : p.length ≤ cap) :
    readFrom H psk cap ({ data := (writeTo H psk salt p false).wire, addr := addr, err := false } :: rest)
      = some ({ payload := p, n := p.length, addr := addr, err := false }, rest) := by
  unfold readFrom
  rw [readStep_sent H psk salt p addr cap hs hp hp' hc]

/-- non-vacuity at the upper boundary: a 2040-byte payload meets the hypotheses -/
example : 1 ≤ (List.replicate 2040 (0 : Byte)).length ∧ (List.replicate 2040 (0 : Byte)).length ≤ 2040 := by
  simp only [List.length_replicate]; omega

/-! ### wire format and length -/

/-- the datagram handed to the inner socket is the 8 salt bytes followed by the payload
    XORed with BLAKE2b-256(key ‖ salt), key index mod 32 -/
theorem wire_format (psk salt p : Bytes) (e : Bool) (hp : p.length ≤ 2040) :
    (writeTo blake2b256 psk salt p e).wire = salt ++ xorAt (blake2b256 (psk ++ salt)) 0 p :=
  writeTo_wire blake2b256 psk salt p e hp

/-- … its first 8 bytes are the salt … -/
theorem wire_format_salt (psk salt p : Bytes) (e : Bool) (hs : salt.length = 8) (hp : p.length ≤ 2040) :
    ((writeTo blake2b256 psk salt p e).wire).take 8 = salt := by
  rw [wire_format psk salt p e hp, ← hs]; simp

/-- … and byte 8+i is payload[i] XOR hash[i mod 32], where hash = BLAKE2b-256(key ‖ salt)
    (PROTOCOL.md: `payload[i] ^= hash[i % 32]`) -/
theorem wire_format_payload (psk salt p : Bytes) (e : Bool) (hs : salt.length = 8) (hp : p.length ≤ 2040)
    (i : Nat) (hi : i < p.length) :
    ∃ k, (blake2b256 (psk ++ salt))[i % 32]? = some k ∧
      ((writeTo blake2b256 psk salt p e).wire)[8 + i]? = some (bxor p[i] k) := by
  have hlt : i % 32 < (blake2b256 (psk ++ salt)).length := by
    rw [blake2b256_length]; exact Nat.mod_lt _ (by decide)
  refine ⟨(blake2b256 (psk ++ salt))[i % 32], List.getElem?_eq_getElem hlt, ?_⟩
  rw [wire_format psk salt p e hp]
  rw [List.getElem?_append_right (by omega)]
  have : 8 + i - salt.length = i := by omega
  rw [this, xorAt_getElem?, List.getElem?_eq_getElem hi]
  simp only [Option.map_some, Nat.zero_add, cKey]
  rw [List.getD_eq_getElem?_getD, List.getElem?_eq_getElem hlt]
  rfl

theorem wire_len (H : Bytes → Bytes) (psk salt p : Bytes) (e : Bool) (hs : salt.length = 8) (hp : p.length ≤ 2040) :
    ((writeTo H psk salt p e).wire).length = p.length + 8 := by
  rw [writeTo_wire H psk salt p e hp]
  simp [xorAt_length, hs]; omega

/-! ### counts -/

/-- WriteTo reports |p| when the inner write succeeds (never |p| + 8), 0 with the error otherwise -/
theorem counts_write (H : Bytes → Bytes) (psk salt p : Bytes) :
    (writeTo H psk salt p false).n = p.length ∧ (writeTo H psk salt p false).err = false ∧
    (writeTo H psk salt p true).n = 0 ∧ (writeTo H psk salt p true).err = true := by
  simp [writeTo]

/-- whatever ReadFrom returns, on any queue of datagrams: n is the number of bytes placed
    in the caller's buffer, fits that buffer, and a positive n is the datagram (as
    truncated to the 2048-byte read buffer) minus the 8 salt bytes -/
theorem counts_read (H : Bytes → Bytes) (psk : Bytes) (cap : Nat) (q : List Inc) (d : Delivery) (rest : List Inc)
    (h : readFrom H psk cap q = some (d, rest)) :
    d.n = d.payload.length ∧ d.n ≤ cap ∧
    (0 < d.n → ∃ i ∈ q, d.addr = i.addr ∧ 8 < i.data.length ∧ d.n + 8 = min i.data.length 2048) := by
  induction q with
  | nil => simp [readFrom] at h
  | cons i r ih =>
    unfold readFrom at h
    cases hs : readStep H psk cap i with
    | some d' =>
      rw [hs] at h
      simp only [Option.some.injEq, Prod.mk.injEq] at h
      obtain ⟨hd, _⟩ := h
      subst hd
      obtain ⟨h1, h2, h3, h4⟩ := readStep_some H psk cap i d' hs
      exact ⟨h1, h3, fun hn => ⟨i, by simp, h2, h4 hn⟩⟩
    | none =>
      rw [hs] at h
      obtain ⟨h1, h2, h3⟩ := ih h
      exact ⟨h1, h2, fun hn => by
        obtain ⟨j, hj, rest'⟩ := h3 hn
        exact ⟨j, by simp [hj], rest'⟩⟩

/-! ### junk is dropped -/

/-- a packet that cannot hold a salt and one payload byte is rejected by Deobfuscate -/
theorem short_dropped (H : Bytes → Bytes) (psk w : Bytes) (cap : Nat) (h : w.length ≤ 8) :
    deobfuscate H psk w cap = none :=
  deobfuscate_short H psk w cap h

/-- the boundary is exact: 9 bytes are accepted (drop threshold `≤ 8`, not `≤ 9`) -/
theorem nine_accepted (H : Bytes → Bytes) (psk w : Bytes) (cap : Nat) (h : w.length = 9) (hc : 1 ≤ cap) :
    ∃ p, deobfuscate H psk w cap = some p ∧ p.length = 1 := by
  refine ⟨_, deobfuscate_long H psk w cap (by omega) (by omega), ?_⟩
  simp [xorAt_length, h]

/-- the reader loop skips any datagram Deobfuscate rejects (it came without an inner
    error and is not empty): ReadFrom's result is that of the remaining queue -/
theorem read_skips_rejected_one (H : Bytes → Bytes) (psk : Bytes) (cap : Nat) (i : Inc) (rest : List Inc)
    (hne : i.data ≠ []) (herr : i.err = false)
    (hrej : deobfuscate H psk (i.data.take 2048) cap = none) :
    readFrom H psk cap (i :: rest) = readFrom H psk cap rest := by
  rw [readFrom, readStep_rejected H psk cap i hne herr hrej]

/-- EVERY interleaving of short junk (1..8 bytes) and valid packets (1..2040 bytes, any
    salts, any addresses): the successive ReadFrom calls return exactly the valid
    payloads, in order, each with n = |p| and its sender's address; no junk surfaces. -/
theorem read_skips_rejected (H : Bytes → Bytes) (psk : Bytes) (cap : Nat) (evs : List Ev)
    (hk : 4 ≤ psk.length) (h : ∀ e ∈ evs, e.ok cap) :
    deliveries H psk cap (evs.map (Ev.inc H psk)) = evs.filterMap Ev.expect :=
  deliveries_evs H psk cap evs h

example : ∀ e ∈ [Ev.junk [1, 2, 3] 5, Ev.pkt [0, 1, 2, 3, 4, 5, 6, 7] [42] 6, Ev.junk [9] 7], e.ok 2048 := by
  simp [Ev.ok]

/-- `deliveries` is what successive ReadFrom calls return (ties the list form used above
    to the loop of conn.go) -/
theorem deliveries_are_reads (H : Bytes → Bytes) (psk : Bytes) (cap : Nat) (q : List Inc) :
    deliveries H psk cap q =
      match readFrom H psk cap q with
      | none => []
      | some (d, rest) => d :: deliveries H psk cap rest :=
  deliveries_unfold H psk cap q

/-- no byte of a datagram of ≤ 8 bytes ever reaches the caller: on ANY queue, a ReadFrom
    that returns n > 0 took those bytes from a datagram longer than 8 bytes -/
theorem short_never_surfaces (H : Bytes → Bytes) (psk : Bytes) (cap : Nat) (q : List Inc) (d : Delivery)
    (rest : List Inc) (h : readFrom H psk cap q = some (d, rest)) (hn : 0 < d.n) :
    ∃ i ∈ q, d.addr = i.addr ∧ 8 < i.data.length := by
  obtain ⟨i, hi, ha, hl, _⟩ := (counts_read H psk cap q d rest h).2.2 hn
  exact ⟨i, hi, ha, hl⟩

/-! ### every schedule of writers, readers and the network on one socket -/

/-- For every schedule of (a) WriteTo calls of 1..2040 bytes by any number of writers,
    (b) arrivals of short junk, (c) loop iterations of any number of readers with buffers
    ≥ 2040: what the readers have received so far, in order, followed by what the queued
    datagrams will still yield, is exactly what the writers sent, in the order of their
    lock regions — nothing lost, duplicated, reordered, altered, and no junk; and every
    WriteTo reported |p|.  (Atomicity of `send` against `recv`: see
    `key_scratch_buffer_locked_in_both_directions` above.) -/
theorem concurrent_roundtrip (H : Bytes → Bytes) (psk : Bytes) (sched : List Label)
    (hk : 4 ≤ psk.length) (h : ∀ l ∈ sched, l.ok) :
    (run H psk sched).got.map Prod.snd ++ deliveries H psk 2040 (run H psk sched).queue = sentOf sched ∧
    (run H psk sched).sentN = countsOf sched := by
  have hq : QueueOk H psk Sys.init.queue := by intro i hi; simp [Sys.init] at hi
  obtain ⟨h1, h2⟩ := foldl_inv H psk sched Sys.init h hq
  rw [deliveries_eq_filterMap]
  refine ⟨?_, ?_⟩
  · simpa [run, pending, Sys.init] using h1
  · simpa [run, Sys.init] using h2

/-- … in particular once the socket is drained every packet has arrived exactly once -/
theorem concurrent_all_arrive (H : Bytes → Bytes) (psk : Bytes) (sched : List Label)
    (hk : 4 ≤ psk.length) (h : ∀ l ∈ sched, l.ok) (hd : (run H psk sched).queue = []) :
    (run H psk sched).got.map Prod.snd = sentOf sched := by
  have := (concurrent_roundtrip H psk sched hk h).1
  rw [hd] at this
  simpa [deliveries] using this

example : ∀ l ∈ [Label.send 1 [0, 1, 2, 3, 4, 5, 6, 7] [42] 9, Label.inject ⟨[1, 2], 3, false⟩,
    Label.recv 1 2048, Label.recv 2 65536], l.ok := by
  simp [Label.ok]

/-! ### behaviour outside the property (described, not claimed as desirable) -/

/-- payloads over 2040 bytes: the wrapper hands an EMPTY datagram to the inner socket and
    still reports |p| -/
theorem above_2040_sends_empty (H : Bytes → Bytes) (psk salt p : Bytes) (h : 2040 < p.length) :
    (writeTo H psk salt p false).wire = [] ∧ (writeTo H psk salt p false).n = p.length := by
  refine ⟨?_, by simp [writeTo]⟩
  unfold writeTo
  simp only
  apply obfuscate_too_big
  rw [cBuf]; omega

/-- a 0-byte datagram ends ReadFrom with n = 0 and no error (conn.go: `if n <= 0 return`)
    — no byte surfaces, but the call does return -/
theorem empty_datagram_returns_zero (H : Bytes → Bytes) (psk : Bytes) (cap addr : Nat) (e : Bool) (rest : List Inc) :
    readFrom H psk cap ({ data := [], addr := addr, err := e } :: rest)
      = some ({ payload := [], n := 0, addr := addr, err := e }, rest) := by
  simp [readFrom, readStep]

/-- a reader buffer shorter than the payload: the packet is skipped, not truncated -/
theorem small_buffer_drops (H : Bytes → Bytes) (psk salt p : Bytes) (addr cap : Nat) (rest : List Inc)
    (hs : salt.length = 8) (hp : 1 ≤ p.length) (hp' : p.length ≤ 2040) (hc : cap < p.length) :
    readFrom H psk cap ({ data := (writeTo H psk salt p false).wire, addr := addr, err := false } :: rest)
      = readFrom H psk cap rest := by
  have hl := wire_len H psk salt p false hs hp'
  apply read_skips_rejected_one H psk cap _ rest
  · intro h0; simp only at h0; rw [h0] at hl; simp at hl
  · rfl
  · simp only
    rw [List.take_of_length_le (by omega)]
    unfold deobfuscate
    rw [if_pos]
    right; rw [cSalt, hl]; omega

end Hy.Props.C13
