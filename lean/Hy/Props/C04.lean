/-
  C04 — TCP request/response framing is lossless, exact and bounded.
  Property theorems only; helper lemmas live in Hy.Proofs.Frame.

  Model: Hy.Model.Frame (ReadTCPRequest/ReadTCPResponse/WriteTCPRequest/WriteTCPResponse
  of core/internal/protocol/proxy.go, the frame-type prefix of core/server/server.go).
  The stream is `List Bytes`: the chunks in which the transport delivers it (any
  chunking, empty reads included).
-/
import Hy.Proofs.Frame
import Hy.Gen.SitesC04
set_option linter.unusedSimpArgs false
namespace Hy.Props.C04
open Hy Hy.Frame Hy.Varint

/-! ### obligations on the regenerated constants (a changed constant fails here) -/
theorem const_addr : Gen.MaxAddressLength = 2048 := by decide
theorem const_msg : Gen.MaxMessageLength = 2048 := by decide
theorem const_pad : Gen.MaxPaddingLength = 4096 := by decide
theorem const_frametype : Gen.FrameTypeTCPRequest = 0x401 := by decide
/-- every padding length the writers can draw ([Min, Max) half-open) is accepted by the readers -/
theorem writer_pad_in_range :
    Gen.tcpRequestPaddingMin ≤ Gen.tcpRequestPaddingMax ∧
    Gen.tcpRequestPaddingMax ≤ Gen.MaxPaddingLength + 1 ∧
    Gen.tcpResponsePaddingMin ≤ Gen.tcpResponsePaddingMax ∧
    Gen.tcpResponsePaddingMax ≤ Gen.MaxPaddingLength + 1 := by decide

/-- Every place of the framing code that can fault at run time (index, slice, make, conversion,
    panic — counted per function from the CURRENT source by harness/gen) is accounted for by the
    model: `ReadTCPRequest`/`ReadTCPResponse` — one `make` each, sized by the checked length
    (`alloc_bounded`, `overlimit_*_rejected_early`), the `status[0]` index on a 1-byte array;
    writers — `make` of the exact frame size and `varintPut` into it (sizes by `quicvarint.Len`,
    differential `wrreq`/`wrresp` compares every byte); `varintPut` panics only above 2^62−1, which
    the callers' int→uint64 lengths cannot reach.  A new site in these functions changes the table
    and fails here. -/
theorem sites_match : Gen.SitesC04.sites = [
    ("core/internal/protocol/proxy.go:ReadTCPRequest", [0, 0, 1, 0, 1, 0, 0]),
    ("core/internal/protocol/proxy.go:ReadTCPResponse", [1, 1, 1, 0, 1, 0, 0]),
    ("core/internal/protocol/proxy.go:WriteTCPRequest", [0, 4, 1, 0, 7, 0, 0]),
    ("core/internal/protocol/proxy.go:WriteTCPResponse", [2, 4, 1, 0, 6, 0, 0]),
    ("core/internal/protocol/proxy.go:varintPut", [15, 0, 0, 0, 15, 1, 0])] := by decide

/-! ### chunking is irrelevant (every split of the byte stream into reads) -/
theorem chunking_irrelevant_request (cs : List Bytes) :
    (readRequest chunked cs).map List.flatten = readRequest flat cs.flatten :=
  readRequest_sim chunked_sim cs

theorem chunking_irrelevant_response (cs : List Bytes) :
    (readResponse chunked cs).map List.flatten = readResponse flat cs.flatten :=
  readResponse_sim chunked_sim cs

theorem chunking_irrelevant_framed (cs : List Bytes) :
    (readFramedRequest chunked cs).map List.flatten = readFramedRequest flat cs.flatten :=
  readFramedRequest_sim chunked_sim cs

/-! ### lossless + exact: any address 1..2048, any padding ≤ 4096, any varint width per
    field, any chunking, any trailing payload: the address comes back identical and the
    unread stream is EXACTLY the trailing payload (nothing swallowed, nothing left). -/
theorem request_roundtrip (w1 w2 : Nat) (addr pad rest : Bytes) (cs : List Bytes)
    (ha : 1 ≤ addr.length) (ha' : addr.length ≤ 2048) (hp : pad.length ≤ 4096)
    (f1 : fits w1 addr.length) (f2 : fits w2 pad.length)
    (hcs : cs.flatten = writeRequestW w1 w2 addr pad ++ rest) :
    (readRequest chunked cs).map List.flatten = .ok addr rest := by
  rw [chunking_irrelevant_request, hcs]
  exact readRequest_writeW w1 w2 addr pad rest ha (by rw [const_addr]; exact ha')
    (by rw [const_pad]; exact hp) f1 f2

theorem response_roundtrip (w1 w2 : Nat) (ok : Bool) (msg pad rest : Bytes) (cs : List Bytes)
    (hm : msg.length ≤ 2048) (hp : pad.length ≤ 4096)
    (f1 : fits w1 msg.length) (f2 : fits w2 pad.length)
    (hcs : cs.flatten = writeResponseW w1 w2 ok msg pad ++ rest) :
    (readResponse chunked cs).map List.flatten = .ok (ok, msg) rest := by
  rw [chunking_irrelevant_response, hcs]
  exact readResponse_writeW w1 w2 ok msg pad rest (by rw [const_msg]; exact hm)
    (by rw [const_pad]; exact hp) f1 f2

/-- what the Go writer emits (minimal widths, frame type first) is read back by the
    server's dispatcher + ReadTCPRequest, for every padding the writer can draw -/
theorem go_request_roundtrip (addr pad rest : Bytes) (cs : List Bytes)
    (ha : 1 ≤ addr.length) (ha' : addr.length ≤ 2048) (hp : pad.length < Gen.tcpRequestPaddingMax)
    (hcs : cs.flatten = writeRequest addr pad ++ rest) :
    (readFramedRequest chunked cs).map List.flatten = .ok addr rest := by
  rw [chunking_irrelevant_framed, hcs]
  have hp' : pad.length ≤ 4096 := by
    have : Gen.tcpRequestPaddingMax = 512 := by decide
    omega
  unfold readFramedRequest writeRequest
  simp only [varint_flat, List.append_assoc]
  rw [dec_enc _ _ (by decide)]
  simp only [↓reduceIte]
  have := readRequest_writeW (minW addr.length) (minW pad.length) addr pad rest ha
    (by rw [const_addr]; exact ha') (by rw [const_pad]; exact hp')
    (fits_minW _ (by unfold maxVarInt8; omega)) (fits_minW _ (by unfold maxVarInt8; omega))
  simpa [writeRequestW, enc] using this

theorem go_response_roundtrip (ok : Bool) (msg pad rest : Bytes) (cs : List Bytes)
    (hm : msg.length ≤ 2048) (hp : pad.length < Gen.tcpResponsePaddingMax)
    (hcs : cs.flatten = writeResponse ok msg pad ++ rest) :
    (readResponse chunked cs).map List.flatten = .ok (ok, msg) rest := by
  have hp' : pad.length ≤ 4096 := by
    have : Gen.tcpResponsePaddingMax = 1024 := by decide
    omega
  exact response_roundtrip (minW msg.length) (minW pad.length) ok msg pad rest cs hm hp'
    (fits_minW _ (by unfold maxVarInt8; omega)) (fits_minW _ (by unfold maxVarInt8; omega))
    (by simpa [writeResponse, writeResponseW, enc] using hcs)

/-! ### bounded: an over-limit (or empty) declared length is rejected with the stream
    positioned right after the varint that declared it — nothing of the declared amount
    has been read — and the buffer allocation is never reached. -/
theorem overlimit_address_rejected_early (bs r : Bytes) (n : Nat)
    (hd : Varint.dec bs = some (n, r)) (hbad : n = 0 ∨ n > 2048) :
    readRequest flat bs = .proto r ∧ requestAlloc flat bs = 0 := by
  unfold readRequest requestAlloc
  simp only [varint_flat, hd, const_addr, hbad, ↓reduceIte, and_self]

theorem overlimit_request_padding_rejected_early (w1 : Nat) (addr tail r : Bytes) (p : Nat)
    (ha : 1 ≤ addr.length) (ha' : addr.length ≤ 2048) (f1 : fits w1 addr.length)
    (hd : Varint.dec tail = some (p, r)) (hbad : p > 4096) :
    readRequest flat (encW w1 addr.length ++ addr ++ tail) = .proto r := by
  unfold readRequest
  simp only [varint_flat, List.append_assoc, dec_encW _ _ _ f1, const_addr, const_pad]
  rw [if_neg (by omega)]
  simp only [flat, takeF_append]
  have : varint { rb := rbF, take := takeF } = varint flat := rfl
  simp only [this, varint_flat, hd, hbad, ↓reduceIte]

theorem overlimit_message_rejected_early (st : Byte) (bs r : Bytes) (n : Nat)
    (hd : Varint.dec bs = some (n, r)) (hbad : n > 2048) :
    readResponse flat (st :: bs) = .proto r ∧ responseAlloc flat (st :: bs) = 0 := by
  unfold readResponse responseAlloc
  have : flat.take 1 (st :: bs) = some ([st], bs) := by simp [flat, takeF]
  simp only [this, varint_flat, hd, const_msg, hbad, ↓reduceIte, and_self]

/-- whatever the peer sends, the reader never allocates more than the protocol limit -/
theorem alloc_bounded (cs : List Bytes) :
    requestAlloc chunked cs ≤ 2048 ∧ responseAlloc chunked cs ≤ 2048 := by
  constructor
  · unfold requestAlloc
    split
    · omega
    · split
      · omega
      · rename_i h; rw [const_addr] at h; omega
  · unfold responseAlloc
    split
    · omega
    · split
      · omega
      · split
        · omega
        · rename_i h; rw [const_msg] at h; omega

/-! ### non-vacuity: concrete instances of the hypotheses -/
example : (readRequest chunked [[byte 0x40], [byte 3, byte 97], [], [byte 98, byte 99, byte 1, byte 7, byte 9]]).map
    List.flatten = .ok [byte 97, byte 98, byte 99] [byte 9] := by decide
example : fits 1 3 ∧ fits 0 1 ∧ (1 ≤ ([byte 97, byte 98, byte 99] : Bytes).length) := by decide
example : readRequest flat [byte 0x48, byte 1, byte 5] = .proto [byte 5] := by decide

end Hy.Props.C04
