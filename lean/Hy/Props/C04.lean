/-
  C04 — TCP request/response framing is lossless, exact and bounded.
  Property theorems only; helper lemmas live in Hy.Proofs.Frame.

  Model: Hy.Model.Frame (ReadTCPRequest/ReadTCPResponse/WriteTCPRequest/WriteTCPResponse
  of core/internal/protocol/proxy.go, the frame-type prefix of core/server/server.go).
  The stream is `List Bytes`: the chunks in which the transport delivers it (any
  chunking, empty reads included).
-/
import Hy.Proofs.Frame
import Hy.Gen.SitesC04
import Hy.Gen.TransVarint
set_option linter.unusedSimpArgs false
namespace Hy.Props.C04
open Hy Hy.Frame Hy.Varint Hy.GoInt

/-! ### obligations on the regenerated constants (a changed constant fails here) -/
theorem const_addr : Gen.MaxAddressLength = 2048 := by decide
theorem const_msg : Gen.MaxMessageLength = 2048 := by decide
theorem const_pad : Gen.MaxPaddingLength = 4096 := by decide
theorem const_frametype : Gen.FrameTypeTCPRequest = 0x401 := by decide
/-- every padding length the writers can draw ([Min, Max) half-open) is accepted by the readers -/
theorem writer_pad_in_range :
    Gen.tcpRequestPaddingMin ≤ Gen.tcpRequestPaddingMax ∧
    Gen.tcpRequestPaddingMax ≤ Gen.MaxPaddingLength + 1 ∧
    Gen.tcpResponsePaddingMin ≤ Gen.tcpResponsePaddingMax ∧
    Gen.tcpResponsePaddingMax ≤ Gen.MaxPaddingLength + 1 := by decide

/-- Every place of the framing code that can fault at run time (index, slice, make, conversion,
    panic — counted per function from the CURRENT source by harness/gen) is accounted for by the
    model: `ReadTCPRequest`/`ReadTCPResponse` — one `make` each, sized by the checked length
    (`alloc_bounded`, `overlimit_*_rejected_early`), the `status[0]` index on a 1-byte array;
    writers — `make` of the exact frame size and `varintPut` into it (sizes by `quicvarint.Len`,
    differential `wrreq`/`wrresp` compares every byte); `varintPut` panics only above 2^62−1, which
    the callers' int→uint64 lengths cannot reach.  A new site in these functions changes the table
    and fails here. -/
theorem sites_match : Gen.SitesC04.sites = [
    ("core/internal/protocol/proxy.go:ReadTCPRequest", [0, 0, 1, 0, 1, 0, 0]),
    ("core/internal/protocol/proxy.go:ReadTCPResponse", [1, 1, 1, 0, 1, 0, 0]),
    ("core/internal/protocol/proxy.go:WriteTCPRequest", [0, 4, 1, 0, 7, 0, 0]),
    ("core/internal/protocol/proxy.go:WriteTCPResponse", [2, 4, 1, 0, 6, 0, 0]),
    ("core/internal/protocol/proxy.go:varintPut", [15, 0, 0, 0, 15, 1, 0])] := by decide

/-! ### chunking is irrelevant (every split of the byte stream into reads) -/
theorem chunking_irrelevant_request (cs : List Bytes) :
    (readRequest chunked cs).map List.flatten = readRequest flat cs.flatten :=
  readRequest_sim chunked_sim cs

theorem chunking_irrelevant_response (cs : List Bytes) :
    (readResponse chunked cs).map List.flatten = readResponse flat cs.flatten :=
  readResponse_sim chunked_sim cs

theorem chunking_irrelevant_framed (cs : List Bytes) :
    (readFramedRequest chunked cs).map List.flatten = readFramedRequest flat cs.flatten :=
  readFramedRequest_sim chunked_sim cs

/-! ### lossless + exact: any address 1..2048, any padding ≤ 4096, any varint width per
    field, any chunking, any trailing payload: the address comes back identical and the
    unread stream is EXACTLY the trailing payload (nothing swallowed, nothing left). -/
theorem request_roundtrip (w1 w2 : Nat) (addr pad rest : Bytes) (cs : List Bytes)
    (ha : 1 ≤ addr.length) (ha' : addr.length ≤ 2048) (hp : pad.length ≤ 4096)
    (f1 : fits w1 addr.length) (f2 : fits w2 pad.length)
    (hcs : cs.flatten = writeRequestW w1 w2 addr pad ++ rest) :
    (readRequest chunked cs).map List.flatten = .ok addr rest := by
  rw [chunking_irrelevant_request, hcs]
  exact readRequest_writeW w1 w2 addr pad rest ha (by rw [const_addr]; exact ha')
    (by rw [const_pad]; exact hp) f1 f2

theorem response_roundtrip (w1 w2 : Nat) (ok : Bool) (msg pad rest : Bytes) (cs : List Bytes)
    (hm : msg.length ≤ 2048) (hp : pad.length ≤ 4096)
    (f1 : fits w1 msg.length) (f2 : fits w2 pad.length)
    (hcs : cs.flatten = writeResponseW w1 w2 ok msg pad ++ rest) :
    (readResponse chunked cs).map List.flatten = .ok (ok, msg) rest := by
  rw [chunking_irrelevant_response, hcs]
  exact readResponse_writeW w1 w2 ok msg pad rest (by rw [const_msg]; exact hm)
    (by rw [const_pad]; exact hp) f1 f2

/-- what the Go writer emits (minimal widths, frame type first) is read back by the
    server's dispatcher + ReadTCPRequest, for every padding the writer can draw -/
theorem go_request_roundtrip (addr pad rest : Bytes) (cs : List Bytes)
    (ha : 1 ≤ addr.length) (ha' : addr.length ≤ 2048) (hp : pad.length < Gen.tcpRequestPaddingMax)
    (hcs : cs.flatten = writeRequest addr pad ++ rest) :
    (readFramedRequest chunked cs).map List.flatten = .ok addr rest := by
  rw [chunking_irrelevant_framed, hcs]
  have hp' : pad.length ≤ 4096 := by
    have : Gen.tcpRequestPaddingMax = 512 := by decide
    omega
  unfold readFramedRequest writeRequest
  simp only [varint_flat, List.append_assoc]
  rw [dec_enc _ _ (by decide)]
  simp only [↓reduceIte]
  have := readRequest_writeW (minW addr.length) (minW pad.length) addr pad rest ha
    (by rw [const_addr]; exact ha') (by rw [const_pad]; exact hp')
    (fits_minW _ (by unfold maxVarInt8; omega)) (fits_minW _ (by unfold maxVarInt8; omega))
  simpa [writeRequestW, enc] using this

theorem go_response_roundtrip (ok : Bool) (msg pad rest : Bytes) (cs : List Bytes)
    (hm : msg.length ≤ 2048) (hp : pad.length < Gen.tcpResponsePaddingMax)
    (hcs : cs.flatten = writeResponse ok msg pad ++ rest) :
    (readResponse chunked cs).map List.flatten = .ok (ok, msg) rest := by
  have hp' : pad.length ≤ 4096 := by
    have : Gen.tcpResponsePaddingMax = 1024 := by decide
    omega
  exact response_roundtrip (minW msg.length) (minW pad.length) ok msg pad rest cs hm hp'
    (fits_minW _ (by unfold maxVarInt8; omega)) (fits_minW _ (by unfold maxVarInt8; omega))
    (by simpa [writeResponse, writeResponseW, enc] using hcs)

/-! ### bounded: an over-limit (or empty) declared length is rejected with the stream
    positioned right after the varint that declared it — nothing of the declared amount
    has been read — and the buffer allocation is never reached. -/
theorem overlimit_address_rejected_early (bs r : Bytes) (n : Nat)
    (hd : Varint.dec bs = some (n, r)) (hbad : n = 0 ∨ n > 2048) :
    readRequest flat bs = .proto r ∧ requestAlloc flat bs = 0 := by
  unfold readRequest requestAlloc
  simp only [varint_flat, hd, const_addr, hbad, ↓reduceIte, and_self]

theorem overlimit_request_padding_rejected_early (w1 : Nat) (addr tail r : Bytes) (p : Nat)
    (ha : 1 ≤ addr.length) (ha' : addr.length ≤ 2048) (f1 : fits w1 addr.length)
    (hd : Varint.dec tail = some (p, r)) (hbad : p > 4096) :
    readRequest flat (encW w1 addr.length ++ addr ++ tail) = .proto r := by
  unfold readRequest
  simp only [varint_flat, List.append_assoc, dec_encW _ _ _ f1, const_addr, const_pad]
  rw [if_neg (by omega)]
  simp only [flat, takeF_append]
  have : varint { rb := rbF, take := takeF } = varint flat := rfl
  simp only [this, varint_flat, hd, hbad, ↓reduceIte]

theorem overlimit_message_rejected_early (st : Byte) (bs r : Bytes) (n : Nat)
    (hd : Varint.dec bs = some (n, r)) (hbad : n > 2048) :
    readResponse flat (st :: bs) = .proto r ∧ responseAlloc flat (st :: bs) = 0 := by
  unfold readResponse responseAlloc
  have : flat.take 1 (st :: bs) = some ([st], bs) := by simp [flat, takeF]
  simp only [this, varint_flat, hd, const_msg, hbad, ↓reduceIte, and_self]

/-- whatever the peer sends, the reader never allocates more than the protocol limit -/
theorem alloc_bounded (cs : List Bytes) :
    requestAlloc chunked cs ≤ 2048 ∧ responseAlloc chunked cs ≤ 2048 := by
  constructor
  · unfold requestAlloc
    split
    · omega
    · split
      · omega
      · rename_i h; rw [const_addr] at h; omega
  · unfold responseAlloc
    split
    · omega
    · split
      · omega
      · split
        · omega
        · rename_i h; rw [const_msg] at h; omega

/-! ### `varintPut` as TRANSLATED from the current Go source equals the model's encoder

`Hy.Gen.TransVarint.varintPut` is regenerated on every run by `verifgen translate` from the text of
`varintPut` in core/internal/protocol/proxy.go (go/ast → Lean, Go's uint64/uint8 semantics explicit,
the package constants `maxVarInt1…8` resolved to their current values).  The theorems below are
about ALL inputs, so the tie between `Varint.enc` (which every round-trip theorem above is about)
and the writer's encoder does not rest on sampling: a change to the Go function changes the
regenerated definition, and these proofs either still go through (harmless rewrite) or fail. -/

/-- for every value that fits 62 bits and every buffer long enough, the translated `varintPut`
    stores exactly the bytes of `Varint.enc n` at `b[0], b[1], …` (in order, each index once)
    and returns their number -/
theorem varintPut_translation_eq (n : Nat) (blen : Int) (hn : n ≤ maxVarInt8)
    (hb : ((enc n).length : Int) ≤ blen) :
    Gen.TransVarint.varintPut blen n = .ok (storesOf (enc n), ((enc n).length : Int)) := by
  unfold maxVarInt8 at hn
  unfold Gen.TransVarint.varintPut
  by_cases h1 : n ≤ 63
  · have e : enc n = [byte n] := by simp [enc, minW, encW, maxVarInt1, h1]
    rw [e] at hb ⊢
    simp only [List.length_cons, List.length_nil] at hb
    rw [if_pos (by omega), if_neg (by omega)]
    simp only [storesOf, storesFrom, byte_val, u8, List.length_cons, List.length_nil,
      Res.ok.injEq, Prod.mk.injEq, List.cons.injEq, and_true]
    omega
  by_cases h2 : n ≤ 16383
  · have e : enc n = [byte (n / 256 + 64), byte n] := by
      simp [enc, minW, encW, maxVarInt1, maxVarInt2, h1, h2]
    rw [e] at hb ⊢
    simp only [List.length_cons, List.length_nil] at hb
    rw [if_neg (by omega), if_pos (by omega), if_neg (by omega), if_neg (by omega)]
    rw [lor_64 (by unfold u8; omega) (by unfold u8; omega)]
    simp only [storesOf, storesFrom, byte_val, u8, List.length_cons, List.length_nil,
      Res.ok.injEq, Prod.mk.injEq, List.cons.injEq, and_true]
    omega
  by_cases h4 : n ≤ 1073741823
  · have e : enc n = [byte (n / 16777216 + 128), byte (n / 65536), byte (n / 256), byte n] := by
      simp [enc, minW, encW, maxVarInt1, maxVarInt2, maxVarInt4, h1, h2, h4]
    rw [e] at hb ⊢
    simp only [List.length_cons, List.length_nil] at hb
    rw [if_neg (by omega), if_neg (by omega), if_pos (by omega), if_neg (by omega), if_neg (by omega),
      if_neg (by omega), if_neg (by omega)]
    rw [lor_128 (by unfold u8; omega) (by unfold u8; omega)]
    simp only [storesOf, storesFrom, byte_val, u8, List.length_cons, List.length_nil,
      Res.ok.injEq, Prod.mk.injEq, List.cons.injEq, and_true]
    omega
  · have e : enc n = [byte (n / 72057594037927936 + 192), byte (n / 281474976710656),
        byte (n / 1099511627776), byte (n / 4294967296), byte (n / 16777216), byte (n / 65536),
        byte (n / 256), byte n] := by
      simp [enc, minW, encW, maxVarInt1, maxVarInt2, maxVarInt4, h1, h2, h4]
    rw [e] at hb ⊢
    simp only [List.length_cons, List.length_nil] at hb
    rw [if_neg (by omega), if_neg (by omega), if_neg (by omega), if_pos (by omega)]
    rw [if_neg (by omega), if_neg (by omega), if_neg (by omega), if_neg (by omega),
      if_neg (by omega), if_neg (by omega), if_neg (by omega), if_neg (by omega)]
    rw [lor_192 (by unfold u8; omega) (by unfold u8; omega)]
    simp only [storesOf, storesFrom, byte_val, u8, List.length_cons, List.length_nil,
      Res.ok.injEq, Prod.mk.injEq, List.cons.injEq, and_true]
    omega

/-- the returned length is the one `quicvarint.Len` / the model's `wlen (minW n)` gives -/
theorem varintPut_translation_len (n : Nat) (blen : Int) (hn : n ≤ maxVarInt8)
    (hb : ((enc n).length : Int) ≤ blen) :
    (Gen.TransVarint.varintPut blen n).bind (fun r => .ok r.2) = .ok ((wlen (minW n) : Nat) : Int) := by
  rw [varintPut_translation_eq n blen hn hb]
  simp only [Res.bind_ok, enc, encW_length]

/-- a buffer shorter than the encoding makes the Go code panic (index out of range) — the
    translation keeps the bounds check of every store -/
theorem varintPut_translation_short_buffer (n : Nat) (blen : Int) (hn : n ≤ maxVarInt8)
    (hb : blen < ((enc n).length : Int)) :
    Gen.TransVarint.varintPut blen n = .panic := by
  unfold maxVarInt8 at hn
  have hl : (enc n).length = wlen (minW n) := by simp only [enc, encW_length]
  rw [hl] at hb
  unfold minW maxVarInt1 maxVarInt2 maxVarInt4 at hb
  unfold Gen.TransVarint.varintPut
  by_cases h1 : n ≤ 63
  · simp only [h1, ↓reduceIte, wlen] at hb
    rw [if_pos (by omega), if_pos (by omega)]
  by_cases h2 : n ≤ 16383
  · simp only [h1, h2, ↓reduceIte, wlen] at hb
    rw [if_neg (by omega), if_pos (by omega)]
    by_cases c0 : (0 : Int) < blen
    · rw [if_neg (by omega), if_pos (by omega)]
    · rw [if_pos c0]
  by_cases h4 : n ≤ 1073741823
  · simp only [h1, h2, h4, ↓reduceIte, wlen] at hb
    rw [if_neg (by omega), if_neg (by omega), if_pos (by omega)]
    by_cases c0 : (0 : Int) < blen
    · rw [if_neg (by omega)]
      by_cases c1 : (1 : Int) < blen
      · rw [if_neg (by omega)]
        by_cases c2 : (2 : Int) < blen
        · rw [if_neg (by omega), if_pos (by omega)]
        · rw [if_pos c2]
      · rw [if_pos c1]
    · rw [if_pos c0]
  · simp only [h1, h2, h4, ↓reduceIte, wlen] at hb
    rw [if_neg (by omega), if_neg (by omega), if_neg (by omega), if_pos (by omega)]
    by_cases c0 : (0 : Int) < blen
    · rw [if_neg (by omega)]
      by_cases c1 : (1 : Int) < blen
      · rw [if_neg (by omega)]
        by_cases c2 : (2 : Int) < blen
        · rw [if_neg (by omega)]
          by_cases c3 : (3 : Int) < blen
          · rw [if_neg (by omega)]
            by_cases c4 : (4 : Int) < blen
            · rw [if_neg (by omega)]
              by_cases c5 : (5 : Int) < blen
              · rw [if_neg (by omega)]
                by_cases c6 : (6 : Int) < blen
                · rw [if_neg (by omega), if_pos (by omega)]
                · rw [if_pos c6]
              · rw [if_pos c5]
            · rw [if_pos c4]
          · rw [if_pos c3]
        · rw [if_pos c2]
      · rw [if_pos c1]
    · rw [if_pos c0]

/-- above 2^62−1 the Go code panics ("doesn't fit into 62 bits"), whatever the buffer -/
theorem varintPut_translation_too_large (n : Nat) (blen : Int) (hn : maxVarInt8 < n) :
    Gen.TransVarint.varintPut blen n = .panic := by
  unfold maxVarInt8 at hn
  unfold Gen.TransVarint.varintPut
  rw [if_neg (by omega), if_neg (by omega), if_neg (by omega), if_neg (by omega)]

example : Gen.TransVarint.varintPut 8 16384 =
    .ok ([(0, 128), (1, 0), (2, 64), (3, 0)], 4) := by decide

/-! ### non-vacuity: concrete instances of the hypotheses -/
example : (readRequest chunked [[byte 0x40], [byte 3, byte 97], [], [byte 98, byte 99, byte 1, byte 7, byte 9]]).map
    List.flatten = .ok [byte 97, byte 98, byte 99] [byte 9] := by decide
example : fits 1 3 ∧ fits 0 1 ∧ (1 ≤ ([byte 97, byte 98, byte 99] : Bytes).length) := by decide
example : readRequest flat [byte 0x48, byte 1, byte 5] = .proto [byte 5] := by decide

end Hy.Props.C04
