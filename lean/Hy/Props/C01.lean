/-
  C01 — No proxying before authentication on the same connection.
  Property theorems only; helper lemmas live in Hy.Proofs.Auth.

  Model: Hy.Model.Auth — per-connection state {authed, phase of the authMutex holder, udpUp,
  queued datagrams, UDP sessions, TCP handler goroutines, closed}; atomic steps authBegin /
  authVerdict v (environment) / authCommit / http / stream ft / tcpRead / tcpDial / tcpRespond /
  tcpRelay / tcpEnd / dgramIn / udpRecv / udpReply / connEnd of core/server/server.go.
  A schedule is ANY `List Label` on ANY number of connections (`run = foldl step`; a disabled
  label is the identity), every environment choice (verdicts, decoded requests, hook, dial
  results, chunk sizes) is carried by the labels, so each theorem below quantifies over every
  interleaving and every environment behaviour.  `effects` is the chronological effect log.
-/
import Hy.Proofs.Auth
import Hy.Gen.AuthShape
namespace Hy.Props.C01
open Hy Hy.Auth

/-! ### obligations on facts regenerated from the source (a change fails here).
    Only what C01 relies on: the flag is per handler = per connection, it is assigned only under the
    authenticator's ok, the UDP manager is started only under ok, the dispatcher refuses unless the flag
    is set, handlers are spawned only by the dispatcher.  Guards that depend on the REQUEST (which requests
    are treated as authentication requests) are left out of these facts: that is C02's `shape_condition`. -/

/-- the frame type the dispatcher accepts is the protocol's TCPRequest frame type -/
theorem const_frametype : Gen.FrameTypeTCPRequest = 0x401 := by decide

/-- the flag is a field of the per-connection handler object and nothing else carries that name -/
theorem shape_flag_is_per_connection :
    Gen.AuthShape.flagDecls = ["field h3sHandler.authenticated"] := rfl

/-- exactly one handler object is created per accepted QUIC connection -/
theorem shape_one_handler_per_connection :
    Gen.AuthShape.handlerCtors = ["serverImpl.handleClient"] := rfl

/-- the flag is assigned in exactly one place: ServeHTTP, value `true`, under `if ok` (model:
    only `authCommit` after `decided true` sets `authed`; nothing ever clears it) -/
theorem shape_flag_written_under_ok :
    Gen.AuthShape.flagWrites = ["h3sHandler.ServeHTTP | h.authenticated = true | if(ok)"] := rfl

/-- `ok` is the authenticator's verdict, obtained with authMutex held and after the
    already-authenticated early return (model: authBegin / authVerdict / authCommit) -/
theorem shape_ok_is_the_verdict :
    Gen.AuthShape.authCalls =
      ["h3sHandler.ServeHTTP | ok,id = h.config.Authenticator.Authenticate | - | lock-before=true recheck-before=true"] := rfl

/-- the UDP session manager is started only in the ok branch (model: `udpUp` set by authCommit) -/
theorem shape_udp_manager_under_ok :
    Gen.AuthShape.udpManagers = ["h3sHandler.ServeHTTP | if(ok) > if(!h.config.DisableUDP)"] := rfl

/-- the dispatcher's first statement refuses unless the flag is set (model: `stream`) -/
theorem shape_dispatcher_guard :
    Gen.AuthShape.dispatcherHead = ["if(err != nil || !h.authenticated) { return false, nil }"] := rfl

/-- TCP handlers are spawned by the dispatcher only -/
theorem shape_tcp_spawn :
    Gen.AuthShape.tcpSpawns = ["h3sHandler.ProxyStreamHijacker | go=true | -"] := rfl

/-! ### the property -/

/-- **no_proxy_before_auth.**  For every configuration, every schedule on any number of
    connections and every environment: every dialTCP / dialUDP / relayed chunk of connection
    `c` in the effect log is preceded by an accepting authenticator verdict for `c`. -/
theorem no_proxy_before_auth (cfg : Cfg) (sched : List Label) (pre post : List Eff) (e : Eff)
    (hl : (run cfg {} sched).effects = pre ++ e :: post) (hp : e.isProxy = true) :
    accepted e.conn ∈ pre :=
  gated_after_accept cfg sched pre post e hl (by simp [Eff.gated, hp])

/-- the same with indices: effect number `i` is a proxy effect of `c` ⇒ some earlier effect
    number `j < i` is the acceptance of `c` -/
theorem no_proxy_before_auth_idx (cfg : Cfg) (sched : List Label) (i : Nat) (e : Eff)
    (hi : (run cfg {} sched).effects[i]? = some e) (hp : e.isProxy = true) :
    ∃ j, j < i ∧ (run cfg {} sched).effects[j]? = some (accepted e.conn) := by
  obtain ⟨hlt, hget⟩ := List.getElem?_eq_some_iff.mp hi
  have hsplit : (run cfg {} sched).effects =
      (run cfg {} sched).effects.take i ++ e :: (run cfg {} sched).effects.drop (i + 1) := by
    rw [← hget]; simp
  have hmem := no_proxy_before_auth cfg sched _ _ e hsplit hp
  obtain ⟨j, hj, hje⟩ := List.getElem_of_mem hmem
  have hj' : j < i := by simpa [List.length_take, Nat.min_eq_left (Nat.le_of_lt hlt)] using hj
  refine ⟨j, hj', ?_⟩
  rw [List.getElem_take] at hje
  exact List.getElem?_eq_some_iff.mpr ⟨Nat.lt_trans hj' hlt, hje⟩

/-- non-vacuity: a two-connection history in which c0 is accepted and proxies while c1, which
    sends the same stream, gets nothing -/
example :
    (run ⟨true⟩ {} [⟨0, .authBegin "ok"⟩, ⟨1, .stream 0x401⟩, ⟨0, .authVerdict true⟩, ⟨1, .stream 0x401⟩,
      ⟨0, .authCommit⟩, ⟨0, .stream 0x401⟩, ⟨1, .tcpRead 0 (some "x:1") false⟩,
      ⟨0, .tcpRead 0 (some "a:1") false⟩, ⟨0, .tcpDial 0 true⟩, ⟨1, .tcpDial 0 true⟩]).effects =
    [.authCall 0 "ok", .verdict 0 true, .resp233 0, .online 0 true, .dialTCP 0 "a:1"] := by decide

/-- **auth_is_local (frame).**  A step of one connection leaves every other connection's state
    unchanged. -/
theorem auth_is_local (cfg : Cfg) (s : St) (l : Label) (c : ConnId) (h : l.conn ≠ c) :
    (step cfg s l).conn c = s.conn c :=
  step_conn_other cfg s l c h

/-- **auth_is_local (non-interference).**  After ANY schedule the state of connection `c` is
    what its own acts alone produce: nothing that happens on other connections (in particular
    an acceptance there) can influence it. -/
theorem conn_state_depends_only_on_own_steps (cfg : Cfg) (c : ConnId) (sched : List Label) (s : St) :
    (run cfg s sched).conn c = crun cfg c (s.conn c) (actsOf c sched) :=
  run_conn_local cfg c sched s

/-- **acceptance never transfers.**  If the schedule contains no accepting verdict for `c`
    itself — whatever is accepted on other connections — then `c` is never authenticated, and
    the log contains no dial, no relayed payload, no TCPResponse and no UDPMessage of `c`. -/
theorem acceptance_does_not_transfer (cfg : Cfg) (c : ConnId) (sched : List Label)
    (hs : ∀ l ∈ sched, ¬ (l.conn = c ∧ l.act = .authVerdict true)) :
    ((run cfg {} sched).conn c).authed = false ∧
    ∀ e ∈ (run cfg {} sched).effects, e.conn = c → e.gated = false := by
  constructor
  · have := run_never_armed cfg c sched hs {} not_armed_init
    cases h : ((run cfg {} sched).conn c).authed with
    | false => rfl
    | true => exact absurd (Or.inl h) this
  · intro e he hc
    have := run_never_gated cfg c sched hs {} inv_init not_armed_init (by simp)
    exact this e (by simpa [St.effects] using he) hc

/-- the hypothesis is satisfiable with another connection being accepted meanwhile -/
example : ∀ l ∈ ([⟨0, .authBegin "ok"⟩, ⟨0, .authVerdict true⟩, ⟨0, .authCommit⟩, ⟨1, .authBegin "no"⟩,
      ⟨1, .authVerdict false⟩, ⟨1, .authCommit⟩, ⟨1, .stream 0x401⟩] : List Label),
    ¬ (l.conn = 1 ∧ l.act = .authVerdict true) := by decide

/-- **auth_monotone_no_reeval (single request).**  On a connection that is authenticated (in any
    reachable state), a further auth-shaped request — whatever credentials it carries — emits
    exactly the 233 reply: no authenticator call, state unchanged. -/
theorem authed_request_replies_233_without_reeval (cfg : Cfg) (pre : List Label) (c : ConnId) (cred : String)
    (ha : ((run cfg {} pre).conn c).authed = true) (hc : ((run cfg {} pre).conn c).closed = false) :
    step cfg (run cfg {} pre) ⟨c, .authBegin cred⟩ =
      { run cfg {} pre with log := .resp233 c :: (run cfg {} pre).log } := by
  have hinv := inv_run cfg pre {} inv_init
  have hp := (hinv.wf c).idle ha
  have hcs : cstep cfg c ((run cfg {} pre).conn c) (.authBegin cred) = ((run cfg {} pre).conn c, [.resp233 c]) := by
    simp [cstep, hc, hp, ha]
  simpa using step_same_conn cfg _ c _ _ hcs

/-- **auth_monotone_no_reeval (whole future).**  Once `c` is authenticated, for EVERY continuation
    of the schedule: the flag stays set (no later rejected or repeated attempt revokes it) and
    nothing appended to the log is an authenticator call or verdict for `c` (no re-evaluation). -/
theorem auth_monotone_no_reeval (cfg : Cfg) (pre post : List Label) (c : ConnId)
    (ha : ((run cfg {} pre).conn c).authed = true) :
    ((run cfg {} (pre ++ post)).conn c).authed = true ∧
    ∃ new, (run cfg {} (pre ++ post)).log = new ++ (run cfg {} pre).log ∧
      ∀ e ∈ new, (∀ cred, e ≠ .authCall c cred) ∧ (∀ v, e ≠ .verdict c v) := by
  rw [run_append]
  exact ⟨run_authed_mono cfg c post _ ha, run_no_reeval cfg c post _ (inv_run cfg pre {} inv_init) ha⟩

/-- non-vacuity: an authenticated state, and a rejected-credentials attempt after it -/
example : ((run ⟨true⟩ {} [⟨0, .authBegin "ok"⟩, ⟨0, .authVerdict true⟩, ⟨0, .authCommit⟩]).conn 0).authed = true := by decide
example :
    (run ⟨true⟩ {} [⟨0, .authBegin "ok"⟩, ⟨0, .authVerdict true⟩, ⟨0, .authCommit⟩,
      ⟨0, .authBegin "bad"⟩, ⟨0, .authVerdict false⟩, ⟨0, .authCommit⟩, ⟨0, .stream 0x401⟩]).effects =
    [.authCall 0 "ok", .verdict 0 true, .resp233 0, .online 0 true, .resp233 0] := by decide

/-- **auth_monotone_no_reeval (trace form).**  In the effect log of every schedule, no call of the
    authenticator for `c` comes after an acceptance of `c`. -/
theorem no_authenticator_call_after_acceptance (cfg : Cfg) (sched : List Label) (pre post : List Eff)
    (c : ConnId) (cred : String)
    (hl : (run cfg {} sched).effects = pre ++ Eff.authCall c cred :: post) : accepted c ∉ pre :=
  no_call_after_accept cfg sched pre post c cred hl

/-- the two executable monitors that `hydrv auth` (and, on its own log, the Go oracle) evaluates
    are exactly these two trace properties, and they hold on every log of the model -/
theorem gate_monitor_holds (cfg : Cfg) (sched : List Label) :
    gateMonitor (run cfg {} sched).effects = true := by
  unfold gateMonitor
  rw [gateMonitorFrom_iff]
  intro pre e post hl hg
  exact Or.inr (gated_after_accept cfg sched pre post e hl hg)

theorem reeval_monitor_holds (cfg : Cfg) (sched : List Label) :
    reevalMonitor (run cfg {} sched).effects = true := by
  unfold reevalMonitor
  rw [reevalMonitorFrom_iff]
  intro pre c cred post hl
  exact ⟨by simp, no_call_after_accept cfg sched pre post c cred hl⟩

/-- the monitors are not trivially true: they reject a dial before the acceptance, a dial after
    another connection's acceptance, and a second call after the acceptance -/
example : gateMonitor [.authCall 0 "x", .dialTCP 0 "a", .verdict 0 true] = false := by decide
example : gateMonitor [.authCall 0 "x", .verdict 0 true, .dialTCP 1 "a"] = false := by decide
example : gateMonitor [.authCall 0 "x", .verdict 0 true, .dialTCP 0 "a", .relay 0 .udpDown "a" 3] = true := by decide
example : reevalMonitor [.authCall 0 "x", .verdict 0 true, .authCall 0 "y"] = false := by decide
example : reevalMonitor [.authCall 0 "x", .verdict 0 false, .authCall 0 "y", .verdict 0 true, .authCall 1 "z"] = true := by decide

/-- **verdict_pending_is_unauthed.**  In every reachable state in which the authenticator has been
    called for `c` and the handler has not yet acted on its answer (between authBegin and
    authCommit — even if the answer is already `ok`): the flag is unset, no UDP manager and no TCP
    handler exist, the dispatcher refuses every stream, the UDP manager consumes nothing, and NO
    step of `c` whatsoever emits a gated effect. -/
theorem verdict_pending_is_unauthed (cfg : Cfg) (pre : List Label) (c : ConnId)
    (hp : ((run cfg {} pre).conn c).phase ≠ .idle) :
    ((run cfg {} pre).conn c).authed = false ∧
    ((run cfg {} pre).conn c).udpUp = false ∧
    ((run cfg {} pre).conn c).tcp = [] ∧
    (∀ ft, step cfg (run cfg {} pre) ⟨c, .stream ft⟩ = run cfg {} pre) ∧
    (∀ ok, step cfg (run cfg {} pre) ⟨c, .udpRecv ok⟩ = run cfg {} pre) ∧
    (∀ a, ∀ e ∈ (cstep cfg c ((run cfg {} pre).conn c) a).2, e.gated = false) := by
  have hinv := inv_run cfg pre {} inv_init
  have hw := hinv.wf c
  have hna : ((run cfg {} pre).conn c).authed = false := by
    cases h : ((run cfg {} pre).conn c).authed with
    | false => rfl
    | true => exact absurd (hw.idle h) hp
  obtain ⟨hu, ht, _⟩ := hw.locked hna
  have hid : ∀ a, (cstep cfg c ((run cfg {} pre).conn c) a) = ((run cfg {} pre).conn c, []) →
      step cfg (run cfg {} pre) ⟨c, a⟩ = run cfg {} pre := fun a h => step_noop cfg _ c a h
  refine ⟨hna, hu, ht, fun ft => hid _ (by simp [cstep, hna]), fun ok => hid _ (by simp [cstep, hu]), ?_⟩
  intro a e he
  cases hg : e.gated with
  | false => rfl
  | true => exact absurd (cstep_gated cfg c _ a hw e he hg) (by simp [hna])

/-- non-vacuity: the verdict is already `ok` but not yet acted upon; the stream is refused -/
example : ((run ⟨true⟩ {} [⟨0, .authBegin "ok"⟩, ⟨0, .authVerdict true⟩]).conn 0).phase ≠ .idle := by decide
example :
    (run ⟨true⟩ {} [⟨0, .authBegin "ok"⟩, ⟨0, .dgramIn (some ("a:1", 5))⟩, ⟨0, .authVerdict true⟩, ⟨0, .stream 0x401⟩,
      ⟨0, .udpRecv true⟩, ⟨0, .tcpRead 0 (some "a:1") false⟩, ⟨0, .tcpDial 0 true⟩]).effects =
    [.authCall 0 "ok", .verdict 0 true] := by decide

/-- the queued datagram IS consumed after the commit (relayed after authentication, which the
    property allows) -/
example :
    (run ⟨true⟩ {} [⟨0, .dgramIn (some ("a:1", 5))⟩, ⟨0, .udpRecv true⟩, ⟨0, .authBegin "ok"⟩, ⟨0, .authVerdict true⟩,
      ⟨0, .authCommit⟩, ⟨0, .udpRecv true⟩, ⟨0, .udpReply "a:1" 5⟩]).effects =
    [.authCall 0 "ok", .verdict 0 true, .resp233 0, .online 0 true, .dialUDP 0 "a:1", .relay 0 .udpUp "a:1" 5,
     .relay 0 .udpDown "a:1" 5] := by decide

end Hy.Props.C01
