/-
  C02 — Unauthenticated peers see only the masquerade web server.
  Property theorems only; helper lemmas live in Hy.Proofs.Masq / Hy.Proofs.Auth.

  Request level: Hy.Model.Masq.serve = h3sHandler.ServeHTTP as a function of the request triple
  (Method, Host, URL.Path), the connection's flag, the authenticator `auth`, the random padding
  and the masquerade handler `masq : Req → Resp` (a PARAMETER: any handler).
  Stream / datagram level: Hy.Model.Auth (the C01 model), every interleaving.

  ASSUMED (tied by the `masq` stream, which sends header sections of 3 KiB .. 100 KiB, and by
  `shape_h3_server_fields`): net/http + quic-go/http3 deliver EVERY request whose header section is
  below the library's limit (http.DefaultMaxHeaderBytes = 1 MiB, as no MaxHeaderBytes is configured)
  to ServeHTTP; `serve` is therefore size-agnostic.
-/
import Hy.Proofs.Masq
import Hy.Gen.AuthShape
namespace Hy.Props.C02
open Hy Hy.Masq

/-! ### obligations on facts regenerated from the source (a change fails here) -/

theorem const_shape : Gen.MethodPost = "POST" ∧ Gen.URLHost = "hysteria" ∧ Gen.URLPath = "/auth" := ⟨rfl, rfl, rfl⟩
theorem const_status : Gen.StatusAuthOK = 233 := by decide
theorem const_headers :
    Gen.RequestHeaderAuth = "Hysteria-Auth" ∧ Gen.ResponseHeaderUDPEnabled = "Hysteria-UDP" ∧
    Gen.CommonHeaderCCRX = "Hysteria-CC-RX" ∧ Gen.CommonHeaderPadding = "Hysteria-Padding" := ⟨rfl, rfl, rfl, rfl⟩

/-- ServeHTTP is one `if <shape> {…} else {…}`; the shape test is three exact comparisons -/
theorem shape_condition :
    Gen.AuthShape.shapeCond =
      ["r.Method == http.MethodPost && r.Host == protocol.URLHost && r.URL.Path == protocol.URLPath",
       "statements=1 else=true"] := rfl

/-- every use of the ResponseWriter: the masquerade call on the two non-accepted paths; header
    and status writes only under `if h.authenticated` / `if ok`; the masquerade handler itself
    is MasqHandler or http.NotFound -/
theorem shape_response_writes :
    Gen.AuthShape.respWrites =
      ["h3sHandler.ServeHTTP | h.masqHandler | else(SHAPE)",
       "h3sHandler.ServeHTTP | h.masqHandler | if(SHAPE) > else(ok)",
       "h3sHandler.ServeHTTP | protocol.AuthResponseToHeader | if(SHAPE) > if(h.authenticated)",
       "h3sHandler.ServeHTTP | protocol.AuthResponseToHeader | if(SHAPE) > if(ok)",
       "h3sHandler.ServeHTTP | w.WriteHeader | if(SHAPE) > if(h.authenticated)",
       "h3sHandler.ServeHTTP | w.WriteHeader | if(SHAPE) > if(ok)",
       "h3sHandler.masqHandler | h.config.MasqHandler.ServeHTTP | if(h.config.MasqHandler != nil)",
       "h3sHandler.masqHandler | http.NotFound | else(h.config.MasqHandler != nil)"] := rfl

/-- the per-connection http3.Server is configured with the handler and the stream dispatcher only: no
    MaxHeaderBytes (or any other limit) below the library default that would make quic-go answer a
    request itself, before ServeHTTP and the masquerade handler see it -/
theorem shape_h3_server_fields :
    Gen.AuthShape.h3ServerFields = ["serverImpl.handleClient | Handler,StreamDispatcher"] := rfl

/-! ### request level -/

/-- the shape test is exact equality on all three coordinates (no prefix match, no case folding) -/
theorem auth_shape_is_exact (r : Req) :
    isAuthShape r = true ↔ r.method = "POST" ∧ r.host = "hysteria" ∧ r.path = "/auth" :=
  isAuthShape_iff r

/-- near misses of every kind are not auth-shaped -/
example : [(⟨"GET", "hysteria", "/auth"⟩ : Req), ⟨"post", "hysteria", "/auth"⟩, ⟨"POST", "Hysteria", "/auth"⟩,
    ⟨"POST", "hysteria:443", "/auth"⟩, ⟨"POST", "hysteria.", "/auth"⟩, ⟨"POST", "hysteria", "/auth/"⟩,
    ⟨"POST", "hysteria", "/AUTH"⟩, ⟨"POST", "hysteria", "//auth"⟩, ⟨"POST", "hysteria", "/"⟩,
    ⟨"POST", "hysteria", "/authx"⟩].all (fun r => !isAuthShape r) = true := by decide

/-- **nonaccepted_eq_masq.**  Every request that is not an accepted authentication request — wrong
    method, host or path, or auth-shaped with credentials the authenticator rejects on a connection
    that is not yet authenticated — receives EXACTLY the response of the masquerade handler
    (status, headers, body), and leaves the connection's flag as it was. -/
theorem nonaccepted_eq_masq (masq : Req → Resp) (auth : Req → Bool) (cfg : Masq.Cfg) (pad : String)
    (authed : Bool) (r : Req)
    (h : ¬ (isAuthShape r = true ∧ (authed = true ∨ auth r = true))) :
    serve masq auth cfg pad authed r = (masq r, authed) := by
  unfold serve
  cases hs : isAuthShape r <;> cases ha : authed <;> cases hv : auth r <;> simp_all

/-- the hypothesis holds for a near miss with VALID credentials, and for the exact shape with rejected ones -/
example : ¬ (isAuthShape ⟨"POST", "Hysteria", "/auth"⟩ = true ∧ (false = true ∨ (fun _ => true) (⟨"POST", "Hysteria", "/auth"⟩ : Req) = true)) := by decide
example : ¬ (isAuthShape ⟨"POST", "hysteria", "/auth"⟩ = true ∧ (false = true ∨ (fun _ => false) (⟨"POST", "hysteria", "/auth"⟩ : Req) = true)) := by decide

/-- conversely, an accepted authentication request (accepted now, or on an already authenticated
    connection whatever the credentials) gets the 233 response and sets / keeps the flag -/
theorem accepted_gets_233 (masq : Req → Resp) (auth : Req → Bool) (cfg : Masq.Cfg) (pad : String)
    (authed : Bool) (r : Req)
    (h : isAuthShape r = true ∧ (authed = true ∨ auth r = true)) :
    serve masq auth cfg pad authed r = (authOK cfg pad, true) := by
  unfold serve
  cases hs : isAuthShape r <;> cases ha : authed <;> cases hv : auth r <;> simp_all

/-- **no_hysteria_leak.**  For a request that is not an accepted authentication: the status is 233
    only if the masquerade handler itself answered 233, and every Hysteria-* response header is one
    the masquerade handler itself produced. -/
theorem no_hysteria_leak (masq : Req → Resp) (auth : Req → Bool) (cfg : Masq.Cfg) (pad : String)
    (authed : Bool) (r : Req)
    (h : ¬ (isAuthShape r = true ∧ (authed = true ∨ auth r = true))) :
    ((masq r).status ≠ Gen.StatusAuthOK → (serve masq auth cfg pad authed r).1.status ≠ Gen.StatusAuthOK) ∧
    (∀ hd ∈ (serve masq auth cfg pad authed r).1.headers, isHysteriaHeader hd.1 = true → hd ∈ (masq r).headers) := by
  rw [nonaccepted_eq_masq masq auth cfg pad authed r h]
  exact ⟨fun h => h, fun hd h _ => h⟩

/-- with the default handler (http.NotFound): plain 404, never 233, no Hysteria-* header at all -/
theorem no_hysteria_leak_default (auth : Req → Bool) (cfg : Masq.Cfg) (pad : String) (authed : Bool) (r : Req)
    (h : ¬ (isAuthShape r = true ∧ (authed = true ∨ auth r = true))) :
    (serve notFound auth cfg pad authed r).1.status = 404 ∧
    (serve notFound auth cfg pad authed r).1.status ≠ Gen.StatusAuthOK ∧
    (∀ hd ∈ (serve notFound auth cfg pad authed r).1.headers, isHysteriaHeader hd.1 = false) := by
  rw [nonaccepted_eq_masq notFound auth cfg pad authed r h]
  refine ⟨rfl, by simp [notFound]; decide, ?_⟩
  intro hd hm
  simp only [notFound, List.mem_cons, List.mem_nil_iff, or_false] at hm
  rcases hm with rfl | rfl <;> decide

/-- the three response headers of the 233 answer ARE Hysteria-specific (so the predicate is not vacuous) -/
example : ((authOK ⟨true, 0, false⟩ "x").headers.map (fun h => isHysteriaHeader h.1)) = [true, true, true] := by decide

/-- the authenticator is consulted only for an auth-shaped request on a not yet authenticated connection -/
theorem authenticator_called_only_for_shape (authed : Bool) (r : Req) :
    authCalled authed r = true ↔ isAuthShape r = true ∧ authed = false := by
  simp [authCalled]

/-- the request-level function and the step-level C01 model agree on every request handled to
    completion on an idle connection (233 ⇔ accepted; masquerade ⇔ not accepted; same flag;
    same authenticator consultation) -/
theorem serve_agrees_with_step_model (masq : Req → Resp) (mcfg : Masq.Cfg) (pad : String) (c : Auth.ConnId)
    (k : Auth.Conn) (r : Req) (cred : String) (v : Bool)
    (hw : Auth.Wf k) (hi : k.phase = .idle) (hc : k.closed = false) :
    let out := crunEff ⟨mcfg.udp⟩ c k (handleActs (isAuthShape r) cred v)
    let sv := serve masq (fun _ => v) mcfg pad k.authed r
    (Auth.Eff.resp233 c ∈ out.2 ↔ sv.1 = authOK mcfg pad ∧ isAuthShape r = true ∧ (k.authed = true ∨ v = true)) ∧
    (Auth.Eff.masq c ∈ out.2 ↔ ¬ (isAuthShape r = true ∧ (k.authed = true ∨ v = true))) ∧
    out.1.authed = sv.2 ∧
    ((∃ cr, Auth.Eff.authCall c cr ∈ out.2) ↔ authCalled k.authed r = true) ∧
    out.1.phase = .idle :=
  handle_agrees_with_serve masq mcfg pad c k r cred v hw hi hc

example : Auth.Wf {} ∧ ({} : Auth.Conn).phase = .idle ∧ ({} : Auth.Conn).closed = false := ⟨Auth.wf_init, rfl, rfl⟩

/-! ### stream / datagram level (corollaries of the C01 model: every interleaving) -/

open Hy.Auth in
/-- **preauth_stream_silent.**  In every history, TCPResponse bytes or relayed downstream bytes on a
    proxy stream of connection `c` are preceded by an accepted authentication of `c`. -/
theorem preauth_stream_silent (cfg : Auth.Cfg) (sched : List Label) (pre post : List Eff) (e : Eff)
    (hl : (run cfg {} sched).effects = pre ++ e :: post)
    (he : (∃ c ok, e = .tcpResp c ok) ∨ (∃ c a n, e = .relay c .tcpDown a n)) :
    accepted e.conn ∈ pre := by
  refine gated_after_accept cfg sched pre post e hl ?_
  rcases he with ⟨c, ok, rfl⟩ | ⟨c, a, n, rfl⟩ <;> rfl

open Hy.Auth in
/-- **preauth_dgram_silent.**  In every history, a UDPMessage sent to the client of connection `c`
    is preceded by an accepted authentication of `c`. -/
theorem preauth_dgram_silent (cfg : Auth.Cfg) (sched : List Label) (pre post : List Eff) (c : ConnId)
    (a : String) (n : Nat)
    (hl : (run cfg {} sched).effects = pre ++ .relay c .udpDown a n :: post) :
    accepted c ∈ pre :=
  gated_after_accept cfg sched pre post _ hl rfl

open Hy.Auth in
/-- a connection on which no authentication is ever accepted draws no Hysteria reply at all,
    whatever streams and datagrams it sends and whatever happens on other connections -/
theorem unauthenticated_conn_draws_no_reply (cfg : Auth.Cfg) (c : ConnId) (sched : List Label)
    (hs : ∀ l ∈ sched, ¬ (l.conn = c ∧ l.act = .authVerdict true)) :
    ∀ e ∈ (run cfg {} sched).effects, e.conn = c → e.isReply = false := by
  intro e he hc
  have := run_never_gated cfg c sched hs {} inv_init not_armed_init (by simp) e (by simpa [St.effects] using he) hc
  simp [Eff.gated] at this
  exact this.2

open Hy.Auth in
/-- non-vacuity: rejected, then a 0x401 stream and a datagram: only the masquerade answers -/
example :
    (run ⟨true⟩ {} [⟨0, .authBegin "bad"⟩, ⟨0, .authVerdict false⟩, ⟨0, .authCommit⟩, ⟨0, .stream 0x401⟩,
      ⟨0, .tcpRead 0 (some "a:1") false⟩, ⟨0, .dgramIn (some ("a:1", 3))⟩, ⟨0, .udpRecv true⟩, ⟨0, .http⟩]).effects =
    [.authCall 0 "bad", .verdict 0 false, .masq 0, .masq 0] := by decide

end Hy.Props.C02
