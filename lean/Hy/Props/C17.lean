/-
  C17 — Sniffing is transparent to the proxied flow; plus the QUIC-sniffer part of C03
  (peer-controlled bytes never crash the process — defect D2).
  Property theorems only; helper lemmas live in Hy.Proofs.{Sniff,SniffTCP,QuicInitial}.

  Models: Hy.Model.Sniff (Sniffer.TCP, teeReader, host/port rewriting of extras/sniff/sniff.go)
  and Hy.Model.QuicInitial (ParseInitialHeader → ReadCryptoPayload → UnProtect →
  extractCryptoFrames → assembleCryptoFrames → Sniffer.UDP).  The main model is the code WITH
  the repairs D2 (`checkAll`), D3 (`copyFirst`), D12 (`stripBrackets`); the `*_pinned_*`
  theorems are `decide`-checked witnesses of what the pinned tree does.

  Quantification: every byte stream, every split into reads (`Stream.chunks`, empty reads
  included), every point at which the read deadline fires (`Stream.dl`), EOF with or after the
  last bytes (`Stream.fin`), every behaviour of the HTTP parser (any list of Read sizes whose
  first covers the 3-byte probe — bufio's contract, tied to the toolchain by `const_bufio` —
  and any result), every behaviour of utls, of the header-protection function, of the AEAD
  and of sort.Slice.
-/
import Hy.Proofs.SniffTCP
import Hy.Proofs.QuicInitial
import Hy.Model.SniffServer
import Hy.Gen.Extras
set_option linter.unusedSimpArgs false
set_option linter.unusedVariables false
namespace Hy.Props.C17
open Hy Hy.Sniff Hy.Res

open Lean in
/-- `b!"GET"` = `[71, 69, 84]`: a byte-string literal as a numeral list (reduces under `decide`) -/
macro:max "b!" s:str : term => do
  let xs : Array (TSyntax `term) :=
    (s.getString.toUTF8.toList.map (fun b => (⟨Syntax.mkNumLit (toString b.toNat)⟩ : TSyntax `term))).toArray
  `(([$xs,*] : Hy.Bytes))

/-! ### obligations on the regenerated constants -/

/-- bufio's first Read asks for its whole buffer; it must cover the 3-byte probe and must not be
    cut short by the io.LimitReader in front of the tee reader -/
theorem const_bufio : 3 ≤ Gen.sniff_bufioSize ∧ Gen.sniff_bufioSize ≤ Gen.sniff_maxHTTPHeaderBytes := by decide

theorem const_quic :
    Gen.sniff_quicMaxCryptoFrameDataLen = Quic.maxCryptoFrameDataLen ∧
    Gen.sniff_quicMaxCryptoPayloadLen = Quic.maxCryptoPayloadLen ∧
    Gen.sniff_quicV1 = Quic.V1 ∧ Gen.sniff_quicV2 = Quic.V2 ∧
    Gen.sniff_quicPaddingFrameType = 0 ∧ Gen.sniff_quicPingFrameType = 1 ∧
    Gen.sniff_quicCryptoFrameType = 6 := by decide

/-! ### TCP -/

/-- the parser's first Read covers the probe (bufio: 4096 ≥ 3) -/
def FirstReadCovers (P : Parsers) : Prop := ∀ k ks, P.reads = k :: ks → 3 ≤ k

/-- **tcp_transparent.** Whatever the client sends, however it is chunked, wherever the deadline
    fires, whatever the parsers do: the bytes handed back for replay followed by the bytes still
    unread on the stream are exactly what the client sent. -/
theorem tcp_transparent (cfg : Cfg) (P : Parsers) (addr : Bytes) (s : Stream) (out : TcpOut)
    (hfirst : FirstReadCovers P) (h : sniffTCP cfg P addr s = .ok out) :
    out.putback ++ out.s.unread = s.unread := by
  rw [sniffTCP_eq_pure] at h
  exact pure_transparent cfg P addr s out hfirst h

/-- a non-trivial instance: a request split in the middle of the method, Host rewritten -/
example :
    let P : Parsers := ⟨[4096, 4096, 4096], fun _ => some (b!"example.com:8080"), fun _ => none⟩
    let s : Stream := ⟨[b!"GE", b!"T / HT", b!"TP/1.1\r\n"], none, false⟩
    FirstReadCovers P ∧
    sniffTCP fixed P (b!"1.2.3.4:80") s
      = .ok ⟨b!"GET / HTTP/1.1\r\n", b!"example.com:80", ⟨[], none, false⟩⟩ := by
  refine ⟨?_, by decide⟩
  intro k ks h; simp at h; omega

/-- the hypothesis is needed: a 2-byte first Read reorders the replay (Buffer() = Pre ++ buf) -/
theorem first_read_hypothesis_needed :
    sniffTCP fixed ⟨[2], fun _ => none, fun _ => none⟩ [] ⟨[b!"GET "], none, false⟩
      = .ok ⟨[84, 71, 69], [], ⟨[[32]], none, false⟩⟩ := by decide

/-- **early_return_exact.** When the stream runs dry (deadline or EOF) before the probe, the TLS
    record header or the TLS record body is complete, exactly the bytes read so far are handed
    back, the address is untouched and the stream is where the reads left it. -/
theorem early_return_exact (cfg : Cfg) (P : Parsers) (addr : Bytes) (s : Stream) :
    let r1 := s.readFull 3
    let r2 := r1.2.2.readFull 2
    let r3 := r2.2.2.readFull (contentLength r2.1)
    (r1.2.1 = false → sniffTCP cfg P addr s = .ok ⟨r1.1, addr, r1.2.2⟩) ∧
    (r1.2.1 = true → isHTTP r1.1 = false → isTLS r1.1 = true → r2.2.1 = false →
        sniffTCP cfg P addr s = .ok ⟨r1.1 ++ r2.1, addr, r2.2.2⟩) ∧
    (r1.2.1 = true → isHTTP r1.1 = false → isTLS r1.1 = true → r2.2.1 = true → r3.2.1 = false →
        sniffTCP cfg P addr s = .ok ⟨r1.1 ++ r2.1 ++ r3.1, addr, r3.2.2⟩) := by
  simp only [sniffTCP_eq_pure, sniffTCPPure]
  refine ⟨?_, ?_, ?_⟩
  · intro h; simp [h]
  · intro h1 h2 h3 h4; simp [h1, h2, h3, h4]
  · intro h1 h2 h3 h4 h5; simp [h1, h2, h3, h4, h5]

/-- **unrecognised_untouched.** Input that is neither HTTP nor TLS (or shorter than the probe):
    destination untouched, exactly the probe bytes handed back. -/
theorem unrecognised_untouched (cfg : Cfg) (P : Parsers) (addr : Bytes) (s : Stream)
    (h : (s.readFull 3).2.1 = false ∨ (isHTTP (s.readFull 3).1 = false ∧ isTLS (s.readFull 3).1 = false)) :
    sniffTCP cfg P addr s = .ok ⟨(s.readFull 3).1, addr, (s.readFull 3).2.2⟩ := by
  simp only [sniffTCP_eq_pure, sniffTCPPure]
  rcases h with h | ⟨h1, h2⟩
  · simp [h]
  · cases hok : (s.readFull 3).2.1 <;> simp [hok, h1, h2]

/-- instance: four bytes that are neither HTTP nor TLS, delivered 1 + 3 -/
example : isHTTP ((⟨[[1], [2, 3, 4]], none, false⟩ : Stream).readFull 3).1 = false ∧
    isTLS ((⟨[[1], [2, 3, 4]], none, false⟩ : Stream).readFull 3).1 = false ∧
    sniffTCP fixed ⟨[], fun _ => none, fun _ => none⟩ b!"1.2.3.4:80" ⟨[[1], [2, 3, 4]], none, false⟩
      = .ok ⟨[1, 2, 3], b!"1.2.3.4:80", ⟨[[4]], none, false⟩⟩ := by decide

/-- **truncated_untouched.** The destination changes only if a parser produced a non-empty name:
    an HTTP header block that did not arrive completely (parser returns nothing) or a hello
    utls does not accept leaves it alone. -/
theorem truncated_untouched (cfg : Cfg) (P : Parsers) (addr : Bytes) (s : Stream) (out : TcpOut)
    (hhttp : ∀ b, P.httpHost b = none ∨ P.httpHost b = some [])
    (hsni : ∀ b, P.sni b = none ∨ P.sni b = some [])
    (h : sniffTCP cfg P addr s = .ok out) : out.addr = addr := by
  rw [sniffTCP_eq_pure] at h
  unfold sniffTCPPure at h
  simp only at h
  have key : ∀ (f : Bytes → Bytes) (name : Option Bytes) (pb : Bytes) (st : Stream),
      (name = none ∨ name = some []) → applyName f addr name pb st = .ok out → out.addr = addr := by
    intro f name pb st hn ha
    rcases hn with hn | hn <;> subst hn <;> simp [applyName] at ha <;> rw [← ha]
  split at h
  · simp only [Res.ok.injEq] at h; rw [← h]
  · split at h
    · exact key _ _ _ _ (hhttp _) h
    · split at h
      · split at h
        · simp only [Res.ok.injEq] at h; rw [← h]
        · split at h
          · simp only [Res.ok.injEq] at h; rw [← h]
          · exact key _ _ _ _ (hsni _) h
      · simp only [Res.ok.injEq] at h; rw [← h]

/-- instance: the deadline fires after two reads, in the middle of the header block — the parser
    has no request, the address stays, and what was read is handed back -/
example :
    sniffTCP fixed ⟨[4096, 4096, 4096], fun _ => none, fun _ => none⟩ b!"1.2.3.4:80"
        ⟨[b!"GET / HTTP/1.1\r\nHo", b!"st: example.com\r\n\r\n"], some 2, false⟩
      = .ok ⟨b!"GET / HTTP/1.1\r\nHo", b!"1.2.3.4:80", ⟨[b!"st: example.com\r\n\r\n"], some 0, false⟩⟩ := by
  decide

/-- **host_only_from_bytes.** The destination is either untouched, or it is
    JoinHostPort(name, port of the ORIGINAL address) where `name` is what the HTTP parser
    returned for exactly the bytes that are handed back (host part of the Host value), or what
    utls returned for exactly the record body that is handed back. -/
theorem host_only_from_bytes (cfg : Cfg) (P : Parsers) (addr : Bytes) (s : Stream) (out : TcpOut)
    (hfirst : ∃ k ks, P.reads = k :: ks ∧ 3 ≤ k)
    (h : sniffTCP cfg P addr s = .ok out) :
    out.addr = addr ∨ ∃ h0 p, splitHostPort addr = some (h0, p) ∧
      ((∃ n, P.httpHost out.putback = some n ∧ n ≠ [] ∧ out.addr = joinHostPort (hostOfHeader cfg n) p) ∨
       (∃ n, P.sni (out.putback.drop 5) = some n ∧ n ≠ [] ∧ out.addr = joinHostPort n p)) := by
  rw [sniffTCP_eq_pure] at h
  exact pure_rewrite_source cfg P addr s out hfirst h

/-- names the parsers may return for `port_preserved`: after normalisation no stray bracket
    (every `host`, `host:port`, `[v6]`, `[v6]:port` Host value and every DNS name qualifies) -/
def WellFormedNames (cfg : Cfg) (P : Parsers) : Prop :=
  (∀ b n, P.httpHost b = some n → Clean (hostOfHeader cfg n)) ∧ (∀ b n, P.sni b = some n → Clean n)

/-- the full statement: the port never changes, whatever the parsers return -/
def port_preserved_full : Prop :=
  ∀ (P : Parsers) (addr : Bytes) (s : Stream) (out : TcpOut) (h0 p : Bytes),
    (∃ k ks, P.reads = k :: ks ∧ 3 ≤ k) → sniffTCP fixed P addr s = .ok out →
    splitHostPort addr = some (h0, p) → ∃ h1, splitHostPort out.addr = some (h1, p)

/-- **port_preserved** (partial: needs `WellFormedNames`). The rewritten destination still
    parses and its port is the port of the original destination.  What is missing for the full
    statement: http.ReadRequest accepts Host values with stray brackets (`a]b`, `[abc`), for
    which JoinHostPort produces an address SplitHostPort rejects — see `port_preserved_full_false`;
    such a Host is not a valid HTTP request in the sense of the property's quantifier. -/
theorem port_preserved_partial (P : Parsers) (addr : Bytes) (s : Stream) (out : TcpOut) (h0 p : Bytes)
    (hfirst : ∃ k ks, P.reads = k :: ks ∧ 3 ≤ k) (hwf : WellFormedNames fixed P)
    (h : sniffTCP fixed P addr s = .ok out) (hs : splitHostPort addr = some (h0, p)) :
    ∃ h1, splitHostPort out.addr = some (h1, p) := by
  obtain ⟨hp1, hp2⟩ := splitHostPort_port _ _ _ hs
  rcases host_only_from_bytes fixed P addr s out hfirst h with he | ⟨h0', p', hs', hc⟩
  · exact ⟨h0, by rw [he]; exact hs⟩
  · rw [hs] at hs'
    simp only [Option.some.injEq, Prod.mk.injEq] at hs'
    obtain ⟨_, rfl⟩ := hs'
    rcases hc with ⟨n, hn, _, ha⟩ | ⟨n, hn, _, ha⟩
    · exact ⟨_, by rw [ha]; exact split_join _ _ (hwf.1 _ _ hn) hp1 hp2⟩
    · exact ⟨_, by rw [ha]; exact split_join _ _ (hwf.2 _ _ hn) hp1 hp2⟩

/-- the bracketed IPv6 Host forms and plain names meet `WellFormedNames` (with the D12 repair) -/
example : Clean (hostOfHeader fixed (b!"[2001:db8::1]"))
    ∧ Clean (hostOfHeader fixed (b!"[2001:db8::1]:8443"))
    ∧ Clean (hostOfHeader fixed (b!"example.com:8080"))
    ∧ hostOfHeader fixed (b!"[2001:db8::1]") = b!"2001:db8::1" := by decide

example : WellFormedNames fixed ⟨[4096], fun _ => some b!"[2001:db8::1]", fun _ => some b!"example.com"⟩ := by
  refine ⟨fun b n h => ?_, fun b n h => ?_⟩
  · simp only [Option.some.injEq] at h; subst h; decide
  · simp only [Option.some.injEq] at h; subst h; decide

/-- the full statement is false (even with the repair): `Host: a]b` -/
theorem port_preserved_full_false : ¬ port_preserved_full := by
  intro hfull
  have := hfull ⟨[4096], fun _ => some (b!"a]b"), fun _ => none⟩
    (b!"1.2.3.4:80") ⟨[b!"GET"], none, false⟩
    ⟨b!"GET", b!"a]b:80", ⟨[], none, false⟩⟩
    (b!"1.2.3.4") (b!"80") ⟨4096, [], rfl, by omega⟩ (by decide) (by decide)
  obtain ⟨h1, hh⟩ := this
  revert hh
  have : splitHostPort (b!"a]b:80") = none := by decide
  simp only [this]
  intro hh; cases hh

/-- **D12 on the pinned tree** (`decide`): `Host: [2001:db8::1]` on `1.2.3.4:80` becomes
    `[[2001:db8::1]]:80`, which SplitHostPort rejects; with the repair it is `[2001:db8::1]:80`. -/
theorem port_pinned_counterexample :
    let P : Parsers := ⟨[4096, 4096], fun _ => some b!"[2001:db8::1]", fun _ => none⟩
    let req : Bytes := b!"GET / HTTP/1.1\r\nHost: [2001:db8::1]\r\n\r\n"
    let s : Stream := ⟨[req], none, false⟩
    sniffTCP pinned P b!"1.2.3.4:80" s = .ok ⟨req, b!"[[2001:db8::1]]:80", ⟨[], none, false⟩⟩ ∧
    splitHostPort b!"[[2001:db8::1]]:80" = none ∧
    sniffTCP fixed P b!"1.2.3.4:80" s = .ok ⟨req, b!"[2001:db8::1]:80", ⟨[], none, false⟩⟩ ∧
    splitHostPort b!"[2001:db8::1]:80" = some (b!"2001:db8::1", b!"80") := by decide

/-- the sniffer aborts the connection (`return nil, err`) only for a destination that has no
    port — which `Sniffer.Check` has already excluded -/
theorem tcp_abort_only_unparseable (cfg : Cfg) (P : Parsers) (addr : Bytes) (s : Stream)
    (h : sniffTCP cfg P addr s = .reject) : splitHostPort addr = none := by
  rw [sniffTCP_eq_pure] at h
  exact pure_reject cfg P addr s h

/-- **tls_record_arith_total** (C03). No slice or index expression of Sniffer.TCP — `pre[:n]`,
    `pre[3:]`, `pre[:3+n]`, `pre[3]`, `pre[4]`, `pre[5:]`, `pre[:5+n]` with the peer-chosen
    16-bit content length — can fault, for any stream and any parser behaviour. -/
theorem tls_record_arith_total (cfg : Cfg) (P : Parsers) (addr : Bytes) (s : Stream) :
    NoPanic (sniffTCP cfg P addr s) := by
  rw [sniffTCP_eq_pure]
  exact pure_noPanic cfg P addr s

/-- **tcp_transparent_total.** For a destination that has a port (what `Sniffer.Check` lets
    through) the sniffer always returns normally — no fault, no abort — and is transparent. -/
theorem tcp_transparent_total (cfg : Cfg) (P : Parsers) (addr : Bytes) (s : Stream)
    (hfirst : FirstReadCovers P) (haddr : splitHostPort addr ≠ none) :
    ∃ out, sniffTCP cfg P addr s = .ok out ∧ out.putback ++ out.s.unread = s.unread := by
  cases h : sniffTCP cfg P addr s with
  | ok out => exact ⟨out, rfl, tcp_transparent cfg P addr s out hfirst h⟩
  | reject => exact absurd (tcp_abort_only_unparseable cfg P addr s h) haddr
  | panic => exact absurd h (tls_record_arith_total cfg P addr s)

example : splitHostPort b!"[2001:db8::2]:443" ≠ none ∧ splitHostPort b!"1.2.3.4:80" ≠ none := by decide

/-! ### ownership of the replay buffer

`handleTCPRequest` writes the returned `putback` only after its outbound dial has completed,
and one `Sniffer` serves every stream of every client: while stream A dials, streams B, C, …
are sniffed.  The server therefore relies on the returned slice being OWNED by the call.

In this value-threading model that is true by construction and the theorem below is
deliberately trivial: `sniffTCP` has no state argument, a call on B takes nothing of A's
output as input, so the result for A inside any sequence of calls is the result of sniffing A
alone.  It is stated so that the reliance is on record, NOT because it constrains the Go code:
**slice aliasing (a pooled / package-level / per-Sniffer scratch array behind the returned
slice) is a Go-level hazard that no theorem here sees.**  It is tied to the code only by
(a) the harness op `two` — k streams through one real `Sniffer`, every returned slice kept
uncopied, all oracles (`putback ++ remainder == sent` first of all) evaluated after the last
stream has been sniffed, diffed against `sniffSeq` — and (b) the regenerated structural facts
of `const_no_shared_buffer`. -/

/-- k sniffer calls in sequence on one Sniffer (what `hydrv sniff` runs for a `two` op) -/
def sniffSeq (cfg : Cfg) (calls : List (Parsers × Bytes × Stream)) : List (Res TcpOut) :=
  calls.map (fun c => sniffTCP cfg c.1 c.2.1 c.2.2)

/-- **putback_owned.** Whatever is sniffed before and after, stream A's result — replay bytes,
    address, remainder — is what sniffing A alone gives (hence transparent by `tcp_transparent`). -/
theorem putback_owned (cfg : Cfg) (before after : List (Parsers × Bytes × Stream))
    (a : Parsers × Bytes × Stream) :
    (sniffSeq cfg (before ++ a :: after))[before.length]? = some (sniffTCP cfg a.1 a.2.1 a.2.2) := by
  simp [sniffSeq]

/-- source shape (go/ast over extras/sniff, regenerated on every run): no package-level variable
    that could hold a shared buffer, no `sync` import (sync.Pool), Sniffer has exactly its four
    configuration fields and none of slice / pointer / map / chan type; the source was found. -/
theorem const_no_shared_buffer :
    1 ≤ Gen.sniff_srcFilesParsed ∧ Gen.sniff_pkgLevelVars = 0 ∧ Gen.sniff_importsSync = 0 ∧
    Gen.sniff_snifferFields = 4 ∧ Gen.sniff_snifferBufFields = 0 := by decide

/-! ### UDP / QUIC -/

open Hy.Quic in
/-- the contracts of the external pieces: AES returns a block (the code indexes mask[0..4]);
    sort.Slice permutes in place -/
def CryptoContract (C : Quic.Crypto) (sortFn : List Quic.Frame → List Quic.Frame) : Prop :=
  (∀ v d s, 5 ≤ (C.mask v d s).length) ∧ (∀ l, (sortFn l).length = l.length)

/-- **quic_sniff_total** (C03, D2 repaired). For every datagram and every behaviour of the
    header-protection function, the AEAD, sort.Slice and utls, no index or slice expression in
    parseLongHeader → ReadCryptoPayload → UnProtect → extractCryptoFrames →
    assembleCryptoFrames → Sniffer.UDP faults. -/
theorem quic_sniff_total (C : Quic.Crypto) (sortFn : List Quic.Frame → List Quic.Frame)
    (sni : Bytes → Option Bytes) (addr data : Bytes) (hc : CryptoContract C sortFn) :
    NoPanic (Quic.sniffUDP Quic.fixed C sortFn sni addr data) := by
  obtain ⟨a, e, h, _⟩ := Quic.sniffUDP_spec C sortFn sni addr data hc.2 hc.1
  rw [h]; simp

/-- **udp_unmodified** (D3 repaired). The packet handed back — the slice the server forwards
    next — equals the packet handed in, for every outcome of the sniffer (header rejected,
    decryption failed, frames rejected, no hello, name found). -/
theorem udp_unmodified (C : Quic.Crypto) (sortFn : List Quic.Frame → List Quic.Frame)
    (sni : Bytes → Option Bytes) (addr data : Bytes) (hc : CryptoContract C sortFn) :
    ∃ addr' err, Quic.sniffUDP Quic.fixed C sortFn sni addr data = .ok ⟨data, addr', err⟩ := by
  obtain ⟨a, e, h, _⟩ := Quic.sniffUDP_spec C sortFn sni addr data hc.2 hc.1
  exact ⟨a, e, h⟩

/-- a non-trivial instance: header protection removed, AEAD opened, CRYPTO frame extracted,
    name applied — and the packet comes back as it went in -/
example :
    let C : Quic.Crypto := ⟨fun _ _ _ => List.replicate 16 0xff,
      fun _ _ _ _ _ => some [6, 0, 4, 1, 0, 0, 0], id⟩
    let pkt : Bytes := [0xc0, 0, 0, 0, 1, 0, 0, 0, 20] ++ List.replicate 20 0xaa
    CryptoContract C id ∧
    Quic.sniffUDP Quic.fixed C id (fun _ => some (b!"ab")) (b!"9.9.9.9:443") pkt
      = .ok ⟨pkt, b!"ab:443", false⟩ := by
  refine ⟨⟨fun _ _ _ => by simp, fun _ => rfl⟩, by decide⟩

/-- **udp_host_only_from_bytes / udp_port_preserved.** The destination is untouched, or it is
    JoinHostPort(server name utls found in the CRYPTO payload of exactly this packet, port of the
    original destination); for a bracket-free name it parses back to that name and port. -/
theorem udp_host_only_from_bytes (C : Quic.Crypto) (sortFn : List Quic.Frame → List Quic.Frame)
    (sni : Bytes → Option Bytes) (addr data : Bytes) (out : Quic.UdpOut) (hc : CryptoContract C sortFn)
    (h : Quic.sniffUDP Quic.fixed C sortFn sni addr data = .ok out) :
    out.addr = addr ∨ ∃ pl n h0 p, Quic.readCryptoPayload Quic.fixed C sortFn data = .ok (data, some pl)
      ∧ sni pl = some n ∧ n ≠ [] ∧ splitHostPort addr = some (h0, p) ∧ out.addr = joinHostPort n p
      ∧ (Clean n → splitHostPort out.addr = some (n, p)) := by
  obtain ⟨a, e, h', hx⟩ := Quic.sniffUDP_spec C sortFn sni addr data hc.2 hc.1
  rw [h'] at h
  simp only [Res.ok.injEq] at h
  subst h
  rcases hx with hx | ⟨pl, n, h0, p, h1, h2, h3, h4, h5, _⟩
  · exact Or.inl hx
  · refine Or.inr ⟨pl, n, h0, p, h1, h2, h3, h4, h5, fun hcl => ?_⟩
    obtain ⟨hp1, hp2⟩ := splitHostPort_port _ _ _ h4
    show splitHostPort a = some (n, p)
    rw [h5]; exact split_join n p hcl hp1 hp2

/-- **D2 on the pinned tree** (`decide`): the 10-byte datagram `40 00000001 00 00 00 01 ff`
    (fixed bit set, long-header bit clear) passes the header parser and faults on the
    header-protection sample `packet[13:29]` (capacity 10); the repaired code returns. -/
theorem quic_pinned_counterexample :
    let C : Quic.Crypto := ⟨fun _ _ _ => List.replicate 16 0, fun _ _ _ _ _ => none, id⟩
    let pkt : Bytes := [0x40, 0, 0, 0, 1, 0, 0, 0, 1, 0xff]
    Quic.sniffUDP Quic.pinned C id (fun _ => none) [] pkt = .panic ∧
    Quic.sniffUDP ⟨true, false⟩ C id (fun _ => none) [] pkt = .ok ⟨pkt, [], false⟩ := by decide

/-- **D3 on the pinned tree** (`decide`): a 29-byte Initial whose payload does not even decrypt
    comes back with its first byte, its packet-number bytes and its payload altered; with the
    repair it comes back untouched. -/
theorem udp_pinned_counterexample :
    let C : Quic.Crypto := ⟨fun _ _ _ => List.replicate 16 0xff, fun _ _ _ _ _ => none,
      fun b => List.replicate b.length 0⟩
    let pkt : Bytes := [0xc0, 0, 0, 0, 1, 0, 0, 0, 20] ++ List.replicate 20 0xaa
    Quic.sniffUDP ⟨true, false⟩ C id (fun _ => none) [] pkt
      = .ok ⟨[0xcf, 0, 0, 0, 1, 0, 0, 0, 20, 0x55, 0x55, 0x55, 0x55] ++ List.replicate 16 0xaa, [], false⟩ ∧
    Quic.sniffUDP Quic.fixed C id (fun _ => none) [] pkt = .ok ⟨pkt, [], false⟩ := by decide

/-! ### the server's composition (core/server/server.go hook branch, core/server/udp.go)

What the TARGET receives.  Assumptions, stated in the theorems: the outbound dial succeeds,
`tConn.Write(putback)` accepts all of it (`written ≥ putback.length`; the code ignores that
call's error), and the relay delivers every byte still unread on the stream in order (C06).
The end-to-end stream `sniffe2e` (real server, real Sniffer as RequestHook, real client over
loopback, recording Outbound) checks the same statement on the implementation. -/

open Hy.SniffServer in
/-- **server_hook_transparent.** For every client byte stream, chunking, deadline point and parser
    behaviour, a hooked TCP request whose address has a port: the target's byte stream is exactly
    the client's byte stream; the address dialled is the one the sniffer left (so
    `host_only_from_bytes` / `port_preserved` apply to it); exactly one response header is
    written to the client. -/
theorem server_hook_transparent (cfg : Cfg) (P : Parsers) (addr : Bytes) (s : Stream) (written : Nat)
    (hfirst : FirstReadCovers P) (haddr : splitHostPort addr ≠ none)
    (hw : ∀ out, sniffTCP cfg P addr s = .ok out → out.putback.length ≤ written) :
    ∃ out, sniffTCP cfg P addr s = .ok out ∧
      hookedTCP cfg P true written addr s = .ok ⟨some out.addr, s.unread, 1⟩ := by
  obtain ⟨out, ho, ht⟩ := tcp_transparent_total cfg P addr s hfirst haddr
  refine ⟨out, ho, ?_⟩
  simp only [hookedTCP, ho, ↓reduceIte, List.take_of_length_le (hw out ho), ht]

open Hy.SniffServer in
/-- an unhooked request is dialled as asked and relayed as is -/
theorem server_unhooked_untouched (cfg : Cfg) (P : Parsers) (addr : Bytes) (s : Stream) (written : Nat) :
    hookedTCP cfg P false written addr s = .ok ⟨some addr, s.unread, 1⟩ := by
  simp [hookedTCP]

open Hy.SniffServer in
/-- the write assumption is needed: a target that accepts only part of the replay loses bytes -/
theorem server_short_write_loses_bytes :
    hookedTCP fixed ⟨[4096], fun _ => none, fun _ => none⟩ true 1 b!"1.2.3.4:80"
      ⟨[b!"GET /"], none, false⟩ = .ok ⟨some b!"1.2.3.4:80", b!"G /", 1⟩ := by decide

open Hy.SniffServer in
/-- **udp_hook_forwards_unmodified.** First datagram of a hooked UDP session, any packet and any
    behaviour of the crypto parameters: either no connection is created (only when the address
    has no port), or Outbound.UDP is dialled with the address the sniffer left and the first
    WriteTo carries the client's datagram byte for byte, to that same address. -/
theorem udp_hook_forwards_unmodified (C : Quic.Crypto) (sortFn : List Quic.Frame → List Quic.Frame)
    (sni : Bytes → Option Bytes) (addr data : Bytes) (hc : CryptoContract C sortFn) :
    ∃ addr' err, Quic.sniffUDP Quic.fixed C sortFn sni addr data = .ok ⟨data, addr', err⟩ ∧
      hookedUDP Quic.fixed C sortFn sni true addr data
        = .ok (if err then ⟨none, none⟩ else ⟨some addr', some (data, addr')⟩) ∧
      (err = true → splitHostPort addr = none) := by
  obtain ⟨a, e, h, hx⟩ := Quic.sniffUDP_spec C sortFn sni addr data hc.2 hc.1
  refine ⟨a, e, h, ?_, ?_⟩
  · simp only [hookedUDP, h, ↓reduceIte]
    cases e <;> rfl
  · intro he
    subst he
    -- err = true arises only on the SplitHostPort failure branch
    unfold Quic.sniffUDP at h
    obtain ⟨pl, hpl⟩ := Quic.readCryptoPayload_spec C sortFn data hc.2 hc.1
    simp only [Res.bind_eq, hpl, Res.bind_ok] at h
    cases pl with
    | none => simp at h
    | some pl =>
      simp only at h
      split at h
      · simp at h
      · rename_i h4
        rw [Quic.idx_ok pl 0 (by omega)] at h
        simp only [Res.bind_ok] at h
        split at h
        · simp at h
        · cases hs : sni pl with
          | none => rw [hs] at h; simp at h
          | some n =>
            rw [hs] at h
            simp only at h
            split at h
            · cases hsp : splitHostPort addr with
              | none => rfl
              | some hp => rw [hsp] at h; simp at h
            · simp at h

end Hy.Props.C17
