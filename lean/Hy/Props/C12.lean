/-
  C12 — BBR survives any QUIC-consistent event sequence with sane outputs.
  Property theorems only; helper lemmas live in Hy.Proofs.{Ring,Pnq,BbrCore}.

  (a) containers: Hy.Model.Ring  = core/internal/congestion/bbr/ringbuffer.go
                  Hy.Model.Pnq   = core/internal/congestion/bbr/packet_number_indexed_queue.go
-/
import Hy.Proofs.Pnq
set_option linter.unusedSimpArgs false
namespace Hy.Props.C12
open Hy Hy.Ring Hy.Pnq

/-! ## (a) containers -/

/-- **ring_refines_deque** (one step).  For a well-formed ring `r` holding the queue `l`
    (`Rel r l`), every operation of ringbuffer.go — PushBack (with grow, wrap-around and zero
    capacity), PopFront, Offset, Front, Back, Clear, Len, Empty, grow — does on the ring
    exactly what the list-deque specification does on `l`: same output, related successor
    states (well-formedness included), and a panic exactly where the specification panics
    (pop/front/back/offset on an empty queue, offset at or past the end). -/
theorem ring_refines_deque {α : Type} [Inhabited α] (r : RB α) (l : List α) (h : Rel r l)
    (op : ROp α) (hd : op.inDomain r) :
    Refines (implStep r op) (specStep l op) :=
  step_refines h op hd

/-- **ring_refines_deque** (every sequence of exported operations from `Init n`, any `n`
    including the zero value): outputs and final contents equal those of the list-deque;
    the first panic, if any, is at the same operation. -/
theorem ring_refines_deque_run {α : Type} [Inhabited α] (n : Nat) (ops : List (ROp α))
    (hp : ∀ op ∈ ops, op.isPublic = true) :
    RefinesRun (implRun (init n : RB α) ops) (specRun [] ops) :=
  run_refines ops _ _ (rel_init n) hp

/-- a concrete wrapped + grown run meets the hypotheses and is not trivial -/
example : implRun (init 2 : RB Nat)
    [.push 1, .push 2, .pop, .push 3, .push 4, .offset 2, .back, .len] =
    Res.ok ({ ring := [2, 3, 4, 0], head := 0, tail := 3, full := false },
            [.unit, .unit, .val 1, .unit, .unit, .val 4, .val 4, .num 3]) := by decide

/-- PushBack never panics on a well-formed ring (in particular not on the implicit
    `r.ring[r.tailPos]` / `oldRing[r.headPos:]` bounds checks) -/
theorem ring_push_no_panic {α : Type} [Inhabited α] (r : RB α) (w : r.WF) (x : α) :
    ∃ r', r.pushBack x = Res.ok r' ∧ r'.WF ∧ r'.toList = r.toList ++ [x] := by
  obtain ⟨r', h1, h2, h3⟩ := pushBack_spec r w x
  exact ⟨r', h1, h3, h2⟩

/-- outside the specified domain: `Offset(-1)` does not fault when `headPos > 0`, it returns
    the (zeroed) slot before the head — recorded as a fact about the code, callers never do it -/
theorem offset_negative_stale :
    (({ ring := [0, 7, 8, 0], head := 1, tail := 3, full := false } : RB Nat).offset (-1)) = Res.ok 0 := by
  decide

/-- **pnq_inv** holds initially … -/
theorem pnq_inv_init (n : Nat) : Inv (new n) := new_inv n

/-- … and is preserved by Emplace / GetEntry / Remove / RemoveUpTo (packet numbers ≥ −1, i.e.
    any QUIC packet number or the invalid marker; gaps of any size), none of which panics.
    `Inv`: ring well-formed; `numberOfPresentEntries` = number of present wrappers; non-empty ⇒
    front wrapper present and `firstPacket ≥ 0`; empty ⇒ `firstPacket = invalidPacketNumber`. -/
theorem pnq_inv (q : PNQ) (h : Inv q) (op : Op) (hw : op.wellFormed) :
    ∃ q' r, q.step op = Res.ok (q', r) ∧ Inv q' := by
  cases op with
  | emplace pn v =>
    obtain ⟨b, q', h1, h2, _, _⟩ := emplace_spec h pn hw v
    exact ⟨q', .flag b, by simp [PNQ.step, h1], h2⟩
  | getEntry pn =>
    obtain ⟨v, h1⟩ := getEntry_noPanic h pn
    exact ⟨q, .entry v, by simp [PNQ.step, h1], h⟩
  | remove pn =>
    obtain ⟨r, q', h1, h2, _, _⟩ := remove_spec h pn
    exact ⟨q', .entry r, by simp [PNQ.step, h1], h2⟩
  | removeUpTo n =>
    obtain ⟨q', h1, h2, _, _⟩ := removeUpTo_spec h n
    exact ⟨q', .unit, by simp [PNQ.step, h1], h2⟩

/-- **pnq_no_panic**: from `newPacketNumberIndexedQueue(n)` (any initial capacity), every
    sequence of operations with arbitrary packet numbers ≥ −1 (in any order, with gaps,
    duplicates, numbers restarting from 0 as the three QUIC number spaces do) runs to the end
    without reaching a ring panic, an index fault or the end of a loop's fuel. -/
theorem pnq_no_panic (n : Nat) (ops : List Op) (hw : ∀ op ∈ ops, op.wellFormed) :
    ∃ q', (new n).run ops = Res.ok q' ∧ Inv q' := by
  obtain ⟨q', _, _, h2, h3⟩ := runG_spec ops (new n) (-1) (new_ginv n) hw
  exact ⟨q', h3, h2.1⟩

/-- the hypotheses are met by a run with a gap, a number-space restart and pruning -/
example : (new 2).run [.emplace 0 (some 10), .emplace 1 (some 11), .emplace 5 (some 15), .emplace 0 (some 99),
      .remove 0, .getEntry 5, .removeUpTo 4, .removeUpTo 9] =
    Res.ok { entries := { ring := List.replicate 8 ⟨false, 0⟩, head := 6, tail := 6, full := false },
             present := 0, first := -1 } := by decide

/-- **slots_bound**: run any operation sequence, then `RemoveUpTo k`: the number of slots in
    use is at most `last − k + 1` (0 if that is negative), where `last` is the last packet
    number `Emplace` accepted.  With the sender's `leastUnacked` as `k`, the bookkeeping is
    bounded by the packet-number span still outstanding. -/
theorem slots_bound (n : Nat) (ops : List Op) (hw : ∀ op ∈ ops, op.wellFormed) (k : Int) :
    ∃ q last q', runG (new n, -1) ops = Res.ok (q, last) ∧ q.removeUpTo k = Res.ok q' ∧
      (q'.slotsUsed : Int) ≤ max 0 (last - k + 1) := by
  obtain ⟨q, last, h1, h2, _⟩ := runG_spec ops (new n) (-1) (new_ginv n) hw
  obtain ⟨q', h3, _, h4⟩ := removeUpTo_bound h2 k
  exact ⟨q, last, q', h1, h3, h4⟩

/-- between prunings the slots in use never exceed the span first..last of accepted numbers:
    `slotsUsed = LastPacket − FirstPacket + 1` whenever the queue is non-empty -/
theorem slots_span (n : Nat) (ops : List Op) (hw : ∀ op ∈ ops, op.wellFormed) :
    ∃ q last, runG (new n, -1) ops = Res.ok (q, last) ∧
      (q.slotsUsed = 0 ∨ ((q.slotsUsed : Int) = last - q.first + 1 ∧ 0 ≤ q.first)) := by
  obtain ⟨q, last, h1, h2, _⟩ := runG_spec ops (new n) (-1) (new_ginv n) hw
  refine ⟨q, last, h1, ?_⟩
  by_cases hne : q.entries.toList = []
  · exact Or.inl ((nil_iff_slots q).1 hne)
  · right
    have h3 := h2.2.2 hne
    rw [lastPacket_eq h2.1 hne, toList_length] at h3
    have := h2.1.firstOk hne
    exact ⟨by show (q.entries.len : Int) = _; omega, this⟩

end Hy.Props.C12
