/-
  C12 — BBR survives any QUIC-consistent event sequence with sane outputs.
  Property theorems only; helper lemmas live in Hy.Proofs.{Ring,Pnq,BbrCore}.

  (a) containers: Hy.Model.Ring  = core/internal/congestion/bbr/ringbuffer.go
                  Hy.Model.Pnq   = core/internal/congestion/bbr/packet_number_indexed_queue.go
-/
import Hy.Proofs.Pnq
import Hy.Proofs.BbrCore
import Hy.Model.BbrProfiles
import Hy.Proofs.BbrFilter
import Hy.Proofs.BbrSampler
import Hy.Gen.C12Sites
import Hy.Gen.TransRing
import Hy.Gen.TransBbr
set_option linter.unusedSimpArgs false
namespace Hy.Props.C12
open Hy Hy.Ring Hy.Pnq

/-! ## obligations on facts regenerated from /repo (a changed constant, gain table, profile or a
    new panic / index / division site in the anchored files fails here) -/

theorem const_minBps : Gen.bbr_minBps = 65536 := by decide
theorem const_window_packets :
    Gen.bbr_minCongestionWindowPackets = 4 ∧ Gen.bbr_initialCongestionWindowPackets = 32 ∧
    Gen.quic_MaxCongestionWindowPackets = 20000 := by decide
theorem const_quic :
    Gen.quic_InitialPacketSize = 1280 ∧ Gen.quic_MinInitialPacketSize = 1200 ∧
    Gen.quic_MinPacingDelayNs = 1000000 ∧ Gen.quic_MaxPacketBufferSize = 1452 := by decide
theorem const_invalid_packet_number : Gen.bbr_invalidPacketNumberNeg = 1 := by decide
/-- pacer.go: maxBurstPackets = 10, maxBurstPacingDelayMultiplier = 4 (the literals of `Bbr.maxBurst`) -/
theorem const_pacer : Gen.pacer_maxBurstPackets = 10 ∧ Gen.pacer_maxBurstPacingDelayMultiplier = 4 := by decide
/-- the PROBE_BW gain cycle has `gainCycleLength` = 8 entries: 1.25, 0.75, then 1.0 -/
theorem const_gain_table :
    Bbr.gainTable.length = Gen.bbr_gainCycleLength ∧ Gen.bbr_gainCycleLength = 8 ∧
    Bbr.gainTable = [125, 75, 100, 100, 100, 100, 100, 100] ∧
    Gen.bbr_pacingGainTable = "125,75,100,100,100,100,100,100" := by decide
/-- highGain > 1 (hence drainGain = 1/highGain < 1) for the three profiles: justifies deciding
    `pacingGain > 1.0` / `< 1.0` on the symbolic gain -/
theorem profiles_high_gain :
    Gen.bbr_standard_highGain_milli > 1000 ∧ Gen.bbr_conservative_highGain_milli > 1000 ∧
    Gen.bbr_aggressive_highGain_milli > 1000 := by decide
/-- the panic / index / division sites the models make explicit are all there is -/
theorem sites :
    Gen.c12_sender_panic_calls = 1 ∧ Gen.c12_sender_bwFromDelta_calls = 3 ∧
    Gen.c12_sender_gainTable_index = 3 ∧ Gen.c12_sender_lastLost_index = 1 ∧
    Gen.c12_sender_lastAcked_index = 2 ∧ Gen.c12_sender_uint64_div = 1 ∧
    Gen.c12_ring_panic_calls = 4 ∧ Gen.c12_ring_index_exprs = 6 ∧ Gen.c12_pnq_panic_calls = 0 ∧
    Gen.c12_pacer_div_by_bw = 2 := by decide

/-! ## (a) containers -/

/-- **ring_refines_deque** (one step).  For a well-formed ring `r` holding the queue `l`
    (`Rel r l`), every operation of ringbuffer.go — PushBack (with grow, wrap-around and zero
    capacity), PopFront, Offset, Front, Back, Clear, Len, Empty, grow — does on the ring
    exactly what the list-deque specification does on `l`: same output, related successor
    states (well-formedness included), and a panic exactly where the specification panics
    (pop/front/back/offset on an empty queue, offset at or past the end). -/
theorem ring_refines_deque {α : Type} [Inhabited α] (r : RB α) (l : List α) (h : Rel r l)
    (op : ROp α) (hd : op.inDomain r) :
    Refines (implStep r op) (specStep l op) :=
  step_refines h op hd

/-- **ring_refines_deque** (every sequence of exported operations from `Init n`, any `n`
    including the zero value): outputs and final contents equal those of the list-deque;
    the first panic, if any, is at the same operation. -/
theorem ring_refines_deque_run {α : Type} [Inhabited α] (n : Nat) (ops : List (ROp α))
    (hp : ∀ op ∈ ops, op.isPublic = true) :
    RefinesRun (implRun (init n : RB α) ops) (specRun [] ops) :=
  run_refines ops _ _ (rel_init n) hp

/-- the hypotheses of the one-step theorem are met by a wrapped, full ring (`Rel` = well-formed and
    holding exactly that queue; `grow` is in its domain because the ring is full) -/
example : Rel ({ ring := [3, 1, 2], head := 1, tail := 1, full := true } : RB Nat) [1, 2, 3] ∧
    (ROp.grow : ROp Nat).inDomain ({ ring := [3, 1, 2], head := 1, tail := 1, full := true } : RB Nat) := by
  refine ⟨⟨⟨by decide, by decide, by decide, by decide⟩, by decide⟩, Or.inl rfl⟩

/-- a concrete wrapped + grown run meets the hypotheses and is not trivial -/
example : implRun (init 2 : RB Nat)
    [.push 1, .push 2, .pop, .push 3, .push 4, .offset 2, .back, .len] =
    Res.ok ({ ring := [2, 3, 4, 0], head := 0, tail := 3, full := false },
            [.unit, .unit, .val 1, .unit, .unit, .val 4, .val 4, .num 3]) := by decide

/-- PushBack never panics on a well-formed ring (in particular not on the implicit
    `r.ring[r.tailPos]` / `oldRing[r.headPos:]` bounds checks) -/
theorem ring_push_no_panic {α : Type} [Inhabited α] (r : RB α) (w : r.WF) (x : α) :
    ∃ r', r.pushBack x = Res.ok r' ∧ r'.WF ∧ r'.toList = r.toList ++ [x] := by
  obtain ⟨r', h1, h2, h3⟩ := pushBack_spec r w x
  exact ⟨r', h1, h3, h2⟩

/-- outside the specified domain: `Offset(-1)` does not fault when `headPos > 0`, it returns
    the (zeroed) slot before the head — recorded as a fact about the code, callers never do it -/
theorem offset_negative_stale :
    (({ ring := [0, 7, 8, 0], head := 1, tail := 3, full := false } : RB Nat).offset (-1)) = Res.ok 0 := by
  decide

/-- **pnq_inv** holds initially … -/
theorem pnq_inv_init {α : Type} [Inhabited α] (n : Nat) : Inv (new n : PNQ α) := new_inv n

/-- … and is preserved by Emplace / GetEntry / Remove / RemoveUpTo (packet numbers ≥ −1, i.e.
    any QUIC packet number or the invalid marker; gaps of any size), none of which panics.
    `Inv`: ring well-formed; `numberOfPresentEntries` = number of present wrappers; non-empty ⇒
    front wrapper present and `firstPacket ≥ 0`; empty ⇒ `firstPacket = invalidPacketNumber`. -/
theorem pnq_inv {α : Type} [Inhabited α] (q : PNQ α) (h : Inv q) (op : Op α) (hw : op.wellFormed) :
    ∃ q' r, q.step op = Res.ok (q', r) ∧ Inv q' := by
  cases op with
  | emplace pn v =>
    obtain ⟨b, q', h1, h2, _, _⟩ := emplace_spec h pn hw v
    exact ⟨q', .flag b, by simp [PNQ.step, h1], h2⟩
  | getEntry pn =>
    obtain ⟨v, h1⟩ := getEntry_noPanic h pn
    exact ⟨q, .entry v, by simp [PNQ.step, h1], h⟩
  | remove pn =>
    obtain ⟨r, q', h1, h2, _, _⟩ := remove_spec h pn
    exact ⟨q', .entry r, by simp [PNQ.step, h1], h2⟩
  | removeUpTo n =>
    obtain ⟨q', h1, h2, _, _⟩ := removeUpTo_spec h n
    exact ⟨q', .unit, by simp [PNQ.step, h1], h2⟩

/-- `Op.wellFormed` is met by every QUIC packet number and by the invalid marker −1 -/
example : (Op.emplace 0 (some 7) : Op Nat).wellFormed ∧ (Op.emplace (-1) none : Op Nat).wellFormed ∧ (Op.removeUpTo (-5) : Op Nat).wellFormed := by
  simp [Op.wellFormed]

/-- **pnq_no_panic**: from `newPacketNumberIndexedQueue(n)` (any initial capacity), every
    sequence of operations with arbitrary packet numbers ≥ −1 (in any order, with gaps,
    duplicates, numbers restarting from 0 as the three QUIC number spaces do) runs to the end
    without reaching a ring panic, an index fault or the end of a loop's fuel. -/
theorem pnq_no_panic {α : Type} [Inhabited α] (n : Nat) (ops : List (Op α)) (hw : ∀ op ∈ ops, op.wellFormed) :
    ∃ q', (new n : PNQ α).run ops = Res.ok q' ∧ Inv q' := by
  obtain ⟨q', _, _, h2, h3⟩ := runG_spec ops (new n) (-1) (new_ginv n) hw
  exact ⟨q', h3, h2.1⟩

/-- the hypotheses are met by a run with a gap, a number-space restart and pruning -/
example : (new 2 : PNQ Nat).run [.emplace 0 (some 10), .emplace 1 (some 11), .emplace 5 (some 15), .emplace 0 (some 99),
      .remove 0, .getEntry 5, .removeUpTo 4, .removeUpTo 9] =
    Res.ok { entries := { ring := List.replicate 8 ⟨false, 0⟩, head := 6, tail := 6, full := false },
             present := 0, first := -1 } := by decide

/-- **slots_bound**: run any operation sequence, then `RemoveUpTo k`: the number of slots in
    use is at most `last − k + 1` (0 if that is negative), where `last` is the last packet
    number `Emplace` accepted.  With the sender's `leastUnacked` as `k`, the bookkeeping is
    bounded by the packet-number span still outstanding. -/
theorem slots_bound {α : Type} [Inhabited α] (n : Nat) (ops : List (Op α)) (hw : ∀ op ∈ ops, op.wellFormed) (k : Int) :
    ∃ q last q', runG ((new n : PNQ α), -1) ops = Res.ok (q, last) ∧ q.removeUpTo k = Res.ok q' ∧
      (q'.slotsUsed : Int) ≤ max 0 (last - k + 1) := by
  obtain ⟨q, last, h1, h2, _⟩ := runG_spec ops (new n) (-1) (new_ginv n) hw
  obtain ⟨q', h3, _, h4⟩ := removeUpTo_bound h2 k
  exact ⟨q, last, q', h1, h3, h4⟩

/-- between prunings the slots in use never exceed the span first..last of accepted numbers:
    `slotsUsed = LastPacket − FirstPacket + 1` whenever the queue is non-empty -/
theorem slots_span {α : Type} [Inhabited α] (n : Nat) (ops : List (Op α)) (hw : ∀ op ∈ ops, op.wellFormed) :
    ∃ q last, runG ((new n : PNQ α), -1) ops = Res.ok (q, last) ∧
      (q.slotsUsed = 0 ∨ ((q.slotsUsed : Int) = last - q.first + 1 ∧ 0 ≤ q.first)) := by
  obtain ⟨q, last, h1, h2, _⟩ := runG_spec ops (new n) (-1) (new_ginv n) hw
  refine ⟨q, last, h1, ?_⟩
  by_cases hne : q.entries.toList = []
  · exact Or.inl ((nil_iff_slots q).1 hne)
  · right
    have h3 := h2.2.2 hne
    rw [lastPacket_eq h2.1 hne, toList_length] at h3
    have := h2.1.firstOk hne
    exact ⟨by show (q.entries.len : Int) = _; omega, this⟩

/-! ## (b) sender control logic — Hy.Model.BbrCore = bbr_sender.go with the sampler's outputs,
    QUIC's RTT statistics, the random gain-cycle offset and every float-scaled quantity as
    ARBITRARY inputs (`Env`); every theorem below holds for all of them. -/

/-- (for the non-vacuity examples) the run returned and the state satisfies `p` -/
def _root_.Hy.Res.okAnd {α} (r : Res α) (p : α → Bool) : Bool :=
  match r with
  | .ok a => p a
  | _ => false

open Hy.Bbr in
/-- **cwnd_bounds**: after construction (any profile, any datagram size > 0) and after every
    sequence of OnPacketSent / SetMaxDatagramSize / OnCongestionEventEx calls that returns — with
    arbitrary acked/lost lists, times, sampler outputs and scaled values — in every mode
    (STARTUP, DRAIN, PROBE_BW, PROBE_RTT) and recovery state:
    4·mds ≤ GetCongestionWindow ≤ 20000·mds for the CURRENT datagram size (the rescaling in
    SetMaxDatagramSize keeps `max = 20000·mds` exact). -/
theorem cwnd_bounds (cfg : Bbr.Cfg) (mds : Nat) (hm : 0 < mds) (evs : List Bbr.Event) (s : Bbr.S)
    (hr : Bbr.run (Bbr.new cfg mds) evs = .ok s) :
    4 * s.mds ≤ Bbr.getCwnd s ∧ Bbr.getCwnd s ≤ 20000 * s.mds := by
  have h := Bbr.bounds_of_inv s (Bbr.run_inv evs _ (Bbr.new_inv cfg mds hm) s hr)
  simpa [Bbr.minPk, Bbr.maxPk, Gen.bbr_minCongestionWindowPackets, Gen.quic_MaxCongestionWindowPackets] using h

/-- the hypothesis `run … = .ok s` of the theorems of this section is met by a non-trivial trace
    (conservative profile: an ack, a datagram-size increase, an ack with a loss) -/
example :
    (Bbr.run (Bbr.new Bbr.conCfg 1280)
      [.sent 1280 0, .sent 2560 1, .sent 3840 2,
       .cong { prior := 3840, now := 5000000, acked := [(0, 1280)], lost := [],
               env := { sampleValid := true, sampleAppLimited := false, sendStateInflight := 1280, sampleRtt := some 4000000,
                        bytesAcked := 1280, bytesLost := 0, totalAcked := 1280, excessAcked := 0, maxAckHeight := 0,
                        bw := 2560000, rttMin := 4000000, tgtPacing := 0, tgt1 := 5120, tgtCwnd := 71680,
                        growthTarget := 0, lossThresh := 0, targetRate := 5760000, rnd := 4 } },
       .mds 1452,
       .cong { prior := 2560, now := 9000000, acked := [(2, 1280)], lost := [(1, 1280)],
               env := { sampleValid := true, sampleAppLimited := false, sendStateInflight := 3840, sampleRtt := some 4000000,
                        bytesAcked := 1280, bytesLost := 1280, totalAcked := 2560, excessAcked := 0, maxAckHeight := 0,
                        bw := 2560000, rttMin := 4000000, tgtPacing := 0, tgt1 := 5808, tgtCwnd := 71680,
                        growthTarget := 3200000, lossThresh := 76, targetRate := 5760000, rnd := 4 } }]).okAnd
      (fun s => s.mds == 1452 && s.roundTripCount == 1 && s.cwnd == 43520 && s.initCwnd == 46464 &&
                s.numLossEventsInRound == 1) = true := by decide

/-- **recovery_window_floor**: whenever the sender is in recovery at an event boundary, the
    recovery window is at least 4·mds (it is zeroed when recovery is entered and re-floored by
    calculateRecoveryWindow in the same call; SetMaxDatagramSize re-clamps it) -/
theorem recovery_window_floor (cfg : Bbr.Cfg) (mds : Nat) (hm : 0 < mds) (evs : List Bbr.Event) (s : Bbr.S)
    (hr : Bbr.run (Bbr.new cfg mds) evs = .ok s) (hrec : s.rcv ≠ .none) :
    4 * s.mds ≤ s.recWnd := by
  have h := Bbr.run_inv evs _ (Bbr.new_inv cfg mds hm) s hr
  have h1 := h.rw hrec
  have h2 := h.minEq
  simp only [Bbr.minPk, Gen.bbr_minCongestionWindowPackets] at h2
  omega

/-- **pacer_bw_floor**: bandwidthForPacer ≥ minBps = 65536 for every result of the float→int64
    conversion of the pacing rate (zero, negative and overflowed values included) -/
theorem pacer_bw_floor (bps : Int) : 65536 ≤ Bbr.bandwidthForPacer bps := by
  have := Bbr.bandwidthForPacer_floor bps
  simpa [Bbr.minBps, Gen.bbr_minBps] using this

/-- **gain_index_in_range**: cycleCurrentOffset < gainCycleLength (= 8) at every event boundary,
    so `pacingGain[b.cycleCurrentOffset]` is always inside the table -/
theorem gain_index_in_range (cfg : Bbr.Cfg) (mds : Nat) (hm : 0 < mds) (evs : List Bbr.Event) (s : Bbr.S)
    (hr : Bbr.run (Bbr.new cfg mds) evs = .ok s) :
    s.cycleOffset < 8 ∧ ∃ g, Bbr.gainAt s.cycleOffset = .ok g := by
  have h := (Bbr.run_inv evs _ (Bbr.new_inv cfg mds hm) s hr).off
  exact ⟨by simpa [Bbr.cycleLen, Gen.bbr_gainCycleLength] using h, Bbr.gainAt_ok _ h⟩

/-- **no_panic_core**: a QUIC-consistent trace (every OnCongestionEventEx has a non-empty
    acked ∪ lost set and MinRTT() ≠ 0 whenever a bandwidth sample exists; SetMaxDatagramSize never
    decreases) reaches none of the panic sites of bbr_sender.go: the `lostPackets[len-1]` index,
    the gain-table index, the divisions in BandwidthFromDelta and scaleByteWindowForDatagramSize,
    the explicit panic of SetMaxDatagramSize — and keeps the invariant. -/
theorem no_panic_core (cfg : Bbr.Cfg) (mds : Nat) (hm : 0 < mds) (evs : List Bbr.Event)
    (hc : Bbr.Consistent mds evs) :
    ∃ s, Bbr.run (Bbr.new cfg mds) evs = .ok s ∧ Bbr.Inv s :=
  Bbr.run_noPanic evs (Bbr.new cfg mds) (Bbr.new_inv cfg mds hm) hc

/-- one event's worth of recorded environment with nothing in it -/
def env0 : Bbr.Env :=
  { sampleValid := false, sampleAppLimited := false, sendStateInflight := 0, sampleRtt := none, bytesAcked := 0,
    bytesLost := 0, totalAcked := 0, excessAcked := 0, maxAckHeight := 0, bw := 0, rttMin := 0, tgtPacing := 0,
    tgt1 := 0, tgtCwnd := 0, growthTarget := 0, lossThresh := 0, targetRate := 0, rnd := 0 }

/-- a consistent three-space trace (packet numbers restart, a loss, a datagram-size increase)
    meets the hypotheses of `no_panic_core` -/
example : Bbr.Consistent 1280
    [.sent 1280 0, .cong { prior := 1280, now := 5000000, acked := [(0, 1280)], lost := [], env := { env0 with bw := 0 } },
     .sent 1280 0, .sent 2560 1, .mds 1452,
     .cong { prior := 2560, now := 9000000, acked := [(1, 1280)], lost := [(0, 1280)],
             env := { env0 with bw := 800000, rttMin := 4000000, bytesAcked := 1280, bytesLost := 1280 } }] := by
  simp [Bbr.Consistent, Bbr.Event.consistent, Bbr.Event.nextMds, env0]

/-- the "non-empty acked ∪ lost" hypothesis is needed: with both lists empty the
    `lostPackets[len(lostPackets)-1]` index faults -/
theorem no_panic_needs_nonempty :
    Bbr.onCongestionEvent (Bbr.new Bbr.stdCfg 1280) { prior := 0, now := 1, acked := [], lost := [], env := env0 }
      = .panic := by decide

/-- the "MinRTT() ≠ 0 once a bandwidth sample exists" hypothesis is needed: in the conservative
    profile (detectOvershooting) the second BandwidthFromDelta call of calculatePacingRate divides
    by rttStats.MinRTT() unguarded.  Two events with MinRTT() = 0, a bandwidth sample and a loss
    reach the division by zero. (Not reachable from hysteria: the controller is installed after the
    handshake, when QUIC already has an RTT sample, and RTTStats never resets minRTT to 0.) -/
theorem no_panic_needs_minrtt :
    Bbr.run (Bbr.new Bbr.conCfg 1280)
      [.sent 1280 0,
       .cong { prior := 1280, now := 1000000, acked := [(0, 1280)], lost := [],
               env := { env0 with sampleValid := true, bw := 1000, targetRate := 5000, bytesAcked := 1280, totalAcked := 1280 } },
       .sent 1280 1,
       .cong { prior := 1280, now := 2000000, acked := [], lost := [(1, 1280)],
               env := { env0 with bw := 1000, targetRate := 100, bytesLost := 1280, totalAcked := 1280 } }]
      = .panic := by decide

/-- **progress** (no deadlock): at every event boundary a sender with nothing in flight may
    send (`CanSend(0)`), and the pacer, fed with `bandwidthForPacer` (≥ 65536 > 0), never faults in
    TimeUntilSend and grants a full datagram at the time it announces — also if the bandwidth has
    grown in between. -/
theorem progress (cfg : Bbr.Cfg) (mds : Nat) (hm : 0 < mds) (evs : List Bbr.Event) (s : Bbr.S)
    (hr : Bbr.run (Bbr.new cfg mds) evs = .ok s) :
    Bbr.canSend s 0 = true ∧
    ∀ (p : Bbr.Pacer) (bps bps' : Int), Bbr.bandwidthForPacer bps ≤ Bbr.bandwidthForPacer bps' →
      ∃ t, p.timeUntilSend (Bbr.bandwidthForPacer bps) = .ok t ∧
        (p.budgetAtLastSent < p.mds → p.mds ≤ p.budget (Bbr.bandwidthForPacer bps') t) := by
  refine ⟨Bbr.canSend_zero s (Bbr.run_inv evs _ (Bbr.new_inv cfg mds hm) s hr), ?_⟩
  intro p bps bps' hle
  obtain ⟨t, ht⟩ := Bbr.timeUntilSend_noPanic p _ (Bbr.bandwidthForPacer_pos bps)
  exact ⟨t, ht, fun hlt => Bbr.wakeup_sufficient p _ _ (Bbr.bandwidthForPacer_pos bps) hle hlt t ht⟩

/-- the pacer's zero-bandwidth fault that `minBps` exists to prevent, as a fact of the model -/
theorem pacer_zero_bandwidth_faults :
    ({ budgetAtLastSent := 0, mds := 1280, last := 5 } : Bbr.Pacer).timeUntilSend 0 = .panic := by decide

/-! ## (c) bandwidth sampler and windowed filter — Hy.Model.BbrSampler = bandwidth_sampler.go +
    windowed_filter.go with Go's wrapping int64/uint64 arithmetic; compared field by field with the
    real sampler after every call of every simulated connection. -/

open Hy.Sampler in
/-- **windowed_filter_spec** (max filter by `key`; a min filter is the same statement for the
    negated key).  From the constructor state, after feeding any non-empty list of samples at
    non-decreasing uint64 times, the best estimate (i) is one of the samples fed, (ii) dominates
    every sample fed after it — it is the maximum of the samples from its own position on, in
    particular ≥ the newest sample — and (iii) is fresh: not older than the window length. -/
theorem windowed_filter_spec {V} (key : V → Int) (kz : Int) (zero : V) (hz : key zero = kz) (W : Nat)
    (xs : List (V × Nat)) (hne : xs ≠ []) (ht : TimesOk 0 xs) :
    let f := WFilter.feed key kz (WFilter.new zero W) xs
    ∃ pre post, xs = pre ++ (f.e0.1, f.e0.2) :: post ∧ (∀ x ∈ post, key x.1 ≤ key f.e0.1) ∧
      (xs.getLast hne).2 - f.e0.2 ≤ W := by
  intro f
  obtain ⟨tl, hi⟩ := Sampler.windowed_filter_inv key kz zero hz W xs hne ht
  obtain ⟨⟨pre, post, hsplit, hdom⟩, _⟩ := hi.g0
  have hl := hi.lastT
  rw [List.getLast?_eq_some_getLast hne] at hl
  simp at hl
  refine ⟨pre, post, hsplit, hdom, ?_⟩
  rw [hl]; exact hi.fresh

/-- the hypotheses are met by the round counts the sender uses as times -/
example : Sampler.TimesOk 0 [((800000 : Nat), 1), (900000, 1), (700000, 2), (100, 13)] := by
  simp [Sampler.TimesOk]

/-- "returns THE maximum of the samples inside its window" is false for this algorithm (three
    estimates only): with window 10 the samples 10@0, 9@2, 5@3, 1@11 leave best = 5@3 although
    9@2 is still inside the window — a `decide`d fact, so the exact-window-max reading of the
    specification is recorded as not holding (`windowed_filter_spec` is what does hold). -/
theorem windowed_filter_not_exact_max :
    (Sampler.WFilter.feed (fun n : Nat => (n : Int)) 0 (Sampler.WFilter.new 0 10) [(10, 0), (9, 2), (5, 3), (1, 11)]).e0
      = (5, 3) := Sampler.windowed_filter_not_exact_max

/-- **sampler_no_panic**: from `newBandwidthSampler` with any window length and queue sizes and any
    profile switches (overestimate avoidance on/off, reduce-extra-acked on/off), EVERY sequence of the
    calls the sender makes — OnPacketSent, OnCongestionEvent (any ack time, any acked / lost lists:
    unknown, duplicate or unordered packet numbers, both lists empty, any bandwidths and round
    counts), OnAppLimited, ResetMaxAckHeightTracker, RemoveObsoletePackets(any number) — runs to
    the end without reaching a panic site: every access to the packet map and to the A0-candidate
    ring is guarded, both BandwidthFromDelta divisors are non-zero, the `lostPackets[len-1]` /
    `ackedPackets[len-1]` indexes are only evaluated on non-empty lists.
    Hypotheses (`Call.wellFormed`): packet numbers of sent packets are ≥ −1 and send times are int64
    values (`monotime.Time`); nothing is assumed about sizes, ack times or event contents. -/
theorem sampler_no_panic (w m c : Nat) (oa red : Bool) (cs : List Sampler.Call) (hw : ∀ x ∈ cs, x.wellFormed) :
    let b0 := (if oa then (Sampler.Sampler.new w m c).enableOverestimateAvoidance else Sampler.Sampler.new w m c).setReduceExtraAcked red
    ∃ b' last', b0.runCalls cs = .ok b' ∧ Sampler.SInv b' last' := by
  intro b0
  have h0 : Sampler.SInv b0 (-1) := by
    apply Sampler.setReduce_sinv
    split
    · exact Sampler.enableOA_sinv _ _ (Sampler.new_sinv w m c)
    · exact Sampler.new_sinv w m c
  exact Sampler.sampler_no_panic_run cs b0 (-1) h0 hw

/-- a call sequence with a number-space restart, an unknown packet, a loss-only event and an empty event
    meets the hypotheses -/
example : ∀ x ∈ ([.sent 1000 0 1280 1280 true, .sent 2000 1 1280 2560 true, .sent 3000 0 1280 3840 true,
      .event 9000 [(1, 1280), (77, 100)] [(0, 1280)] 0 Sampler.infBandwidth 1, .event 9500 [] [(5, 10)] 0 0 1,
      .event 9600 [] [] 0 0 1, .appLimited, .removeObsolete 1] : List Sampler.Call), x.wellFormed := by
  simp [Sampler.Call.wellFormed, Sampler.inI64, Sampler.two63]

/-- the int64 hypothesis on send times is needed in the model (whose fields are unbounded integers):
    two send times exactly 2^64 ns apart make the send-rate divisor `Bandwidth(Δt)` zero.  In Go the
    field is an int64, so this records a type invariant, not a restriction of real inputs. -/
theorem sampler_times_must_be_int64 :
    (Sampler.Sampler.new 10 4 4).runCalls
      [.sent 1 0 1200 0 true, .sent 18446744073709551617 1 1200 1200 true, .event 5 [(1, 1200)] [] 0 0 0]
      = .panic := Sampler.times_must_be_int64

/-- **sampler_entries_bounded**: through layer (a)'s `slots_bound` — run any call sequence, then
    RemoveObsoletePackets(k): the per-packet records in use number at most `last − k + 1`, where
    `last` (the last packet number the map accepted) never exceeds the largest packet number
    announced by OnPacketSent. -/
theorem sampler_entries_bounded (w m c : Nat) (cs : List Sampler.Call) (hw : ∀ x ∈ cs, x.wellFormed) (k : Int) :
    ∃ b last b', (Sampler.Sampler.new w m c).runCalls cs = .ok b ∧ last ≤ Sampler.maxSent cs ∧
      b.removeObsoletePackets k = .ok b' ∧ (b'.map.slotsUsed : Int) ≤ max 0 (last - k + 1) := by
  obtain ⟨b, last, h1, h2, h3⟩ := Sampler.ghost_le_maxSent w m c cs hw
  obtain ⟨b', h4, _, h5⟩ := Sampler.removeObsolete_bound b last h2 k
  exact ⟨b, last, b', h1, h3, h4, h5⟩

/-- **sample_bandwidth_bounded**: the bandwidth of a per-packet sample is a uint64 (≥ 0 by type),
    is min(send rate, ack rate) and hence never above the send rate measured for that packet -/
theorem sample_bandwidth_bounded (b : Sampler.Sampler) (t pn : Int) (b' : Sampler.Sampler) (s : Sampler.BandwidthSample)
    (h : b.onPacketAcknowledged t pn = .ok (b', s)) : s.bandwidth ≤ s.sendRate ∧ s.bandwidth ≤ Sampler.maxU64 :=
  Sampler.sample_bandwidth_le_sendRate b t pn b' s h

/-- the rates are the truncating quotients of the definition: without wrap-around
    BandwidthFromDelta(bytes, Δt) = bytes·10^9/Δt·8 bits per second -/
theorem rate_definition (bytes delta : Nat) (hd : 0 < delta) (hd2 : delta < 2^63)
    (hb : bytes * 1000000000 < 2^64) (hr : bytes * 1000000000 / delta * 8 < 2^64) :
    Sampler.bandwidthFromDelta (bytes : Int) (delta : Int) = .ok (bytes * 1000000000 / delta * 8) :=
  Sampler.bandwidthFromDelta_exact bytes delta hd hd2 hb hr

/-- e.g. 125 000 bytes in 100 ms are 10 Mbit/s -/
example : Sampler.bandwidthFromDelta 125000 100000000 = .ok 10000000 := by decide

/-! `a0Candidates` / recent-ack bookkeeping: the recent ack points are two fixed slots; the number of
    A0 candidates has no bound proved (one is pushed per aggregation epoch start, they are pruned
    only when an acked packet's sample chooses its A0 point) — its maximum is MEASURED by the harness
    (evidence note `max_a0_candidates`). -/

set_option linter.unusedSimpArgs false

/-! ### ringbuffer.go as TRANSLATED from the current Go source equals the model (`Hy.Ring`)

`Hy.Gen.TransRing.*` is regenerated on every run by `verifgen translate` from the text of
`Len`, `Empty`, `Offset`, `Front`, `Back` in core/internal/congestion/bbr/ringbuffer.go (go/ast → Lean:
`int` = int64 wrap-around, Go's truncated `%`, the division-by-zero and the explicit `panic(...)`
as `Res.panic`; `r.full` is a `Bool` parameter, `len(r.ring)` the parameter `r_ring_len`; a result
`&r.ring[i]` is translated as the index `i` after Go's bounds check against `len(r.ring)`).
The theorems hold for EVERY well-formed buffer below 2^62 slots and every int64 index (negative
ones included): `Hy.Ring`'s `len`, `empty`, `offsetPos`, `front`, `back` — which the queue theorems
above are about — ARE the repository's current index arithmetic. -/

theorem ring_empty_translation_eq {α : Type} (r : RB α) :
    Gen.TransRing.RingBuffer_Empty r.full r.head r.tail = r.empty := by
  unfold Gen.TransRing.RingBuffer_Empty RB.empty
  have e : ((r.head : Int) = (r.tail : Int)) ↔ r.head = r.tail := by omega
  have e' : ((r.tail : Int) = (r.head : Int)) ↔ r.head = r.tail := by omega
  by_cases h : r.head = r.tail <;> cases r.full <;> simp [h, e, e']

theorem ring_len_translation_eq {α : Type} (r : RB α) (hwf : r.WF) (hc : r.cap < 4611686018427387904) :
    Gen.TransRing.RingBuffer_Len r.full r.head r.cap r.tail = (r.len : Int) := by
  have hh := hwf.hh; have ht := hwf.ht; have h0 := hwf.h0
  unfold Gen.TransRing.RingBuffer_Len RB.len
  by_cases hf : r.full = true
  · simp only [hf, ↓reduceIte]
  · have hf' : r.full = false := by simpa using hf
    simp only [hf', Bool.false_eq_true, ↓reduceIte]
    have hb : r.head ≤ r.cap ∧ r.tail ≤ r.cap := by
      rcases Nat.eq_zero_or_pos r.cap with hz | hp
      · have := h0 hz; omega
      · have := hh hp; have := ht hp; omega
    by_cases hth : r.tail ≥ r.head
    · rw [if_pos (by omega), if_pos hth]
      simp (disch := omega) only [GoInt.i64_of_range]; omega
    · rw [if_neg (by omega), if_neg hth]
      simp (disch := omega) only [GoInt.i64_of_range]; omega

theorem ring_offset_translation_eq {α : Type} (r : RB α) (hwf : r.WF) (hc : r.cap < 4611686018427387904) (i : Int)
    (hi : -9223372036854775808 ≤ i) :
    Gen.TransRing.RingBuffer_Offset r.full r.head r.cap r.tail i
      = (r.offsetPos i).bind (fun p => .ok (p : Int)) := by
  have hh := hwf.hh; have h0 := hwf.h0
  unfold Gen.TransRing.RingBuffer_Offset RB.offsetPos
  rw [ring_empty_translation_eq, ring_len_translation_eq r hwf hc]
  by_cases he : r.empty = true
  · simp [he]
  · by_cases hge : i ≥ (r.len : Int)
    · simp [he, hge]
    · have hcap : 0 < r.cap := by
        rcases Nat.eq_zero_or_pos r.cap with hz | hp
        · exfalso; have := h0 hz; simp [RB.empty, this] at he
        · exact hp
      have hlen : r.len ≤ r.cap := by
        have := hh hcap; have := hwf.ht hcap
        unfold RB.len; split
        · omega
        · split <;> omega
      have := hh hcap
      have hle : ¬ ((r.len : Int) ≤ i) := by omega
      simp only [he, hge, hle, Bool.false_eq_true, false_or, or_false, ↓reduceIte, Bool.or_false, decide_false, ge_iff_le]
      simp (disch := omega) only [GoInt.i64_of_range]
      go_ac_norm
      generalize Int.tmod _ _ = off
      have hc0 : ¬ ((r.cap : Int) = 0) := by omega
      simp only [hc0, ne_eq, not_false_eq_true, not_true_eq_false, ↓reduceIte]
      by_cases hoff : 0 ≤ off ∧ off < (r.cap : Int)
      · rw [if_neg (by omega), if_pos (by omega)]
        simp only [Res.bind_ok, Res.ok.injEq]; omega
      · rw [if_pos hoff, if_neg (by omega)]; rfl

theorem ring_idx_ge {α : Type} {l : List α} {j : Nat} (h : l.length ≤ j) : Res.idx l j = Res.panic := by
  unfold Res.idx; rw [List.getElem?_eq_none h]

theorem ring_front_translation_eq {α : Type} (r : RB α) :
    r.front = (Gen.TransRing.RingBuffer_Front r.full r.head r.cap r.tail).bind (fun p => r.slot p.toNat) := by
  unfold Gen.TransRing.RingBuffer_Front RB.front
  rw [ring_empty_translation_eq]
  by_cases he : r.empty = true
  · simp [he]
  · simp only [he, Bool.false_eq_true, ↓reduceIte]
    by_cases hb : r.head < r.cap
    · rw [if_neg (by omega)]; simp
    · rw [if_pos (by omega)]
      simp only [Res.bind_panic, RB.slot]
      exact ring_idx_ge (by unfold RB.cap at hb; omega)

theorem ring_back_translation_eq {α : Type} (r : RB α) (hwf : r.WF) (hc : r.cap < 4611686018427387904) :
    r.back = (Gen.TransRing.RingBuffer_Back r.full r.head r.cap r.tail).bind (fun p => r.slot p.toNat) := by
  unfold Gen.TransRing.RingBuffer_Back RB.back RB.offset
  rw [ring_empty_translation_eq, ring_len_translation_eq r hwf hc]
  by_cases he : r.empty = true
  · simp [he]
  · simp only [he, Bool.false_eq_true, ↓reduceIte]
    have hlen : r.len ≤ r.cap := by
      have hh := hwf.hh; have ht := hwf.ht; have h0 := hwf.h0
      unfold RB.len
      rcases Nat.eq_zero_or_pos r.cap with hz | hp
      · have := h0 hz; split
        · omega
        · split <;> omega
      · have := hh hp; have := ht hp; split
        · omega
        · split <;> omega
    simp (disch := omega) only [GoInt.i64_of_range]
    rw [ring_offset_translation_eq r hwf hc _ (by omega)]
    cases r.offsetPos ((r.len : Int) - 1) <;> simp

example : Gen.TransRing.RingBuffer_Offset false 3 4 1 (-1) = .ok 2 := by decide
example : Gen.TransRing.RingBuffer_Offset false 3 4 1 2 = .panic := by decide
example : Gen.TransRing.RingBuffer_Back true 2 4 2 = .ok 1 := by decide

/-! ### the integer-only helpers of the BBR sender as TRANSLATED from the current Go source

`Hy.Gen.TransBbr.*` is regenerated on every run by `verifgen translate` from the text of
`scaleByteWindowForDatagramSize`, `minCongestionWindowForMaxDatagramSize` (bbr_sender.go) and
`BandwidthFromDelta` (bandwidth.go): int64 ↔ uint64 conversions, the uint64 product and division and
the division-by-zero panic explicit; `minCongestionWindowPackets`, `BytesPerSecond`, `time.Second`
resolved to their current values.  `bbr_bandwidthFromDelta_translation_eq` holds for ALL integers (the
sampler's model wraps like the code); the `BbrCore` versions (naturals, no wrap) agree wherever
nothing overflows — the stated ranges.  The rest of bbr_sender.go is float64 / table / struct code
and stays outside the translator's subset. -/

theorem bbr_minCwnd_translation_eq (n : Nat) (h : n < 2305843009213693952) :
    Gen.TransBbr.minCongestionWindowForMaxDatagramSize n = ((Bbr.minPk * n : Nat) : Int) := by
  have e : Bbr.minPk = 4 := by decide
  unfold Gen.TransBbr.minCongestionWindowForMaxDatagramSize
  rw [e]
  simp (disch := omega) only [GoInt.i64_of_range]
  go_ac_norm
  omega

/-- all-integer version: the sampler's model wraps exactly like the code -/
theorem bbr_bandwidthFromDelta_translation_eq (bytes delta : Int) :
    Gen.TransBbr.BandwidthFromDelta bytes delta
      = (Sampler.bandwidthFromDelta bytes delta).bind (fun r => .ok (r : Int)) := by
  unfold Gen.TransBbr.BandwidthFromDelta Sampler.bandwidthFromDelta
  have hu : ∀ x : Int, ((Sampler.u64 x : Nat) : Int) = GoInt.u64 x := by
    intro x; unfold Sampler.u64 GoInt.u64 Sampler.two64; omega
  by_cases hd : Sampler.u64 delta = 0
  · have : GoInt.u64 delta = 0 := by rw [← hu, hd]; rfl
    simp [hd, this]
  · have : ¬ GoInt.u64 delta = 0 := by rw [← hu]; omega
    simp only [hd, this, ne_eq, not_false_eq_true, not_true_eq_false, ↓reduceIte, Res.bind_ok, Res.ok.injEq, hu]
    simp only [Int.natCast_ediv, hu] <;> go_ac_rfl

/-- the core model (naturals, no wrap) agrees wherever nothing overflows -/
theorem bbr_bandwidthFromDelta_core_translation_eq (bytes delta : Nat)
    (hb : bytes * 1000000000 < 18446744073709551616) (hd : delta < 9223372036854775808)
    (hr : bytes * 1000000000 / delta * 8 < 18446744073709551616) :
    Gen.TransBbr.BandwidthFromDelta bytes delta
      = (Bbr.bandwidthFromDelta bytes delta).bind (fun r => .ok (r : Int)) := by
  unfold Gen.TransBbr.BandwidthFromDelta Bbr.bandwidthFromDelta
  have hr' : 1000000000 * bytes / delta * 8 < 18446744073709551616 := by rw [Nat.mul_comm 1000000000 bytes]; exact hr
  have hq : bytes * 1000000000 / delta < 18446744073709551616 := by omega
  have hq' : 1000000000 * bytes / delta < 18446744073709551616 := by omega
  have c1 : (1000000000 : Int) = ((1000000000 : Nat) : Int) := rfl
  have c8 : (8 : Int) = ((8 : Nat) : Int) := rfl
  by_cases hz : delta = 0
  · subst hz; simp [GoInt.u64]
  · have hz' : ¬ (GoInt.u64 (delta : Int) = 0) := by rw [GoInt.u64_natCast (by omega)]; omega
    simp only [hz, hz', ne_eq, not_false_eq_true, not_true_eq_false, ↓reduceIte, Res.bind_ok, Res.ok.injEq]
    rw [c1, c8]
    simp (disch := omega) only [← Int.natCast_mul, ← Int.natCast_ediv, GoInt.u64_natCast]
    try simp only [Nat.mul_comm 1000000000 bytes, Nat.mul_comm 8 _]

theorem bbr_scaleWnd_translation_eq (w old new : Nat)
    (hw : w < 9223372036854775808) (ho : old < 9223372036854775808) (hn : new < 9223372036854775808)
    (hp : w * new < 9223372036854775808) :
    Gen.TransBbr.scaleByteWindowForDatagramSize w old new
      = (Bbr.scaleWnd w old new).bind (fun r => .ok (r : Int)) := by
  unfold Gen.TransBbr.scaleByteWindowForDatagramSize Bbr.scaleWnd
  have hp' : new * w < 9223372036854775808 := by rw [Nat.mul_comm]; exact hp
  have hq : w * new / old < 9223372036854775808 := Nat.lt_of_le_of_lt (Nat.div_le_self _ _) hp
  have hq' : new * w / old < 9223372036854775808 := Nat.lt_of_le_of_lt (Nat.div_le_self _ _) hp'
  have eo : ((old : Int) = new ↔ old = new) ∧ ((new : Int) = old ↔ old = new) := by omega
  by_cases he : old = new
  · simp [he]
  · by_cases hz : old = 0
    · subst hz
      have hn0 : ¬ (0 = new) := he
      simp [hn0, eo, he, GoInt.u64]
      all_goals omega
    · have hz' : ¬ (GoInt.u64 (old : Int) = 0) := by rw [GoInt.u64_natCast (by omega)]; omega
      simp only [he, eo, hz, hz', ne_eq, not_false_eq_true, not_true_eq_false, ↓reduceIte, Res.bind_ok, Res.ok.injEq]
      simp (disch := omega) only [← Int.natCast_mul, ← Int.natCast_ediv, GoInt.u64_natCast, GoInt.i64_natCast]
      try simp only [Nat.mul_comm new w]

example : Gen.TransBbr.scaleByteWindowForDatagramSize 12800 1280 1452 = .ok 14520 := by decide
example : Gen.TransBbr.scaleByteWindowForDatagramSize 12800 0 1452 = .panic := by decide
example : Gen.TransBbr.BandwidthFromDelta 1280 1000000 = .ok 10240000 := by decide

end Hy.Props.C12
