/-
  C10 — Negotiated send rate never exceeds either side's declared limit.
  Property theorems only; helper lemmas live in Hy.Proofs.Rate.

  Model: Hy.Model.Rate — the Hysteria-CC-RX header codec of core/internal/protocol/http.go
  (strconv.FormatUint / strconv.ParseUint with the error discarded / "auto"), the server's
  rule (core/server/server.go ServeHTTP) and the client's rule (core/client/client.go
  connect), and which controller congestion.UseBrutal/UseConfigured put on the connection.

  Reading of the special values (PROTOCOL.md, "Congestion Control"):
    client's declared receive rate 0  = UNKNOWN   → server must run a congestion controller
    server's declared receive rate 0  = UNLIMITED → client may send at its own rate
    server's "auto"                              → client must run a congestion controller
    a side's own send limit 0         = none: the server then takes the client's number as it
                                        is, the client (nothing usable left) runs a controller

  NOT claimed here: bytes per wall-clock interval on the wire. The enforced rate is taken to
  be the `bps` the Brutal sender is constructed with; its pacing is C11's subject.
-/
import Hy.Proofs.Rate
import Hy.Gen.Core
namespace Hy.Props.C10
open Hy Hy.Rate

/-! ### obligations on facts regenerated from the compiled packages -/
theorem const_header : Gen.C10_HeaderCCRX = "Hysteria-CC-RX" := by decide
theorem const_status : Gen.C10_StatusAuthOK = 233 := by decide
/-- what `AuthResponseToHeader` emits for `RxAuto` is the literal the model calls `autoStr` -/
theorem const_auto : ascii Gen.C10_AutoLiteral = autoStr := by decide
theorem const_cc_types : Gen.C10_TypeBBR = "bbr" ∧ Gen.C10_TypeReno = "reno" := by decide
/-- the grid of the statement: 65536 is the floor `server.Config.fill` puts on a non-zero
    limit (compared with the real `NewServer` by the `scfg` ops), 65537 is just above it -/
theorem server_floor : serverLimitOK 0 = true ∧ serverLimitOK 65535 = false ∧
    serverLimitOK 65536 = true ∧ serverLimitOK 65537 = true ∧ serverLimitOK U64Max = true := by decide

/-! ### the lattice of the statement -/

/-- "the smaller of own limit and the peer's declaration", 0 on the limit = no limit -/
def capBy (limit x : Nat) : Nat := if limit = 0 then x else min x limit

/-- Server: controller iff ignoring or the client declared 0 (unknown); otherwise a fixed
    rate = the client's declared receive rate, capped by the server's own MaxTx when it has one. -/
theorem server_spec (clientRx maxTx : Nat) (ignore : Bool) :
    serverTx clientRx maxTx ignore =
      if ignore = true ∨ clientRx = 0 then { ctl := .configured, reported := 0 }
      else { ctl := .brutal (capBy maxTx clientRx), reported := capBy maxTx clientRx } := by
  rw [serverTx_cases]
  cases ignore <;> simp only [capBy, Bool.false_eq_true, false_or, true_or, if_true, if_false]
  by_cases h0 : clientRx = 0 <;> simp only [h0, if_true, if_false]
  by_cases hm : maxTx = 0 <;> simp only [hm, if_true, if_false]

/-- Client: controller iff the server said "auto" or the client has no send limit of its own;
    otherwise a fixed rate = its own MaxTx, capped by the server's declared receive rate when
    that is not 0 (unlimited). -/
theorem client_spec (resp : AuthResp) (maxTx : Nat) :
    clientTx resp maxTx =
      if resp.rxAuto = true ∨ maxTx = 0 then { ctl := .configured, reported := 0 }
      else { ctl := .brutal (capBy resp.rx maxTx), reported := capBy resp.rx maxTx } := by
  rw [clientTx_cases]
  cases resp.rxAuto <;> simp only [capBy, Bool.false_eq_true, false_or, true_or, if_true, if_false]
  by_cases hm : maxTx = 0 <;> simp only [hm, if_true, if_false]
  by_cases h0 : resp.rx = 0 <;> simp only [h0, if_true, if_false]
  rw [Nat.min_comm]

/-! ### a fixed rate never exceeds either side's limit, and is one of the two -/

theorem brutal_le_both_server (clientRx maxTx r : Nat) (ignore : Bool)
    (h : (serverTx clientRx maxTx ignore).ctl = .brutal r) :
    (maxTx ≠ 0 → r ≤ maxTx) ∧ r ≤ clientRx ∧ 0 < r ∧ (r = maxTx ∨ r = clientRx) ∧ ignore = false := by
  rw [server_spec] at h
  split at h
  · cases h
  · rename_i hc
    simp only [Ctl.brutal.injEq, capBy] at h
    cases ignore <;> simp only [Bool.false_eq_true, false_or, true_or, not_true_eq_false] at hc
    refine ⟨?_, ?_, ?_, ?_, rfl⟩ <;> split at h <;> omega

example : (serverTx 1000000 65536 false).ctl = .brutal 65536 := by decide

theorem brutal_le_both_client (resp : AuthResp) (maxTx r : Nat)
    (h : (clientTx resp maxTx).ctl = .brutal r) :
    r ≤ maxTx ∧ (resp.rx ≠ 0 → r ≤ resp.rx) ∧ 0 < r ∧ (r = maxTx ∨ r = resp.rx) ∧ resp.rxAuto = false := by
  rw [client_spec] at h
  split at h
  · cases h
  · rename_i hc
    simp only [Ctl.brutal.injEq, capBy] at h
    cases hr : resp.rxAuto <;> simp only [hr, Bool.false_eq_true, false_or, true_or, not_true_eq_false] at hc
    refine ⟨?_, ?_, ?_, ?_, rfl⟩ <;> split at h <;> omega

example : (clientTx { rx := 65537, rxAuto := false } 1000000).ctl = .brutal 65537 := by decide

/-- `brutal_le_both` of the design, both sides at once, phrased with own/peer -/
theorem brutal_le_both :
    (∀ clientRx maxTx ignore r, (serverTx clientRx maxTx ignore).ctl = .brutal r →
        (maxTx ≠ 0 → r ≤ maxTx) ∧ (clientRx ≠ 0 → r ≤ clientRx) ∧ 0 < r) ∧
    (∀ resp maxTx r, (clientTx resp maxTx).ctl = .brutal r →
        (maxTx ≠ 0 → r ≤ maxTx) ∧ (resp.rx ≠ 0 → r ≤ resp.rx) ∧ 0 < r) := by
  constructor
  · intro c m i r h
    have := brutal_le_both_server c m r i h
    exact ⟨this.1, fun _ => this.2.1, this.2.2.1⟩
  · intro resp m r h
    have := brutal_le_both_client resp m r h
    exact ⟨fun _ => this.1, this.2.1, this.2.2.1⟩

/-! ### when the configured congestion controller runs instead -/

/-- server: CC ⇔ the client declared 0 ∨ the server ignores client bandwidth -/
theorem cc_iff_server (clientRx maxTx : Nat) (ignore : Bool) :
    (serverTx clientRx maxTx ignore).ctl = .configured ↔ (clientRx = 0 ∨ ignore = true) := by
  rw [server_spec]
  split
  · rename_i h; simp only [true_iff]; exact h.symm
  · rename_i h; simp only [reduceCtorEq, false_iff]; exact fun x => h x.symm

/-- client: CC ⇔ the server answered "auto" ∨ the client has no usable limit (own MaxTx = 0) -/
theorem cc_iff_client (resp : AuthResp) (maxTx : Nat) :
    (clientTx resp maxTx).ctl = .configured ↔ (resp.rxAuto = true ∨ maxTx = 0) := by
  rw [client_spec]
  split
  · rename_i h; simp only [true_iff]; exact h
  · rename_i h; simp only [reduceCtorEq, false_iff]; exact h

/-- the server's own limit 0 means "unlimited", NOT "use the controller" -/
theorem server_zero_is_unlimited (clientRx : Nat) (h : clientRx ≠ 0) :
    serverTx clientRx 0 false = { ctl := .brutal clientRx, reported := clientRx } := by
  rw [server_spec]; simp [h, capBy]

example : (65537 : Nat) ≠ 0 := by decide

/-- the server's declared 0 means "unlimited" for the client: it sends at its own limit -/
theorem client_zero_is_unlimited (maxTx : Nat) (h : maxTx ≠ 0) :
    clientTx { rx := 0, rxAuto := false } maxTx = { ctl := .brutal maxTx, reported := maxTx } := by
  rw [client_spec]; simp [h, capBy]

/-! ### the number handed to the application is the number installed -/

/-- `HandshakeInfo.Tx` / `Connect(tx)` is the `r` given to Brutal, and 0 under the controller;
    conversely the reported value alone tells which controller is on the connection. -/
theorem reported_is_installed :
    (∀ clientRx maxTx ignore reno r,
        install reno (serverTx clientRx maxTx ignore).ctl = .brutal r ↔
          ((serverTx clientRx maxTx ignore).reported = r ∧ 0 < r)) ∧
    (∀ clientRx maxTx ignore reno,
        install reno (serverTx clientRx maxTx ignore).ctl = useConfigured reno ↔
          (serverTx clientRx maxTx ignore).reported = 0) ∧
    (∀ resp maxTx reno r,
        install reno (clientTx resp maxTx).ctl = .brutal r ↔
          ((clientTx resp maxTx).reported = r ∧ 0 < r)) ∧
    (∀ resp maxTx reno,
        install reno (clientTx resp maxTx).ctl = useConfigured reno ↔
          (clientTx resp maxTx).reported = 0) := by
  refine ⟨?_, ?_, ?_, ?_⟩
  · intro c m i reno r
    rw [server_spec]
    split
    · cases reno <;> simp [install, useConfigured] <;> omega
    · rename_i h
      have : 0 < capBy m c := by
        simp only [capBy]; split <;> omega
      simp only [install, Installed.brutal.injEq]
      constructor
      · intro e; subst e; exact ⟨rfl, this⟩
      · intro e; exact e.1
  · intro c m i reno
    rw [server_spec]
    split
    · simp [install]
    · rename_i h
      have : 0 < capBy m c := by
        simp only [capBy]; split <;> omega
      cases reno <;> simp [install, useConfigured] <;> omega
  · intro resp m reno r
    rw [client_spec]
    split
    · cases reno <;> simp [install, useConfigured] <;> omega
    · rename_i h
      have : 0 < capBy resp.rx m := by
        simp only [capBy]; split <;> omega
      simp only [install, Installed.brutal.injEq]
      constructor
      · intro e; subst e; exact ⟨rfl, this⟩
      · intro e; exact e.1
  · intro resp m reno
    rw [client_spec]
    split
    · simp [install]
    · rename_i h
      have : 0 < capBy resp.rx m := by
        simp only [capBy]; split <;> omega
      cases reno <;> simp [install, useConfigured] <;> omega

/-! ### the header codec -/

/-- FormatUint then ParseUint is the identity on every uint64, with no error -/
theorem header_roundtrip (n : Nat) (h : n ≤ U64Max) : parseUintE (formatUint n) = (n, .none) :=
  parseUintE_format n h

example : (18446744073709551615 : Nat) ≤ U64Max := by decide

theorem request_header_roundtrip (n : Nat) (h : n ≤ U64Max) :
    authRequestFromHeader [authRequestToHeader n] = n := by
  simp only [authRequestFromHeader, authRequestToHeader, hget, List.head?_cons, Option.getD_some,
    parseUint, header_roundtrip n h]

/-- the response survives the wire; "auto" can never be mistaken for a number nor a number for "auto" -/
theorem response_header_roundtrip (r : AuthResp) (h : r.rx ≤ U64Max) :
    authResponseFromHeader [authResponseToHeader r] =
      if r.rxAuto then { rx := 0, rxAuto := true } else r := by
  cases r with
  | mk rx a =>
    cases a
    · simp only [authResponseFromHeader, authResponseToHeader, hget, List.head?_cons,
        Option.getD_some, Bool.false_eq_true, if_false, formatUint_ne_auto rx, parseUint,
        header_roundtrip rx h]
    · simp [authResponseFromHeader, authResponseToHeader, hget]

example : authResponseFromHeader [authResponseToHeader { rx := 1000000, rxAuto := true }]
    = { rx := 0, rxAuto := true } := by decide

/-- whatever bytes arrive, the parsed rate is a uint64 -/
theorem parse_fits_uint64 (s : Bytes) : parseUint s ≤ U64Max := by
  simp only [parseUint, parseUintE]
  split
  · exact Nat.zero_le _
  · exact parseGo_le s 0 (Nat.zero_le _)

/-- missing header (`Get` returns "") and any value that starts with a non-digit — sign,
    blank, letter, "auto" on a request — parse to 0 = "unknown" -/
theorem parse_missing_or_nondigit :
    authRequestFromHeader [] = 0 ∧
    (∀ (c : Byte) (cs : Bytes), ¬ (48 ≤ c.val ∧ c.val ≤ 57) → parseUint (c :: cs) = 0) := by
  constructor
  · rfl
  · intro c cs h
    simp only [parseUint, parseUintE, reduceCtorEq, if_false, parseGo_nondigit_first 0 c cs h]

example : parseUint (ascii "-1") = 0 := by decide
example : parseUint (ascii " 100") = 0 := by decide
example : parseUint (ascii "100 ") = 0 := by decide
example : parseUint (ascii "auto") = 0 := by decide
example : parseUint (ascii "00065536") = 65536 := by decide

/-- a digit string whose value does not fit in 64 bits parses to 2^64-1 (range error), not 0 -/
theorem parse_overflow (ds : List Nat) (hd : ∀ d ∈ ds, d < 10) (hv : U64Max < valOf 0 ds) :
    parseUintE (ds.map digitByte) = (U64Max, .range) := by
  have hne : ds.map digitByte ≠ [] := by
    intro h
    simp only [List.map_eq_nil_iff] at h
    subst h; simp at hv
  simp only [parseUintE, if_neg hne]
  exact parseGo_overflow ds 0 hd (Nat.zero_le _) hv

example : parseUintE (ascii "18446744073709551616") = (U64Max, .range) := by decide
example : parseUintE (ascii "99999999999999999999x") = (U64Max, .range) := by decide

/-- a hostile or broken client cannot make a limited server send faster than its limit,
    whatever it puts in the header (missing, junk, overflow) -/
theorem server_cap_any_header (vals : List Bytes) (maxTx r : Nat) (ignore : Bool) (hm : maxTx ≠ 0)
    (h : (serverTx (authRequestFromHeader vals) maxTx ignore).ctl = .brutal r) : r ≤ maxTx :=
  (brutal_le_both_server _ maxTx r ignore h).1 hm

example : (serverTx (authRequestFromHeader [ascii "99999999999999999999"]) 65536 false).ctl
    = .brutal 65536 := by decide

/-- the symmetric fact for a hostile server and the client's own limit -/
theorem client_cap_any_header (vals : List Bytes) (maxTx r : Nat)
    (h : (clientTx (authResponseFromHeader vals) maxTx).ctl = .brutal r) : r ≤ maxTx :=
  (brutal_le_both_client _ maxTx r h).1

/-- every number the rules produce fits uint64 when the configuration does -/
theorem outputs_fit_uint64 (a b : Nat) (ha : a ≤ U64Max) (hb : b ≤ U64Max) (ignore auto : Bool) :
    (serverTx a b ignore).reported ≤ U64Max ∧ (clientTx { rx := a, rxAuto := auto } b).reported ≤ U64Max := by
  rw [server_spec, client_spec]
  constructor
  · split
    · exact Nat.zero_le _
    · simp only [capBy]; split <;> omega
  · split
    · exact Nat.zero_le _
    · simp only [capBy]; split <;> omega

example : (65536 : Nat) ≤ U64Max ∧ (9223372036854775808 : Nat) ≤ U64Max := by decide

/-! ### both sides, through the wire, against PROTOCOL.md -/

/-- For every uint64 configuration the whole exchange — FormatUint, the transport, ParseUint
    or "auto", then each side's rule — is the two rules applied to the configured numbers,
    and satisfies the three special cases and the bound PROTOCOL.md states:
      * client sends 0 ⇒ server MUST use a congestion controller;
      * server answers 0 ⇒ client MAY send at any rate (here: its own limit);
      * server answers "auto" ⇒ client MUST use a congestion controller;
      * otherwise each side's fixed rate does not exceed the peer's declared receive rate. -/
theorem both_sides_agree_with_PROTOCOL (cUp cDown sUp sDown : Nat) (ignore : Bool)
    (h1 : cDown ≤ U64Max) (h2 : sDown ≤ U64Max) :
    let h := handshake cUp cDown sUp sDown ignore
    h.authTx = cDown ∧
    h.server = serverTx cDown sUp ignore ∧
    h.client = clientTx { rx := if ignore then 0 else sDown, rxAuto := ignore } cUp ∧
    (cDown = 0 → h.server.ctl = .configured) ∧
    (∀ r, h.server.ctl = .brutal r → r ≤ cDown ∧ (sUp ≠ 0 → r ≤ sUp)) ∧
    (ignore = true → h.client.ctl = .configured) ∧
    (ignore = false → sDown = 0 → cUp ≠ 0 → h.client.ctl = .brutal cUp) ∧
    (∀ r, h.client.ctl = .brutal r → r ≤ cUp ∧ (sDown ≠ 0 → r ≤ sDown)) ∧
    h.respHdr = (if ignore then autoStr else formatUint sDown) := by
  intro h
  have e1 : h.authTx = cDown := request_header_roundtrip cDown h1
  have e2 : h.server = serverTx cDown sUp ignore := by
    show serverTx (authRequestFromHeader [authRequestToHeader cDown]) sUp ignore = _
    rw [request_header_roundtrip cDown h1]
  have e3 : h.client = clientTx { rx := if ignore then 0 else sDown, rxAuto := ignore } cUp := by
    show clientTx (authResponseFromHeader [authResponseToHeader { rx := sDown, rxAuto := ignore }]) cUp = _
    rw [response_header_roundtrip _ h2]
    cases ignore <;> rfl
  refine ⟨e1, e2, e3, ?_, ?_, ?_, ?_, ?_, ?_⟩
  · intro h0; rw [e2]; exact (cc_iff_server cDown sUp ignore).mpr (Or.inl h0)
  · intro r hr; rw [e2] at hr
    have := brutal_le_both_server cDown sUp r ignore hr
    exact ⟨this.2.1, this.1⟩
  · intro hi; rw [e3]; exact (cc_iff_client _ cUp).mpr (Or.inl hi)
  · intro hi h0 hc; rw [e3]; subst hi; subst h0
    simpa using congrArg Outcome.ctl (client_zero_is_unlimited cUp hc)
  · intro r hr; rw [e3] at hr
    have := brutal_le_both_client _ cUp r hr
    refine ⟨this.1, ?_⟩
    have hf := this.2.2.2.2
    simp only at hf
    subst hf
    exact this.2.1
  · show authResponseToHeader { rx := sDown, rxAuto := ignore } = _
    cases ignore <;> rfl

example : (handshake 1000000 65537 65536 0 false).server = serverTx 65537 65536 false ∧
    serverTx 65537 65536 false = { ctl := .brutal 65536, reported := 65536 } ∧
    clientTx { rx := 0, rxAuto := false } 1000000 = { ctl := .brutal 1000000, reported := 1000000 } :=
  ⟨(both_sides_agree_with_PROTOCOL 1000000 65537 65536 0 false (by decide) (by decide)).2.1,
   by decide, by decide⟩

end Hy.Props.C10
