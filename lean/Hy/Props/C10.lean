/-
  C10 — Negotiated send rate never exceeds either side's declared limit.
  Property theorems only; helper lemmas live in Hy.Proofs.Rate.

  Model: Hy.Model.Rate — the Hysteria-CC-RX header codec of core/internal/protocol/http.go
  (strconv.FormatUint / strconv.ParseUint with the error discarded / "auto"), the server's
  rule (core/server/server.go ServeHTTP) and the client's rule (core/client/client.go
  connect), and which controller congestion.UseBrutal/UseConfigured put on the connection.

  Reading of the special values (PROTOCOL.md, "Congestion Control"):
    client's declared receive rate 0  = UNKNOWN   → server must run a congestion controller
    server's declared receive rate 0  = UNLIMITED → client may send at its own rate
    server's "auto"                              → client must run a congestion controller
    a side's own send limit 0         = none: the server then takes the client's number as it
                                        is, the client (nothing usable left) runs a controller

  NOT claimed here: bytes per wall-clock interval on the wire. The enforced rate is taken to
  be the `bps` the Brutal sender is constructed with; its pacing is C11's subject.
-/
import Hy.Proofs.Rate
import Hy.Proofs.RateConfig
import Hy.Gen.Core
import Hy.Gen.App
set_option linter.unusedSimpArgs false
namespace Hy.Props.C10
open Hy Hy.Rate Hy.RateCfg

/-! ### obligations on facts regenerated from the compiled packages -/
theorem const_header : Gen.C10_HeaderCCRX = "Hysteria-CC-RX" := by decide
theorem const_status : Gen.C10_StatusAuthOK = 233 := by decide
/-- what `AuthResponseToHeader` emits for `RxAuto` is the literal the model calls `autoStr` -/
theorem const_auto : ascii Gen.C10_AutoLiteral = autoStr := by decide
theorem const_cc_types : Gen.C10_TypeBBR = "bbr" ∧ Gen.C10_TypeReno = "reno" := by decide
/-- the grid of the statement: 65536 is the floor `server.Config.fill` puts on a non-zero
    limit (compared with the real `NewServer` by the `scfg` ops), 65537 is just above it -/
theorem server_floor : serverLimitOK 0 = true ∧ serverLimitOK 65535 = false ∧
    serverLimitOK 65536 = true ∧ serverLimitOK 65537 = true ∧ serverLimitOK U64Max = true := by decide

/-! ### the lattice of the statement -/

/-- "the smaller of own limit and the peer's declaration", 0 on the limit = no limit -/
def capBy (limit x : Nat) : Nat := if limit = 0 then x else min x limit

/-- Server: controller iff ignoring or the client declared 0 (unknown); otherwise a fixed
    rate = the client's declared receive rate, capped by the server's own MaxTx when it has one. -/
theorem server_spec (clientRx maxTx : Nat) (ignore : Bool) :
    serverTx clientRx maxTx ignore =
      if ignore = true ∨ clientRx = 0 then { ctl := .configured, reported := 0 }
      else { ctl := .brutal (capBy maxTx clientRx), reported := capBy maxTx clientRx } := by
  rw [serverTx_cases]
  cases ignore <;> simp only [capBy, Bool.false_eq_true, false_or, true_or, if_true, if_false]
  by_cases h0 : clientRx = 0 <;> simp only [h0, if_true, if_false]
  by_cases hm : maxTx = 0 <;> simp only [hm, if_true, if_false]

/-- Client: controller iff the server said "auto" or the client has no send limit of its own;
    otherwise a fixed rate = its own MaxTx, capped by the server's declared receive rate when
    that is not 0 (unlimited). -/
theorem client_spec (resp : AuthResp) (maxTx : Nat) :
    clientTx resp maxTx =
      if resp.rxAuto = true ∨ maxTx = 0 then { ctl := .configured, reported := 0 }
      else { ctl := .brutal (capBy resp.rx maxTx), reported := capBy resp.rx maxTx } := by
  rw [clientTx_cases]
  cases resp.rxAuto <;> simp only [capBy, Bool.false_eq_true, false_or, true_or, if_true, if_false]
  by_cases hm : maxTx = 0 <;> simp only [hm, if_true, if_false]
  by_cases h0 : resp.rx = 0 <;> simp only [h0, if_true, if_false]
  rw [Nat.min_comm]

/-! ### a fixed rate never exceeds either side's limit, and is one of the two -/

theorem brutal_le_both_server (clientRx maxTx r : Nat) (ignore : Bool)
    (h : (serverTx clientRx maxTx ignore).ctl = .brutal r) :
    (maxTx ≠ 0 → r ≤ maxTx) ∧ r ≤ clientRx ∧ 0 < r ∧ (r = maxTx ∨ r = clientRx) ∧ ignore = false := by
  rw [server_spec] at h
  split at h
  · cases h
  · rename_i hc
    simp only [Ctl.brutal.injEq, capBy] at h
    cases ignore <;> simp only [Bool.false_eq_true, false_or, true_or, not_true_eq_false] at hc
    refine ⟨?_, ?_, ?_, ?_, rfl⟩ <;> split at h <;> omega

example : (serverTx 1000000 65536 false).ctl = .brutal 65536 := by decide

theorem brutal_le_both_client (resp : AuthResp) (maxTx r : Nat)
    (h : (clientTx resp maxTx).ctl = .brutal r) :
    r ≤ maxTx ∧ (resp.rx ≠ 0 → r ≤ resp.rx) ∧ 0 < r ∧ (r = maxTx ∨ r = resp.rx) ∧ resp.rxAuto = false := by
  rw [client_spec] at h
  split at h
  · cases h
  · rename_i hc
    simp only [Ctl.brutal.injEq, capBy] at h
    cases hr : resp.rxAuto <;> simp only [hr, Bool.false_eq_true, false_or, true_or, not_true_eq_false] at hc
    refine ⟨?_, ?_, ?_, ?_, rfl⟩ <;> split at h <;> omega

example : (clientTx { rx := 65537, rxAuto := false } 1000000).ctl = .brutal 65537 := by decide

/-- `brutal_le_both` of the design, both sides at once, phrased with own/peer -/
theorem brutal_le_both :
    (∀ clientRx maxTx ignore r, (serverTx clientRx maxTx ignore).ctl = .brutal r →
        (maxTx ≠ 0 → r ≤ maxTx) ∧ (clientRx ≠ 0 → r ≤ clientRx) ∧ 0 < r) ∧
    (∀ resp maxTx r, (clientTx resp maxTx).ctl = .brutal r →
        (maxTx ≠ 0 → r ≤ maxTx) ∧ (resp.rx ≠ 0 → r ≤ resp.rx) ∧ 0 < r) := by
  constructor
  · intro c m i r h
    have := brutal_le_both_server c m r i h
    exact ⟨this.1, fun _ => this.2.1, this.2.2.1⟩
  · intro resp m r h
    have := brutal_le_both_client resp m r h
    exact ⟨fun _ => this.1, this.2.1, this.2.2.1⟩

/-! ### when the configured congestion controller runs instead -/

/-- server: CC ⇔ the client declared 0 ∨ the server ignores client bandwidth -/
theorem cc_iff_server (clientRx maxTx : Nat) (ignore : Bool) :
    (serverTx clientRx maxTx ignore).ctl = .configured ↔ (clientRx = 0 ∨ ignore = true) := by
  rw [server_spec]
  split
  · rename_i h; simp only [true_iff]; exact h.symm
  · rename_i h; simp only [reduceCtorEq, false_iff]; exact fun x => h x.symm

/-- client: CC ⇔ the server answered "auto" ∨ the client has no usable limit (own MaxTx = 0) -/
theorem cc_iff_client (resp : AuthResp) (maxTx : Nat) :
    (clientTx resp maxTx).ctl = .configured ↔ (resp.rxAuto = true ∨ maxTx = 0) := by
  rw [client_spec]
  split
  · rename_i h; simp only [true_iff]; exact h
  · rename_i h; simp only [reduceCtorEq, false_iff]; exact h

/-- the server's own limit 0 means "unlimited", NOT "use the controller" -/
theorem server_zero_is_unlimited (clientRx : Nat) (h : clientRx ≠ 0) :
    serverTx clientRx 0 false = { ctl := .brutal clientRx, reported := clientRx } := by
  rw [server_spec]; simp [h, capBy]

example : (65537 : Nat) ≠ 0 := by decide

/-- the server's declared 0 means "unlimited" for the client: it sends at its own limit -/
theorem client_zero_is_unlimited (maxTx : Nat) (h : maxTx ≠ 0) :
    clientTx { rx := 0, rxAuto := false } maxTx = { ctl := .brutal maxTx, reported := maxTx } := by
  rw [client_spec]; simp [h, capBy]

/-! ### the number handed to the application is the number installed -/

/-- `HandshakeInfo.Tx` / `Connect(tx)` is the `r` given to Brutal, and 0 under the controller;
    conversely the reported value alone tells which controller is on the connection. -/
theorem reported_is_installed :
    (∀ clientRx maxTx ignore reno r,
        install reno (serverTx clientRx maxTx ignore).ctl = .brutal r ↔
          ((serverTx clientRx maxTx ignore).reported = r ∧ 0 < r)) ∧
    (∀ clientRx maxTx ignore reno,
        install reno (serverTx clientRx maxTx ignore).ctl = useConfigured reno ↔
          (serverTx clientRx maxTx ignore).reported = 0) ∧
    (∀ resp maxTx reno r,
        install reno (clientTx resp maxTx).ctl = .brutal r ↔
          ((clientTx resp maxTx).reported = r ∧ 0 < r)) ∧
    (∀ resp maxTx reno,
        install reno (clientTx resp maxTx).ctl = useConfigured reno ↔
          (clientTx resp maxTx).reported = 0) := by
  refine ⟨?_, ?_, ?_, ?_⟩
  · intro c m i reno r
    rw [server_spec]
    split
    · cases reno <;> simp [install, useConfigured] <;> omega
    · rename_i h
      have : 0 < capBy m c := by
        simp only [capBy]; split <;> omega
      simp only [install, Installed.brutal.injEq]
      constructor
      · intro e; subst e; exact ⟨rfl, this⟩
      · intro e; exact e.1
  · intro c m i reno
    rw [server_spec]
    split
    · simp [install]
    · rename_i h
      have : 0 < capBy m c := by
        simp only [capBy]; split <;> omega
      cases reno <;> simp [install, useConfigured] <;> omega
  · intro resp m reno r
    rw [client_spec]
    split
    · cases reno <;> simp [install, useConfigured] <;> omega
    · rename_i h
      have : 0 < capBy resp.rx m := by
        simp only [capBy]; split <;> omega
      simp only [install, Installed.brutal.injEq]
      constructor
      · intro e; subst e; exact ⟨rfl, this⟩
      · intro e; exact e.1
  · intro resp m reno
    rw [client_spec]
    split
    · simp [install]
    · rename_i h
      have : 0 < capBy resp.rx m := by
        simp only [capBy]; split <;> omega
      cases reno <;> simp [install, useConfigured] <;> omega

/-! ### the header codec -/

/-- FormatUint then ParseUint is the identity on every uint64, with no error -/
theorem header_roundtrip (n : Nat) (h : n ≤ U64Max) : parseUintE (formatUint n) = (n, .none) :=
  parseUintE_format n h

example : (18446744073709551615 : Nat) ≤ U64Max := by decide

theorem request_header_roundtrip (n : Nat) (h : n ≤ U64Max) :
    authRequestFromHeader [authRequestToHeader n] = n := by
  simp only [authRequestFromHeader, authRequestToHeader, hget, List.head?_cons, Option.getD_some,
    parseUint, header_roundtrip n h]

/-- the response survives the wire; "auto" can never be mistaken for a number nor a number for "auto" -/
theorem response_header_roundtrip (r : AuthResp) (h : r.rx ≤ U64Max) :
    authResponseFromHeader [authResponseToHeader r] =
      if r.rxAuto then { rx := 0, rxAuto := true } else r := by
  cases r with
  | mk rx a =>
    cases a
    · simp only [authResponseFromHeader, authResponseToHeader, hget, List.head?_cons,
        Option.getD_some, Bool.false_eq_true, if_false, formatUint_ne_auto rx, parseUint,
        header_roundtrip rx h]
    · simp [authResponseFromHeader, authResponseToHeader, hget]

example : authResponseFromHeader [authResponseToHeader { rx := 1000000, rxAuto := true }]
    = { rx := 0, rxAuto := true } := by decide

/-- whatever bytes arrive, the parsed rate is a uint64 -/
theorem parse_fits_uint64 (s : Bytes) : parseUint s ≤ U64Max := by
  simp only [parseUint, parseUintE]
  split
  · exact Nat.zero_le _
  · exact parseGo_le s 0 (Nat.zero_le _)

/-- missing header (`Get` returns "") and any value that starts with a non-digit — sign,
    blank, letter, "auto" on a request — parse to 0 = "unknown" -/
theorem parse_missing_or_nondigit :
    authRequestFromHeader [] = 0 ∧
    (∀ (c : Byte) (cs : Bytes), ¬ (48 ≤ c.val ∧ c.val ≤ 57) → parseUint (c :: cs) = 0) := by
  constructor
  · rfl
  · intro c cs h
    simp only [parseUint, parseUintE, reduceCtorEq, if_false, parseGo_nondigit_first 0 c cs h]

example : parseUint (ascii "-1") = 0 := by decide
example : parseUint (ascii " 100") = 0 := by decide
example : parseUint (ascii "100 ") = 0 := by decide
example : parseUint (ascii "auto") = 0 := by decide
example : parseUint (ascii "00065536") = 65536 := by decide

/-- a digit string whose value does not fit in 64 bits parses to 2^64-1 (range error), not 0 -/
theorem parse_overflow (ds : List Nat) (hd : ∀ d ∈ ds, d < 10) (hv : U64Max < valOf 0 ds) :
    parseUintE (ds.map digitByte) = (U64Max, .range) := by
  have hne : ds.map digitByte ≠ [] := by
    intro h
    simp only [List.map_eq_nil_iff] at h
    subst h; simp at hv
  simp only [parseUintE, if_neg hne]
  exact parseGo_overflow ds 0 hd (Nat.zero_le _) hv

example : parseUintE (ascii "18446744073709551616") = (U64Max, .range) := by decide
example : parseUintE (ascii "99999999999999999999x") = (U64Max, .range) := by decide

/-- a hostile or broken client cannot make a limited server send faster than its limit,
    whatever it puts in the header (missing, junk, overflow) -/
theorem server_cap_any_header (vals : List Bytes) (maxTx r : Nat) (ignore : Bool) (hm : maxTx ≠ 0)
    (h : (serverTx (authRequestFromHeader vals) maxTx ignore).ctl = .brutal r) : r ≤ maxTx :=
  (brutal_le_both_server _ maxTx r ignore h).1 hm

example : (serverTx (authRequestFromHeader [ascii "99999999999999999999"]) 65536 false).ctl
    = .brutal 65536 := by decide

/-- the symmetric fact for a hostile server and the client's own limit -/
theorem client_cap_any_header (vals : List Bytes) (maxTx r : Nat)
    (h : (clientTx (authResponseFromHeader vals) maxTx).ctl = .brutal r) : r ≤ maxTx :=
  (brutal_le_both_client _ maxTx r h).1

/-- every number the rules produce fits uint64 when the configuration does -/
theorem outputs_fit_uint64 (a b : Nat) (ha : a ≤ U64Max) (hb : b ≤ U64Max) (ignore auto : Bool) :
    (serverTx a b ignore).reported ≤ U64Max ∧ (clientTx { rx := a, rxAuto := auto } b).reported ≤ U64Max := by
  rw [server_spec, client_spec]
  constructor
  · split
    · exact Nat.zero_le _
    · simp only [capBy]; split <;> omega
  · split
    · exact Nat.zero_le _
    · simp only [capBy]; split <;> omega

example : (65536 : Nat) ≤ U64Max ∧ (9223372036854775808 : Nat) ≤ U64Max := by decide

/-! ### both sides, through the wire, against PROTOCOL.md -/

/-- For every uint64 configuration the whole exchange — FormatUint, the transport, ParseUint
    or "auto", then each side's rule — is the two rules applied to the configured numbers,
    and satisfies the three special cases and the bound PROTOCOL.md states:
      * client sends 0 ⇒ server MUST use a congestion controller;
      * server answers 0 ⇒ client MAY send at any rate (here: its own limit);
      * server answers "auto" ⇒ client MUST use a congestion controller;
      * otherwise each side's fixed rate does not exceed the peer's declared receive rate. -/
theorem both_sides_agree_with_PROTOCOL (cUp cDown sUp sDown : Nat) (ignore : Bool)
    (h1 : cDown ≤ U64Max) (h2 : sDown ≤ U64Max) :
    let h := handshake cUp cDown sUp sDown ignore
    h.authTx = cDown ∧
    h.server = serverTx cDown sUp ignore ∧
    h.client = clientTx { rx := if ignore then 0 else sDown, rxAuto := ignore } cUp ∧
    (cDown = 0 → h.server.ctl = .configured) ∧
    (∀ r, h.server.ctl = .brutal r → r ≤ cDown ∧ (sUp ≠ 0 → r ≤ sUp)) ∧
    (ignore = true → h.client.ctl = .configured) ∧
    (ignore = false → sDown = 0 → cUp ≠ 0 → h.client.ctl = .brutal cUp) ∧
    (∀ r, h.client.ctl = .brutal r → r ≤ cUp ∧ (sDown ≠ 0 → r ≤ sDown)) ∧
    h.respHdr = (if ignore then autoStr else formatUint sDown) := by
  intro h
  have e1 : h.authTx = cDown := request_header_roundtrip cDown h1
  have e2 : h.server = serverTx cDown sUp ignore := by
    show serverTx (authRequestFromHeader [authRequestToHeader cDown]) sUp ignore = _
    rw [request_header_roundtrip cDown h1]
  have e3 : h.client = clientTx { rx := if ignore then 0 else sDown, rxAuto := ignore } cUp := by
    show clientTx (authResponseFromHeader [authResponseToHeader { rx := sDown, rxAuto := ignore }]) cUp = _
    rw [response_header_roundtrip _ h2]
    cases ignore <;> rfl
  refine ⟨e1, e2, e3, ?_, ?_, ?_, ?_, ?_, ?_⟩
  · intro h0; rw [e2]; exact (cc_iff_server cDown sUp ignore).mpr (Or.inl h0)
  · intro r hr; rw [e2] at hr
    have := brutal_le_both_server cDown sUp r ignore hr
    exact ⟨this.2.1, this.1⟩
  · intro hi; rw [e3]; exact (cc_iff_client _ cUp).mpr (Or.inl hi)
  · intro hi h0 hc; rw [e3]; subst hi; subst h0
    simpa using congrArg Outcome.ctl (client_zero_is_unlimited cUp hc)
  · intro r hr; rw [e3] at hr
    have := brutal_le_both_client _ cUp r hr
    refine ⟨this.1, ?_⟩
    have hf := this.2.2.2.2
    simp only at hf
    subst hf
    exact this.2.1
  · show authResponseToHeader { rx := sDown, rxAuto := ignore } = _
    cases ignore <;> rfl

example : (handshake 1000000 65537 65536 0 false).server = serverTx 65537 65536 false ∧
    serverTx 65537 65536 false = { ctl := .brutal 65536, reported := 65536 } ∧
    clientTx { rx := 0, rxAuto := false } 1000000 = { ctl := .brutal 1000000, reported := 1000000 } :=
  ⟨(both_sides_agree_with_PROTOCOL 1000000 65537 65536 0 false (by decide) (by decide)).2.1,
   by decide, by decide⟩

/-! ## where the declared limits come from: the application's bandwidth strings

  Model: Hy.Model.RateConfig — `utils.StringToBps` / `ConvBandwidth` (app/internal/utils/bpsconv.go),
  `fillBandwidthConfig` of app/cmd/client.go and app/cmd/server.go, and the core validation
  (core/server `fill`: the 65536 floor; core/client `verifyAndFill`: none). A bandwidth string
  is  spaces* digits+ spaces* unit spaces*  with unit ∈ {b,bps,k,kb,kbps,m,mb,mbps,g,gb,gbps,
  t,tb,tbps} in any letter case, meaning digits × 1000^i BITS per second; the core limit is
  that divided by 8 (rounded down), in bytes per second. "MBps" is therefore megaBITS.
  The product is uint64 arithmetic: it is exact when digits × unit < 2^64 and taken modulo 2^64
  otherwise (`stringToBps_wraps_counterexample` — noticed, not part of C10: the property bounds
  the rate by the limit the program actually holds, which `config_to_limits` identifies). -/

/-- the unit switch of the compiled StringToBps (each factor read off `StringToBps("8<unit>")`) -/
theorem const_units :
    unitFactor (runesOf "b") = some Gen.C10_Unit_b ∧ unitFactor (runesOf "bps") = some Gen.C10_Unit_bps ∧
    unitFactor (runesOf "k") = some Gen.C10_Unit_k ∧ unitFactor (runesOf "kb") = some Gen.C10_Unit_kb ∧
    unitFactor (runesOf "kbps") = some Gen.C10_Unit_kbps ∧
    unitFactor (runesOf "m") = some Gen.C10_Unit_m ∧ unitFactor (runesOf "mb") = some Gen.C10_Unit_mb ∧
    unitFactor (runesOf "mbps") = some Gen.C10_Unit_mbps ∧
    unitFactor (runesOf "g") = some Gen.C10_Unit_g ∧ unitFactor (runesOf "gb") = some Gen.C10_Unit_gb ∧
    unitFactor (runesOf "gbps") = some Gen.C10_Unit_gbps ∧
    unitFactor (runesOf "t") = some Gen.C10_Unit_t ∧ unitFactor (runesOf "tb") = some Gen.C10_Unit_tb ∧
    unitFactor (runesOf "tbps") = some Gen.C10_Unit_tbps := by decide

/-- the compiled unicode tables: the runes ≥ 0x80 that are `unicode.IsSpace`, and the runes
    ≥ 0x80 whose `unicode.ToLower` is ASCII (hex, as printed by the harness) -/
theorem const_unicode :
    Gen.C10_UnicodeSpaces =
      "85,a0,1680,2000,2001,2002,2003,2004,2005,2006,2007,2008,2009,200a,2028,2029,202f,205f,3000" ∧
    Gen.C10_LowerToASCII = "130>69,212a>6b" := by decide

/-- …and the model's `isSpace` / `lower` are exactly those tables beyond ASCII -/
theorem unicode_tables (r : Nat) (h : 0x80 ≤ r) :
    (isSpace r = true ↔ r ∈ [0x85, 0xa0, 0x1680, 0x2000, 0x2001, 0x2002, 0x2003, 0x2004, 0x2005, 0x2006,
      0x2007, 0x2008, 0x2009, 0x200a, 0x2028, 0x2029, 0x202f, 0x205f, 0x3000]) ∧
    lower 0x130 = 0x69 ∧ lower 0x212a = 0x6b ∧ (r ≠ 0x130 → r ≠ 0x212a → lower r = r) := by
  refine ⟨?_, by decide, by decide, ?_⟩
  · rw [isSpace_iff]
    simp only [List.mem_cons, List.not_mem_nil, or_false]
    constructor <;> intro h1 <;> omega
  · intro h1 h2
    have h3 : ¬ (65 ≤ r ∧ r ≤ 90) := by omega
    simp only [lower, h3, h1, h2, if_false]

/-- StringToBps accepts exactly the grammar (with a number that fits uint64), and what it
    returns is digits × unit, AS A uint64 PRODUCT, divided by 8. -/
theorem stringToBps_accepts (r : List Nat) (n : Nat) :
    stringToBpsR r = .ok n ↔
      ∃ pre ds mid u post f, r = pre ++ ds ++ mid ++ u ++ post ∧
        AllSpace pre ∧ AllSpace mid ∧ AllSpace post ∧ AllDigit ds ∧ ds ≠ [] ∧
        unitFactor (u.map lower) = some f ∧ digitsVal ds ≤ U64Max ∧
        n = digitsVal ds * f % 18446744073709551616 / 8 := by
  constructor
  · intro h
    obtain ⟨pre, ds, mid, u, post, f, hr, h1, h2, h3, h4, h5, h6, hv, hk⟩ := stringToBpsWith_ok _ h
    cases hk
    exact ⟨pre, ds, mid, u, post, f, hr, h1, h2, h3, h4, h5, h6, hv, rfl⟩
  · rintro ⟨pre, ds, mid, u, post, f, hr, h1, h2, h3, h4, h5, h6, hv, hn⟩
    subst hr
    unfold stringToBpsR
    rw [stringToBpsWith_grammar _ h1 h2 h3 h4 h5 h6, if_pos hv, hn]

/-- Exact arithmetic under the explicit range hypothesis digits × unit < 2^64: a string of
    the grammar is accepted and is worth exactly digits × unit / 8 bytes per second. -/
theorem stringToBps_spec {pre ds mid u post : List Nat} {f : Nat}
    (hpre : AllSpace pre) (hmid : AllSpace mid) (hpost : AllSpace post)
    (hds : AllDigit ds) (hne : ds ≠ []) (hu : unitFactor (u.map lower) = some f)
    (hfit : digitsVal ds * f < 18446744073709551616) :
    stringToBpsR (pre ++ ds ++ mid ++ u ++ post) = .ok (digitsVal ds * f / 8) := by
  have hf := (unitFactor_some hu).2.2.2
  have hv : digitsVal ds ≤ U64Max := by
    have := Nat.le_mul_of_pos_right (digitsVal ds) hf
    simp only [U64Max]; omega
  unfold stringToBpsR
  rw [stringToBpsWith_grammar _ hpre hmid hpost hds hne hu, if_pos hv, Nat.mod_eq_of_lt hfit]

/-- the hypotheses of `stringToBps_spec` are met by "100 mbps" -/
example : AllSpace [32] ∧ AllDigit [49, 48, 48] ∧ unitFactor ((runesOf "MBps").map lower) = some 1000000 ∧
    digitsVal [49, 48, 48] * 1000000 < 18446744073709551616 := by
  refine ⟨by simp [AllSpace, isSpace], by simp [AllDigit, isDigit], by decide, by decide⟩

/-- a Go string is decoded to runes first; for ASCII bytes that is the bytes themselves -/
theorem stringToBps_ascii (s : Bytes) (h : ∀ b ∈ s, b.val < 128) :
    stringToBps s = stringToBpsR (s.map (·.val)) := by
  unfold stringToBps; rw [decode_ascii s h]

example : stringToBps (ascii "100 mbps") = .ok 12500000 := by decide
example : stringToBps (ascii "1g") = .ok 125000000 := by decide
/-- letter case carries no meaning: "MBps" is megaBITS -/
example : stringToBps (ascii " 10 MBps ") = .ok 1250000 := by decide
/-- a plain number has no unit: refused (the app never passes a Go `int` to ConvBandwidth) -/
example : stringToBps (ascii "65536") = .errFormat ∧ stringToBps (ascii "") = .errFormat ∧
    stringToBps (ascii "mbps") = .errFormat ∧ stringToBps (ascii "5.4 mbps") = .errUnit ∧
    stringToBps (ascii "1 mbit") = .errUnit ∧ stringToBps (ascii "18446744073709551616 bps") = .errRange ∧
    stringToBps (ascii "18446744073709551616 xyz") = .errRange ∧ stringToBps (ascii "18446744073709551615 xyz") = .errUnit := by
  decide
/-- fewer than 8 bit/s is 0 bytes/s, i.e. "no limit" -/
example : stringToBps (ascii "7 bps") = .ok 0 ∧ stringToBps (ascii "524288 bps") = .ok 65536 := by decide

/-- every accepted value fits uint64 (so it is what travels in Hysteria-CC-RX unchanged) -/
theorem stringToBps_fits (s : Bytes) (n : Nat) (h : stringToBps s = .ok n) : n ≤ U64Max :=
  stringToBpsR_ok_le h

/-- Observation (noticed, not claimed by C10): `v * unit` is a uint64 product, so an absurdly
    large configured value is accepted as a smaller one — even as 0 = "no limit" — while the
    largest values that fit are exact. -/
theorem stringToBps_wraps_counterexample :
    stringToBps (ascii "4503599627370496 tbps") = .ok 0 ∧
    stringToBps (ascii "18446744073709552 kbps") = .ok 48 ∧
    stringToBps (ascii "20000000 tbps") = .ok 194156990786306048 ∧
    stringToBps (ascii "18446744073709551 kbps") = .ok 2305843009213693875 ∧
    stringToBps (ascii "18446744 tbps") = .ok 2305843000000000000 := by decide

/-- `ConvBandwidth(int)`: two's complement — unreachable from a configuration file, whose
    bandwidth fields are strings -/
example : convBandwidth (.int (-1)) = .ok U64Max ∧ convBandwidth (.int 12500000) = .ok 12500000 := by decide

/-- what one `bandwidth.up` / `bandwidth.down` string contributes: absent = 0 -/
def limitOf (s : Bytes) : Option Nat :=
  if s = [] then some 0 else match stringToBps s with | .ok n => some n | _ => none

theorem limitOf_fits {s : Bytes} {n : Nat} (h : limitOf s = some n) : n ≤ U64Max := by
  unfold limitOf at h
  split at h
  · cases h; exact Nat.zero_le _
  · split at h
    · rename_i hok; cases h; exact stringToBps_fits s _ hok
    · cases h

/-- The limits that enter `serverTx` / `clientTx` are exactly the parsed configuration. The
    server refuses a non-zero limit below 65536 at configuration time; the client does not. -/
theorem config_to_limits (c : AppBw) (tx rx : Nat) :
    (clientConfig c = .ok tx rx ↔ (limitOf c.up = some tx ∧ limitOf c.down = some rx)) ∧
    (serverConfig c = .ok tx rx ↔
      (limitOf c.up = some tx ∧ limitOf c.down = some rx ∧
        (tx = 0 ∨ 65536 ≤ tx) ∧ (rx = 0 ∨ 65536 ≤ rx))) := by
  have hfill : fillBandwidth stringToBps c =
      match limitOf c.up, limitOf c.down with
      | none, _ => .errUp
      | some _, none => .errDown
      | some a, some b => .ok a b := by
    unfold fillBandwidth limitOf
    cases hu : (if c.up = [] then some 0 else match stringToBps c.up with | .ok n => some n | _ => none) <;>
      cases hd : (if c.down = [] then some 0 else match stringToBps c.down with | .ok n => some n | _ => none) <;>
      simp only [hu, hd]
  have hok : ∀ v, serverLimitOK v = true ↔ (v = 0 ∨ 65536 ≤ v) := by
    intro v; simp [serverLimitOK]
  constructor
  · unfold clientConfig
    rw [hfill]
    cases limitOf c.up <;> cases limitOf c.down <;> simp
  · unfold serverConfig
    rw [hfill]
    cases limitOf c.up with
    | none => simp
    | some a =>
      cases limitOf c.down with
      | none => simp
      | some b =>
        simp only [Option.some.injEq]
        by_cases h1 : serverLimitOK a = true
        · by_cases h2 : serverLimitOK b = true
          · have := (hok a).mp h1; have := (hok b).mp h2
            simp only [h1, h2, Bool.not_true, Bool.false_eq_true, if_false, CfgRes.ok.injEq]
            constructor
            · rintro ⟨rfl, rfl⟩; exact ⟨rfl, rfl, by assumption, by assumption⟩
            · rintro ⟨rfl, rfl, _, _⟩; exact ⟨rfl, rfl⟩
          · have hn := fun h => h2 ((hok b).mpr h)
            simp only [h1, h2, Bool.not_true, Bool.false_eq_true, if_false, Bool.not_false, if_true, reduceCtorEq, false_iff]
            rintro ⟨_, rfl, _, h⟩; exact hn h
        · have hn := fun h => h1 ((hok a).mpr h)
          simp only [h1, Bool.not_false, if_true, reduceCtorEq, false_iff]
          rintro ⟨rfl, _, h, _⟩; exact hn h

example : clientConfig { up := ascii "1 kbps", down := [] } = .ok 125 0 := by decide
example : serverConfig { up := ascii "1 kbps", down := [] } = .errCoreTx := by decide
example : serverConfig { up := ascii "524287 bps", down := [] } = .errCoreTx ∧
    serverConfig { up := ascii "524288 bps", down := ascii "100 Mbps" } = .ok 65536 12500000 ∧
    serverConfig { up := [], down := ascii "  " } = .errDown := by decide

/-- End to end: with both configuration files accepted, whatever `ignoreClientBandwidth`
    says, a side that ends up on a fixed rate sends no faster than its own configured limit
    (when it has one) and no faster than the limit the peer configured for receiving — the
    limits being the numbers the program read from the two files (`limitOf`), which are exactly
    digits × unit / 8 of the strings whenever digits × unit < 2^64 (`stringToBps_spec`). -/
theorem configured_rate_never_exceeded (cc sc : AppBw) (ign : Bool) (cUp cDown sUp sDown : Nat)
    (hc : clientConfig cc = .ok cUp cDown) (hs : serverConfig sc = .ok sUp sDown) :
    let h := handshake cUp cDown sUp sDown ign
    limitOf cc.up = some cUp ∧ limitOf cc.down = some cDown ∧
    limitOf sc.up = some sUp ∧ limitOf sc.down = some sDown ∧
    (sUp = 0 ∨ 65536 ≤ sUp) ∧ (sDown = 0 ∨ 65536 ≤ sDown) ∧
    (∀ r, h.server.ctl = .brutal r → 0 < r ∧ r ≤ cDown ∧ (sUp ≠ 0 → r ≤ sUp)) ∧
    (∀ r, h.client.ctl = .brutal r → 0 < r ∧ r ≤ cUp ∧ (sDown ≠ 0 → r ≤ sDown)) := by
  intro h
  obtain ⟨c1, c2⟩ := (config_to_limits cc cUp cDown).1.mp hc
  obtain ⟨s1, s2, s3, s4⟩ := (config_to_limits sc sUp sDown).2.mp hs
  have hp := both_sides_agree_with_PROTOCOL cUp cDown sUp sDown ign (limitOf_fits c2) (limitOf_fits s2)
  refine ⟨c1, c2, s1, s2, s3, s4, ?_, ?_⟩
  · intro r hr
    have h5 := hp.2.2.2.2.1 r hr
    have hr' : (serverTx cDown sUp ign).ctl = .brutal r := by rw [← hp.2.1]; exact hr
    exact ⟨(brutal_le_both_server cDown sUp r ign hr').2.2.1, h5.1, h5.2⟩
  · intro r hr
    have h5 := hp.2.2.2.2.2.2.2.1 r hr
    have hr' : (clientTx { rx := if ign then 0 else sDown, rxAuto := ign } cUp).ctl = .brutal r := by
      rw [← hp.2.2.1]; exact hr
    exact ⟨(brutal_le_both_client _ cUp r hr').2.2.1, h5.1, h5.2⟩

example : clientConfig { up := ascii "100 mbps", down := ascii "1 gbps" } = .ok 12500000 125000000 ∧
    serverConfig { up := ascii "500 mbps", down := [] } = .ok 62500000 0 := by decide

end Hy.Props.C10
