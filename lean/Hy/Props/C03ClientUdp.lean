/-
  C03, "replies arriving at a client": the client's UDP session manager (Hy.Model.ClientUdp) never
  panics, for every sequence of NewUDP / feed / receive / Close / receive-loop-exit operations.
  The only fault site is the channel send in `feed` (send on a closed channel); it is excluded by the
  invariant "every session still in the table has an open channel", which holds because `close`
  closes the channel and removes the entry in ONE critical section, and `feed` looks the session up and
  sends within ONE (read-locked) critical section — the latter is the regenerated source fact checked at
  the end of this file.
-/
import Hy.Model.ClientUdp
import Hy.Gen.Core
namespace Hy.Props.C03ClientUdp
open Hy Hy.ClientUdp

theorem inv_init (n : Nat) : Inv (init n) := by
  intro c hc; simp [init] at hc

theorem closeConn_keeps (c : Conn) (h : c.inMap = true → c.chanOpen = true) :
    (closeConn c).inMap = true → (closeConn c).chanOpen = true := by
  unfold closeConn; split
  · exact h
  · simp

theorem step_inv (s : St) (op : Op) (h : Inv s) : Inv (step s op).1 := by
  cases op with
  | new =>
    simp only [step]; split
    · exact h
    · intro c hc; simp only [List.mem_append, List.mem_singleton] at hc
      rcases hc with hc | hc
      · exact h c hc
      · subst hc; simp
  | feed id =>
    simp only [step]; split
    · exact h
    · split
      · exact h
      · split
        · intro c hc; simp only [List.mem_map] at hc
          obtain ⟨d, hd, rfl⟩ := hc
          split
          · exact h d hd
          · exact h d hd
        · exact h
  | recv id =>
    simp only [step]; split
    · exact h
    · split
      · intro c hc; simp only [List.mem_map] at hc
        obtain ⟨d, hd, rfl⟩ := hc
        split
        · exact h d hd
        · exact h d hd
      · split <;> exact h
  | close id =>
    simp only [step]; split
    · exact h
    · intro c hc; simp only [List.mem_map] at hc
      obtain ⟨d, hd, rfl⟩ := hc
      split
      · exact closeConn_keeps d (h d hd)
      · exact h d hd
  | closeAll =>
    simp only [step]
    intro c hc; simp only [List.mem_map] at hc
    obtain ⟨d, hd, rfl⟩ := hc
    split
    · exact closeConn_keeps d (h d hd)
    · exact h d hd
  | race n =>
    simp only [step]; split
    · exact h
    · exact h

/-- a reply for any session id, in any state reachable so far, does not panic -/
theorem step_no_panic (s : St) (op : Op) (h : Inv s) : (step s op).2 ≠ .panic := by
  cases op with
  | feed id =>
    simp only [step]
    cases hl : lookup s id with
    | none => simp
    | some c =>
      have hm := List.find?_some hl
      have hin := List.mem_of_find?_eq_some hl
      simp only [Bool.and_eq_true] at hm
      have := h c hin hm.1
      simp [this]; split <;> simp
  | new => simp only [step]; split <;> simp
  | recv id =>
    simp only [step]; split
    · simp
    · split
      · simp
      · split <;> simp
  | close id => simp only [step]; split <;> simp
  | closeAll => simp [step]
  | race n => simp only [step]; split <;> simp

/-- C03 (client receive side): for EVERY operation sequence, no operation panics. -/
theorem run_no_panic (s : St) (ops : List Op) (h : Inv s) : Out.panic ∉ (run s ops).2 := by
  induction ops generalizing s with
  | nil => simp [run]
  | cons o os ih =>
    simp only [run, List.mem_cons, not_or]
    exact ⟨fun e => step_no_panic s o h e.symm, ih _ (step_inv s o h)⟩

theorem client_udp_never_panics (n : Nat) (ops : List Op) : Out.panic ∉ (run (init n) ops).2 :=
  run_no_panic _ ops (inv_init n)

/-- the fault site is real: in a state that violates the invariant (the session was closed but is still
    in the table — what an unlocked `feed` can observe) the model's feed does panic -/
example : (step { chanSize := 4, conns := [{ id := 1, queued := 0, inMap := true, chanOpen := false, closedFlag := true }],
                  nextID := 2, closed := false } (.feed 1)).2 = .panic := by decide

/-- non-vacuity: a run that creates, feeds, closes and feeds again -/
example : (run (init 2) [.new, .feed 1, .feed 1, .feed 1, .recv 1, .close 1, .feed 1, .close 1, .closeAll, .new]).2
    = [.newId 1, .deliver, .deliver, .drop, .msg, .ok, .unknown, .ok, .ok, .mgrClosed] := by decide

/-! Source facts regenerated from core/client/udp.go (go/ast), decided here. -/

/-- in `feed`, the map lookup and the channel send happen inside one RLock region that ends only when the
    function returns (deferred RUnlock) or after the send -/
theorem feed_send_inside_lock : Hy.Gen.c03_cudp_parsed = 1 ∧ Hy.Gen.c03_feed_send_locked = 1 := by decide
/-- `close` (closes the channel, deletes the entry) is called only from functions that hold the write lock -/
theorem close_callers_hold_lock : Hy.Gen.c03_close_callers_locked = 1 := by decide
/-- the channel capacity the model is run with is the source's -/
theorem chan_size : Hy.Gen.c03_udpMessageChanSize = 1024 := by decide

end Hy.Props.C03ClientUdp
