/-
  C15 — Traffic stats API conserves bytes; kick and online counts are exact.
  Property theorems only; helper lemmas live in Hy.Proofs.Stats.

  Model: Hy.Model.Stats — `trafficStatsServerImpl` of extras/trafficlogger/http.go (LogTraffic,
  LogOnlineState, ServeHTTP → getTraffic / kick / getOnline) and, in `Hy.Stats.Server`, the
  life cycle of one QUIC connection in core/server/server.go as far as it produces
  online/offline notifications.  A history is the list of critical sections in the order the
  mutex admitted them, so every theorem below that says `∀ ops` / `∀ sched` holds for every
  interleaving of concurrent reporters, pollers (with and without clear), kickers and
  connections.  Scope note (DESIGN §7, D11): that a refused report *disconnects* the client is
  the relay's job and belongs to C06; here "refused" is the return value `false`.
-/
import Hy.Proofs.Stats
import Hy.Gen.Extras
set_option linter.unusedSimpArgs false
set_option linter.unusedSectionVars false
namespace Hy.Props.C15
open Hy Hy.Stats Hy.Stats.Server

/-! ### obligations on facts regenerated from the current source (go/ast over http.go)

"Each modelled operation is one critical section" is what makes a history a LIST. -/
/-- LogTraffic: `Lock(); defer Unlock()` first, no other lock operation: kick test, kick
    consumption and counter update are one region -/
theorem gen_logTraffic_one_region : Gen.c15_logtraffic_one_region = 1 := by decide
/-- getTraffic, clear branch: the Marshal of StatsMap and its replacement by an empty map sit
    between one `Lock()` and the next `Unlock()`, no unlock in between -/
theorem gen_getTraffic_clear_one_region : Gen.c15_gettraffic_clear_one_region = 1 := by decide
/-- getTraffic, plain branch: the Marshal sits inside one RLock…RUnlock -/
theorem gen_getTraffic_read_locked : Gen.c15_gettraffic_read_locked = 1 := by decide
/-- kick: every write to KickMap (the whole loop) is inside one Lock…Unlock -/
theorem gen_kick_one_region : Gen.c15_kick_one_region = 1 := by decide
/-- LogOnlineState: `Lock(); defer Unlock()` first, no other lock operation -/
theorem gen_logOnline_one_region : Gen.c15_logonline_one_region = 1 := by decide
/-- getOnline: `RLock(); defer RUnlock()` first, no other lock operation -/
theorem gen_getOnline_one_region : Gen.c15_getonline_one_region = 1 := by decide
/-- every access to StatsMap / KickMap / OnlineMap in a method is made with the mutex held, and
    every write with the write lock -/
theorem gen_maps_only_under_lock : Gen.c15_map_access_unlocked = 0 ∧ Gen.c15_map_write_not_wlocked = 0 := by decide
/-- the routes (in the order ServeHTTP tests them), the query parameter and the header the model hard-codes -/
theorem gen_routes : Gen.c15_routes = "GET /;GET /traffic;POST /kick;GET /online;GET /dump/streams" ∧
    Gen.c15_clear_param = "clear" ∧ Gen.c15_auth_header = "Authorization" := by decide

section
variable {Id : Type} [DecidableEq Id]

/-! ### the HTTP front adds nothing: a request is one atomic operation or none -/

theorem http_is_atomic_op (secret : String) (s : St Id) (r : Req Id) :
    (serve secret s r).1 = match reqOp secret r with
      | none => s
      | some o => (step s o).1 := by
  unfold serve reqOp
  split
  · rfl
  · split
    · rfl
    · split
      · rfl
      · split
        · cases r.body <;> rfl
        · split
          · rfl
          · split <;> rfl

/-- with a secret configured, a request without it changes nothing and learns nothing -/
theorem unauthorized_no_effect (secret : String) (s : St Id) (r : Req Id)
    (hs : secret ≠ "") (ha : r.authz ≠ secret) : serve secret s r = (s, .unauthorized) := by
  simp [serve, hs, ha]

example : ("s3cret" : String) ≠ "" ∧ ("" : String) ≠ "s3cret" := by decide

/-- what `GET /traffic[?clear=…]` answers is the map itself; it clears exactly when `clear`
    parses as true -/
theorem http_traffic_reply (secret : String) (s : St Id) (r : Req Id)
    (hs : secret = "" ∨ r.authz = secret) (hm : r.method = "GET") (hp : r.path = "/traffic") :
    serve secret s r = ((getTraffic s (parseBoolTrue r.clear)).1, .traffic s.stats) := by
  have h1 : ¬ (secret ≠ "" ∧ r.authz ≠ secret) := by
    rcases hs with h | h <;> simp [h]
  simp [serve, h1, hm, hp, getTraffic]

example : parseBoolTrue "1" = true ∧ parseBoolTrue "true" = true ∧ parseBoolTrue "yes" = false
    ∧ parseBoolTrue "" = false ∧ parseBoolTrue "0" = false := by decide

/-! ### conservation -/

/-- For every history and every id: Σ of the snapshots taken with clear + the final snapshot
    = Σ of the reports that returned true, up to whole multiples of 2^64 (the counters are
    uint64 and wrap) — for tx and for rx. -/
theorem conservation_wrap (ops : List (Op Id)) (id : Id) :
    (∃ k, (cleared id (trace init ops)).tx + (shown (run init ops).stats id).tx + W * k
        = (allowed id (trace init ops)).tx) ∧
    (∃ k, (cleared id (trace init ops)).rx + (shown (run init ops).stats id).rx + W * k
        = (allowed id (trace init ops)).rx) := by
  have h := conservation_from id ops (init : St Id)
  simpa [shown, init] using h

/-- … and exactly, as long as the user's allowed total fits a uint64. -/
theorem conservation (ops : List (Op Id)) (id : Id) :
    ((allowed id (trace init ops)).tx < W →
      (cleared id (trace init ops)).tx + (shown (run init ops).stats id).tx
        = (allowed id (trace init ops)).tx) ∧
    ((allowed id (trace init ops)).rx < W →
      (cleared id (trace init ops)).rx + (shown (run init ops).stats id).rx
        = (allowed id (trace init ops)).rx) := by
  obtain ⟨⟨k1, h1⟩, ⟨k2, h2⟩⟩ := conservation_wrap ops id
  constructor
  · intro hlt
    have : k1 = 0 := by
      cases k1 with
      | zero => rfl
      | succ k => rw [Nat.mul_succ] at h1; omega
    subst this; omega
  · intro hlt
    have : k2 = 0 := by
      cases k2 with
      | zero => rfl
      | succ k => rw [Nat.mul_succ] at h2; omega
    subst this; omega

/-- non-vacuity: a history with a refusal, a clearing and a plain snapshot, below 2^64 -/
example :
    let ops : List (Op String) := [.log "a" 5 7, .kick ["a"], .log "a" 100 100, .getTraffic true,
      .log "a" 1 2, .getTraffic false, .log "b" 9 9]
    (allowed "a" (trace init ops)).tx = 6 ∧ (allowed "a" (trace init ops)).tx < W ∧
    (cleared "a" (trace init ops)).tx = 5 ∧ (shown (run init ops).stats "a").tx = 1 ∧
    refusals "a" (trace init ops) = 1 := by decide

/-- the wrap is real: two accepted reports of 2^63 leave 0 on the counter -/
example : (shown (run init [Op.log "a" 9223372036854775808 0, .log "a" 9223372036854775808 0]).stats "a").tx = 0 := by
  decide

/-- A snapshot — clearing or not — taken after any history shows, per id, the allowed bytes so
    far minus what earlier clearing snapshots already showed; the reply IS the map at that
    moment; and a non-clearing snapshot changes nothing. -/
theorem nonclear_snapshot_is_prefix_sum (pre : List (Op Id)) (c : Bool) (id : Id) :
    (step (run init pre) (.getTraffic c)).2 = .traffic (run init pre).stats ∧
    (∃ k, (cleared id (trace init pre)).tx + (shown (run init pre).stats id).tx + W * k
        = (allowed id (trace init pre)).tx) ∧
    (∃ k, (cleared id (trace init pre)).rx + (shown (run init pre).stats id).rx + W * k
        = (allowed id (trace init pre)).rx) ∧
    (c = false → (step (run init pre) (.getTraffic c)).1 = run init pre) ∧
    (c = true → ∀ j, (step (run init pre) (.getTraffic c)).1.stats j = none) := by
  refine ⟨rfl, (conservation_wrap pre id).1, (conservation_wrap pre id).2, ?_, ?_⟩
  · intro h; subst h; rfl
  · intro h j; subst h; rfl

/-! ### kick -/

/-- A report of `id` is refused exactly when a kick naming `id` is outstanding, i.e. when the
    last kick-relevant operation before it was a kick of `id` and not a report of `id`
    (`pendingAfter` looks at the operations only).  So after kick(id) the NEXT report of `id`
    returns false, and the following ones return true until it is kicked again. -/
theorem kick_exactly_once (pre : List (Op Id)) (id : Id) (tx rx : Nat) :
    (step (run init pre) (.log id tx rx)).2 = .accepted (!pendingAfter id pre) := by
  have h := run_kick id pre (init : St Id)
  simp only [step, logTraffic_ret, pendingAfter_eq]
  rw [h]; rfl

/-- spelled out: kick, then anything that neither reports nor kicks `id`: outstanding -/
theorem kick_stays_until_report (pre mid : List (Op Id)) (ids : List Id) (id : Id) (h : id ∈ ids)
    (hm : ∀ o ∈ mid, ∀ tx rx, o ≠ .log id tx rx) :
    pendingAfter id (pre ++ .kick ids :: mid) = true := by
  rw [pendingAfter_eq, List.foldl_append, List.foldl_cons]
  have hk : pendStep id (pre.foldl (pendStep id) false) (.kick ids) = true := by simp [pendStep, h]
  rw [hk]
  clear hk
  induction mid with
  | nil => rfl
  | cons o os ih =>
    have ho : pendStep id true o = true := by
      cases o with
      | log i tx rx =>
        have : i ≠ id := fun e => hm _ (List.mem_cons_self) tx rx (by rw [e])
        simp [pendStep, this]
      | kick l => simp only [pendStep]; split <;> rfl
      | getTraffic c => rfl
      | online i on => rfl
      | getOnline => rfl
    rw [List.foldl_cons, ho]
    exact ih (fun o h => hm o (List.mem_cons_of_mem _ h))

/-- spelled out: a report of `id`, then anything that does not kick `id`: nothing outstanding
    (so every further report of `id` is accepted) -/
theorem report_consumes_kick (pre mid : List (Op Id)) (id : Id) (tx rx : Nat)
    (hm : ∀ o ∈ mid, ∀ ids, o = .kick ids → id ∉ ids) :
    pendingAfter id (pre ++ .log id tx rx :: mid) = false := by
  rw [pendingAfter_eq, List.foldl_append, List.foldl_cons]
  have hk : pendStep id (pre.foldl (pendStep id) false) (.log id tx rx) = false := by simp [pendStep]
  rw [hk]
  clear hk
  induction mid with
  | nil => rfl
  | cons o os ih =>
    have ho : pendStep id false o = false := by
      cases o with
      | log i tx rx => simp only [pendStep]; split <;> rfl
      | kick l =>
        have := hm _ (List.mem_cons_self) l rfl
        simp [pendStep, this]
      | getTraffic c => rfl
      | online i on => rfl
      | getOnline => rfl
    rw [List.foldl_cons, ho]
    exact ih (fun o h => hm o (List.mem_cons_of_mem _ h))

example : (∀ o ∈ ([.log "b" 1 1, .getTraffic true] : List (Op String)), ∀ tx rx, o ≠ .log "a" tx rx) ∧
    pendingAfter "a" ([.log "a" 1 1] ++ .kick ["b", "a"] :: [.log "b" 1 1, .getTraffic true]) = true := by
  refine ⟨?_, by decide⟩
  intro o ho tx rx
  simp at ho
  rcases ho with rfl | rfl <;> simp

/-- counting form: refused reports + (1 if a kick is still outstanding) = kicks that were not
    absorbed by an already outstanding kick ≤ kick requests naming the id (≥ 1 if there was
    one); with no kick issued while another is outstanding, every kick refuses exactly one
    report. -/
theorem kick_count_exact (ops : List (Op Id)) (id : Id) :
    refusals id (trace init ops) + (if pendingAfter id ops then 1 else 0) = (effectiveKicks id ops).1 ∧
    (effectiveKicks id ops).1 ≤ kickCount id ops ∧
    (1 ≤ kickCount id ops → 1 ≤ (effectiveKicks id ops).1) ∧
    (SoloKicks id ops → (effectiveKicks id ops).1 = kickCount id ops) := by
  have h1 := kick_account_from id ops (init : St Id) 0
  have h2 := run_kick id ops (init : St Id)
  have h3 := eff_bounds id ops (0, false)
  refine ⟨?_, ?_, ?_, ?_⟩
  · rw [h2] at h1
    simp only [init, b2n_false, Nat.add_zero] at h1
    rw [effectiveKicks_eq, pendingAfter_eq, ← h1]; rfl
  · rw [effectiveKicks_eq]; simpa using h3.1
  · intro h; rw [effectiveKicks_eq]; have := h3.2 h; simpa using this
  · intro hs; rw [effectiveKicks_eq]
    have := eff_solo id ops (0, false) (fun pre ids post he hin => by
      have := hs pre ids post he hin
      rwa [pendingAfter_eq] at this)
    simpa using this

/-! #### "refused ⇒ disconnected": where the code does it

The theorems here are about the stats server: `LogTraffic` returning `false` exactly once per
kick.  That the refusal also ends the client's QUIC connection (so that `finish` follows and
`server_online_census` takes the user off the list) is done by the CALLERS in core/server, at
every place a report is made:
* TCP relay, both directions: `copyTwoWayEx` → `copyBufferLog` turns `false` into
  `errDisconnect`; the logger it is given is `&tcpTrafficLogger{…}`, whose `LogTraffic` calls
  `Conn.CloseWithError` itself when the inner logger refuses (D11: copy.go only returns the
  first direction's result);
* UDP upstream (client → remote): `udpIOImpl.ReceiveMessage` — `CloseWithError`, then
  `errDisconnect` (which alone only stops the session manager: `go sm.Run()` drops it);
* UDP downstream (remote → client): `udpIOImpl.SendMessage` — the same.
The table below is recomputed from core/server's AST on every run; the loopback scenarios
`kickudpup / kickudpdown / kicktcpup / kicktcpdown` exercise each site. -/
theorem gen_refusal_closes_connection :
    Gen.c15_refusal_sites = "copyTwoWayEx:returns-l;copyTwoWayEx:returns-l;tcpTrafficLogger.LogTraffic:closes;udpIOImpl.ReceiveMessage:closes;udpIOImpl.SendMessage:closes" ∧
    Gen.c15_copytwoway_loggers = "handleTCPRequest:tcpTrafficLogger" := ⟨rfl, rfl⟩

/-- a refused report is not counted, touches nothing but the kick entry, and consumes it -/
theorem refused_not_counted (s : St Id) (id : Id) (tx rx : Nat)
    (h : (logTraffic s id tx rx).2 = false) :
    (logTraffic s id tx rx).1.stats = s.stats ∧ (logTraffic s id tx rx).1.online = s.online ∧
    s.kick id = true ∧ (logTraffic s id tx rx).1.kick id = false ∧
    (∀ j, j ≠ id → (logTraffic s id tx rx).1.kick j = s.kick j) := by
  have hk : s.kick id = true := by
    rw [logTraffic_ret] at h; simpa using h
  rw [logTraffic_refused s id tx rx hk]
  exact ⟨rfl, rfl, hk, by simp, fun j hj => by simp [upd_other _ _ _ _ hj]⟩

example : (logTraffic (kickIds (init : St String) ["a"]) "a" 10 20).2 = false := by decide

/-- … and an accepted one adds exactly (tx, rx) mod 2^64 to that id and nothing else -/
theorem accepted_counted (s : St Id) (id : Id) (tx rx : Nat)
    (h : (logTraffic s id tx rx).2 = true) :
    shown (logTraffic s id tx rx).1.stats id
      = ⟨((shown s.stats id).tx + tx) % W, ((shown s.stats id).rx + rx) % W⟩ ∧
    (∀ j, j ≠ id → (logTraffic s id tx rx).1.stats j = s.stats j) ∧
    (logTraffic s id tx rx).1.kick = s.kick := by
  have hk : s.kick id = false := by
    rw [logTraffic_ret] at h; simpa using h
  rw [logTraffic_accepted s id tx rx hk]
  exact ⟨by simp [shown], fun j hj => by simp [upd_other _ _ _ _ hj], rfl⟩

example : (logTraffic (init : St String) "a" 10 20).2 = true := by decide

/-! ### online census -/

/-- an entry of the online map is never zero or negative, whatever the notifications were
    (offline without online included) -/
theorem online_never_nonpositive (ops : List (Op Id)) (id : Id) (v : Int)
    (h : (run init ops).online id = some v) : 1 ≤ v := by
  have := run_online id ops (init : St Id) 0 (by simp [init, ofCount])
  rw [this] at h
  unfold ofCount at h
  split at h
  · cases h
  · cases h; omega

example : (run init [Op.online "a" true, .online "a" true, .online "a" false]).online "a" = some 1 := by
  decide

/-- for ANY notification sequence the entry is the floored running count -/
theorem online_is_floored_balance (ops : List (Op Id)) (id : Id) :
    (run init ops).online id = ofCount (balance id ops) := by
  rw [balance_eq]
  exact run_online id ops (init : St Id) 0 (by simp [init, ofCount])

/-- when every offline follows its own online (which `server_pairs_notifications` provides),
    the entry is #online − #offline when that is positive and absent otherwise -/
theorem online_census (ops : List (Op Id)) (id : Id) (hp : WellPaired id ops) :
    offCount id ops ≤ onCount id ops ∧
    (run init ops).online id = ofCount (onCount id ops - offCount id ops) := by
  have hb := balance_paired id ops 0 (fun pre h => by simpa using hp pre h)
  rw [online_is_floored_balance, balance_eq]
  constructor
  · omega
  · congr 1; omega

example : WellPaired "a" [Op.online "a" true, .log "a" 1 1, .online "a" false] := by
  apply wellPaired_of_takes
  decide

/-- without the pairing the plain difference would be wrong (offline first): the floor matters -/
example : (run init [Op.online "a" false, .online "a" true]).online "a" = some 1 ∧
    onCount "a" [Op.online "a" false, .online "a" true] - offCount "a" [Op.online "a" false, .online "a" true] = 0 := by
  decide

/-- `GET /online` answers the map as it is and changes nothing -/
theorem getOnline_reports_census (pre : List (Op Id)) :
    step (run init pre) .getOnline = (run init pre, .census (run init pre).online) := rfl

/-! ### the server's side: who sends the notifications -/

/-- regenerated from core/server/server.go (go/ast): in `h3sHandler.ServeHTTP` the read of
    `authenticated`, the `Authenticate` call, the assignment `authenticated = true` and the
    `LogOnlineState(…, true)` call all sit inside ONE `authMutex` Lock()…Unlock() region.  This
    is what makes `Act.authReq` (test, verdict, commit, notify) a single atomic step of
    `connStep`: two auth requests in flight on one connection cannot both find it
    unauthenticated. -/
theorem gen_auth_one_region : Gen.c15_auth_one_region = 1 := by decide
/-- … and the package has exactly the two `LogOnlineState` call sites the model has: online in
    `ServeHTTP` (`authReq`), offline in `handleClient` (`finish`). -/
theorem gen_logOnline_call_sites : Gen.c15_logonline_sites = "ServeHTTP:true;handleClient:false" := by decide

/-- For every schedule of `n` connections' steps (auth requests with any verdicts, in any
    number and order; ServeQUICConn returning for any reason; handleClient's tail) interleaved
    with any other use of the stats API: each connection has sent nothing if no auth was
    accepted, exactly `online id` once an auth was accepted (however many more auth requests
    follow), and exactly `online id, offline id` — in that order, same id — once its handler
    has returned. -/
theorem server_pairs_notifications (n : Nat) (sched : List (Label Id)) (cid : Nat) :
    notesOf cid (sysRun n sched).notes = expectedNotes ((sysRun n sched).conns cid) :=
  (sysRun_inv n sched).2 cid

/-- … hence the online listing shows, for each id, exactly the number of connections that are
    authenticated as `id` and whose handler has not finished — absent when that is 0. -/
theorem server_online_census (n : Nat) (sched : List (Label Id)) (id : Id) :
    (sysRun n sched).stats.online id = ofCount (liveCount (sysRun n sched).conns id n) :=
  (sysRun_inv n sched).1 id

example :
    let y := sysRun 3 [Label.conn 0 (.authReq (some "u")), .conn 1 (.authReq none), .conn 1 (.authReq (some "u")),
      .conn 0 (.authReq (some "v")), .conn 2 .serveReturn, .conn 2 (.authReq (some "u")), .conn 2 .finish,
      .conn 0 .serveReturn, .api (.online "u" true), .conn 0 .finish, .conn 0 .finish]
    y.stats.online "u" = some 1 ∧ liveCount y.conns "u" 3 = 1 ∧
    notesOf 0 y.notes = [("u", true), ("u", false)] ∧ notesOf 1 y.notes = [("u", true)] ∧ notesOf 2 y.notes = [] := by
  decide

/-! ### what a concurrent run must satisfy, whatever the interleaving was -/

/-- The order-independent totals the harness collects from a concurrent run (per id and per
    counter) pass `Totals.ok` — this is the predicate `hydrv stats` evaluates on them. -/
theorem concurrent_totals_ok (ops : List (Op Id)) (id : Id) (solo : Bool)
    (hs : solo = true → SoloKicks id ops) :
    (Totals.ok ⟨(allowed id (trace init ops)).tx, (cleared id (trace init ops)).tx,
        (shown (run init ops).stats id).tx, refusals id (trace init ops), kickCount id ops,
        pendingAfter id ops, solo⟩ = true) ∧
    (Totals.ok ⟨(allowed id (trace init ops)).rx, (cleared id (trace init ops)).rx,
        (shown (run init ops).stats id).rx, refusals id (trace init ops), kickCount id ops,
        pendingAfter id ops, solo⟩ = true) := by
  obtain ⟨⟨k1, h1⟩, ⟨k2, h2⟩⟩ := conservation_wrap ops id
  obtain ⟨c1, c2⟩ := conservation ops id
  obtain ⟨e1, e2, e3, e4⟩ := kick_count_exact ops id
  have hs' : solo = true → (effectiveKicks id ops).1 = kickCount id ops := fun h => e4 (hs h)
  constructor
  · simp only [Totals.ok, Bool.and_eq_true, decide_eq_true_eq]
    refine ⟨⟨⟨⟨⟨by omega, ?_⟩, c1⟩, by omega⟩, by omega⟩, fun h => by have := hs' h; omega⟩
    have : (allowed id (trace init ops)).tx
        - ((cleared id (trace init ops)).tx + (shown (run init ops).stats id).tx) = W * k1 := by omega
    rw [this]; exact Nat.mul_mod_right _ _
  · simp only [Totals.ok, Bool.and_eq_true, decide_eq_true_eq]
    refine ⟨⟨⟨⟨⟨by omega, ?_⟩, c2⟩, by omega⟩, by omega⟩, fun h => by have := hs' h; omega⟩
    have : (allowed id (trace init ops)).rx
        - ((cleared id (trace init ops)).rx + (shown (run init ops).stats id).rx) = W * k2 := by omega
    rw [this]; exact Nat.mul_mod_right _ _

end
end Hy.Props.C15
