/-
  C19 — Port hopping stays inside the configured port set and leaks no sockets.
  Property theorems only; helper lemmas live in Hy.Proofs.PortUnion and Hy.Proofs.Hop.

  Models: Hy.Model.PortUnion (extras/utils/portunion.go: ParsePortUnion / Normalize / Ports /
  Contains, on the expression string itself) and Hy.Model.Hop (extras/transport/udphop/conn.go:
  the hopping connection as a labelled transition system; a schedule is ANY list of labels —
  timer-driven hops with successful or failing socket creation, writes, arriving packets and
  read timeouts on any socket, the two halves of ReadFrom with the outcome of Go's `select`
  as an input, deadline/buffer settings, Close).  The hop model is of the code WITH
  fixes/D10.patch (`step`); `stepPinned` is the pinned code and `d10_pinned_counterexample`
  is its failing history.
-/
import Hy.Proofs.PortUnion
import Hy.Proofs.Hop
import Hy.Proofs.HopAddr
import Hy.Gen.TransHop
set_option linter.unusedSimpArgs false
namespace Hy.Props.C19
open Hy Hy.PortUnion Hy.Hop Hy.HopAddr

/-! ### obligations on the regenerated constants -/
theorem const_queue : Gen.udphopPacketQueueSize = 1024 := by decide
theorem const_buffer : Gen.udphopUdpBufferSize = 2048 := by decide
theorem const_default_interval : Gen.udphopDefaultHopIntervalNs = 30 * 1000000000 := by decide

/-! ### obligations on the regenerated lock-region facts (go/ast over conn.go, see
    harness/extras/verifh/c19_facts.go).  They tie the atomic steps of Hy.Model.Hop to the
    source: value = held*100 + region with held 2 = connMutex.Lock, 1 = RLock; 1000 = no lock.
    A "lock narrowing" of hop (closed tested, or ListenUDPFunc called, outside the write-locked
    region that swaps the sockets) changes these numbers and the build fails. -/

/-- hop(): the `closed` test, the ListenUDPFunc() call, prevConn.Close() and the assignments
    of prevConn/currentConn are all inside the SAME write-locked region — the only lock region
    of the function (one Lock + one deferred Unlock, none nested). -/
theorem hop_is_one_write_locked_region :
    Gen.udphopFactsParsed = 1 ∧
    Gen.udphopHopClosedRead = 201 ∧ Gen.udphopHopListen = 201 ∧ Gen.udphopHopSockClose = 201 ∧
    Gen.udphopHopSwap = 201 ∧ Gen.udphopHopLockOps = 2 ∧ Gen.udphopHopLockNested = 0 := by decide

/-- Close(): the double-close test, `closed = true`, closing both sockets and close(closeChan)
    are inside one write-locked region on the same mutex. -/
theorem close_is_one_write_locked_region :
    Gen.udphopCloseClosedRead = 201 ∧ Gen.udphopCloseClosedWrite = 201 ∧
    Gen.udphopCloseSockClose = 201 ∧ Gen.udphopCloseChanClose = 201 ∧
    Gen.udphopCloseLockOps = 2 ∧ Gen.udphopCloseLockNested = 0 := by decide

/-- WriteTo(): the `closed` test and the write on currentConn are inside one locked region
    (read lock suffices: hop and Close take the write lock). -/
theorem writeTo_is_one_locked_region :
    (Gen.udphopWriteToClosedRead = 101 ∨ Gen.udphopWriteToClosedRead = 201) ∧
    Gen.udphopWriteToSockWrite = Gen.udphopWriteToClosedRead ∧
    Gen.udphopWriteToLockOps = 2 ∧ Gen.udphopWriteToLockNested = 0 := by decide

/-! ## Port expressions -/

/-- `denotes`: whatever `ParsePortUnion` returns for a string contains exactly the union of
    the ports and ranges the string lists — for EVERY way of reading the string as a list of
    items (the reading is unique, but the theorem does not need that), and such a reading
    exists.  `Denotes`/`ItemDen`/`IsPortNum` (Hy.Proofs.PortUnion) are the specification:
    `all`, `*`, or comma-separated items `n` / `a-b` (either order) of decimal numerals
    ≤ 65535 with any number of leading zeros. -/
theorem denotes (cs : List Char) (u : PU) (h : parseChars cs = some u) :
    (∃ L, Denotes cs L) ∧
    ∀ L, Denotes cs L → ∀ p, contains u p = true ↔ InUnion L p := by
  refine ⟨parse_sound h, ?_⟩
  intro L hL p
  obtain ⟨u', hu', _, _, hc⟩ := parse_complete hL
  rw [h] at hu'
  cases hu'
  exact hc p

example : Denotes "1000-2000,80,2001-3000".toList [(1000, 2000), (80, 80), (2001, 3000)] := by
  refine Or.inr ⟨["1000-2000".toList, "80".toList, "2001-3000".toList], by simp, by decide, ?_⟩
  refine .cons (Or.inr ⟨"1000".toList, "2000".toList, 1000, 2000, by decide, ?_, ?_, by decide, by decide⟩)
    (.cons (Or.inl ⟨?_, rfl⟩)
      (.cons (Or.inr ⟨"2001".toList, "3000".toList, 2001, 3000, by decide, ?_, ?_, by decide, by decide⟩) .nil))
  all_goals exact ⟨by decide, by decide, by decide, by decide⟩

example : parse "1000-2000,80,2001-3000" = some [⟨80, 80⟩, ⟨1000, 3000⟩] := by decide
example : parse "65535,3-1,0" = some [⟨0, 3⟩, ⟨65535, 65535⟩] := by decide
example : parse "0000000000000000000000080" = some [⟨80, 80⟩] := by decide

/-- `normal_form`: the result is sorted, its ranges are well formed (Start ≤ End ≤ 65535),
    pairwise disjoint and not even adjacent (`a.End + 1 < b.Start` for a before b), and
    non-empty. -/
theorem normal_form (cs : List Char) (u : PU) (h : parseChars cs = some u) :
    NormalForm u ∧ u ≠ [] := by
  obtain ⟨L, hL⟩ := parse_sound h
  obtain ⟨u', hu', hn, hne, _⟩ := parse_complete hL
  rw [h] at hu'
  cases hu'
  exact ⟨hn, hne⟩

/-- Normalize alone (any list of well-formed ranges, in any order, overlapping, adjacent,
    duplicated): same set, normal form. -/
theorem normalize_spec (u : PU) (h : WF u) :
    NormalForm (normalize u) ∧ ∀ p, contains (normalize u) p = contains u p :=
  ⟨normalize_normalForm h, normalize_contains h⟩

example : WF [⟨5, 9⟩, ⟨1, 4⟩, ⟨65535, 65535⟩, ⟨10, 10⟩] := by
  intro r hr; simp at hr; rcases hr with h | h | h | h <;> subst h <;> simp
example : normalize [⟨5, 9⟩, ⟨1, 4⟩, ⟨65535, 65535⟩, ⟨10, 10⟩] = [⟨1, 10⟩, ⟨65535, 65535⟩] := by decide

/-- `ports_exact`: `Ports()` enumerates exactly the denoted set, in strictly increasing
    order (hence without duplicates), every element is a `uint16` value; in particular
    65535 is enumerated when listed (no wrap of the loop counter). -/
theorem ports_exact (cs : List Char) (u : PU) (h : parseChars cs = some u) :
    (∀ p, p ∈ ports u ↔ contains u p = true) ∧
    List.Pairwise (· < ·) (ports u) ∧ (ports u).Nodup ∧
    (∀ p ∈ ports u, p ≤ 65535) ∧ ports u ≠ [] := by
  obtain ⟨hn, hne⟩ := normal_form cs u h
  have hmem := mem_ports hn.1
  have hsorted := ports_sorted hn
  refine ⟨hmem, hsorted, hsorted.imp (fun h => Nat.ne_of_lt h), ?_, ?_⟩
  · intro p hp
    obtain ⟨r, hr, h1, h2⟩ := (contains_iff u p).mp ((hmem p).mp hp)
    have := (hn.1 r hr).2
    omega
  · cases u with
    | nil => exact absurd rfl hne
    | cons r rest =>
      have hr := hn.1 r (by simp)
      have : r.s ∈ ports (r :: rest) := (hmem r.s).mpr ((contains_iff _ _).mpr ⟨r, by simp, by omega, hr.1⟩)
      intro e; rw [e] at this; cases this

example : ports [⟨65534, 65535⟩, ⟨0, 1⟩] = [65534, 65535, 0, 1] := by decide
example : (parse "65534-65535,0-1").map ports = some [0, 1, 65534, 65535] := by decide

/-- `parse_none_iff`: `ParsePortUnion` returns nil exactly on the strings that are not
    well-formed expressions. -/
theorem parse_none_iff (cs : List Char) : parseChars cs = none ↔ ¬ ∃ L, Denotes cs L := by
  constructor
  · intro h ⟨L, hL⟩
    obtain ⟨u, hu, _⟩ := parse_complete hL
    rw [h] at hu; cases hu
  · intro h
    cases hp : parseChars cs with
    | none => rfl
    | some u => exact absurd (parse_sound hp) h

example : parse "" = none ∧ parse "1,,2" = none ∧ parse "1-2-3" = none ∧ parse "65536" = none ∧
    parse " 80" = none ∧ parse "80-" = none ∧ parse "+80" = none ∧ parse "all,1" = none := by decide

/-! ## The hopping connection -/

/-- states reachable from a fresh connection over the address list `P` with first index
    `idx`, under any schedule whose random draws respect `rand.Intn`'s contract -/
def Reach (P : List Dest) (idx : Nat) (sched : List Label) : St := run (initSt P idx) sched

/-- `writes_in_set`: for an address string that ResolveUDPHopAddr accepted and the address
    list `addrs()` built from it, in every reachable state a `WriteTo` either fails because the
    connection is closed, or goes out on the NEWEST socket (the last one ListenUDPFunc
    returned), which is open, to the destination `(server IP, p)` where the server IP is the
    one the host part resolved to and `p` belongs to the set denoted by the port expression
    after the last colon.  It never panics and never uses a closed socket. -/
theorem writes_in_set (R : List Char → Option IP) (cs : List Char) (a : HopAddr)
    (hres : resolveUDPHopAddr R cs = .ok a)
    (idx : Nat) (hidx : idx < (addrs a).length)
    (sched : List Label) (hs : SchedOK (addrs a).length sched) :
    let s := Reach (addrs a) idx sched
    (step s .write).2 = .writeClosed ∧ s.closed = true ∨
    ∃ p, (step s .write).2 = .wrote s.cur (a.ip, p) ∧ s.cur + 1 = s.mark ∧
      (s.sock s.cur).closed = false ∧
      ∃ host port u, SplitsAs cs host port ∧ R host = some a.ip ∧ parseChars port = some u ∧
        contains u p = true ∧ p ≤ 65535 := by
  intro s
  obtain ⟨host, port, ip, u, hsp, hR, hparse, ha⟩ := (resolve_ok_iff R cs a).mp hres
  have hinv : Inv (addrs a) s := run_inv true (init_inv hidx) sched hs
  have hpe := ports_exact port u hparse
  by_cases hc : s.closed = true
  · left; exact ⟨by simp [step, stepG, write, hc], hc⟩
  · right
    have hc' : s.closed = false := by simpa using hc
    have hlt := hinv.idx_ok hc'
    have hports := hinv.ports_eq hc'
    have hlive := (hinv.live_open hc').1
    have hlt' : s.addrIndex < a.ports.length := by simpa [addrs] using hlt
    have hget : (addrs a)[s.addrIndex] = (a.ip, a.ports[s.addrIndex]) := by simp [addrs]
    have hpeq : ∀ x, x ∈ a.ports → x ∈ ports u := by
      intro x hx; rw [ha] at hx; exact hx
    have hmem : a.ports[s.addrIndex] ∈ ports u := hpeq _ (List.getElem_mem hlt')
    refine ⟨a.ports[s.addrIndex], ?_, hinv.cur_newest, hlive, host, port, u, hsp, ?_, hparse, ?_, ?_⟩
    · simp only [step, stepG, write, hc', Bool.false_eq_true, if_false, hports]
      rw [List.getElem?_eq_getElem hlt, hget]
      simp [hlive]
    · rw [hR, ha]
    · exact (hpe.1 _).mp hmem
    · exact hpe.2.2.2.1 _ hmem

example : SchedOK 3 [.hop true 2, .write, .hop false 0, .recv 0 [1], .close, .hop true 1] := by
  intro l hl; simp at hl; rcases hl with h | h | h | h | h | h <;> subst h <;> simp [LabelOK]

/-- `census`: in every reachable state every open socket is the current or the previous
    one, at most two sockets are open, the current socket is the newest one created; while
    the connection is open the current and the previous socket ARE open; and a failed
    listen changes nothing at all. -/
theorem census (P : List Dest) (idx : Nat) (hidx : idx < P.length)
    (sched : List Label) (hs : SchedOK P.length sched) :
    let s := Reach P idx sched
    (∀ k, k < s.mark → (s.sock k).closed = false → k = s.cur ∨ s.prev = some k) ∧
    openCount s ≤ 2 ∧ s.cur + 1 = s.mark ∧
    (s.closed = false → (s.sock s.cur).closed = false ∧
        ∀ k, s.prev = some k → (s.sock k).closed = false ∧ k < s.cur) ∧
    (∀ i, (step s (.hop false i)).1 = s) := by
  intro s
  have hinv : Inv P s := run_inv true (init_inv hidx) sched hs
  refine ⟨hinv.open_sub, openCount_le_two hinv, hinv.cur_newest, ?_, fun i => hop_fail_same s i⟩
  intro hc
  exact ⟨(hinv.live_open hc).1, fun k hk => ⟨(hinv.live_open hc).2 k hk, hinv.prev_lt k hk⟩⟩

/-- `prev_still_delivers`: while the connection is open, the previous socket stays open
    and attached under every step other than a successful hop or Close; a packet arriving
    on it (or on the current socket) is appended to the receive queue whenever the queue
    has room; a hop never touches the queue; and a parked reader receives exactly the
    oldest queued packet. -/
theorem prev_still_delivers (P : List Dest) (idx : Nat) (hidx : idx < P.length)
    (sched : List Label) (hs : SchedOK P.length sched) :
    let s := Reach P idx sched
    ∀ k, s.closed = false → (s.prev = some k ∨ k = s.cur) →
      -- a packet on `k` is queued (truncated to the 2048-byte receive buffer)
      (∀ d, s.queue.length < 1024 →
        step s (.recv k d) = ({ s with queue := s.queue ++ [.pkt (d.take 2048)] }, .queued)) ∧
      -- and comes out of ReadFrom in arrival order
      (∀ d q pick blen, s.queue = .pkt d :: q → s.atSelect = true →
        (step s (.readSelect pick blen)).2 = .readPkt (d.take blen) ∧
        (step s (.readSelect pick blen)).1.queue = q) ∧
      -- hops keep the queue
      (∀ ok i, (step s (.hop ok i)).1.queue = s.queue) ∧
      -- the previous socket survives everything but the next successful hop and Close
      (∀ l, (∀ i, l ≠ .hop true i) → l ≠ .close → s.prev = some k →
        (step s l).1.prev = some k ∧ ((step s l).1.sock k).closed = false) := by
  intro s k hc hk
  have hinv : Inv P s := run_inv true (init_inv hidx) sched hs
  have hlive := hinv.live_open hc
  have hopen : (s.sock k).closed = false := by
    rcases hk with h | h
    · exact hlive.2 k h
    · subst h; exact hlive.1
  have hmark : k < s.mark := by
    rcases hk with h | h
    · have := hinv.prev_lt k h; have := hinv.cur_newest; omega
    · have := hinv.cur_newest; omega
  refine ⟨?_, ?_, ?_, ?_⟩
  · intro d hq
    simp [step, stepG, recv, live, hmark, hopen, const_queue, const_buffer, hq]
  · intro d q pick blen hqueue hsel
    simp [step, stepG, readSelect, deliver, hsel, hqueue, hc]
  · intro ok i; exact hop_queue s ok i
  · intro l hl1 hl2 hp
    have key : ∀ t : St, SameCensus s t → t.prev = some k ∧ (t.sock k).closed = false := by
      intro t ht
      exact ⟨ht.2.1.trans hp, (ht.2.2.2.2.2.2 k).trans hopen⟩
    cases l with
    | hop ok i =>
      cases ok with
      | true => exact absurd rfl (hl1 i)
      | false =>
        rw [show (step s (.hop false i)).1 = s from hop_fail_same s i]; exact ⟨hp, hopen⟩
    | write => rw [show (step s .write).1 = s from write_same s]; exact ⟨hp, hopen⟩
    | recv k' d => exact key _ (recv_same s k' d)
    | rtimeout k' => exact key _ (rtimeout_same s k')
    | readBegin => exact key _ (readBegin_same true s)
    | readSelect p n => exact key _ (readSelect_same s p n)
    | setDeadline t =>
      exact key _ (setOn_same { s with dl := t, rdl := t, wdl := t } _ (fun _ => rfl))
    | setReadDeadline t => exact key _ (setOn_same { s with dl := 0, rdl := t } _ (fun _ => rfl))
    | setWriteDeadline t => exact key _ (setOn_same { s with dl := 0, wdl := t } _ (fun _ => rfl))
    | setReadBuffer n => exact key _ (setOn_same { s with rbuf := n } _ (fun _ => rfl))
    | setWriteBuffer n => exact key _ (setOn_same { s with wbuf := n } _ (fun _ => rfl))
    | localAddr => exact ⟨hp, hopen⟩
    | close => exact absurd rfl hl2

/-- `close_all`: take any schedule `a`, then Close, then any schedule `b`.  In the final
    state every socket ever created is closed; no socket was created after Close (later
    hops do nothing: a hop step is the identity); writes fail; and — provided no ReadFrom
    was already parked at its select when Close ran — no read in `b` ever returns a packet
    or a queued timeout, and a read that starts fails with ErrClosed (repaired code). -/
theorem close_all (P : List Dest) (idx : Nat) (hidx : idx < P.length)
    (a b : List Label) (ha : SchedOK P.length a) (hb : SchedOK P.length b) :
    let s0 := Reach P idx a
    let t := (step s0 .close).1
    let s := run t b
    s.closed = true ∧
    (∀ k, k < s.mark → (s.sock k).closed = true) ∧
    s.mark = s0.mark ∧
    (∀ ok i, step s (.hop ok i) = (s, .hopClosed)) ∧
    (step s .write).2 = .writeClosed ∧
    (s0.atSelect = false →
      (∀ o ∈ traceG true t b, ∀ d, o ≠ .readPkt d ∧ o ≠ .readTimeout) ∧
      (step s .readBegin).2 = .readErrClosed) := by
  intro s0 t s
  have hinv0 : Inv P s0 := run_inv true (init_inv hidx) a ha
  have hinvt : Inv P t := step_inv true hinv0 .close trivial
  have htc : t.closed = true := close_closed s0
  have hinv : Inv P s := run_inv true hinvt b hb
  have hmono := run_closed_mono true t b htc
  have hsc : s.closed = true := hmono.1
  refine ⟨hsc, hinv.dead_all hsc, hmono.2.trans (close_mark s0),
    fun ok i => hop_closed_same s ok i hsc, by simp [step, stepG, write, hsc], ?_⟩
  intro hsel
  have hq : Quiet t := by
    refine ⟨htc, ?_⟩
    show (close s0).1.atSelect = false
    unfold close; split <;> exact hsel
  refine ⟨trace_quiet t b hq, ?_⟩
  have hqs : Quiet s := run_quiet t b hq
  simp [step, stepG, readBeginG, hqs.1, hqs.2]

/-- D10 on the pinned code (`stepPinned`: ReadFrom goes straight to the select): one packet
    queued, Close returns, and a read issued afterwards returns the packet when the select
    picks the queue.  The same history on the repaired code fails with ErrClosed. -/
theorem d10_pinned_counterexample :
    traceG false (initSt [([], 443)] 0) [.recv 0 [7], .close, .readBegin, .readSelect true 2048]
      = [.queued, .closeOk, .readWaiting, .readPkt [7]] ∧
    traceG true (initSt [([], 443)] 0) [.recv 0 [7], .close, .readBegin, .readSelect true 2048]
      = [.queued, .closeOk, .readErrClosed, .idle] := by
  decide

/-- no step of any schedule panics (index out of range on `Addrs`, `rand.Intn(0)`) -/
theorem no_panic (P : List Dest) (idx : Nat) (hidx : idx < P.length)
    (sched : List Label) (hs : SchedOK P.length sched) (l : Label) :
    (step (Reach P idx sched) l).2 ≠ .panic :=
  step_no_panic true (run_inv true (init_inv hidx) sched hs) l

/-- creation: `NewUDPHopPacketConn` on the address list of a resolved address never panics,
    fails exactly when the interval is invalid or the first listen fails (then no socket
    exists), and otherwise starts in the initial state (one open socket). -/
theorem new_conn (R : List Char → Option IP) (cs : List Char) (a : HopAddr)
    (hres : resolveUDPHopAddr R cs = .ok a)
    (iv : Interval) (listenOk : Bool) (idx : Nat) :
    newConn (addrs a) iv listenOk idx =
      if (normalized iv).isSome ∧ listenOk = true then .ok (initSt (addrs a) idx) else .reject := by
  obtain ⟨host, port, ip, u, _, _, hparse, ha⟩ := (resolve_ok_iff R cs a).mp hres
  have hne := (ports_exact port u hparse).2.2.2.2
  have hne' : (addrs a).isEmpty = false := by
    rw [ha]
    simp only [addrs]
    cases hp : ports u with
    | nil => exact absurd hp hne
    | cons _ _ => rfl
  unfold newConn
  cases hn : normalized iv with
  | none => simp
  | some c =>
    cases listenOk with
    | false => simp
    | true => simp [hne']

/-! ## The hop address (addr.go) -/

/-- `resolve_spec`: ResolveUDPHopAddr accepts an address string exactly when it splits as
    `host:portexpr` / `[host]:portexpr` (net.SplitHostPort: the port starts after the LAST
    colon, brackets only around the host, no other colon), the host resolves, and the port
    expression is well formed; the result then carries the resolved IP, `Ports()` of the
    parsed union (so: exactly the denoted set, strictly increasing), and the expression text.
    Otherwise the error is the first of: split error, resolve error, InvalidPortError. -/
theorem resolve_spec (R : List Char → Option IP) (cs : List Char) :
    (∀ a, resolveUDPHopAddr R cs = .ok a ↔
      ∃ host port ip u, SplitsAs cs host port ∧ R host = some ip ∧ parseChars port = some u ∧
        a = ⟨ip, ports u, port⟩) ∧
    ((∃ a, resolveUDPHopAddr R cs = .ok a) ↔
      ∃ host port, SplitsAs cs host port ∧ (R host).isSome = true ∧ ∃ L, Denotes port L) ∧
    (∀ e, resolveUDPHopAddr R cs = .error (.split e) ↔ splitHostPort cs = .error e) ∧
    (∀ a, resolveUDPHopAddr R cs = .ok a →
      (∀ p, p ∈ a.ports → p ≤ 65535) ∧ a.ports ≠ [] ∧ List.Pairwise (· < ·) a.ports) := by
  refine ⟨resolve_ok_iff R cs, ?_, ?_, ?_⟩
  · constructor
    · rintro ⟨a, ha⟩
      obtain ⟨host, port, ip, u, hs, hr, hu, _⟩ := (resolve_ok_iff R cs a).mp ha
      exact ⟨host, port, hs, by simp [hr], parse_sound hu⟩
    · rintro ⟨host, port, hs, hr, L, hL⟩
      obtain ⟨u, hu, _⟩ := parse_complete hL
      obtain ⟨ip, hip⟩ := Option.isSome_iff_exists.mp hr
      exact ⟨_, (resolve_ok_iff R cs _).mpr ⟨host, port, ip, u, hs, hip, hu, rfl⟩⟩
  · intro e
    unfold resolveUDPHopAddr
    cases hs : splitHostPort cs with
    | error e' => simp
    | ok hp =>
      obtain ⟨host, port⟩ := hp
      simp only
      cases R host with
      | none => simp
      | some ip => cases parseChars port <;> simp
  · intro a ha
    obtain ⟨host, port, ip, u, _, _, hu, haeq⟩ := (resolve_ok_iff R cs a).mp ha
    have hpe := ports_exact port u hu
    rw [haeq]
    exact ⟨hpe.2.2.2.1, hpe.2.2.2.2, hpe.2.1⟩

/-- a resolver that knows one literal -/
def exampleR : List Char → Option IP := fun h => if h = "2001:db8::1".toList then some [byte 0x20, byte 1] else none

example : resolveUDPHopAddr exampleR "[2001:db8::1]:443".toList
    = .ok ⟨[byte 0x20, byte 1], [443], "443".toList⟩ := by rfl
example : resolveUDPHopAddr exampleR "[2001:db8::1]:80,443-445".toList
    = .ok ⟨[byte 0x20, byte 1], [80, 443, 444, 445], "80,443-445".toList⟩ := by rfl
example : resolveUDPHopAddr exampleR "2001:db8::1:443".toList = .error (.split .tooManyColons) ∧
    resolveUDPHopAddr exampleR "[2001:db8::1]".toList = .error (.split .missingPort) ∧
    resolveUDPHopAddr exampleR "[2001:db8::1]:".toList = .error .badPort ∧
    resolveUDPHopAddr exampleR "[2001:db8::1]:80,".toList = .error .badPort ∧
    resolveUDPHopAddr exampleR "[2001:db8::2]:80".toList = .error .resolve :=
  ⟨by rfl, by rfl, by rfl, by rfl, by rfl⟩

/-- `addrs_exact`: `addrs()` is the list `[(ip, p) | p ∈ Ports]` in the same order: one entry
    per port, each with the one resolved IP, the i-th entry carrying the i-th port. -/
theorem addrs_exact (a : HopAddr) :
    addrs a = a.ports.map (fun p => (a.ip, p)) ∧
    (addrs a).length = a.ports.length ∧
    (∀ d, d ∈ addrs a ↔ d.1 = a.ip ∧ d.2 ∈ a.ports) ∧
    (∀ i (h : i < a.ports.length), (addrs a)[i]? = some (a.ip, a.ports[i])) ∧
    (a.ports.Nodup → (addrs a).Nodup) := by
  refine ⟨rfl, by simp [addrs], ?_, ?_, ?_⟩
  · intro d
    simp only [addrs, List.mem_map]
    constructor
    · rintro ⟨p, hp, rfl⟩; exact ⟨rfl, hp⟩
    · rintro ⟨h1, h2⟩; exact ⟨d.2, h2, by rw [← h1]⟩
  · intro i h; simp [addrs, h]
  · intro hn
    simp only [addrs, List.Nodup, List.pairwise_map] at hn ⊢
    exact hn.imp (fun h e => h (by simpa using e))

/-- `String()` = JoinHostPort(IP text, port expression) splits back into exactly these two
    (brackets are added iff the IP text contains a colon), `Network()` is "udphop". -/
theorem string_resplits (R : List Char → Option IP) (ipText : IP → List Char)
    (cs : List Char) (a : HopAddr) (hres : resolveUDPHopAddr R cs = .ok a)
    (hclean : '[' ∉ ipText a.ip ∧ ']' ∉ ipText a.ip) :
    splitHostPort (toText ipText a) = .ok (ipText a.ip, a.portStr) ∧ network = "udphop" := by
  obtain ⟨host, port, ip, u, hs, _, _, ha⟩ := (resolve_ok_iff R cs a).mp hres
  refine ⟨?_, rfl⟩
  apply splitHostPort_complete
  have : a.portStr = port := by rw [ha]
  rw [toText, this]
  exact join_splits hclean.1 hclean.2 hs.port_clean

/-! ## Hop interval -/

/-- `interval_spec`: (0,0) means the 30 s default; otherwise both bounds must be set,
    min ≤ max and min ≥ 5 s, and the configuration is kept as is; every accepted
    configuration has 5 s ≤ min ≤ max; the jittered interval lies in [min, max] for every
    draw `0 ≤ r < max-min+1` of `rand.Int63n`; and `max-min+1` does not overflow int64. -/
theorem interval_spec (c : Interval) :
    (normalized ⟨0, 0⟩ = some ⟨30 * second, 30 * second⟩) ∧
    (normalized c = none ↔
      ¬ (c.min = 0 ∧ c.max = 0) ∧ (c.min = 0 ∨ c.max = 0 ∨ c.min > c.max ∨ c.min < 5 * second)) ∧
    (∀ c', normalized c = some c' →
      5 * second ≤ c'.min ∧ c'.min ≤ c'.max ∧
      (c ≠ ⟨0, 0⟩ → c' = c) ∧
      (c'.max < 2 ^ 63 → 0 < c'.max - c'.min + 1 ∧ c'.max - c'.min + 1 < 2 ^ 63) ∧
      ∀ r, 0 ≤ r → r < c'.max - c'.min + 1 →
        c'.min ≤ nextHopInterval c' r ∧ nextHopInterval c' r ≤ c'.max) := by
  have hsec : second = 1000000000 := rfl
  have hdef : (Gen.udphopDefaultHopIntervalNs : Int) = 30000000000 := by decide
  refine ⟨by simp [normalized, hdef, hsec], ?_, ?_⟩
  · unfold normalized
    rw [hsec]
    by_cases h0 : c.min = 0 ∧ c.max = 0
    · simp [h0]
    · simp only [h0, if_false, not_false_eq_true, true_and]
      by_cases h1 : c.min = 0 ∨ c.max = 0
      · simp only [h1, if_true, true_iff]; omega
      · simp only [h1, if_false]
        by_cases h2 : c.min > c.max
        · simp only [h2, if_true, true_iff]; simp
        · simp only [h2, if_false]
          by_cases h3 : c.min < 5 * 1000000000
          · simp only [h3, if_true, true_iff]; simp
          · simp only [h3, if_false]
            constructor
            · intro h; cases h
            · intro h; exfalso; apply h1; rcases h with h | h | h | h <;> simp_all
  · intro c' hc'
    unfold normalized at hc'
    rw [hsec] at hc' ⊢
    by_cases h0 : c.min = 0 ∧ c.max = 0
    · rw [if_pos h0] at hc'
      cases hc'
      simp only [hdef, nextHopInterval, if_true]
      refine ⟨by omega, by omega, ?_, by omega, fun r _ _ => by omega⟩
      intro hne
      exact absurd (by cases c; simp_all) hne
    · rw [if_neg h0] at hc'
      by_cases h1 : c.min = 0 ∨ c.max = 0
      · rw [if_pos h1] at hc'; cases hc'
      · rw [if_neg h1] at hc'
        by_cases h2 : c.min > c.max
        · rw [if_pos h2] at hc'; cases hc'
        · rw [if_neg h2] at hc'
          by_cases h3 : c.min < 5 * 1000000000
          · rw [if_pos h3] at hc'; cases hc'
          · rw [if_neg h3] at hc'
            cases hc'
            refine ⟨by omega, by omega, fun _ => rfl, by omega, ?_⟩
            intro r hr0 hr
            unfold nextHopInterval
            split <;> omega

example : normalized ⟨10 * second, 15 * second⟩ = some ⟨10 * second, 15 * second⟩ := by decide
example : normalized ⟨3 * second, 3 * second⟩ = none ∧ normalized ⟨0, 5 * second⟩ = none ∧
    normalized ⟨10 * second, 5 * second⟩ = none ∧ normalized ⟨-1, -1⟩ = none := by decide

/-! ### the hop-interval arithmetic as TRANSLATED from the current Go source equals the model's

`Hy.Gen.TransHop.*` is regenerated on every run by `verifgen translate` from the text of
`HopIntervalConfig.normalized` and `(*udpHopPacketConn).nextHopInterval` in extras/transport/udphop/conn.go
(go/ast → Lean: `time.Duration` = int64, `defaultHopInterval` and `5*time.Second` resolved to their
current values; the result `(HopIntervalConfig, error)` is `Res (Max × Min)` with `Res.reject` for every
`errors.New(…)`; `u.HopInterval.Min/Max` are parameters; `rand.Int63n` is a function parameter).
`normalized_translation_eq` holds for EVERY pair of integers; `nextHopInterval_translation_eq` for every
0 ≤ min ≤ max < 2^62 and every random source — in particular the bound handed to `rand.Int63n` is
`max − min + 1`, the one `interval_spec` speaks about.  No sampling is involved for these two functions. -/

set_option linter.unusedSimpArgs false in
theorem normalized_translation_eq (c : Interval) :
    Gen.TransHop.HopIntervalConfig_normalized c.max c.min
      = (match normalized c with
         | some c' => Res.ok (c'.max, c'.min)
         | none => Res.reject) := by
  have hsec : second = 1000000000 := rfl
  have hdef : (Gen.udphopDefaultHopIntervalNs : Int) = 30000000000 := by decide
  unfold Gen.TransHop.HopIntervalConfig_normalized normalized
  by_cases a : c.min = 0 <;> by_cases b : c.max = 0 <;> by_cases d : c.min > c.max <;>
    by_cases e : c.min < 5000000000 <;> simp [hsec, hdef, a, b, d, e] <;> omega

theorem nextHopInterval_translation_eq (c : Interval) (rnd : Int → Int)
    (h0 : 0 ≤ c.min) (h1 : c.min ≤ c.max) (h2 : c.max < 4611686018427387904)
    (hr : ∀ n, 0 ≤ rnd n ∧ rnd n < 4611686018427387904) :
    Gen.TransHop.udpHopPacketConn_nextHopInterval c.max c.min rnd
      = nextHopInterval c (rnd (c.max - c.min + 1)) := by
  have hrr := hr (c.max - c.min + 1)
  generalize hR : rnd (c.max - c.min + 1) = r at hrr ⊢
  have harg : ∀ a : Int, a = c.max - c.min + 1 → rnd a = r := fun a h => by rw [h, hR]
  unfold Gen.TransHop.udpHopPacketConn_nextHopInterval nextHopInterval
  simp (disch := omega) only [GoInt.i64_of_range]
  by_cases he : c.min = c.max
  · rw [if_pos (by omega), if_pos he]
  · rw [if_neg (by omega), if_neg he]
    rw [harg _ (by omega)]
    all_goals try simp (disch := omega) only [GoInt.i64_of_range]
    all_goals try omega

example : Gen.TransHop.HopIntervalConfig_normalized 0 0 = .ok (30000000000, 30000000000) := by decide
example : Gen.TransHop.HopIntervalConfig_normalized 10000000000 4999999999 = .reject := by decide
example : Gen.TransHop.udpHopPacketConn_nextHopInterval 9000000000 5000000000 (fun n => n - 1) = 9000000000 := by decide

end Hy.Props.C19
