/-
  C14 — Gecko reassembles handshake packets exactly with bounded state.
  Property theorems only; helper lemmas live in Hy.Proofs.Gecko{Map,Inv,Codec,Reasm}.

  Model: Hy.Model.Gecko (extras/obfs/gecko.go, gecko_frame.go): sender (WriteTo, writeFragmented,
  randomPadLen, encodeFrame), codec, receiver (ReadFrom's loop body, acceptChunk, gcExpired,
  dropEntryLocked, evictOldestLocked, the gcLoop ticker).  The inner Salamander conn is the identity
  on payloads (+ `smSaltLen` bytes on the wire).  Chunk count, message id, random draws and bytes
  of the padding, and the eviction victim among equally old entries are inputs: every theorem
  quantifies over them.  An event is one datagram handed up by the inner conn (any source, any
  bytes) or one gc run; a run is ANY list of events.
-/
import Hy.Proofs.GeckoReasm
import Hy.Gen.TransGecko
set_option linter.unusedSimpArgs false
namespace Hy.Props.C14
open Hy Hy.Gecko

/-! ### obligations on the regenerated constants (a changed constant fails here) -/
theorem const_ttl : Gen.geckoReassemblyTTL = 8000000000 := by decide
theorem const_max_reassembly : Gen.geckoMaxReassembly = 4096 := by decide
theorem const_max_per_source : Gen.geckoMaxPerSource = 8 := by decide
theorem const_buffer : Gen.geckoBufferSize = 2048 := by decide
theorem const_header : Gen.geckoHeaderSize = 5 ∧ Gen.geckoFlagFragment = 128 := by decide
theorem const_salt : Gen.smSaltLen = 8 := by decide
/-- chunk counts fit the 4-bit header fields, and a message always has at least two chunks -/
theorem const_chunks : Gen.geckoMinFragmentChunks = 2 ∧ Gen.geckoMaxFragmentChunks = 8 ∧
    Gen.geckoMaxFragmentChunks < 16 := by decide
/-- the default size range is a valid configuration; a full-size frame plus salt fits the read buffers -/
theorem const_defaults : 0 < Gen.geckoDefaultMinPacket ∧ Gen.geckoDefaultMinPacket ≤ Gen.geckoDefaultMaxPacket ∧
    Gen.geckoDefaultMaxPacket ≤ Gen.geckoBufferSize ∧
    resolveCfg 0 0 = some { minPkt := Gen.geckoDefaultMinPacket, maxPkt := Gen.geckoDefaultMaxPacket } := by decide
/-- the per-source cap can never starve the global one of its meaning, and the ticker period is positive -/
theorem const_caps_sane : 0 < Gen.geckoMaxPerSource ∧ Gen.geckoMaxPerSource ≤ Gen.geckoMaxReassembly ∧
    0 < Gen.geckoReassemblyTTL / 2 := by decide

/-! ### configuration: what WrapPacketConnGecko accepts is a usable size range -/
theorem config_valid (mn mx : Int) (c : Cfg) (h : resolveCfg mn mx = some c) :
    0 < c.minPkt ∧ c.minPkt ≤ c.maxPkt ∧ c.maxPkt ≤ bufferSize := by
  unfold resolveCfg at h
  have e1 : (Gen.geckoDefaultMinPacket : Int) = 512 := by decide
  have e2 : (Gen.geckoDefaultMaxPacket : Int) = 1200 := by decide
  have e3 : (Gen.geckoBufferSize : Int) = 2048 := by decide
  have hbs : bufferSize = 2048 := by decide
  simp only [e1, e2, e3] at h
  rw [hbs]
  by_cases h1 : mn = 0 <;> by_cases h2 : mx = 0 <;> simp only [h1, h2, ↓reduceIte] at h <;> split at h <;>
    first
    | (simp at h; done)
    | (simp only [Option.some.injEq] at h; subst h; simp only; omega)

/-! ### sender: padding -/

/-- randomPadLen: when the chunk can fit at all (salt + header + chunk ≤ maxPkt), for every draw of
    `randIntn`, the datagram on the wire (salt + header + pad + chunk) lies in [minPkt, maxPkt], and the
    conversion to `uint16` loses nothing. -/
theorem pad_in_range (c : Cfg) (chunkLen r : Nat) (hcfg : c.minPkt ≤ c.maxPkt) (hmax : c.maxPkt ≤ bufferSize)
    (hfit : saltLen + headerSize + chunkLen ≤ c.maxPkt) (hr : r < max 1 (padDrawBound c chunkLen)) :
    c.minPkt ≤ saltLen + headerSize + randomPadLen c chunkLen r + chunkLen ∧
    saltLen + headerSize + randomPadLen c chunkLen r + chunkLen ≤ c.maxPkt ∧
    randomPadLen c chunkLen r < 65536 ∧
    randomPadLen c chunkLen r =
      max c.minPkt (saltLen + headerSize + chunkLen) - (saltLen + headerSize + chunkLen) + r := by
  obtain ⟨h1, h2, h3⟩ := pad_in_range_aux c chunkLen r hcfg hmax hfit hr
  exact ⟨h1, h2, randomPadLen_lt _ _ _, h3⟩

example : let c : Cfg := ⟨512, 1200⟩
    c.minPkt ≤ c.maxPkt ∧ c.maxPkt ≤ bufferSize ∧ saltLen + headerSize + 600 ≤ c.maxPkt ∧
    (587 : Nat) < max 1 (padDrawBound c 600) ∧ saltLen + headerSize + randomPadLen c 600 587 + 600 = 1200 := by decide

/-- a chunk that cannot fit is sent without padding -/
theorem pad_zero_when_too_big (c : Cfg) (chunkLen r : Nat) (h : c.maxPkt < saltLen + headerSize + chunkLen) :
    randomPadLen c chunkLen r = 0 := pad_zero_of_too_big c chunkLen r h

/-! ### codec -/

/-- for every valid header, padding and payload the encoder writes exactly the documented layout … -/
theorem encode_spec (h : Hdr) (payload rnd : Bytes) (outLen : Nat) (hv : h.Valid)
    (hl : headerSize + h.pad + payload.length ≤ outLen) :
    encodeFrame h payload outLen rnd = .ok (.val (frameOf h (fill h.pad rnd) payload)) :=
  encodeFrame_ok h payload rnd outLen hv.total hv.idx (by rw [headerSize_eq] at hl; exact hl)

/-- … and the decoder gives header and payload back, byte for byte -/
theorem frame_roundtrip (h : Hdr) (payload rnd : Bytes) (outLen : Nat) (hv : h.Valid)
    (hl : headerSize + h.pad + payload.length ≤ outLen) :
    (encodeFrame h payload outLen rnd).bind (fun r => match r with
      | .val f => decodeFrame f
      | _ => .reject) = .ok (.val (h, payload)) := by
  rw [encode_spec h payload rnd outLen hv hl]
  simp only [Res.bind_ok]
  rw [decodeFrame_eq, decodeT_frameOf h _ payload hv (fill_length _ _)]

example : (⟨3, 7, 1, 3⟩ : Hdr).Valid := ⟨by decide, by decide, by decide, by decide⟩
example : decodeFrame (frameOf ⟨3, 7, 1, 3⟩ [byte 1, byte 2, byte 3] [byte 0xaa, byte 0xbb])
    = .ok (.val (⟨3, 7, 1, 3⟩, [byte 0xaa, byte 0xbb])) := by decide

/-- decodeFrame never panics, for every byte string -/
theorem decode_total (inp : Bytes) : Res.NoPanic (decodeFrame inp) := by
  rw [decodeFrame_eq]; exact Res.noPanic_ok _

/-- encodeFrame never panics, whatever header, payload and buffer size it is given -/
theorem encode_total (h : Hdr) (payload rnd : Bytes) (outLen : Nat) :
    Res.NoPanic (encodeFrame h payload outLen rnd) := by
  by_cases h1 : h.total < minChunks ∨ h.total > maxChunks
  · unfold encodeFrame; rw [if_pos h1]; exact Res.noPanic_ok _
  · by_cases h2 : h.idx ≥ h.total
    · unfold encodeFrame; rw [if_neg h1, if_pos h2]; exact Res.noPanic_ok _
    · by_cases h3 : outLen < headerSize + h.pad + payload.length
      · unfold encodeFrame; rw [if_neg h1, if_neg h2]; dsimp only; rw [if_pos h3]; exact Res.noPanic_ok _
      · rw [minChunks_eq, maxChunks_eq] at h1
        rw [headerSize_eq] at h3
        rw [encodeFrame_ok h payload rnd outLen (by omega) (by omega) (by omega)]
        exact Res.noPanic_ok _

/-! ### receiver: nothing panics, for every byte string and EVERY receiver state -/

theorem accept_total (st : St) (k : Key) (h : Hdr) (pl : Bytes) (now : Nat) (tie : Key) :
    Res.NoPanic (acceptChunk st k h pl now tie) := by
  rw [acceptChunk_eq]; exact Res.noPanic_ok _

theorem rx_total (st : St) (src : Nat) (d : Bytes) (now : Nat) (tie : Key) (pcap : Nat) :
    Res.NoPanic (rxStep st src d now tie pcap) := by
  rw [rxStep_eq]; exact Res.noPanic_ok _

theorem step_total (st : St) (ev : Ev) : step st ev = .ok (stepT st ev) := by
  cases ev with
  | dgram src d now tie pcap => exact rxStep_eq st src d now tie pcap
  | gc now => rfl

/-- ReadFrom's loop over any queue of datagrams never panics (and never fails) -/
theorem readFrom_total (now pcap : Nat) (q : List (Nat × Bytes × Key)) (st : St) :
    ∃ r, readFrom st now pcap q = .ok r := by
  induction q generalizing st with
  | nil => exact ⟨_, rfl⟩
  | cons x r ih =>
    obtain ⟨src, d, tie⟩ := x
    simp only [readFrom, rxStep_eq, Res.bind_ok]
    generalize rxT st src d now tie pcap = res
    obtain ⟨st', o⟩ := res
    cases o with
    | drop => exact ih st'
    | pass s b => exact ⟨_, rfl⟩
    | msg k b => exact ⟨_, rfl⟩

/-- the writer never panics and never fails for the chunk counts it can draw; it emits `chunks` frames -/
theorem split_total (c : Cfg) (p : Bytes) (chunks mid : Nat) (draws : List (Nat × Bytes))
    (hc : 2 ≤ chunks ∧ chunks ≤ 8) : ∃ frames, split c p chunks mid draws = .ok frames ∧ frames.length = chunks := by
  obtain ⟨frames, h1, h2, _⟩ := split_spec c p chunks mid draws hc
  exact ⟨frames, h1, h2⟩

/-! ### census and caps: in every reachable state, whatever anyone sends -/

/-- perSource is exactly the census of the table, the table has no duplicate key, so the census is a
    cardinality: perSource[s] = |{k ∈ table : k.src = s}| -/
theorem census (st : St) (h : Reachable st) :
    (akeys st.tab).Nodup ∧
    ∀ s, perGet st.per s = ((akeys st.tab).filter (fun k => decide (k.src = s))).length := by
  have hI := reachable_inv st h
  refine ⟨hI.nodupT, fun s => ?_⟩
  rw [hI.census s]
  simp only [Gecko.census, akeys, List.filter_map, List.length_map, List.countP_eq_length_filter]
  rfl

/-- pending reassembly state never exceeds 4096 messages overall and 8 per source -/
theorem caps (st : St) (h : Reachable st) :
    st.tab.length ≤ 4096 ∧ ∀ s, perGet st.per s ≤ 8 := by
  have hI := reachable_inv st h
  have h1 : maxTable = 4096 := by decide
  have h2 : maxPerSource = 8 := by decide
  exact ⟨h1 ▸ hI.tabCap, fun s => h2 ▸ hI.perCap s⟩

/-- the perSource map itself is bounded: it never has more entries than the table (a counter is deleted
    when it reaches zero, on every removal path) -/
theorem per_source_map_bounded (st : St) (h : Reachable st) :
    st.per.length ≤ st.tab.length ∧ st.per.length ≤ 4096 ∧ ∀ s v, aget st.per s = some v → 0 < v := by
  have hI := reachable_inv st h
  have := per_le_tab st hI
  have := (caps st h).1
  exact ⟨by omega, by omega, hI.perPos⟩

/-- the same through the gcLoop ticker: any interleaving of datagrams, direct gc runs and clock advances -/
theorem caps_with_ticker (rx : Rx) (to : Nat) (h : Inv rx.st) : Inv (advance rx to).st := inv_advance rx to h

example : Reachable (runT {} [.dgram 1 [byte 0x80, byte 7, byte 0x03, byte 0, byte 0, byte 1] 5 ⟨0, 0⟩ 64]).1 :=
  ⟨_, rfl⟩

/-- evictOldestLocked removes an entry with the smallest deadline, whichever tie-break is taken -/
theorem evicts_oldest (st : St) (tie : Key) (h : Reachable st) (hne : st.tab ≠ []) :
    ∃ k e, victimOf st.tab tie = some k ∧ aget st.tab k = some e ∧ ∀ ke ∈ st.tab, e.deadline ≤ ke.2.deadline :=
  victimOf_spec st.tab tie hne (reachable_inv st h).nodupT

/-! ### TTL -/

/-- an incomplete message is gone after the first gc that runs past its deadline -/
theorem ttl (st : St) (now : Nat) (k : Key) (e : Ent) (h : Reachable st)
    (he : aget st.tab k = some e) (hd : e.deadline < now) : aget (gcExpired st now).tab k = none :=
  gc_removes st now k e (reachable_inv st h).nodupT he hd

/-- gc removes nothing else -/
theorem gc_exact (st : St) (now : Nat) (k : Key) (e : Ent) (h : Reachable st)
    (he : aget st.tab k = some e) (hd : now ≤ e.deadline) : aget (gcExpired st now).tab k = some e :=
  gc_keeps st now k e (reachable_inv st h).nodupT he hd

/-- the deadline is arrival time of the first chunk + geckoReassemblyTTL … -/
theorem deadline_is_arrival_plus_ttl (st : St) (src : Nat) (d : Bytes) (now : Nat) (tie : Key) (pcap : Nat)
    (k : Key) (e' : Ent) (h : Reachable st) (he : aget st.tab k = none)
    (he' : aget (stepT st (.dgram src d now tie pcap)).1.tab k = some e') :
    e'.deadline = now + Gen.geckoReassemblyTTL :=
  deadline_set st src d now tie pcap k e' (reachable_inv st h) he he'

/-- … and nothing anyone sends extends it -/
theorem deadline_never_extended (st : St) (ev : Ev) (k : Key) (e e' : Ent) (h : Reachable st)
    (he : aget st.tab k = some e) (he' : aget (stepT st ev).1.tab k = some e') :
    e'.deadline = e.deadline :=
  (deadline_fixed st ev k e e' (reachable_inv st h) he he').1

/-- with gcLoop ticking every TTL/2: once a tick has happened, no pending message is older than its
    deadline plus one tick period (TTL + TTL/2 after its first chunk) -/
theorem ticker_sweeps (rx : Rx) (to : Nat) (hI : Inv rx.st) (htick : rx.nextTick ≤ to) (k : Key) (e : Ent)
    (he : aget (advance rx to).st.tab k = some e) : to < e.deadline + Gen.geckoReassemblyTTL / 2 := by
  have hp := tickPeriod_pos
  have hreach : to < (advance rx to).nextTick := by
    apply advanceN_reaches
    have := Nat.lt_div_mul_add (a := to - rx.nextTick) hp
    rw [Nat.add_mul]; omega
  -- after the first tick every entry satisfies the sweep bound; it is then preserved
  have hsw : (advance rx to).nextTick ≤ e.deadline + tickPeriod := by
    unfold advance at he ⊢
    generalize (to - rx.nextTick) / tickPeriod = f at he ⊢
    simp only [advanceN, htick, ↓reduceIte] at he ⊢
    apply advanceN_sweeps f _ to (inv_gc _ _ hI) _ k e he
    intro k' e' he'
    have := (gc_complete rx.st rx.nextTick k' e' hI.nodupT he').1
    simp only; omega
  have : tickPeriod = Gen.geckoReassemblyTTL / 2 := rfl
  omega

/-! ### integrity -/

/-- Whatever arrives, from whomever, in whatever order: every reassembled packet ReadFrom returns is the
    concatenation, in slot order, of chunks that arrived under ONE key (source, msgID) with ONE chunk
    count (cut to the caller's buffer) — never a mixture across sources, ids or counts. -/
theorem integrity (evs : List Ev) (k : Key) (data : Bytes) (h : Out.msg k data ∈ (runT {} evs).2) :
    ∃ (cs : List Bytes) (pcap : Nat), data = cs.flatten.take pcap ∧ 2 ≤ cs.length ∧
      ∀ i c, cs[i]? = some c → Arrived evs k i cs.length c :=
  integrity_run evs k data h

/-- Under the explicit no-id-reuse hypothesis — nothing pending under `M`'s key at the start, and every
    chunk that arrives under that key belongs to `M` — every packet delivered under the key IS `M`. -/
theorem integrity_no_id_reuse (M : Msg) (st : St) (evs : List Ev) (hr : Reachable st)
    (hfree : aget st.tab M.k = none) (hnf : ∀ ev ∈ evs, NoForeign M ev) (data : Bytes)
    (h : Out.msg M.k data ∈ (runT st evs).2) : ∃ pcap, data = M.cs.flatten.take pcap := by
  obtain ⟨ev, _, _, hd⟩ := integrity_msg M st evs hr hfree hnf data h
  exact ⟨ev.pcap, hd⟩

/-- D9 (pinned behaviour, and it stays: no receiver-only repair exists). Without that hypothesis the
    claim is false: source 1 sends chunks 0,1 of message A (id 7, 3 chunks), then the three chunks of
    another message B with id 7 and 3 chunks; ReadFrom returns A0 A1 B2 — neither A nor B. -/
def d9A : List Bytes := [[byte 0xc0, byte 0xa0], [byte 0xa1, byte 0xa1], [byte 0xa2, byte 0xa2]]
def d9B : List Bytes := [[byte 0xc0, byte 0xb0], [byte 0xb1, byte 0xb1], [byte 0xb2, byte 0xb2]]
def d9Frame (i : Nat) (c : Bytes) : Bytes := frameOf ⟨0, 7, i, 3⟩ [] c
def d9Run : List Ev :=
  [.dgram 1 (d9Frame 0 (d9A.getD 0 [])) 0 ⟨0, 0⟩ 4096, .dgram 1 (d9Frame 1 (d9A.getD 1 [])) 0 ⟨0, 0⟩ 4096,
   .dgram 1 (d9Frame 0 (d9B.getD 0 [])) 5 ⟨0, 0⟩ 4096, .dgram 1 (d9Frame 1 (d9B.getD 1 [])) 5 ⟨0, 0⟩ 4096,
   .dgram 1 (d9Frame 2 (d9B.getD 2 [])) 5 ⟨0, 0⟩ 4096]

theorem integrity_pinned_counterexample :
    (runT {} d9Run).2 = [.drop, .drop, .drop, .drop,
      .msg ⟨1, 7⟩ [byte 0xc0, byte 0xa0, byte 0xa1, byte 0xa1, byte 0xb2, byte 0xb2]] ∧
    [byte 0xc0, byte 0xa0, byte 0xa1, byte 0xa1, byte 0xb2, byte 0xb2] ≠ d9A.flatten ∧
    [byte 0xc0, byte 0xa0, byte 0xa1, byte 0xa1, byte 0xb2, byte 0xb2] ≠ d9B.flatten := by decide

/-- the repair considered in DESIGN §7 (a chunk that meets an occupied slot with different bytes restarts
    the entry) does not restore integrity: in the order A0, B1, B2 no chunk ever meets an occupied slot,
    and the receiver — pinned or repaired alike — returns A0 B1 B2. -/
theorem restart_repair_insufficient :
    (runT {} [.dgram 1 (d9Frame 0 (d9A.getD 0 [])) 0 ⟨0, 0⟩ 4096, .dgram 1 (d9Frame 1 (d9B.getD 1 [])) 5 ⟨0, 0⟩ 4096,
              .dgram 1 (d9Frame 2 (d9B.getD 2 [])) 5 ⟨0, 0⟩ 4096]).2 =
      [.drop, .drop, .msg ⟨1, 7⟩ [byte 0xc0, byte 0xa0, byte 0xb1, byte 0xb1, byte 0xb2, byte 0xb2]] := by decide

/-! ### reassembly is exact -/

/-- `reassembly_exact`.  Message `M` (key = source and id, chunks `cs`, any chunk contents and any split).
    From any reachable receiver state in which nothing is pending under `M`'s key and `M`'s source is below
    its cap, let a chunk of `M` arrive (`first`), followed by ANY events `post` — chunks of `M` in any
    order with any duplicates, datagrams of other sources and other message ids, junk, gc runs — such that
      * every chunk index of `M` arrives at least once (in `first` or `post`),
      * nothing else arrives under `M`'s key in that interval (no id reuse),
      * no gc runs past `M`'s deadline (arrival of `first` + TTL),
      * the global cap does not evict `M` (NotEvicted; see `reassembly_exact_uncrowded`),
      * the caller's buffers hold the packet.
    Then ReadFrom returns `M`'s bytes, and everything it returns under `M`'s key is exactly `M`'s bytes. -/
theorem reassembly_exact (M : Msg) (st0 : St) (src : Nat) (d0 : Bytes) (now0 : Nat) (tie0 : Key) (pcap0 i0 : Nat)
    (post : List Ev) (hr : Reachable st0)
    (hfree : aget st0.tab M.k = none)
    (hcap : perGet st0.per M.k.src < maxPerSource)
    (hfirst : IsChunk M i0 (.dgram src d0 now0 tie0 pcap0))
    (hnf : ∀ ev ∈ post, NoForeign M ev)
    (hall : ∀ i, i < M.cs.length → i = i0 ∨ ∃ ev ∈ post, IsChunk M i ev)
    (hgc : ∀ now, Ev.gc now ∈ post → now ≤ now0 + Gecko.ttl)
    (hev : NotEvicted M.k (stepT st0 (.dgram src d0 now0 tie0 pcap0)).1 post)
    (hbuf : ∀ s d n t pcap, Ev.dgram s d n t pcap ∈ Ev.dgram src d0 now0 tie0 pcap0 :: post → M.cs.flatten.length ≤ pcap) :
    Out.msg M.k M.cs.flatten ∈ (runT st0 (.dgram src d0 now0 tie0 pcap0 :: post)).2 ∧
    ∀ data, Out.msg M.k data ∈ (runT st0 (.dgram src d0 now0 tie0 pcap0 :: post)).2 → data = M.cs.flatten := by
  have hI := reachable_inv st0 hr
  have hW := wf_pm_of_absent M st0 hr hfree
  have hnf1 := isChunk_noForeign M i0 _ hfirst
  -- everything delivered under the key is M
  have hint : ∀ data, Out.msg M.k data ∈ (runT st0 (.dgram src d0 now0 tie0 pcap0 :: post)).2 → data = M.cs.flatten := by
    intro data hd
    obtain ⟨ev, hev', ⟨s, d, n, t, pcap, rfl⟩, hdata⟩ := integrity_msg M st0 _ hr hfree
      (by intro ev hev'; rcases List.mem_cons.mp hev' with e | e
          · subst e; exact hnf1
          · exact hnf ev e) data hd
    rw [hdata]
    exact List.take_of_length_le (hbuf s d n t pcap hev')
  refine ⟨?_, hint⟩
  -- something is delivered under the key
  obtain ⟨hP, hF⟩ := first_chunk M st0 src d0 now0 tie0 pcap0 i0 hfree hcap hfirst
  have hW1 := (wf_step (PM M) st0 _ hI hW (evP_of_noForeign M _ hnf1)).1
  obtain ⟨data, hd⟩ := live M (now0 + Gecko.ttl) post _ (inv_step st0 _ hI) hW1 hP hnf hgc hev (by
    intro i hi
    rcases hall i hi with e | e
    · subst e; exact Or.inl hF
    · exact Or.inr e)
  have hmem : Out.msg M.k data ∈ (runT st0 (.dgram src d0 now0 tie0 pcap0 :: post)).2 := by
    simp only [runT]; exact List.mem_cons_of_mem _ hd
  rw [← hint data hmem]; exact hmem

/-- the same with a plain sufficient condition instead of NotEvicted: the table has room for everything
    that arrives in the interval, so the global cap is never reached -/
theorem reassembly_exact_uncrowded (M : Msg) (st0 : St) (src : Nat) (d0 : Bytes) (now0 : Nat) (tie0 : Key) (pcap0 i0 : Nat)
    (post : List Ev) (hr : Reachable st0)
    (hfree : aget st0.tab M.k = none)
    (hcap : perGet st0.per M.k.src < maxPerSource)
    (hfirst : IsChunk M i0 (.dgram src d0 now0 tie0 pcap0))
    (hnf : ∀ ev ∈ post, NoForeign M ev)
    (hall : ∀ i, i < M.cs.length → i = i0 ∨ ∃ ev ∈ post, IsChunk M i ev)
    (hgc : ∀ now, Ev.gc now ∈ post → now ≤ now0 + Gecko.ttl)
    (hroom : st0.tab.length + 1 + post.length ≤ maxTable)
    (hbuf : ∀ s d n t pcap, Ev.dgram s d n t pcap ∈ Ev.dgram src d0 now0 tie0 pcap0 :: post → M.cs.flatten.length ≤ pcap) :
    Out.msg M.k M.cs.flatten ∈ (runT st0 (.dgram src d0 now0 tie0 pcap0 :: post)).2 ∧
    ∀ data, Out.msg M.k data ∈ (runT st0 (.dgram src d0 now0 tie0 pcap0 :: post)).2 → data = M.cs.flatten := by
  have hI := reachable_inv st0 hr
  apply reassembly_exact M st0 src d0 now0 tie0 pcap0 i0 post hr hfree hcap hfirst hnf hall hgc _ hbuf
  apply notEvicted_of_room M.k post _ (inv_step st0 _ hI)
  have := step_len_le st0 (.dgram src d0 now0 tie0 pcap0) hI
  omega

/-! ### sender and receiver together -/

/-- the message a writer call puts on the wire: key (source, id mod 256), chunks as writeFragmented cuts them -/
def msgOf (s : Nat) (p : Bytes) (chunks mid : Nat) : Msg :=
  { k := ⟨s, mid % 256⟩, cs := (List.range chunks).map (chunkOf p chunks) }

/-- the chunks are the packet -/
theorem msgOf_flatten (s : Nat) (p : Bytes) (chunks mid : Nat) (hc : 1 ≤ chunks) :
    (msgOf s p chunks mid).cs.flatten = p := chunks_concat p chunks hc

/-- Every frame writeFragmented emits (any chunk count 2..8, any message id, any pad draw in range, any
    pad bytes) is, on arrival from that source, chunk `j` of `msgOf`: so `reassembly_exact` applied to
    `msgOf s p chunks mid` says the packet is delivered byte-identical for every arrival order. -/
theorem written_frames_are_chunks (c : Cfg) (s : Nat) (p : Bytes) (chunks mid : Nat) (draws : List (Nat × Bytes))
    (hc : 2 ≤ chunks ∧ chunks ≤ 8) (hcfg : c.minPkt ≤ c.maxPkt) (hmax : c.maxPkt ≤ bufferSize)
    (hp : p.length + headerSize ≤ bufferSize)
    (hdraw : ∀ j, j < chunks →
      ((draws.drop j).headD (0, [])).1 < max 1 (padDrawBound c (chunkOf p chunks j).length)) :
    ∃ frames, split c p chunks mid draws = .ok frames ∧ frames.length = chunks ∧
      ∀ j (hj : j < frames.length) now tie pcap,
        IsChunk (msgOf s p chunks mid) j (.dgram s frames[j] now tie pcap) := by
  obtain ⟨frames, h1, h2, h3⟩ := split_spec c p chunks mid draws hc
  refine ⟨frames, h1, h2, ?_⟩
  intro j hj now tie pcap
  rw [h2] at hj
  have hf := h3 j hj
  rw [List.getElem?_eq_getElem (by omega)] at hf
  simp only [Option.some.injEq] at hf
  have hr := hdraw j hj
  generalize ((draws.drop j).headD (0, [])).1 = r at hf hr
  generalize ((draws.drop j).headD (0, [])).2 = rnd at hf
  -- the frame is not longer than the inner conn's buffer
  have hclen : (chunkOf p chunks j).length ≤ p.length := by
    unfold chunkOf; simp only [List.length_drop, List.length_take]; omega
  have hv := fragHdr_valid c p chunks mid j r hc hj
  have hlen : frames[j].length ≤ bufferSize := by
    rw [hf]
    simp only [frameOf, List.length_append, List.length_cons, List.length_nil, fill_length]
    rw [bufferSize_eq] at hmax hp ⊢
    rw [headerSize_eq] at hp
    by_cases hfit : saltLen + headerSize + (chunkOf p chunks j).length ≤ c.maxPkt
    · -- in range
      have := (pad_in_range_aux c (chunkOf p chunks j).length r hcfg (by rw [bufferSize_eq]; exact hmax) hfit hr).2.1
      rw [saltLen_eq, headerSize_eq] at this
      unfold fragHdr; simp only; omega
    · have := pad_zero_of_too_big c (chunkOf p chunks j).length r (by omega)
      unfold fragHdr; simp only [this]; omega
  refine ⟨rfl, fragHdr c p chunks mid j r, chunkOf p chunks j, ?_, rfl, ?_, rfl, ?_⟩
  · rw [List.take_of_length_le hlen, hf]
    exact decodeT_frameOf _ _ _ hv (fill_length _ _)
  · simp [fragHdr, msgOf]
  · simp [msgOf, hj]

/-! ### short-header packets and junk -/

/-- receive side: a datagram whose first byte has the top bit clear is returned as is (up to the buffers),
    and the reassembly state is untouched -/
theorem short_header_passthrough (st : St) (src : Nat) (d : Bytes) (now : Nat) (tie : Key) (pcap : Nat) (b : Byte)
    (rest : Bytes) (hd : d = b :: rest) (hb : b.val < 128) :
    rxStep st src d now tie pcap = .ok (st, .pass src ((d.take bufferSize).take pcap)) := by
  rw [rxStep_eq]
  subst hd
  unfold rxT
  have : bufferSize = 2047 + 1 := by decide
  simp only [this, List.take_succ_cons, List.length_cons, Nat.add_one_ne_zero, ↓reduceIte, List.getD_cons_zero, hb]

/-- send side: a short-header packet is written through unchanged as ONE datagram; an empty one is not written -/
theorem short_header_written_through (c : Cfg) (p : Bytes) (chunks mid : Nat) (draws : List (Nat × Bytes)) (b : Byte)
    (rest : Bytes) (hp : p = b :: rest) (hb : b.val < 128) : writeTo c p chunks mid draws = .ok [p] := by
  subst hp
  unfold writeTo
  have : ¬ (b.val / 128 % 2 ≠ 0) := by omega
  simp only [List.length_cons, Nat.add_one_ne_zero, ↓reduceIte, Res.idx, List.getElem?_cons_zero, Res.bind_ok]
  rw [if_neg this]

/-- a malformed fragment frame is dropped without touching the state -/
theorem malformed_dropped (st : St) (src : Nat) (d : Bytes) (now : Nat) (tie : Key) (pcap : Nat)
    (hbad : ∀ h pl, decodeT (d.take bufferSize) ≠ .val (h, pl))
    (hfrag : ¬ ((d.take bufferSize).getD 0 0).val < 128 ∨ (d.take bufferSize).length = 0) :
    rxStep st src d now tie pcap = .ok (st, .drop) := by
  rw [rxStep_eq]
  unfold rxT
  dsimp only
  split
  · rfl
  · rename_i hne
    rw [if_neg (by rcases hfrag with h | h; exact h; exact absurd h hne)]
    split
    · rename_i h pl hdec; exact absurd hdec (hbad h pl)
    · rfl

example : decodeT (([byte 0x80, byte 1, byte 0x19, byte 0, byte 0] : Bytes).take bufferSize) = .invalid := by decide

/-! ### `randomPadLen` as TRANSLATED from the current Go source equals the model's

`Hy.Gen.TransGecko.geckoPacketConn_randomPadLen` is regenerated on every run by `verifgen translate`
from the text of `(*geckoPacketConn).randomPadLen` in extras/obfs/gecko.go (go/ast → Lean: Go's
`int` = int64 and `uint16` wrap-around explicit; `smSaltLen`, `geckoHeaderSize` resolved to their
current values; `g.minPkt`, `g.maxPkt` are parameters; `randIntn`, which reads crypto/rand, is a
function parameter `rnd`).  For EVERY configuration, chunk length and random source the translation
returns what the model's `randomPadLen` returns on the draw `rnd (padDrawBound …)` — in particular
the bound handed to `randIntn` is the model's `padDrawBound` — so the size-range theorems of this
file are about the repository's current arithmetic, with no sampling for this function.
Ranges: sizes below 2^62 (no int64 overflow); `randIntn` returns a non-negative int. -/
theorem randomPadLen_translation_eq (c : Cfg) (chunkLen : Nat) (rnd : Int → Int)
    (hmin : c.minPkt < 4611686018427387904) (hmax : c.maxPkt < 4611686018427387904)
    (hlen : chunkLen < 4611686018427387904)
    (hr : ∀ n, 0 ≤ rnd n ∧ rnd n < 4611686018427387904) :
    Gen.TransGecko.geckoPacketConn_randomPadLen c.maxPkt c.minPkt chunkLen rnd
      = ((randomPadLen c chunkLen (rnd (padDrawBound c chunkLen)).toNat : Nat) : Int) := by
  have hs : saltLen = 8 := by decide
  have hh : headerSize = 5 := by decide
  have hrr := hr (padDrawBound c chunkLen)
  -- the draw: name the model side's `rnd (padDrawBound …)`, then show the translation calls `rnd` there too
  generalize hR : rnd ((padDrawBound c chunkLen : Nat) : Int) = r at hrr ⊢
  have harg : ∀ a : Int, a = ((padDrawBound c chunkLen : Nat) : Int) → rnd a = r := fun a h => by rw [h, hR]
  unfold Gen.TransGecko.geckoPacketConn_randomPadLen randomPadLen
  -- every int64 wrap whose argument is in range (by the hypotheses) is the identity
  simp (disch := omega) only [GoInt.i64_of_range, hs, hh]
  by_cases hlo : max c.minPkt (8 + 5 + chunkLen) > c.maxPkt
  · rw [if_pos hlo, if_pos (by omega)]; rfl
  · rw [if_neg hlo, if_neg (by omega)]
    rw [harg]
    · simp (disch := omega) only [GoInt.i64_of_range]
      unfold GoInt.u16; omega
    · unfold padDrawBound
      simp only [hs, hh]
      omega

example : Gen.TransGecko.geckoPacketConn_randomPadLen 1200 512 100 (fun n => n - 1) = 1087 := by decide
example : Gen.TransGecko.geckoPacketConn_randomPadLen 1200 512 1300 (fun n => n - 1) = 0 := by decide

end Hy.Props.C14
