/-
  C08 — Every UDP datagram's destination passes the outbound policy.
  Property theorems only; helper lemmas live in Hy.Proofs.UdpAcl; the model is Hy.Model.UdpAcl.

  Quantification: every policy `P`, every history `ops` of one session (complete datagrams to any
  destinations, replies from any sources), every result of the first dial (hook error / dial error /
  success with or without a rewritten address), every eviction victim at every eviction.
  Hypotheses, each stated where it is used:
    * `AllContract P ops`  — the Outbound contract: `UDP(a)` succeeds only if `CheckUDP(a)` would
      (trusted base; sampled on the real ACL adapter by the harness);
    * `P "" = false`       — the outbound rejects the empty address (udp.go uses "" as its
      "no override" sentinel; `no_empty_guard_counterexample` shows the hypothesis is necessary).
-/
import Hy.Gen.Core
import Hy.Proofs.UdpAcl
namespace Hy.Props.C08
open Hy Hy.UdpAcl

/-! ### obligations on the regenerated constants -/

/-- the capacity argument (`cache_bounded`) needs room for the seeded first destination -/
theorem const_cap_pos : 1 ≤ Gen.maxSessionACLCache := by decide
/-- the value the property text quotes -/
theorem const_cap : Gen.maxSessionACLCache = 256 := by decide

/-! ### the statements the model is written from (normalised source text regenerated from udp.go):
  Feed from `if e.conn == nil` on, checkAddr, the dial call and override assignment of initConn, the
  original-address substitution of receiveLoop, the dialFunc closure (hook → log → dial with the HOOKED
  address).  The lifecycle parts of these functions (locks, closed flag, activity stamp) are C07's. -/

theorem skeleton_Feed : Gen.udpAclSkel_Feed =
    "ife.conn==nil{err:=e.initConn(dfMsg)iferr!=nil{return0,err}ife.OverrideAddr==\"\"{e.aclCache=map[string]error{dfMsg.Addr:nil}}} ; addr:=dfMsg.Addr ; ife.OverrideAddr!=\"\"{addr=e.OverrideAddr}elseiferr:=e.checkAddr(addr);err!=nil{return0,err} ; returne.conn.WriteTo(dfMsg.Data,addr)" := rfl
theorem skeleton_checkAddr : Gen.udpAclSkel_checkAddr =
    "{ifdecision,ok:=e.aclCache[addr];ok{returndecision}decision:=e.IO.CheckUDP(addr)iflen(e.aclCache)>=maxSessionACLCache{fork:=rangee.aclCache{delete(e.aclCache,k)break}}ife.aclCache==nil{e.aclCache=make(map[string]error,4)}e.aclCache[addr]=decisionreturndecision}" := rfl
theorem skeleton_initConn : Gen.udpAclSkel_initConn =
    "conn,actualAddr,err:=e.DialFunc(firstMsg.Addr,firstMsg.Data) ; iffirstMsg.Addr!=actualAddr{e.OverrideAddr=actualAddre.OriginalAddr=firstMsg.Addr}" := rfl
theorem skeleton_receiveLoop : Gen.udpAclSkel_receiveLoop =
    "ife.OriginalAddr!=\"\"{rAddr=e.OriginalAddr} ; Addr:rAddr" := rfl
theorem skeleton_dialFunc : Gen.udpAclSkel_dialFunc =
    "{err=m.io.Hook(firstMsgData,&addr)iferr!=nil{returnconn,actualAddr,err}actualAddr=addrm.eventLogger.New(msg.SessionID,addr)conn,err=m.io.UDP(addr)returnconn,actualAddr,err}" := rfl


abbrev cap := Gen.maxSessionACLCache

/-- final state / event trace of a session history from a fresh entry -/
def final (P : Addr → Bool) (ops : List Op) : Sess := (run P cap {} ops).1
def trace (P : Addr → Bool) (ops : List Op) : List Ev := (run P cap {} ops).2

/-! ### the property -/

/-- Every cached verdict is the policy's verdict — whatever was looked up before, however often the
    cache overflowed and whichever key each eviction removed. -/
theorem cache_sound (P : Addr → Bool) (hP : P "" = false) (ops : List Op) (hc : AllContract P ops) :
    ∀ k v, (k, v) ∈ (final P ops).acl.cache → v = P k :=
  (inv_run P cap const_cap_pos hP ops {} hc (inv_init P cap)).sound

/-- Every `WriteTo` of the session goes to a destination the policy allows (with an override in
    force that destination is the rewritten address, which the dial vetted). -/
theorem writes_allowed (P : Addr → Bool) (hP : P "" = false) (ops : List Op) (hc : AllContract P ops) :
    ∀ a, Ev.write a ∈ trace P ops → P a = true :=
  run_writes P cap const_cap_pos hP ops {} hc (inv_init P cap)

/-- A destination the policy rejects never receives a datagram, no matter what preceded it. -/
theorem denied_never_written (P : Addr → Bool) (hP : P "" = false) (ops : List Op) (hc : AllContract P ops)
    (a : Addr) (ha : P a = false) : Ev.write a ∉ trace P ops := by
  intro hm
  have := writes_allowed P hP ops hc a hm
  rw [ha] at this; exact Bool.noConfusion this

/-- If the request hook rewrote the destination (the session ends with an override `a'` in force),
    every datagram of the whole session went to `a'`, every reply was reported from the original
    address, and the policy was never consulted for per-datagram addresses. -/
theorem override_all (P : Addr → Bool) (ops : List Op) (a' : Addr)
    (hov : (final P ops).acl.override = a') (hne : a' ≠ "") :
    (∀ a, Ev.write a ∈ trace P ops → a = a') ∧
    ((final P ops).acl.original ≠ "" → ∀ f, Ev.up f ∈ trace P ops → f = (final P ops).acl.original) ∧
    (∀ a, Ev.check a ∉ trace P ops) := by
  have hconn : (final P ops).conn = true := by
    cases hcn : (final P ops).conn with
    | true => rfl
    | false =>
      -- no socket → the address state is still the initial one → override = ""
      exfalso
      suffices h : ∀ (ops : List Op) (s : Sess), s.conn = false → s.acl = {} →
          (run P cap s ops).1.conn = false → (run P cap s ops).1.acl = {} by
        have := h ops {} rfl rfl hcn
        unfold final at hov; rw [this] at hov; exact hne hov.symm
      intro ops
      induction ops with
      | nil => intro s _ h _; exact h
      | cons op rest ih =>
        intro s hc ha hfin
        simp only [run] at hfin ⊢
        cases op with
        | reply r =>
          have : stepOp P cap s (.reply r) = (s, []) := by simp [stepOp, hc]
          rw [this] at hfin ⊢; exact ih s hc ha hfin
        | dg addr d victim =>
          by_cases hcl : s.closed = true
          · have : stepOp P cap s (.dg addr d victim) = (s, []) := by simp [stepOp, hc, hcl]
            rw [this] at hfin ⊢; exact ih s hc ha hfin
          · have hcl' : s.closed = false := by simpa using hcl
            cases d with
            | hookErr =>
              have : stepOp P cap s (.dg addr .hookErr victim) = ({ s with closed := true }, []) := by
                simp [stepOp, hc, hcl']
              rw [this] at hfin ⊢; exact ih _ hc ha hfin
            | fail a =>
              have : stepOp P cap s (.dg addr (.fail a) victim) =
                  ({ s with closed := true }, [Ev.dial a false]) := by simp [stepOp, hc, hcl']
              rw [this] at hfin ⊢; exact ih _ hc ha hfin
            | ok a =>
              exfalso
              have hst : (stepOp P cap s (.dg addr (.ok a) victim)).1.conn = true := by
                simp [stepOp, hc, hcl', (feedConn_conn P cap _ addr victim).1]
              have := (run_frozen P cap rest _ hst).conn
              rw [this] at hfin; exact Bool.noConfusion hfin
  have h := run_override P cap ops {} rfl hconn (by unfold final at hov; rw [hov]; exact hne)
  unfold final at hov
  simp only [hov] at h
  exact h

/-- How the override comes about: the first datagram `first` of a fresh entry, hook rewrote it to
    `a' ≠ first`, dial succeeded → override `a'`, original `first`; the datagram itself already goes
    to `a'`. -/
theorem override_set (P : Addr → Bool) (first a' victim : Addr) (h1 : first ≠ a') (h2 : a' ≠ "") :
    (stepOp P cap {} (.dg first (.ok a') victim)).1.acl.override = a' ∧
    (stepOp P cap {} (.dg first (.ok a') victim)).1.acl.original = first ∧
    (stepOp P cap {} (.dg first (.ok a') victim)).2 = [Ev.dial a' true, Ev.write a'] := by
  simp [stepOp, feedConn, route, afterDial, h1, h2, writeEvs]

/-- The decision cache never holds more than `maxSessionACLCache` entries, and its keys are distinct
    (so the list really is a map). -/
theorem cache_bounded (P : Addr → Bool) (hP : P "" = false) (ops : List Op) (hc : AllContract P ops) :
    (final P ops).acl.cache.length ≤ Gen.maxSessionACLCache ∧ (keys (final P ops).acl.cache).Nodup :=
  let h := inv_run P cap const_cap_pos hP ops {} hc (inv_init P cap)
  ⟨h.bounded, h.nodup⟩

/-- The cache is invisible: the per-datagram verdict equals the policy's, hit or miss. -/
theorem verdict_is_policy (P : Addr → Bool) (hP : P "" = false) (ops : List Op) (hc : AllContract P ops)
    (a victim : Addr) :
    (checkAddr P cap (final P ops).acl.cache a victim).2.1 = P a :=
  checkAddr_verdict P cap _ a victim (cache_sound P hP ops hc)

/-! ### non-vacuity: concrete histories meeting the hypotheses, and the necessity of `P "" = false` -/

/-- a policy that denies "b:1" and the empty address -/
def exP : Addr → Bool := fun a => a ≠ "" && a ≠ "b:1"

def exOps : List Op :=
  [.dg "a:1" (.ok "a:1") "", .dg "b:1" .hookErr "", .dg "c:1" .hookErr "a:1", .dg "b:1" .hookErr "", .reply "c:1"]

example : AllContract exP exOps ∧ exP "" = false := by
  refine ⟨?_, by decide⟩
  intro op h
  simp only [exOps, List.mem_cons, List.mem_nil_iff, or_false] at h
  rcases h with h | h | h | h | h <;> subst h <;> simp [DialContract] <;> decide

/-- the history writes to a:1 and c:1, checks b:1 once (second time is a cache hit), never writes b:1 -/
example : trace exP exOps =
    [.dial "a:1" true, .write "a:1", .check "b:1", .check "c:1", .write "c:1", .up "c:1"] := by decide

/-- a hooked session: everything goes to h:9, replies come "from" a:1 -/
example : trace exP [.dg "a:1" (.ok "h:9") "", .dg "b:1" .hookErr "", .reply "h:9"] =
    [.dial "h:9" true, .write "h:9", .write "h:9", .up "a:1"] := by decide

/-- eviction with capacity 2 (the theorems hold for every capacity ≥ 1; 256 is the regenerated one) -/
example : (run exP 2 {} [.dg "a:1" (.ok "a:1") "", .dg "c:1" .hookErr "", .dg "d:1" .hookErr "a:1"]).1.acl.cache =
    [("d:1", true), ("c:1", true)] := by decide

/-- Without `P "" = false` the property FAILS in the model (so the hypothesis is not decoration):
    a hook that rewrites to "" and an outbound that accepts "" leave `OverrideAddr == ""`, so Feed
    seeds the ORIGINAL, never-vetted destination as allowed and writes to it. No hook or outbound in
    the repository does this (`PluggableOutboundAdapter.UDP("")` fails in `net.SplitHostPort`). -/
theorem no_empty_guard_counterexample :
    let P : Addr → Bool := fun a => a = ""
    AllContract P [.dg "x:1" (.ok "") ""] ∧ P "x:1" = false ∧
      Ev.write "x:1" ∈ (run P cap {} [.dg "x:1" (.ok "") ""]).2 := by
  refine ⟨?_, by decide, by decide⟩
  intro op h
  simp only [List.mem_singleton] at h
  subst h; simp [DialContract]

end Hy.Props.C08
