/-
  C03 (part): the speed-test server and the client's reply readers never fault, for every
  byte stream and every chunking; the transfer loop's uint32 counter never wraps and its
  slice is always in bounds, for every sequence of reads that obeys the io.Reader contract.
-/
import Hy.Model.Speedtest
import Hy.Proofs.Frame
namespace Hy.Props.C03Speedtest
open Hy Hy.Frame Hy.Speedtest

def Req.map {σ τ} (f : σ → τ) : Req σ → Req τ
  | .eof => .eof
  | .unknown t => .unknown t
  | .download l s => .download l (f s)
  | .upload l s => .upload l (f s)

def Resp.map {σ τ} (f : σ → τ) : Resp σ → Resp τ
  | .eof => .eof
  | .ok st m s => .ok st m (f s)

theorem readReq_sim {σ τ} {O : Ops σ} {P : Ops τ} {f : σ → τ} (h : Sim O P f) (s : σ) :
    Req.map f (readReq O s) = readReq P (f s) := by
  unfold readReq
  rcases sim_cases (h.take 1 s) with ⟨e, e'⟩ | ⟨t, s1, e, e'⟩
  · rw [e, e']; rfl
  rw [e, e']; simp only
  split
  · rcases sim_cases (h.take 4 s1) with ⟨e1, e2⟩ | ⟨l, s2, e1, e2⟩
    · rw [e1, e2]; rfl
    · rw [e1, e2]; rfl
  · split
    · rcases sim_cases (h.take 4 s1) with ⟨e1, e2⟩ | ⟨l, s2, e1, e2⟩
      · rw [e1, e2]; rfl
      · rw [e1, e2]; rfl
    · rfl

/-- the request the server acts on does not depend on how the peer's bytes are chunked -/
theorem request_chunking_irrelevant (cs : List Bytes) :
    Req.map List.flatten (readReq chunked cs) = readReq flat cs.flatten :=
  readReq_sim chunked_sim cs

theorem readReply_sim {σ τ} {O : Ops σ} {P : Ops τ} {f : σ → τ} (h : Sim O P f) (s : σ) :
    Resp.map f (readReply O s) = readReply P (f s) := by
  unfold readReply
  rcases sim_cases (h.take 1 s) with ⟨e, e'⟩ | ⟨t, s1, e, e'⟩
  · rw [e, e']; rfl
  rw [e, e']; simp only
  rcases sim_cases (h.take 2 s1) with ⟨e1, e2⟩ | ⟨l, s2, e1, e2⟩
  · rw [e1, e2]; rfl
  rw [e1, e2]; simp only
  split
  · rfl
  · rcases sim_cases (h.take (beVal l) s2) with ⟨e3, e4⟩ | ⟨m, s3, e3, e4⟩
    · rw [e3, e4]; rfl
    · rw [e3, e4]; rfl

theorem response_chunking_irrelevant (cs : List Bytes) :
    Resp.map List.flatten (readReply chunked cs) = readReply flat cs.flatten :=
  readReply_sim chunked_sim cs

theorem beVal_append_lt (bs : Bytes) (acc : Nat) :
    bs.foldl (fun a b => a * 256 + b.val) acc < (acc + 1) * 256 ^ bs.length := by
  induction bs generalizing acc with
  | nil => simp
  | cons b bs ih =>
    simp only [List.foldl_cons, List.length_cons]
    have := ih (acc * 256 + b.val)
    have hb := b.isLt
    calc _ < (acc * 256 + b.val + 1) * 256 ^ bs.length := this
      _ ≤ ((acc + 1) * 256) * 256 ^ bs.length := Nat.mul_le_mul_right _ (by omega)
      _ = (acc + 1) * 256 ^ (bs.length + 1) := by rw [Nat.mul_assoc, Nat.pow_succ, Nat.mul_comm 256]

theorem beVal_lt (bs : Bytes) : beVal bs < 256 ^ bs.length := by
  have := beVal_append_lt bs 0
  simpa [beVal] using this

theorem takeF_length {n : Nat} {l a r : Bytes} (h : takeF n l = some (a, r)) : a.length = n := by
  unfold takeF at h
  split at h
  · simp only [Option.some.injEq, Prod.mk.injEq] at h
    rw [← h.1, List.length_take]; omega
  · simp at h

/-- a (hostile) server's reply never makes the client allocate more than 65535 bytes -/
theorem response_alloc_bounded (bs : Bytes) : replyAlloc flat bs ≤ 65535 := by
  unfold replyAlloc
  split
  · omega
  · rename_i s1 _
    split
    · omega
    · rename_i l s2 h2
      have hl : l.length = 2 := takeF_length (by simpa [flat] using h2)
      have := beVal_lt l
      rw [hl] at this
      omega

/-- requested sizes are what the 4 length bytes say, below 2^32 -/
theorem request_len_bounded (bs : Bytes) (l : Nat) (r : Bytes)
    (h : readReq flat bs = .download l r ∨ readReq flat bs = .upload l r) : l < 4294967296 := by
  unfold readReq at h
  split at h
  · rcases h with h | h <;> simp at h
  · rename_i t s1 _
    simp only at h
    split at h
    · split at h
      · rcases h with h | h <;> simp at h
      · rename_i lb s2 h4
        have hl : lb.length = 4 := takeF_length (by simpa [flat] using h4)
        have hb := beVal_lt lb
        rw [hl] at hb
        rcases h with h | h
        · simp only [Req.download.injEq] at h; omega
        · simp at h
    · split at h
      · split at h
        · rcases h with h | h <;> simp at h
        · rename_i lb s2 h4
          have hl : lb.length = 4 := takeF_length (by simpa [flat] using h4)
          have hb := beVal_lt lb
          rw [hl] at hb
          rcases h with h | h
          · simp at h
          · simp only [Req.upload.injEq] at h; omega
      · rcases h with h | h <;> simp at h

/-- the io.Reader contract for the loop: every read returns at most what was asked for -/
def Contract : Nat → List (Nat × Bool) → Prop
  | _, [] => True
  | rem, (rn, _) :: rest =>
    rem = 0 ∨ (rn ≤ (if rem > chunkSize then chunkSize else rem) ∧ Contract (rem - rn) rest)

/-- Transfer loop (server upload / client size-mode download): with the code's buffer of
    `chunkSize` bytes and any reads obeying the io.Reader contract, the slice `buf[:n]` never
    faults and the uint32 counter never wraps: the loop's `remaining` is the true remainder. -/
theorem loop_safe (fuel rem : Nat) (reads : List (Nat × Bool)) (hrem : rem < 4294967296)
    (hc : Contract rem reads) :
    ∃ e r, loop chunkSize fuel rem reads = .ok (e, r) ∧ r ≤ rem := by
  induction fuel generalizing rem reads with
  | zero => exact ⟨.starved, rem, rfl, Nat.le_refl _⟩
  | succ fuel ih =>
    unfold loop
    by_cases h0 : rem = 0
    · simp [h0]
    · simp only [h0, ↓reduceIte]
      have hn : ¬ ((if rem > chunkSize then chunkSize else rem) > chunkSize) := by split <;> omega
      simp only [hn, ↓reduceIte]
      cases reads with
      | nil => exact ⟨.starved, rem, rfl, Nat.le_refl _⟩
      | cons p rest =>
        obtain ⟨rn, eof⟩ := p
        simp only [Contract, h0, false_or] at hc
        obtain ⟨hrn, hrest⟩ := hc
        have hle : rn ≤ rem := by split at hrn <;> omega
        have hmod : (rem + 4294967296 - rn % 4294967296) % 4294967296 = rem - rn := by omega
        simp only [hmod]
        split
        · exact ⟨.err, rem - rn, rfl, by omega⟩
        · obtain ⟨e, r, h1, h2⟩ := ih (rem - rn) rest (by omega) hrest
          exact ⟨e, r, h1, by omega⟩

/-- pinned constants of the model -/
theorem chunk_const : chunkSize = 64 * 1024 := by decide

/-! non-vacuity -/
example : readReq chunked [[byte 1], [byte 0, byte 0], [byte 1, byte 0, byte 9]] = .download 256 [[byte 9]] := by decide
example : Contract 100000 [(65536, false), (30000, false), (4464, true)] := by
  simp [Contract, chunkSize]
example : loop chunkSize 10 100000 [(65536, false), (30000, false), (4464, true)] = .ok (.done, 0) := by decide

end Hy.Props.C03Speedtest
