/-
  C07 — Server UDP sessions are isolated, expire when idle, and never leak.
  Property theorems only.  Model: Hy.Model.UdpSession (goroutine programs of core/server/udp.go as
  atomic steps); proofs: Hy.Proofs.UdpSession{Sk,Inv,Step,Step2,Live}.

  Quantification.  `sched : List Label` is an arbitrary interleaving of the receive loop, every reply
  loop, the sweeper, the second halves of CloseWithErr and the environment (client datagrams of any
  session id — complete, fragments, malformed —, remote packets, read / write / dial / hook / send
  failures, timer ticks at any times, loss of the connection); a label that is not enabled is the
  identity, so `∀ sched` is "every schedule, every fault sequence".  `c : Cfg` is an arbitrary
  policy, cache capacity and idle timeout.  `reach c sched` is the state after `sched` from the
  initial state.

  Where a clause needs the runtime to deliver something (the ticker fires; a pending step is
  eventually scheduled) that is an explicit hypothesis of the theorem, never an assumption of the model.
-/
import Hy.Gen.Core
import Hy.Proofs.UdpSessionLive
namespace Hy.Props.C07
open Hy Hy.UdpSession
open Hy.UdpAcl (Addr DialRes)

/-! ### obligations on the regenerated constants -/

/-- the sweep interval is positive (`expiry_within_one_interval` divides by it) -/
theorem const_interval_pos : 0 < Gen.idleCleanupIntervalNs := by decide
/-- the value the property text quotes: one second -/
theorem const_interval : Gen.idleCleanupIntervalNs = 1000000000 := by decide

/-! ### the skeleton of udp.go the model's atomic steps were written from (regenerated from the source)

  Source-order lock/unlock calls, go statements, calls, returns, branch conditions and writes of the
  guarded fields of each concurrent function.  How they map to labels is in the header of
  Hy.Model.UdpSession: e.g. `CloseWithErr` = [Lock; closed test; closed := true; Close; Unlock] (`closeA`)
  then `ExitFunc` (`exitB`); `initConn` holds connLock across the closed test, the dial and `go receiveLoop`
  (`feedA`), and on a failed dial unlocks BEFORE calling CloseWithErr (`rlCloseA` is a separate step).
  A test dropped from a lock region, a call moved across an unlock, a changed sweep condition or a
  different id in the upstream message changes these strings and the obligation fails here.
  `def(x:=make)` records that a slice is a fresh local allocation (cleanup's snapshot runs on two goroutines
  under the READ lock only: it must not be a view of anything shared); `set(m.…)` is any write of a manager field.
  The override/original-address bookkeeping and the decision cache are C08's part of these functions and
  are left out of these strings (they are obligations of Hy.Props.C08). -/

theorem skeleton_CloseWithErr : Gen.udpSkel_CloseWithErr =
    "e.connLock.Lock if(e.closed){ e.connLock.Unlock ret } set(e.closed) if(e.conn!=nil){ e.conn.Close } e.connLock.Unlock e.ExitFunc" := rfl
theorem skeleton_FeedHead : Gen.udpSkel_FeedHead =
    "e.Last.Set e.D.Feed if(dfMsg==nil){ ret }" := rfl
theorem skeleton_initConn : Gen.udpSkel_initConn =
    "e.connLock.Lock if(e.closed){ e.connLock.Unlock ret } e.DialFunc if(err!=nil){ e.connLock.Unlock e.CloseWithErr ret } set(e.conn) go(e.receiveLoop) e.connLock.Unlock ret" := rfl
theorem skeleton_receiveLoop : Gen.udpSkel_receiveLoop =
    "def(udpBuf:=make) def(msgBuf:=make) for{ e.conn.ReadFrom if(err!=nil){ e.CloseWithErr ret } e.Last.Set msg{SessionID:e.ID} sendMessageAutoFrag if(err!=nil){ e.CloseWithErr ret } }" := rfl
theorem skeleton_Run : Gen.udpSkel_Run =
    "def(stopCh:=make) go(m.idleCleanupLoop) defer(close) defer(m.cleanup) for{ m.io.ReceiveMessage if(err!=nil){ ret } m.feed }" := rfl
theorem skeleton_idleCleanupLoop : Gen.udpSkel_idleCleanupLoop =
    "time.NewTicker defer(ticker.Stop) for{ select{ case(<-ticker.C): m.cleanup case(<-stopCh): ret } }" := rfl
theorem skeleton_cleanup : Gen.udpSkel_cleanup =
    "m.mutex.RLock def(timeoutEntry:=make) range(m.m){ if(!idleOnly||now.Sub(entry.Last.Get())>m.idleTimeout){ } } m.mutex.RUnlock range(timeoutEntry){ entry.CloseWithErr }" := rfl
theorem skeleton_feed : Gen.udpSkel_feed =
    "m.mutex.RLock m.mutex.RUnlock if(entry==nil){ func{ m.io.Hook if(err!=nil){ ret } m.eventLogger.New m.io.UDP ret } func{ m.eventLogger.Close m.mutex.Lock delete(m.m,entry.ID) m.mutex.Unlock } newUDPSessionEntry m.mutex.Lock set(m.m[msg.SessionID]) m.mutex.Unlock } entry.Feed" := rfl
theorem skeleton_Count : Gen.udpSkel_Count =
    "m.mutex.RLock defer(m.mutex.RUnlock) ret" := rfl

abbrev reach (c : Cfg) (sched : List Label) : St := run c {} sched

theorem reach_inv (c : Cfg) (sched : List Label) : Inv (reach c sched) := inv_run c sched {} inv_init

/-! ### isolation -/

/-- Each socket belongs to the session whose datagram opened it: on socket k, opened on behalf of
    session `sid` (the `dial` event), every `WriteTo` carries a datagram that arrived under `sid`, and
    every packet read from k goes upstream tagged `sid` — in every schedule, also across id reuse. -/
theorem isolation (c : Cfg) (sched : List Label) (k sid : Nat) (a : Addr)
    (hd : Ev.dial sid a (some k) ∈ (reach c sched).evs) :
    (∀ ms a' d ok, Ev.write k ms a' d ok ∈ (reach c sched).evs → ms = sid) ∧
    (∀ sid' f d, Ev.up k sid' f d ∈ (reach c sched).evs → sid' = sid) := by
  have hI := reach_inv c sched
  have h0 : Opener (sk (reach c sched)) k sid := hI.evs _ hd
  obtain ⟨_, e0, he0, hs0⟩ := h0
  constructor
  · intro ms a' d ok hm
    have h1 : Opener (sk (reach c sched)) k ms := hI.evs _ hm
    obtain ⟨_, e1, he1, hs1⟩ := h1
    rw [he0] at he1; simp at he1; subst he1; rw [← hs1, hs0]
  · intro sid' f d hm
    have h1 : Opener (sk (reach c sched)) k sid' := hI.evs _ hm
    obtain ⟨_, e1, he1, hs1⟩ := h1
    rw [he0] at he1; simp at he1; subst he1; rw [← hs1, hs0]

/-- every socket that is written to or read from is one the manager opened (token below the mark) and
    still has the entry that opened it -/
theorem io_only_on_opened (c : Cfg) (sched : List Label) (k ms : Nat) (a : Addr) (d : String) (ok : Bool)
    (hm : Ev.write k ms a d ok ∈ (reach c sched).evs) :
    k < (reach c sched).nSock ∧ ∃ e, (reach c sched).ent ((reach c sched).sockEnt k) = some e ∧ e.sid = ms ∧ e.conn = some k := by
  have hI := reach_inv c sched
  have h1 : Opener (sk (reach c sched)) k ms := hI.evs _ hm
  obtain ⟨hk, _, _, _⟩ := h1
  obtain ⟨e, he, hconn, _⟩ := close_count _ hI k hk
  have h1 : Opener (sk (reach c sched)) k ms := hI.evs _ hm
  obtain ⟨_, ce, hce, hs⟩ := h1
  have hce' : (sk (reach c sched)).ce ((reach c sched).sockEnt k) = some ce := hce
  rw [sk_ce_some he] at hce'; simp at hce'; subst hce'
  exact ⟨hk, e, he, hs, hconn⟩

/-- the session table is a function: the entry found under an id has that id, and a live entry
    (not closed, or closed with its exit still pending) is the one the table holds under its id -/
theorem table_functional (c : Cfg) (sched : List Label) :
    (∀ sid i, (reach c sched).tbl sid = some i → ∃ e, (reach c sched).ent i = some e ∧ e.sid = sid) ∧
    (∀ i e, (reach c sched).ent i = some e → (e.closed = false ∨ e.exitPending = true) → (reach c sched).tbl e.sid = some i) := by
  have hI := reach_inv c sched
  constructor
  · intro sid i h
    obtain ⟨ce, hce, hs, _⟩ := hI.skI.tblT sid i h
    obtain ⟨e, he, hcore⟩ := sk_ce_inv hce
    subst hcore; exact ⟨e, he, hs⟩
  · intro i e he hl
    exact hI.skI.tblU i e.core (sk_ce_some he) hl

/-- `delete(m.m, entry.ID)` in the exit function removes the entry that is exiting — never a newer
    session that reuses the id (the exit function runs once per entry, while it is still in the table). -/
theorem exit_deletes_own (c : Cfg) (sched : List Label) (i : Nat) (e : Entry)
    (he : (reach c sched).ent i = some e) (hp : e.exitPending = true) :
    (reach c sched).tbl e.sid = some i :=
  (table_functional c sched).2 i e he (Or.inr hp)

/-! ### every socket is closed exactly once -/

/-- Safety, every schedule: `Close()` has been called on an opened socket 0 times while its session is
    open and exactly once after — never twice. -/
theorem close_at_most_once (c : Cfg) (sched : List Label) (k : Nat) (hk : k < (reach c sched).nSock) :
    (reach c sched).sock k ≤ 1 ∧
    ∃ e, (reach c sched).ent ((reach c sched).sockEnt k) = some e ∧ e.conn = some k ∧
      ((reach c sched).sock k = 1 ↔ e.closed = true) := by
  obtain ⟨e, he, hconn, hs⟩ := close_count _ (reach_inv c sched) k hk
  refine ⟨?_, e, he, hconn, ?_⟩
  · rw [hs]; split <;> omega
  · rw [hs]; cases e.closed <;> simp

/-- Liveness at quiescence: once the connection is lost and no goroutine can move without new input
    (`Quiescent`: every step other than a client datagram, a remote packet, a spontaneous read error,
    a tick or the loss itself is disabled — hypothesis: the scheduler has run every enabled step),
    every opened socket has been closed exactly once, the table is empty, the receive loop and the
    sweeper have returned, and no reply loop is left. -/
theorem close_exactly_once (c : Cfg) (sched : List Label)
    (hdown : (reach c sched).down = true) (hq : Quiescent c (reach c sched)) :
    (∀ k, k < (reach c sched).nSock → (reach c sched).sock k = 1) ∧
    (∀ sid, (reach c sched).tbl sid = none) ∧
    (reach c sched).rl = .done ∧ (reach c sched).sw = .done ∧
    (∀ i e, (reach c sched).ent i = some e → e.lp = .off ∧ e.closed = true ∧ e.exitPending = false) := by
  obtain ⟨h1, h2, h3, h4, h5⟩ := quiescent_census c _ (reach_inv c sched) hdown hq
  exact ⟨h5, h3, h1, h2, h4⟩

/-! ### no socket after exit -/

/-- Once an entry is closed, nothing that happens later gives it a socket: its `conn` field is
    frozen (the `closed` test under `connLock` in `initConn`), in every continuation. -/
theorem no_socket_after_exit (c : Cfg) (sched sched' : List Label) (i : Nat) (e : Entry)
    (he : (reach c sched).ent i = some e) (hc : e.closed = true) :
    ∃ e', (reach c (sched ++ sched')).ent i = some e' ∧ e'.closed = true ∧ e'.conn = e.conn := by
  have hI := reach_inv c sched
  have hm := mono_run c sched' _ hI
  obtain ⟨ce', hce', _, _, hcl⟩ := hm.ent i e.core (sk_ce_some he)
  obtain ⟨e', he', hcore⟩ := sk_ce_inv hce'
  subst hcore
  obtain ⟨a, b⟩ := hcl (by simp [Entry.core, hc])
  refine ⟨e', ?_, a, b⟩
  show (run c {} (sched ++ sched')).ent i = some e'
  rw [run_append]; exact he'

/-- …and no socket opened later belongs to it. -/
theorem no_new_socket_for_closed (c : Cfg) (sched sched' : List Label) (i : Nat) (e : Entry)
    (he : (reach c sched).ent i = some e) (hc : e.closed = true) (k : Nat)
    (hk1 : (reach c sched).nSock ≤ k) (hk2 : k < (reach c (sched ++ sched')).nSock) :
    (reach c (sched ++ sched')).sockEnt k ≠ i := by
  intro heq
  obtain ⟨e', he', _, hconn⟩ := no_socket_after_exit c sched sched' i e he hc
  obtain ⟨e2, he2, hconn2, _⟩ := close_count _ (reach_inv c (sched ++ sched')) k hk2
  rw [heq, he'] at he2; simp at he2; subst he2
  rw [hconn] at hconn2
  have := (reach_inv c sched).skI.conn i e.core k (sk_ce_some he) (by simp [Entry.core, hconn2])
  have h3 : k < (reach c sched).nSock := this.1
  omega

/-! ### idle expiry, and activity keeps a session -/

/-- A sweep selects exactly the table entries whose last activity is more than the timeout ago. -/
theorem tick_selects (c : Cfg) (sched : List Label) (now : Nat) (hsw : (reach c sched).sw = .idle) :
    ∃ sel, (step c (reach c sched) (.tick now)).sw = .closing now sel sel ∧
      ∀ i, i ∈ sel ↔ ∃ e, (reach c sched).ent i = some e ∧ (reach c sched).tbl e.sid = some i ∧ e.last + c.timeout < now :=
  ⟨_, tick_sel c _ now hsw, fun i => mem_idle_scan c _ (reach_inv c sched) now i⟩

/-- idle_expiry: a session in the table whose last activity (either direction) is more than the idle
    timeout before a sweep at `now` is closed by that sweep — in every continuation it is either
    already closed, or the sweeper is still inside that same sweep with the entry pending (so under
    the hypothesis that the sweeper gets to run — `hrun` — it is closed). -/
theorem idle_expiry (c : Cfg) (sched sched' : List Label) (now i : Nat) (e : Entry)
    (hsw : (reach c sched).sw = .idle)
    (he : (reach c sched).ent i = some e) (ht : (reach c sched).tbl e.sid = some i)
    (hidle : e.last + c.timeout < now) :
    SweepPending now i (reach c (sched ++ [.tick now] ++ sched')) ∧
    ((∀ sel p, (reach c (sched ++ [.tick now] ++ sched')).sw = .closing now sel p → i ∉ p) →
      ∃ e', (reach c (sched ++ [.tick now] ++ sched')).ent i = some e' ∧ e'.closed = true) := by
  have hI := reach_inv c sched
  have h1 : SweepPending now i (step c (reach c sched) (.tick now)) := by
    right
    refine ⟨_, _, tick_sel c _ now hsw, ?_⟩
    exact (mem_idle_scan c _ hI now i).mpr ⟨e, he, ht, hidle⟩
  have h2 := sweepPending_run c now i sched' _ (inv_step c _ _ hI) h1
  have heq : reach c (sched ++ [.tick now] ++ sched') = run c (step c (reach c sched) (.tick now)) sched' := by
    show run c {} (sched ++ [.tick now] ++ sched') = _
    rw [run_append, run_append]; rfl
  rw [heq]
  refine ⟨h2, ?_⟩
  intro hrun
  rcases h2 with h | ⟨sel, p, hs, hip⟩
  · exact h
  · exact absurd hip (hrun sel p hs)

/-- …and once closed with no exit pending it is out of the table (its id is free again). -/
theorem closed_leaves_table (c : Cfg) (sched : List Label) (i : Nat) (e : Entry)
    (he : (reach c sched).ent i = some e) (hc : e.closed = true) (hp : e.exitPending = false) :
    (reach c sched).tbl e.sid ≠ some i := by
  intro h
  obtain ⟨ce, hce, _, hl⟩ := (reach_inv c sched).skI.tblT e.sid i h
  rw [sk_ce_some he] at hce; simp at hce; subst hce
  rcases hl with hl | hl
  · simp [Entry.core, hc] at hl
  · simp [Entry.core, hp] at hl

/-- Timer delivery as a hypothesis: if the ticker fires at every multiple of the interval after `t0`,
    then for any last-activity time there is a tick later than `last + timeout` and at most one interval
    later — "within one sweep interval". -/
theorem expiry_within_one_interval (t0 last timeout : Nat) (hle : t0 ≤ last + timeout) :
    ∃ n, last + timeout < t0 + n * Gen.idleCleanupIntervalNs ∧
         t0 + n * Gen.idleCleanupIntervalNs ≤ last + timeout + Gen.idleCleanupIntervalNs := by
  have hpos := const_interval_pos
  refine ⟨(last + timeout - t0) / Gen.idleCleanupIntervalNs + 1, ?_, ?_⟩
  · have := Nat.lt_div_mul_add (a := last + timeout - t0) hpos
    rw [Nat.add_mul]; omega
  · have := Nat.div_mul_le_self (last + timeout - t0) Gen.idleCleanupIntervalNs
    rw [Nat.add_mul]; omega

/-- activity_keeps: a session whose last activity is within the timeout of a sweep is not selected by
    it, and the sweeper closes only what a sweep selected — so a session that is active before every
    sweep is never closed by the sweeper. -/
theorem activity_keeps (c : Cfg) (sched : List Label) (now i : Nat) (e : Entry)
    (hsw : (reach c sched).sw = .idle) (he : (reach c sched).ent i = some e)
    (hact : now ≤ e.last + c.timeout) :
    ∃ sel, (step c (reach c sched) (.tick now)).sw = .closing now sel sel ∧ i ∉ sel := by
  obtain ⟨sel, h1, h2⟩ := tick_selects c sched now hsw
  refine ⟨sel, h1, ?_⟩
  intro hi
  obtain ⟨e', he', _, hl⟩ := (h2 i).mp hi
  rw [he] at he'; simp at he'; subst he'; omega

theorem sweeper_closes_only_selected (c : Cfg) (sched : List Label) (i : Nat)
    (hne : step c (reach c sched) (.swClose i) ≠ reach c sched) :
    ∃ now sel p, (reach c sched).sw = .closing now sel p ∧ i ∈ p ∧ i ∈ sel := by
  have hI := reach_inv c sched
  cases hsw : (reach c sched).sw with
  | idle => exact absurd (by simp [step, hsw]) hne
  | done => exact absurd (by simp [step, hsw]) hne
  | closing now sel p =>
    by_cases hm : i ∈ p
    · have hswok := hI.sw; rw [hsw] at hswok
      exact ⟨now, sel, p, rfl, hm, hswok.2 i hm⟩
    · exact absurd (by simp [step, hsw, hm]) hne

/-- Both directions refresh the activity timestamp: a client datagram (any fragment) … -/
theorem feed_refreshes (c : Cfg) (s : St) (i now : Nat) (m : Msg) (d : DialRes) (e : Entry)
    (hrl : s.rl = .feed i m) (he : s.ent i = some e) :
    ∃ e', (step c s (.feedA now d)).ent i = some e' ∧ e'.last = now := by
  simp only [step, hrl, he]
  repeat' split
  all_goals simp [setEnt, emit, upd]

/-- … and a packet from the remote side. -/
theorem reply_refreshes (c : Cfg) (s : St) (i now k : Nat) (src : Addr) (data : String) (e : Entry)
    (he : s.ent i = some e) (hlp : e.lp = .read) (hconn : e.conn = some k) (hopen : s.sock k = 0) :
    ∃ e', (step c s (.loopRead i now (some (src, data)))).ent i = some e' ∧ e'.last = now := by
  simp [step, he, hlp, hconn, hopen, setEnt, emit, upd]

/-! ### a fresh session after expiry -/

/-- A datagram for an id that is not in the table (never seen, or its entry was removed) creates a
    new entry — a new index, never an old one — and, being complete and the dial succeeding, a new
    socket: a token never used before, with zero closes, owned by the new entry.
    (`recv; lookup; insert; feedA` is the receive loop's own program order; other goroutines' steps may
    interleave — they cannot touch the new entry before it is in the table, cf. `table_functional`.) -/
theorem fresh_after_expiry (c : Cfg) (sched : List Label) (m : Msg) (now : Nat) (a : Addr)
    (hrl : (reach c sched).rl = .idle) (hup : (reach c sched).down = false)
    (hfree : (reach c sched).tbl m.sid = none) (hcomplete : m.fcnt ≤ 1) :
    (reach c sched).ent (reach c sched).nEnt = none ∧
    (reach c (sched ++ [.recv m, .lookup, .insert now, .feedA now (.ok a)])).tbl m.sid = some (reach c sched).nEnt ∧
    (∃ e', (reach c (sched ++ [.recv m, .lookup, .insert now, .feedA now (.ok a)])).ent (reach c sched).nEnt = some e' ∧
        e'.sid = m.sid ∧ e'.closed = false ∧ e'.conn = some (reach c sched).nSock ∧ e'.lp = .read) ∧
    (reach c (sched ++ [.recv m, .lookup, .insert now, .feedA now (.ok a)])).nSock = (reach c sched).nSock + 1 ∧
    (reach c (sched ++ [.recv m, .lookup, .insert now, .feedA now (.ok a)])).sock (reach c sched).nSock = 0 ∧
    (reach c (sched ++ [.recv m, .lookup, .insert now, .feedA now (.ok a)])).sockEnt (reach c sched).nSock = (reach c sched).nEnt := by
  have hfr : (reach c sched).ent (reach c sched).nEnt = none := by
    have := (reach_inv c sched).skI.fresh (reach c sched).nEnt (Nat.le_refl _)
    rw [sk_ce] at this
    cases h : (reach c sched).ent (reach c sched).nEnt with
    | none => rfl
    | some e => rw [h] at this; simp at this
  have hs' : reach c (sched ++ [.recv m, .lookup, .insert now, .feedA now (.ok a)]) =
      run c (reach c sched) [.recv m, .lookup, .insert now, .feedA now (.ok a)] := by
    show run c {} _ = _; rw [run_append]
  refine ⟨hfr, ?_⟩
  rw [hs']
  generalize reach c sched = s at hrl hup hfree
  have h1 : step c s (.recv m) = { s with rl := .got m } := by simp [step, hrl, hup]
  have h2 : step c { s with rl := .got m } .lookup = { s with rl := .create m } := by simp [step, hfree]
  have h3 : step c { s with rl := .create m } (.insert now) =
      { s with ent := upd s.ent s.nEnt (some { sid := m.sid, last := now }), nEnt := s.nEnt + 1,
               tbl := upd s.tbl m.sid (some s.nEnt), rl := .feed s.nEnt m } := by simp [step]
  simp only [run, List.foldl, h1, h2, h3]
  simp [step, Defrag.feed, hcomplete, upd, setEnt, emit]

/-! ### non-vacuity: concrete schedules, by evaluation -/

def exCfg : Cfg := { P := fun a => a ≠ "" && a ≠ "b:1", cap := Gen.maxSessionACLCache, timeout := 2000 }
def exM (sid : Nat) (addr : Addr) (data : String) : Msg := { sid, pid := 0, fid := 0, fcnt := 1, addr, data }

/-- two sessions, one reply each way, an idle sweep that closes both, then connection loss -/
def exSched : List Label :=
  [.recv (exM 5 "a:1" "aa"), .lookup, .insert 0, .feedA 0 (.ok "a:1"), .feedB "" true,
   .recv (exM 6 "c:1" "cc"), .lookup, .insert 10, .feedA 10 (.ok "c:1"), .feedB "" true,
   .loopRead 1 20 (some ("c:1", "dd")), .loopSent 1 true,
   .tick 3000, .swClose 1, .exitB 1, .swClose 0, .exitB 0, .swDone,
   .loopRead 0 3000 none, .loopCloseA 0, .loopRead 1 3000 none, .loopCloseA 1,
   .connLost, .recvErr, .rlStopDone, .swStop]

example : (reach exCfg exSched).evs.reverse =
    [.hook "a:1" (some "a:1"), .new 5 "a:1", .dial 5 "a:1" (some 0), .write 0 5 "a:1" "aa" true,
     .hook "c:1" (some "c:1"), .new 6 "c:1", .dial 6 "c:1" (some 1), .write 1 6 "c:1" "cc" true,
     .up 1 6 "c:1" "dd",
     .close 1, .logClose 6 false, .close 0, .logClose 5 false] := by decide

/-- the hypotheses of `close_exactly_once` are met by that schedule: connection lost, final program
    counters, table empty, both sockets closed once (the conclusions, evaluated) -/
example : (reach exCfg exSched).down = true ∧ (reach exCfg exSched).rl = .done ∧ (reach exCfg exSched).sw = .done ∧
    (reach exCfg exSched).tbl 5 = none ∧ (reach exCfg exSched).tbl 6 = none ∧
    (reach exCfg exSched).sock 0 = 1 ∧ (reach exCfg exSched).sock 1 = 1 ∧ (reach exCfg exSched).nSock = 2 := by decide

/-- `idle_expiry`'s hypotheses: after the first twelve labels the sweeper is idle and entry 0 (session 5,
    last activity 0, timeout 2000) is in the table and idle at 3000; `activity_keeps`: not at 1500 -/
example : (reach exCfg (exSched.take 12)).sw = .idle ∧
    (∃ e, (reach exCfg (exSched.take 12)).ent 0 = some e ∧ (reach exCfg (exSched.take 12)).tbl e.sid = some 0 ∧
      e.last + exCfg.timeout < 3000 ∧ 1500 ≤ e.last + exCfg.timeout) := by
  refine ⟨by decide, _, rfl, by decide, by decide, by decide⟩

/-- `fresh_after_expiry`'s hypotheses after the sweep: id 5 is free again, receive loop idle -/
example : (reach exCfg (exSched.take 22)).rl = .idle ∧ (reach exCfg (exSched.take 22)).down = false ∧
    (reach exCfg (exSched.take 22)).tbl 5 = none ∧ (exM 5 "a:1" "ee").fcnt ≤ 1 := by decide

/-- the race the `closed` test in initConn exists for, as a schedule: the receive loop has looked
    entry 0 up (only a first fragment so far, no socket), the sweeper expires it, the receive loop then
    completes the datagram through its stale pointer — no dial happens, no socket is created -/
example :
    let sched : List Label :=
      [.recv { sid := 5, pid := 1, fid := 0, fcnt := 2, addr := "a:1", data := "aa" }, .lookup, .insert 0,
       .feedA 0 .hookErr,
       .recv { sid := 5, pid := 1, fid := 1, fcnt := 2, addr := "a:1", data := "bb" }, .lookup,
       .tick 3000, .swClose 0, .exitB 0, .swDone,
       .feedA 3000 (.ok "a:1"), .feedB "" true]
    (reach exCfg sched).nSock = 0 ∧ (reach exCfg sched).evs.reverse = [.logClose 5 false] ∧
    (reach exCfg sched).rl = .idle := by decide

end Hy.Props.C07
