/-
  C09 — ACL decisions are first-match and independent of lookup history.
  Property theorems only; helper lemmas live in Hy.Proofs.Acl.

  Model: Hy.Model.Acl (extras/outbounds/acl/{parse,compile,matchers}.go and
  aclEngine.handle of extras/outbounds/acl.go).  `U` is `idna.ToUnicode` (any function),
  `evict` is what the LRU drops (any predicate on keys, at every call).  The port test is the
  one of the REPAIRED code (fixes/D8.patch); the pinned tree's test is `portOkPinned` and its
  failure is the `decide`-checked `d8_pinned_counterexample` below.
  Outside the model: geoip:/geosite: matchers, non-ASCII rule text.
-/
import Hy.Proofs.Acl
import Hy.Gen.Extras
set_option linter.unusedSimpArgs false
set_option linter.unusedVariables false
namespace Hy.Props.C09
open Hy Hy.Acl

/-! ### obligation on the regenerated constant: the engine's LRU can be constructed
    (`lru.New` refuses a size ≤ 0); the theorems themselves hold for every cache size -/
theorem const_cache_size : 0 < Gen.aclCacheSize := by decide

/-! ### first match in file order -/

/-- a lookup on a fresh cache is the uncached evaluation -/
theorem match_is_first (U : Str → Str) (rules : List Rule) (q : Query) (evict : Key → Bool) :
    (cachedMatch U rules [] q evict).2 = eval U rules q :=
  cachedMatch_answer (sound_nil portOk U rules) q evict

/-- and the uncached evaluation is: the outbound and hijack address of the FIRST rule in file
    order that matches — every rule before it does not match — or nothing when no rule matches -/
theorem eval_is_first_match (U : Str → Str) (rules : List Rule) (q : Query) :
    (eval U rules q = none ∧ ∀ r ∈ rules, ruleMatch U r q = false) ∨
    (∃ pre r post, rules = pre ++ r :: post ∧ (∀ r' ∈ pre, ruleMatch U r' q = false) ∧
      ruleMatch U r q = true ∧ eval U rules q = some (r.outbound, r.hijack)) := by
  unfold eval evalG
  cases h : rules.find? (fun r => ruleMatchG portOk U r q) with
  | none =>
    left
    refine ⟨rfl, ?_⟩
    intro r hr
    have := List.find?_eq_none.mp h r hr
    simpa [ruleMatch] using this
  | some r =>
    right
    obtain ⟨hm, pre, post, hsplit, hpre⟩ := List.find?_eq_some_iff_append.mp h
    refine ⟨pre, r, post, hsplit, ?_, hm, rfl⟩
    intro r' hr'
    simpa [ruleMatch] using hpre r' hr'

/-- the engine serves the default outbound exactly when no rule matched, and rewrites the
    request address exactly when the deciding rule carries a hijack address -/
theorem handle_spec (dflt : Str) (d : Dec) :
    (d = none → handle dflt d = (dflt, none)) ∧
    (∀ ob, d = some (ob, none) → handle dflt d = (ob, none)) ∧
    (∀ ob h, d = some (ob, some h) →
      (handle dflt d).1 = ob ∧ ∃ rw, (handle dflt d).2 = some rw ∧ rw.host = h ∧
        (rw.r4 = to4 h) ∧ (rw.r6 = if (to4 h).isSome then none else some h)) := by
  refine ⟨?_, ?_, ?_⟩
  · intro h; subst h; rfl
  · intro ob h; subst h; rfl
  · intro ob h hd; subst hd
    cases ht : to4 h <;> simp [handle, ht]

/-! ### the engine asks the rules with every address the resolution produced -/

/-- `aclEngine.handle` on a fresh cache: the request is looked up under its name and BOTH
    resolved addresses, and served by the first-match decision of that lookup (default when
    none) -/
theorem engine_decision (U : Str → Str) (rules : List Rule) (dflt : Str) (name : Str)
    (ri : Option RInfo) (proto : Proto) (port : Nat) (evict : Key → Bool) :
    (engineHandle U rules dflt [] name ri proto port evict).2.2 =
      handle dflt (eval U rules (reqQuery name ri proto port)) := by
  unfold engineHandle
  simp only [match_is_first]

/-- a resolution that carries an error AND addresses (A ok, AAAA failed, …) is consulted with
    those addresses exactly like an error-free one: the error flag plays no part in which rule
    decides — an IP or CIDR rule cannot be bypassed by a partially failed resolution -/
theorem engine_consults_every_address (U : Str → Str) (rules : List Rule) (dflt : Str) (name : Str)
    (v4 v6 : IP) (e₁ e₂ : Bool) (proto : Proto) (port : Nat) (c : Store) (evict : Key → Bool) :
    reqQuery name (some ⟨v4, v6, e₁⟩) proto port = ⟨name, v4, v6, proto, port⟩ ∧
    engineHandle U rules dflt c name (some ⟨v4, v6, e₁⟩) proto port evict =
      engineHandle U rules dflt c name (some ⟨v4, v6, e₂⟩) proto port evict :=
  ⟨rfl, rfl⟩

-- reject(10.0.0.0/8) / direct(all): 10.0.0.1 resolved with an error still meets the reject rule
example :
    let rules : List Rule := [⟨[114], .cidr [10, 0, 0, 0] [255, 0, 0, 0], .both, 0, 0, none⟩,
                              ⟨[100], .all, .both, 0, 0, none⟩]
    (engineHandle id rules [100] [] [97] (some ⟨[10, 0, 0, 1], [], true⟩) .tcp 80 (fun _ => false)).2.2
      = ([114], none) := by decide

/-- what one rule tests -/
theorem rule_match_spec (U : Str → Str) (r : Rule) (q : Query) :
    ruleMatch U r q = true ↔
      (r.proto = .both ∨ r.proto = q.proto) ∧
      ((r.startPort = 0 ∧ r.endPort = 0) ∨ (r.startPort ≤ q.port ∧ q.port ≤ r.endPort)) ∧
      hostMatch r.matcher (U (normalise q.name)) q.v4 q.v6 = true := by
  unfold ruleMatch ruleMatchG
  rw [Bool.and_eq_true, Bool.and_eq_true, protoOk_iff, portOk_iff, and_assoc]

/-! ### the cache is invisible: any history, any length, any eviction -/

/-- every answer of every lookup history (repetitions, more distinct keys than any cache size)
    under every eviction behaviour is the uncached first-match evaluation of that query -/
theorem cache_invisible (U : Str → Str) (rules : List Rule) (hist : List (Query × (Key → Bool))) :
    runQueries U rules [] hist = hist.map (fun p => eval U rules p.1) :=
  runQueries_eq U rules hist [] (sound_nil portOk U rules)

/-- hence the answer to a query does not depend on what was asked before it -/
theorem history_independent (U : Str → Str) (rules : List Rule)
    (h₁ h₂ : List (Query × (Key → Bool))) (q : Query) (e₁ e₂ : Key → Bool) :
    (runQueries U rules [] (h₁ ++ [(q, e₁)])).getLast? =
    (runQueries U rules [] (h₂ ++ [(q, e₂)])).getLast? := by
  rw [cache_invisible, cache_invisible]
  simp

/-- the same for concurrent callers: `Get` and `Add` are separate atomic steps of each call,
    interleaved arbitrarily between any number of threads, with arbitrary eviction at every
    `Add`; every answer any call ever returns is the uncached evaluation of its query -/
theorem cache_invisible_concurrent (U : Str → Str) (rules : List Rule) (sched : List Step) :
    ∀ a ∈ (crun portOk U rules {} sched).answers, a.2 = eval U rules a.1 :=
  (crun_inv sched (cinv_init portOk U rules)).2.2

-- two threads miss on the same key before either adds; both answers are the evaluation
example :
    let rules : List Rule := [⟨[97], .all, .tcp, 0, 100, none⟩, ⟨[98], .all, .both, 0, 0, none⟩]
    let q : Query := ⟨[], [], [], .tcp, 200⟩
    (crun portOk id rules {} [.get 0 q, .get 1 q, .add 1 (fun _ => true), .add 0 (fun _ => false), .get 2 q]).answers
      = [(q, some ([98], none)), (q, some ([98], none)), (q, some ([98], none))] := by decide

/-- one thread doing `get` then `add` is one sequential `Match` -/
theorem concurrent_refines_sequential (U : Str → Str) (rules : List Rule) (c : Store) (q : Query)
    (ev : Key → Bool) :
    let s := crun portOk U rules { store := c } [.get 0 q, .add 0 ev]
    s.answers = [(q, (cachedMatch U rules c q (fun _ => false)).2)] ∧
    (lookup c (key q) = none → s.store = (cachedMatch U rules c q ev).1) := by
  simp only [crun, List.foldl, cstep, List.any_nil, Bool.false_eq_true, if_false]
  unfold cachedMatch cachedMatchG
  cases h : lookup c (key q) with
  | some d => simp [cstep]
  | none => simp [cstep]

/-! ### the cache key loses nothing a rule looks at -/

theorem key_faithful (U : Str → Str) (q₁ q₂ : Query) (h : key q₁ = key q₂) :
    ∀ r, ruleMatch U r q₁ = ruleMatch U r q₂ :=
  key_faithfulG portOk U q₁ q₂ h

/-- in particular it keeps the port, the protocol, the normalised name and both addresses -/
theorem key_keeps_fields (q₁ q₂ : Query) (h : key q₁ = key q₂) :
    q₁.port = q₂.port ∧ q₁.proto = q₂.proto ∧ normalise q₁.name = normalise q₂.name ∧
    canon q₁.v4 = canon q₂.v4 ∧ canon q₁.v6 = canon q₂.v6 := by
  unfold key at h
  injection h with hn h4 h6 hp hport
  exact ⟨hport, hp, hn, ipKey_canon h4, ipKey_canon h6⟩

example : key ⟨[97], [], [], .tcp, 80⟩ ≠ key ⟨[97], [], [], .tcp, 81⟩ := by decide
example : key ⟨[97], [], [], .tcp, 80⟩ ≠ key ⟨[97], [], [], .udp, 80⟩ := by decide
example : key ⟨[97], [10, 0, 0, 1], [], .tcp, 80⟩ ≠ key ⟨[97], [10, 0, 0, 2], [], .tcp, 80⟩ := by decide
/-- the 4-byte and the 16-byte form of one IPv4 address share a key (and match alike) -/
example : key ⟨[97], [10, 0, 0, 1], [], .tcp, 80⟩ =
    key ⟨[65, 46], [0, 0, 0, 0, 0, 0, 0, 0, 0, 0, 255, 255, 10, 0, 0, 1], [], .tcp, 80⟩ := by decide

/-! ### matchers against their specifications -/

/-- the code's wildcard matcher accepts exactly the strings obtained from the pattern by
    replacing each `*` with some (possibly empty) run of characters -/
theorem wildcard_spec (p s : Str) : deepMatch p s = true ↔ WMatch p s := deepMatch_iff p s

-- "*.example.com" matches "www.example.com", not "example.com"
example : deepMatch [42, 46, 101, 120, 97, 109, 112, 108, 101, 46, 99, 111, 109]
    [119, 119, 119, 46, 101, 120, 97, 109, 112, 108, 101, 46, 99, 111, 109] = true := by decide
example : deepMatch [42, 46, 101, 120, 97, 109, 112, 108, 101, 46, 99, 111, 109]
    [101, 120, 97, 109, 112, 108, 101, 46, 99, 111, 109] = false := by decide

/-- `suffix:s` matches the name `s` itself and every name that ends with `"." ++ s`
    — the dot boundary — and nothing else -/
theorem suffix_spec (s name : Str) (v4 v6 : IP) :
    hostMatch (.suffix s) name v4 v6 = true ↔ name = s ∨ ∃ pre, name = pre ++ 46 :: s :=
  suffixMatch_iff s name v4 v6

-- suffix:example.com: www.example.com yes, notexample.com no
example : hostMatch (.suffix [101, 120, 97, 109, 112, 108, 101, 46, 99, 111, 109])
    [119, 119, 119, 46, 101, 120, 97, 109, 112, 108, 101, 46, 99, 111, 109] [] [] = true := by decide
example : hostMatch (.suffix [101, 120, 97, 109, 112, 108, 101, 46, 99, 111, 109])
    [110, 111, 116, 101, 120, 97, 109, 112, 108, 101, 46, 99, 111, 109] [] [] = false := by decide

theorem exact_spec (s name : Str) (v4 v6 : IP) :
    hostMatch (.exact s) name v4 v6 = true ↔ name = s := by
  simp [hostMatch]

/-- a port range includes both of its ends and nothing outside (repaired code; the only
    "any port" encoding is the pair (0, 0)) -/
theorem port_range_inclusive (s e port : Nat) (h : ¬ (s = 0 ∧ e = 0)) :
    portOk s e port = true ↔ s ≤ port ∧ port ≤ e := by
  rw [portOk_iff]
  constructor
  · rintro (h0 | hr)
    · exact absurd h0 h
    · exact hr
  · exact .inr

example : ¬ ((0 : Nat) = 0 ∧ (100 : Nat) = 0) := by decide

theorem port_any (port : Nat) : portOk 0 0 port = true := by simp [portOk]

theorem proto_spec (rp qp : Proto) : protoOk rp qp = true ↔ rp = .both ∨ rp = qp :=
  protoOk_iff rp qp

/-! ### names compare case-insensitively and ignoring trailing dots -/

/-- `normalise`: the lower-cased name is the result followed by dots only; the result does not
    end in a dot and has no upper-case letter; it is idempotent -/
theorem normalise_spec (s : Str) :
    (∃ k, toLower s = normalise s ++ List.replicate k 46) ∧
    (normalise s).getLast? ≠ some 46 ∧
    (∀ c ∈ normalise s, ¬ (65 ≤ c ∧ c ≤ 90)) ∧
    normalise (normalise s) = normalise s :=
  ⟨trimRightDots_spec (toLower s), trimRightDots_last (toLower s), normalise_lowercase s,
    normalise_idem s⟩

/-- two spellings of a name that differ only in letter case and in trailing dots are
    normalised alike … -/
theorem normalise_case_dots (s₁ s₂ : Str) (k₁ k₂ : Nat) (h : toLower s₁ = toLower s₂) :
    normalise (s₁ ++ List.replicate k₁ 46) = normalise (s₂ ++ List.replicate k₂ 46) := by
  rw [normalise_append_dots, normalise_append_dots]
  unfold normalise; rw [h]

-- "Example.COM." and "example.com"
example : toLower [69, 120, 97, 109, 112, 108, 101, 46, 67, 79, 77] =
    toLower [101, 120, 97, 109, 112, 108, 101, 46, 99, 111, 109] := by decide

-- a rule list on which the name matters, asked as "Example.COM." and as "example.com"
example :
    let rules : List Rule := [⟨[97], .suffix [99, 111, 109], .both, 0, 0, none⟩]
    eval id rules ⟨[69, 120, 97, 109, 112, 108, 101, 46, 67, 79, 77, 46], [], [], .tcp, 80⟩ = some ([97], none) ∧
    eval id rules ⟨[101, 120, 97, 109, 112, 108, 101, 46, 99, 111, 109], [], [], .tcp, 80⟩ = some ([97], none) := by
  decide

/-- … and therefore get the same decision from every rule list -/
theorem decision_ignores_case_and_dots (U : Str → Str) (rules : List Rule) (q : Query)
    (s : Str) (k : Nat) (h : toLower s = toLower q.name) :
    eval U rules { q with name := s ++ List.replicate k 46 } = eval U rules q := by
  apply eval_faithfulG
  unfold key
  simp only
  have := normalise_case_dots s q.name k 0 h
  simp only [List.replicate_zero, List.append_nil] at this
  rw [this]

/-! ### parseProtoPort on the documented forms
    `[empty]`, `*`, `*/*`, `proto`, `proto/*`, `proto/port`, `*/port`, and ranges `lo-hi`;
    proto is case-insensitive.  `Digits` = a non-empty string of decimal digits (leading zeros
    allowed, as in `strconv.ParseUint`); `toDec n` is the decimal spelling of `n`. -/

theorem parseProtoPort_any :
    parseProtoPort [] = some (.both, 0, 0) ∧ parseProtoPort cStar = some (.both, 0, 0) ∧
    parseProtoPort cStarSlashStar = some (.both, 0, 0) := by decide

theorem parseProtoPort_case (s : Str) : parseProtoPort (toLower s) = parseProtoPort s := by
  unfold parseProtoPort
  simp only [toLower_idem]

theorem parseProtoPort_proto_only :
    parseProtoPort cTcp = some (.tcp, 0, 0) ∧ parseProtoPort cUdp = some (.udp, 0, 0) := by decide

theorem parseProtoPort_proto_star (pr : Proto) :
    parseProtoPort (protoTok pr ++ [47, 42]) = some (pr, 0, 0) := by
  cases pr <;> decide

/-- `proto/port` and `*/port`: a single port is the range [port, port] -/
theorem parseProtoPort_port (pr : Proto) (ds : Str) (h : Digits ds) (hv : parseDec ds ≤ 65535) :
    parseProtoPort (protoTok pr ++ 47 :: ds) = some (pr, parseDec ds, parseDec ds) := by
  rw [parseProtoPort_slash pr ds h.lower, parsePorts_single h hv]

/-- `proto/lo-hi`: both ends kept as written -/
theorem parseProtoPort_range (pr : Proto) (lo hi : Str) (hl : Digits lo) (hh : Digits hi)
    (hle : parseDec lo ≤ parseDec hi) (hv : parseDec hi ≤ 65535) :
    parseProtoPort (protoTok pr ++ 47 :: (lo ++ 45 :: hi)) = some (pr, parseDec lo, parseDec hi) := by
  have hlow : ∀ c ∈ lo ++ 45 :: hi, lower c = c := by
    intro c hc
    rcases List.mem_append.mp hc with h | h
    · exact hl.lower c h
    · rcases List.mem_cons.mp h with h | h
      · subst h; decide
      · exact hh.lower c h
  rw [parseProtoPort_slash pr _ hlow, parsePorts_range hl hh hle hv]

/-- a reversed range is refused -/
theorem parseProtoPort_range_reversed (pr : Proto) (lo hi : Str) (hl : Digits lo) (hh : Digits hi)
    (hlt : parseDec hi < parseDec lo) :
    parseProtoPort (protoTok pr ++ 47 :: (lo ++ 45 :: hi)) = none := by
  have hlow : ∀ c ∈ lo ++ 45 :: hi, lower c = c := by
    intro c hc
    rcases List.mem_append.mp hc with h | h
    · exact hl.lower c h
    · rcases List.mem_cons.mp h with h | h
      · subst h; decide
      · exact hh.lower c h
  rw [parseProtoPort_slash pr _ hlow, parsePorts_range_reversed hl hh hlt]

/-- a port above 65535 is refused -/
theorem parseProtoPort_port_too_big (pr : Proto) (ds : Str) (h : Digits ds)
    (hv : 65535 < parseDec ds) : parseProtoPort (protoTok pr ++ 47 :: ds) = none := by
  rw [parseProtoPort_slash pr ds h.lower]
  unfold parsePorts
  rw [if_neg h.ne_star, trimSpace_id h.no_space, cut_none (h.not_mem (.inl (by decide))),
    parseU16_big hv]

/-- the same with numbers: `proto/n` and `proto/a-b` for all n, a ≤ b ≤ 65535 -/
theorem parseProtoPort_spec (pr : Proto) (a b : Nat) (hab : a ≤ b) (hb : b ≤ 65535) :
    parseProtoPort (protoTok pr ++ 47 :: toDec a) = some (pr, a, a) ∧
    parseProtoPort (protoTok pr ++ 47 :: (toDec a ++ 45 :: toDec b)) = some (pr, a, b) := by
  constructor
  · have := parseProtoPort_port pr (toDec a) (toDec_digits a) (by rw [parseDec_toDec]; omega)
    rwa [parseDec_toDec] at this
  · have := parseProtoPort_range pr (toDec a) (toDec b) (toDec_digits a) (toDec_digits b)
      (by rw [parseDec_toDec, parseDec_toDec]; exact hab) (by rw [parseDec_toDec]; exact hb)
    rwa [parseDec_toDec, parseDec_toDec] at this

-- "TCP/80" and "udp/1000-2000" through the whole function
example : parseProtoPort [84, 67, 80, 47, 56, 48] = some (.tcp, 80, 80) := by decide
example : parseProtoPort [117, 100, 112, 47, 49, 48, 48, 48, 45, 50, 48, 48, 48] =
    some (.udp, 1000, 2000) := by decide
example : Digits [49, 48, 48, 48] ∧ Digits [50, 48, 48, 48] ∧
    parseDec [49, 48, 48, 48] ≤ parseDec [50, 48, 48, 48] ∧ parseDec [50, 48, 48, 48] ≤ 65535 := by
  refine ⟨⟨by decide, by decide⟩, ⟨by decide, by decide⟩, by decide, by decide⟩

-- instances of the hypotheses of the refusal theorems: "200-100" is reversed, "65536" is too big
example : Digits [50, 48, 48] ∧ Digits [49, 48, 48] ∧ parseDec [49, 48, 48] < parseDec [50, 48, 48] :=
  ⟨⟨by decide, by decide⟩, ⟨by decide, by decide⟩, by decide⟩
example : Digits [54, 53, 53, 51, 54] ∧ 65535 < parseDec [54, 53, 53, 51, 54] :=
  ⟨⟨by decide, by decide⟩, by decide⟩
example : parseProtoPort (protoTok .tcp ++ 47 :: ([50, 48, 48] ++ 45 :: [49, 48, 48])) = none := by decide
example : parseProtoPort (protoTok .udp ++ 47 :: [54, 53, 53, 51, 54]) = none := by decide

/-! ### defect D8: a port range that starts at 0

The pinned tree reads `StartPort == 0` as "no port restriction", so a range `0-e` matches
every port.  Rule file `a(all, tcp/0-100)` / `b(all)`, TCP query for port 200. -/

/-- the rule text of the replay (corpus/C09/acl.ops), as code points -/
def d8Text : Str :=
  [97, 40, 97, 108, 108, 44, 32, 116, 99, 112, 47, 48, 45, 49, 48, 48, 41, 10,
   98, 40, 97, 108, 108, 41]

def d8Rules : List Rule :=
  [⟨[97], .all, .tcp, 0, 100, none⟩, ⟨[98], .all, .both, 0, 0, none⟩]

def d8Query : Query := ⟨[], [], [], .tcp, 200⟩

/-- the text front end turns the replay's rule file into these two rules -/
theorem d8_text_loads : loadRules [([97], [97]), ([98], [98])] d8Text = .ok d8Rules := by decide

/-- pinned tree: port 200 is answered by rule `a` although 200 ∉ [0, 100] -/
theorem d8_pinned_counterexample :
    evalPinned id d8Rules d8Query = some ([97], none) ∧
    ¬ (0 ≤ d8Query.port ∧ d8Query.port ≤ 100) := by decide

/-- repaired code: the first rule that matches is `b` -/
theorem d8_fixed : eval id d8Rules d8Query = some ([98], none) := by decide

/-- the pinned test lets EVERY port through any range that starts at 0 … -/
theorem d8_pinned_any_port (e port : Nat) : portOkPinned 0 e port = true := by
  simp [portOkPinned]

/-- … the repaired one only the ports of the range -/
theorem d8_fixed_range_from_zero (e port : Nat) (he : e ≠ 0) :
    portOk 0 e port = true ↔ port ≤ e := by
  rw [port_range_inclusive 0 e port (by omega)]; omega

/-- away from ranges starting at 0 the repair changes nothing -/
theorem d8_fix_is_conservative (s e port : Nat) (h : s ≠ 0 ∨ e = 0) :
    portOk s e port = portOkPinned s e port := by
  rw [Bool.eq_iff_iff, portOk_iff, portOkPinned_iff]
  omega

end Hy.Props.C09
