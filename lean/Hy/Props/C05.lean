/-
  C05 — UDP fragmentation is all-or-nothing and size-bounded.
  Property theorems only; helper lemmas live in Hy.Proofs.Frag.

  Model: Hy.Model.Frag —
    UDPMessage.HeaderSize/Size/Serialize and ParseUDPMessage (core/internal/protocol/proxy.go),
    FragUDPMessage and Defragger.Feed (core/internal/frag/frag.go);
  Hy.Model.AutoFrag — the two send paths sendMessageAutoFrag (core/server/udp.go) and udpConn.Send
    (core/client/udp.go) with udpIOImpl.SendMessage (Serialize into the MaxUDPSize buffer, -1 =
    silent drop, SendDatagram); logger verdicts, transport answers and the random draw are inputs.
  `fragUDP` is FragUDPMessage WITH fixes/D1.patch (fragment count computed as `int`, a message
  that needs more than 255 fragments is discarded); `fragUDPPinned` is the pinned tree, kept
  for the witnesses at the end of the file.  Header fields are `Fin`s of their Go width, so
  every quantifier over `UDPMessage` ranges over exactly the values the Go type can hold.
  The datagram limit is an `Int` (Go `int`): zero and negative limits are included.
-/
import Hy.Proofs.Frag
import Hy.Proofs.AutoFrag
import Hy.Gen.C05Shape
import Hy.Gen.TransUDPSize
set_option linter.unusedSimpArgs false
namespace Hy.Props.C05
open Hy Hy.Frag Hy.Res

/-! ### obligations on the regenerated constants (a changed constant fails here) -/
theorem const_msg : Gen.MaxMessageLength = 2048 := by decide
/-- ParseUDPMessage bounds the address with MaxMessageLength; the property speaks of addresses
    up to MaxAddressLength — the two must stay equal -/
theorem const_addr_eq_msg : Gen.MaxAddressLength = Gen.MaxMessageLength := by decide

/-! ### `UDPMessage.HeaderSize` / `Size` as TRANSLATED from the current Go source equal the model's

`Hy.Gen.TransUDPSize.*` is regenerated on every run by `verifgen translate` from the text of the two
methods in core/internal/protocol/proxy.go (Go's `int` = int64 wrap-around explicit; `len(m.Addr)`,
`len(m.Data)` are parameters; the external `quicvarint.Len` is a function parameter).  Instantiated
with the model's varint length the regenerated definitions equal `Frag.headerSize` / `Frag.size`
for EVERY message whose lengths fit an `int` — no sampling involved for this arithmetic. -/

/-- `quicvarint.Len` as the model has it (`Varint.wlen ∘ Varint.minW`; `Props.C04.varintPut_translation_len`
    shows the repository's own `varintPut` returns the same number): the instantiation of the
    translator's function parameter -/
def varintLen (x : Int) : Int := ((Varint.wlen (Varint.minW x.toNat) : Nat) : Int)

theorem headerSize_translation_eq (m : UDPMessage) (h : m.addr.length < 9223372036854775792) :
    Gen.TransUDPSize.UDPMessage_HeaderSize m.addr.length varintLen = (headerSize m : Nat) := by
  have hw : 1 ≤ Varint.wlen (Varint.minW m.addr.length) ∧ Varint.wlen (Varint.minW m.addr.length) ≤ 8 := by
    unfold Varint.wlen; split <;> omega
  unfold Gen.TransUDPSize.UDPMessage_HeaderSize headerSize varintLen
  have e : (GoInt.u64 (m.addr.length : Int)).toNat = m.addr.length := by unfold GoInt.u64; omega
  simp only [e]
  unfold GoInt.i64
  omega

theorem size_translation_eq (m : UDPMessage)
    (h : m.addr.length + m.data.length < 9223372036854775792) :
    Gen.TransUDPSize.UDPMessage_Size m.addr.length m.data.length varintLen = (size m : Nat) := by
  have hw : 1 ≤ Varint.wlen (Varint.minW m.addr.length) ∧ Varint.wlen (Varint.minW m.addr.length) ≤ 8 := by
    unfold Varint.wlen; split <;> omega
  unfold Gen.TransUDPSize.UDPMessage_Size size
  rw [headerSize_translation_eq m (by omega)]
  unfold headerSize GoInt.i64
  omega

example : Gen.TransUDPSize.UDPMessage_Size 64 100 varintLen = 174 := by decide

/-! ### codec: Serialize / ParseUDPMessage -/

/-- Serialize writes exactly Size() bytes, and refuses (returns -1) exactly when the buffer is smaller -/
theorem serialize_size (m : UDPMessage) (bufLen : Nat) :
    (serialize m).length = size m ∧
    (serializeInto bufLen m = none ↔ bufLen < size m) ∧
    (size m ≤ bufLen → serializeInto bufLen m = some (serialize m)) := by
  refine ⟨serialize_length m, ?_, ?_⟩
  · unfold serializeInto; split <;> simp_all
  · intro h; unfold serializeInto; rw [if_neg (by omega)]

/-- round trip: every message with an address of 1..2048 bytes and a non-empty payload -/
theorem serialize_parse (m : UDPMessage) (ha : 1 ≤ m.addr.length) (ha' : m.addr.length ≤ 2048)
    (hd : 1 ≤ m.data.length) : parseUDPMessage (serialize m) = .ok m :=
  parse_serialize m ha (by rw [const_msg]; exact ha') hd

example : let m : UDPMessage := ⟨7, 513, 2, 3, [byte 97, byte 58, byte 49], [byte 0, byte 255]⟩
    (1 ≤ m.addr.length ∧ m.addr.length ≤ 2048 ∧ 1 ≤ m.data.length) ∧ parseUDPMessage (serialize m) = .ok m := by
  decide

/-- ParseUDPMessage never panics, whatever the datagram (reused by C03) -/
theorem parse_total (bs : Bytes) : NoPanic (parseUDPMessage bs) := parse_noPanic bs

/-- an accepted datagram is `header ++ address ++ payload` with a 9..16-byte header, an address
    of 1..2048 bytes and at least one payload byte: nothing is invented, nothing is dropped -/
theorem parse_sound (bs : Bytes) (m : UDPMessage) (h : parseUDPMessage bs = .ok m) :
    1 ≤ m.addr.length ∧ m.addr.length ≤ 2048 ∧ 1 ≤ m.data.length ∧
    ∃ hdr, bs = hdr ++ m.addr ++ m.data ∧ 9 ≤ hdr.length ∧ hdr.length ≤ 16 := by
  have := parse_ok bs m h
  rw [const_msg] at this
  exact this

example : parseUDPMessage [byte 0, byte 0, byte 0, byte 7, byte 2, byte 1, byte 2, byte 3, byte 1, byte 97, byte 9]
    = .ok ⟨7, 513, 2, 3, [byte 97], [byte 9]⟩ := by decide
/-- malformed datagrams are rejected (empty address; no payload byte; truncated header) -/
example : parseUDPMessage [byte 0, byte 0, byte 0, byte 7, byte 2, byte 1, byte 2, byte 3, byte 0, byte 97] = .reject
    ∧ parseUDPMessage [byte 0, byte 0, byte 0, byte 7, byte 2, byte 1, byte 2, byte 3, byte 1, byte 97] = .reject
    ∧ parseUDPMessage [byte 0, byte 0, byte 0] = .reject := by decide

/-! ### FragUDPMessage (with fixes/D1.patch) -/

/-- FragUDPMessage never panics and always ends, for every message and every limit (reused by C03) -/
theorem frag_total (m : UDPMessage) (L : Int) : NoPanic (fragUDP m L) := by
  rw [fragUDP_spec]; exact noPanic_ok _

/-- the whole outcome of FragUDPMessage: the message is discarded (`nil`), or sent whole because
    it fits, or cut into a fragment set (2..255 fragments numbered 0..n-1 with common count,
    packet id, session and address, whose payloads concatenate to the original payload) in which
    every fragment is non-empty and fits the limit -/
theorem frag_outcome (m : UDPMessage) (L : Int) (fs : List UDPMessage) (h : fragUDP m L = .ok fs) :
    fs = [] ∨ (fs = [m] ∧ (size m : Int) ≤ L) ∨
    (IsFragSet m fs ∧ (∀ f ∈ fs, 1 ≤ f.data.length ∧ (size f : Int) ≤ L) ∧
      fs.length = fragCountOf m (L - (headerSize m : Int)).toNat) :=
  fragUDP_outcome m L fs h

/-- every fragment fits the datagram limit -/
theorem frag_fits (m : UDPMessage) (L : Int) (fs : List UDPMessage) (h : fragUDP m L = .ok fs) :
    ∀ f ∈ fs, (size f : Int) ≤ L := by
  rcases frag_outcome m L fs h with rfl | ⟨rfl, hfit⟩ | ⟨_, hall, _⟩
  · simp
  · simpa using hfit
  · exact fun f hf => (hall f hf).2

/-- never more than 255 fragments -/
theorem frag_count (m : UDPMessage) (L : Int) (fs : List UDPMessage) (h : fragUDP m L = .ok fs) :
    fs.length ≤ 255 := by
  rcases frag_outcome m L fs h with rfl | ⟨rfl, _⟩ | ⟨hS, _, _⟩
  · simp
  · simp
  · exact hS.le

/-- a message that fits is sent whole and unchanged -/
theorem frag_whole (m : UDPMessage) (L : Int) (h : (size m : Int) ≤ L) : fragUDP m L = .ok [m] := by
  rw [fragUDP_spec, if_pos h]

/-- a limit at or below the header size leaves no room for payload: the message is discarded -/
theorem frag_none_below_header (m : UDPMessage) (L : Int) (hfit : ¬ (size m : Int) ≤ L)
    (h : L ≤ (headerSize m : Int)) : fragUDP m L = .ok [] := by
  rw [fragUDP_spec, if_neg hfit, if_pos (by omega)]

/-- a message that would need more than 255 fragments is discarded, never sent corrupted -/
theorem frag_discards_over_255 (m : UDPMessage) (L : Int) (hfit : ¬ (size m : Int) ≤ L)
    (h : 255 < fragCountOf m (L - (headerSize m : Int)).toNat) : fragUDP m L = .ok [] := by
  rw [fragUDP_spec, if_neg hfit]
  split
  · rfl
  · first | rfl | rw [if_pos h]

/-- all-or-nothing, the "all" half: the message is discarded ONLY in the two cases above -/
theorem frag_none_iff (m : UDPMessage) (L : Int) :
    fragUDP m L = .ok [] ↔
      ¬ (size m : Int) ≤ L ∧ (L ≤ (headerSize m : Int) ∨ 255 < fragCountOf m (L - (headerSize m : Int)).toNat) := by
  constructor
  · intro h
    have hspec := fragUDP_spec m L
    rw [h] at hspec
    simp only [ok.injEq] at hspec
    split at hspec
    · simp at hspec
    · rename_i hfit
      refine ⟨hfit, ?_⟩
      split at hspec
      · left; omega
      · split at hspec
        · right; assumption
        · rename_i hpos hcnt
          exfalso
          rcases frag_outcome m L [] h with h' | ⟨h', _⟩ | ⟨hS, _, _⟩
          · have hm : 0 < (L - (headerSize m : Int)).toNat := by omega
            have := congrArg List.length hspec
            rw [mkFrags_length, chunks_count _ hm] at this
            simp only [List.length_nil] at this
            have hlen : (L - (headerSize m : Int)).toNat < m.data.length := by unfold size at hfit; omega
            have : 1 ≤ (m.data.length + (L - (headerSize m : Int)).toNat - 1) / (L - (headerSize m : Int)).toNat :=
              (Nat.le_div_iff_mul_le hm).mpr (by omega)
            omega
          · simp at h'
          · have := hS.two; simp at this
  · intro ⟨hfit, h⟩
    rcases h with h | h
    · exact frag_none_below_header m L hfit h
    · exact frag_discards_over_255 m L hfit h

/-- the fragments reassemble: payloads concatenate to the original, ids are 0..n-1, the count,
    packet id, session and address are common, no fragment is empty -/
theorem frag_reassembles (m : UDPMessage) (L : Int) (fs : List UDPMessage) (h : fragUDP m L = .ok fs)
    (h2 : 2 ≤ fs.length) :
    IsFragSet m fs ∧ (fs.map (·.data)).flatten = m.data ∧ ∀ f ∈ fs, 1 ≤ f.data.length := by
  rcases frag_outcome m L fs h with rfl | ⟨rfl, _⟩ | ⟨hS, hall, _⟩
  · simp at h2
  · simp at h2
  · exact ⟨hS, hS.data, fun f hf => (hall f hf).1⟩

/-- 5 payload bytes, address "ab" (header 11), limit 13: three fragments of 2+2+1 bytes -/
example : fragUDP ⟨1, 9, 0, 1, [byte 97, byte 98], [byte 1, byte 2, byte 3, byte 4, byte 5]⟩ 13 =
    .ok [⟨1, 9, 0, 3, [byte 97, byte 98], [byte 1, byte 2]⟩, ⟨1, 9, 1, 3, [byte 97, byte 98], [byte 3, byte 4]⟩,
         ⟨1, 9, 2, 3, [byte 97, byte 98], [byte 5]⟩] := by decide
/-- limit = header size and limit 0: discarded -/
example : fragUDP ⟨1, 9, 0, 1, [byte 97, byte 98], [byte 1, byte 2, byte 3]⟩ 11 = .ok [] ∧
    fragUDP ⟨1, 9, 0, 1, [byte 97, byte 98], [byte 1, byte 2, byte 3]⟩ 0 = .ok [] ∧
    fragUDP ⟨1, 9, 0, 1, [byte 97, byte 98], [byte 1, byte 2, byte 3]⟩ (-5) = .ok [] := by decide
/-- the 255/256 boundary: 256 one-byte fragments would be needed → discarded; 255 → sent -/
example : fragUDP ⟨1, 9, 0, 1, [byte 97], List.replicate 256 (byte 7)⟩ 11 = .ok [] ∧
    fragUDP ⟨1, 9, 0, 1, [byte 97], List.replicate 255 (byte 7)⟩ 11 ≠ .ok [] :=
  ⟨(frag_none_iff _ _).mpr (by simp only [size, headerSize, fragCountOf, List.length_replicate, List.length_cons, List.length_nil]; decide),
   fun h => absurd ((frag_none_iff _ _).mp h)
     (by simp only [size, headerSize, fragCountOf, List.length_replicate, List.length_cons, List.length_nil]; decide)⟩

/-! ### Defragger.Feed -/

/-- Feed never panics: for every history of messages (every field value the Go type allows,
    consistent or not) fed to a fresh Defragger (reused by C03) -/
theorem feed_total (ms : List UDPMessage) : NoPanic (feedAll {} ms) := by
  rw [feedAll_eq _ _ wfd_init]; exact noPanic_ok _

/-- the same, one call at a time: from every reachable state, every message -/
theorem feed_total_step (d : Defragger) (hd : Reachable d) (m : UDPMessage) :
    NoPanic (feed d m) ∧ ∀ d' o, feed d m = .ok (d', o) → Reachable d' := by
  have hw := reachable_wfd hd
  refine ⟨by rw [feed_eq d m hw]; exact noPanic_ok _, ?_⟩
  intro d' o h
  obtain ⟨ms, outs, hms⟩ := hd
  refine ⟨ms ++ [m], outs ++ [o], ?_⟩
  rw [feedAll_eq _ _ wfd_init] at hms ⊢
  simp only [ok.injEq] at hms
  rw [runP_append, hms]
  rw [feed_eq d m hw] at h
  simp only [ok.injEq] at h
  simp only [runP, h]

example : Reachable {} := ⟨[], [], rfl⟩

/-- an unfragmented message (FragCount ≤ 1, what the senders build) passes through untouched
    and leaves the reassembly state alone -/
theorem defrag_passthrough (d : Defragger) (m : UDPMessage) (h : m.fragCount.val ≤ 1) :
    feed d m = .ok (d, some m) := by
  unfold feed; rw [if_pos h]

/-- ANY ARRIVAL ORDER, WITH DUPLICATES.  `fs` is a fragment set of `m`; the history
    `a ++ y :: b` consists of fragments of `fs` in any order, any multiplicity; it is fed to a
    defragger in any reachable state that is not in the middle of (packet id, count) of `fs`.
    Then (1) no call panics; (2) the call that receives `y` returns the original message exactly
    when `y` completes the set for the first time, and nil otherwise; (3) over the whole history
    the original is handed on exactly once if every fragment occurs, and nothing is handed on
    otherwise. -/
theorem defrag_any_order (m : UDPMessage) (fs : List UDPMessage) (hS : IsFragSet m fs)
    (d : Defragger) (hd : Reachable d) (hnot : d.pktID ≠ m.packetID ∨ d.frags.length ≠ fs.length)
    (a : List UDPMessage) (y : UDPMessage) (b : List UDPMessage) (hσ : ∀ x ∈ a ++ y :: b, x ∈ fs) :
    ∃ d' outs, feedAll d (a ++ y :: b) = .ok (d', outs) ∧
      outs[a.length]? = some (if Complete fs (a ++ [y]) ∧ ¬ Complete fs a then some (reassembled m) else none) ∧
      emitted outs = (if Complete fs (a ++ y :: b) then [reassembled m] else []) := by
  have hw := reachable_wfd hd
  obtain ⟨h1, h2⟩ := any_order_runP hS d hw hnot a y b hσ
  exact ⟨_, _, feedAll_eq _ _ hw, h1, h2⟩

/-- NO MIXING.  `sets` are original messages with their fragment sets, pairwise distinct packet
    ids; `σ` is ANY finite sequence of unfragmented messages and of fragments drawn from those
    sets — drops, duplicates, permutations, interleavings.  Fed to a fresh Defragger, no call
    panics and everything handed on is either an unfragmented message of `σ`, unchanged, or one
    of the originals: session, packet id, address and payload identical. -/
theorem defrag_no_mixing (sets : List (UDPMessage × List UDPMessage))
    (hsets : ∀ p ∈ sets, IsFragSet p.1 p.2)
    (hdist : ∀ p ∈ sets, ∀ q ∈ sets, p.1.packetID = q.1.packetID → p = q)
    (σ : List UDPMessage) (hσ : ∀ x ∈ σ, x.fragCount.val ≤ 1 ∨ ∃ p ∈ sets, x ∈ p.2) :
    ∃ d' outs, feedAll {} σ = .ok (d', outs) ∧
      ∀ out ∈ emitted outs, (out ∈ σ ∧ out.fragCount.val ≤ 1) ∨ ∃ p ∈ sets, out = reassembled p.1 :=
  ⟨_, _, feedAll_eq _ _ wfd_init,
    no_mixing_runP sets hsets hdist σ hσ {} (inv_init _) wfd_init⟩

/-- END TO END.  A message as the senders build it (FragID 0, FragCount 1) that FragUDPMessage
    splits, delivered to a fresh Defragger in any order with any duplicates and every fragment
    present, comes out exactly once and byte-identical. -/
theorem frag_then_defrag (m : UDPMessage) (hm : m.fragID = 0 ∧ m.fragCount = 1) (L : Int) (fs : List UDPMessage)
    (h : fragUDP m L = .ok fs) (h2 : 2 ≤ fs.length)
    (σ : List UDPMessage) (hσ : ∀ x ∈ σ, x ∈ fs) (hall : Complete fs σ) :
    ∃ d' outs, feedAll {} σ = .ok (d', outs) ∧ emitted outs = [m] := by
  obtain ⟨hS, _, _⟩ := frag_reassembles m L fs h h2
  have hre : reassembled m = m := by
    cases m; simp only [reassembled] at hm ⊢; simp only [hm.1, hm.2]
  cases σ with
  | nil =>
    exfalso
    have := hall fs[0] (List.getElem_mem (by omega))
    simp at this
  | cons y b =>
    obtain ⟨d', outs, h1, _, h3⟩ := defrag_any_order m fs hS {} ⟨[], [], rfl⟩ (fresh_not_holding m fs hS) [] y b hσ
    simp only [List.nil_append] at h1 h3
    refine ⟨d', outs, h1, ?_⟩
    rw [h3, if_pos hall, hre]

/-- three fragments arriving as 2,0,2,1,0: nil,nil,nil,message,nil -/
example :
    let f0 : UDPMessage := ⟨1, 9, 0, 3, [byte 97], [byte 1, byte 2]⟩
    let f1 : UDPMessage := ⟨1, 9, 1, 3, [byte 97], [byte 3, byte 4]⟩
    let f2 : UDPMessage := ⟨1, 9, 2, 3, [byte 97], [byte 5]⟩
    (feedAll {} [f2, f0, f2, f1, f0]).bind (fun p => .ok p.2) =
      .ok [none, none, none, some ⟨1, 9, 0, 1, [byte 97], [byte 1, byte 2, byte 3, byte 4, byte 5]⟩, none] := by
  decide
/-- two interleaved messages with distinct packet ids: the single slot is taken over, nothing
    is ever mixed, nothing is emitted -/
example :
    let a0 : UDPMessage := ⟨1, 9, 0, 2, [byte 97], [byte 1]⟩
    let a1 : UDPMessage := ⟨1, 9, 1, 2, [byte 97], [byte 2]⟩
    let b0 : UDPMessage := ⟨1, 10, 0, 2, [byte 97], [byte 3]⟩
    let b1 : UDPMessage := ⟨1, 10, 1, 2, [byte 97], [byte 4]⟩
    (feedAll {} [a0, b1, a1, b0]).bind (fun p => .ok p.2) = .ok [none, none, none, none] ∧
    (feedAll {} [a0, b1, b0, a1]).bind (fun p => .ok p.2) =
      .ok [none, none, some ⟨1, 10, 0, 1, [byte 97], [byte 3, byte 4]⟩, none] := by
  decide
/-- the hypotheses of `defrag_no_mixing` / `defrag_any_order` are met by what `fragUDP` produces -/
example : IsFragSet ⟨1, 9, 0, 1, [byte 97, byte 98], [byte 1, byte 2, byte 3, byte 4, byte 5]⟩
    [⟨1, 9, 0, 3, [byte 97, byte 98], [byte 1, byte 2]⟩, ⟨1, 9, 1, 3, [byte 97, byte 98], [byte 3, byte 4]⟩,
     ⟨1, 9, 2, 3, [byte 97, byte 98], [byte 5]⟩] :=
  (frag_reassembles _ 13 _ (by decide) (by decide)).1

/-- `frag_then_defrag` on a concrete message: split at limit 13 into 3 fragments, delivered as
    2,0,2,1: comes out once, identical -/
example : ∃ d' outs,
    feedAll {} [⟨1, 9, 2, 3, [byte 97, byte 98], [byte 5]⟩, ⟨1, 9, 0, 3, [byte 97, byte 98], [byte 1, byte 2]⟩,
                ⟨1, 9, 2, 3, [byte 97, byte 98], [byte 5]⟩, ⟨1, 9, 1, 3, [byte 97, byte 98], [byte 3, byte 4]⟩]
      = .ok (d', outs) ∧
    emitted outs = [⟨1, 9, 0, 1, [byte 97, byte 98], [byte 1, byte 2, byte 3, byte 4, byte 5]⟩] :=
  frag_then_defrag _ ⟨rfl, rfl⟩ 13
    [⟨1, 9, 0, 3, [byte 97, byte 98], [byte 1, byte 2]⟩, ⟨1, 9, 1, 3, [byte 97, byte 98], [byte 3, byte 4]⟩,
     ⟨1, 9, 2, 3, [byte 97, byte 98], [byte 5]⟩] (by decide) (by decide) _ (by decide) (by decide)
/-- the hypotheses of `defrag_no_mixing` are met by two messages with packet ids 9 and 10 that
    `fragUDP` splits, and by a sequence that drops, duplicates and interleaves their fragments -/
example :
    let mA : UDPMessage := ⟨1, 9, 0, 1, [byte 97], [byte 1, byte 2, byte 3]⟩
    let mB : UDPMessage := ⟨1, 10, 0, 1, [byte 97], [byte 4, byte 5, byte 6]⟩
    let fsA : List UDPMessage := [⟨1, 9, 0, 2, [byte 97], [byte 1, byte 2]⟩, ⟨1, 9, 1, 2, [byte 97], [byte 3]⟩]
    let fsB : List UDPMessage := [⟨1, 10, 0, 2, [byte 97], [byte 4, byte 5]⟩, ⟨1, 10, 1, 2, [byte 97], [byte 6]⟩]
    let sets := [(mA, fsA), (mB, fsB)]
    (∀ p ∈ sets, IsFragSet p.1 p.2) ∧
    (∀ p ∈ sets, ∀ q ∈ sets, p.1.packetID = q.1.packetID → p = q) ∧
    (∀ x ∈ [fsA[1], fsB[0], fsB[0], fsA[0], fsB[1]], x.fragCount.val ≤ 1 ∨ ∃ p ∈ sets, x ∈ p.2) := by
  refine ⟨?_, by decide, by decide⟩
  intro p hp
  simp only [List.mem_cons, List.not_mem_nil, or_false] at hp
  rcases hp with rfl | rfl
  · exact (frag_reassembles _ 12 _ (by decide) (by decide)).1
  · exact (frag_reassembles _ 12 _ (by decide) (by decide)).1

/-! ### the send paths: sendMessageAutoFrag (server) and udpConn.Send (client) -/

/-- both paths serialize into a buffer of MaxUDPSize bytes -/
theorem const_udpbuf : Gen.MaxUDPSize = 4096 := by decide

/-- what sits between the send paths and quic.Conn.SendDatagram — the two udpIOImpl.SendMessage
    bodies, which the harness cannot drive (a real *quic.Conn) and therefore re-implements — is
    still the code `ioSend` models: [logger verdict →] Serialize, -1 = silent drop, SendDatagram -/
theorem shape_client_sendmessage : Gen.C05Shape.clientSendMessage =
    "msgN := msg.Serialize(buf) if msgN < 0 { return nil } return io.Conn.SendDatagram(buf[:msgN])" := rfl
theorem shape_server_sendmessage : Gen.C05Shape.serverSendMessage =
    "if io.TrafficLogger != nil { ok := io.TrafficLogger.LogTraffic(io.AuthID, 0, uint64(len(msg.Data))) if !ok { _ = io.Conn.CloseWithError(closeErrCodeTrafficLimitReached, \"\") return errDisconnect } } msgN := msg.Serialize(buf) if msgN < 0 { return nil } return io.Conn.SendDatagram(buf[:msgN])" := rfl

/-- the packet id of a fragmented message is never 0 (the id of unfragmented messages and of a
    fresh Defragger), for every value `rand.Intn(0xFFFF)` can return -/
theorem packet_id_nonzero_range (draw : Nat) (h : draw < 65535) :
    1 ≤ (pktIDOfDraw draw).val ∧ (pktIDOfDraw draw).val ≤ 65535 ∧ pktIDOfDraw draw ≠ 0 := by
  have := pktIDOfDraw_val draw h
  refine ⟨by omega, by omega, ?_⟩
  intro e; rw [e] at this; simp at this

/-- all of 1..65535 can be drawn; the bound 0xFFFF matters: 65535 would wrap to 0 -/
example : pktIDOfDraw 0 = 1 ∧ pktIDOfDraw 65534 = 65535 ∧ pktIDOfDraw 65535 = 0 := by decide

/-- the send paths never panic, for every message, draw and behaviour of logger and transport -/
theorem autofrag_total (logger : Bool) (bufLen : Nat) (m : UDPMessage) (draw : Nat) (env : Nat → Env1) :
    NoPanic (autoFrag logger bufLen m draw env) := by
  rw [autoFrag_spec]
  split
  · simp
  · split
    · simp
    · split
      · simp
      · simp
      · rw [fragUDP_spec]; simp

/-- ALL-OR-NOTHING AND SIZED, on the wire.  Whatever logger and transport do: nothing is handed to
    SendDatagram, or the first datagram is the whole message and — only if the transport answered
    it with DatagramTooLargeError(L) — it is followed by the serializations of a PREFIX of the
    fragments `fs` the splitter produced for limit L with the drawn packet id; every one of those
    is at most L bytes; `fs` is the message whole (it fits L after all), or a fragment set: one
    common non-zero packet id, FragCount = their number ≤ 255, FragIDs 0..n-1.  `k` fragments were
    handed over and the first `j` of them left (`j ≤ k ≤ j+1`: at most the one datagram whose
    SendDatagram failed was handed over beyond what left, nothing after it); every fragment left
    (`j = |fs|`) exactly when no error is returned. -/
theorem autofrag_all_or_nothing_sized (logger : Bool) (bufLen : Nat) (m : UDPMessage) (draw : Nat)
    (hdraw : draw < 65535) (env : Nat → Env1) (hs : List Handed) (err : Option SendErr)
    (h : autoFrag logger bufLen m draw env = .ok (hs, err)) :
    hs = [] ∨ ∃ rest, hs = ⟨serialize m, (env 0).resp⟩ :: rest ∧
      (rest = [] ∨ ∃ L fs j k, (env 0).resp = .tooLarge L ∧
        fragUDP { m with packetID := pktIDOfDraw draw } L = .ok fs ∧
        j ≤ k ∧ k ≤ j + 1 ∧ k ≤ fs.length ∧
        rest.map (·.bytes) = (fs.take k).map serialize ∧
        delivered hs = (fs.take j).map serialize ∧
        (err = none ↔ j = fs.length) ∧
        (∀ x ∈ rest, (x.bytes.length : Int) ≤ L) ∧
        (fs = [] ∨ fs = [{ m with packetID := pktIDOfDraw draw }] ∨ IsFragSet { m with packetID := pktIDOfDraw draw } fs) ∧
        (∀ f ∈ fs, f.packetID = pktIDOfDraw draw ∧ f.packetID ≠ 0)) := by
  rw [autoFrag_spec] at h
  split at h
  · simp only [ok.injEq, Prod.mk.injEq] at h; exact Or.inl h.1.symm
  · split at h
    · simp only [ok.injEq, Prod.mk.injEq] at h; exact Or.inl h.1.symm
    · rename_i hlog hbuf
      right
      split at h
      · rename_i hr
        simp only [ok.injEq, Prod.mk.injEq] at h
        exact ⟨[], by rw [← h.1, hr], Or.inl rfl⟩
      · rename_i hr
        simp only [ok.injEq, Prod.mk.injEq] at h
        exact ⟨[], by rw [← h.1, hr], Or.inl rfl⟩
      · rename_i L hr
        obtain ⟨fs, hfs, h⟩ := bind_eq_ok h
        simp only [ok.injEq, Prod.mk.injEq] at h
        obtain ⟨h1, h2⟩ := h
        have hsz : size ({ m with packetID := pktIDOfDraw draw } : UDPMessage) = size m := rfl
        have hfit : ∀ f ∈ fs, size f ≤ bufLen := fun f hf => by
          have := frag_size_le _ L fs hfs f hf; rw [hsz] at this; omega
        obtain ⟨j, k, hjk, hkj, hk, s1, s2, s3⟩ := sendFrags_spec logger bufLen env fs hfit 1
        refine ⟨(sendFrags logger bufLen env 1 fs).1, by rw [← h1, hr], Or.inr ⟨L, fs, j, k, hr, hfs, hjk, hkj, hk, s1, ?_, ?_, ?_, ?_, ?_⟩⟩
        · rw [← h1]
          have : delivered (⟨serialize m, .tooLarge L⟩ :: (sendFrags logger bufLen env 1 fs).1)
              = delivered (sendFrags logger bufLen env 1 fs).1 := by simp [delivered]
          rw [this, s2]
        · rw [← h2]; exact s3
        · intro x hx
          obtain ⟨f, hf, e⟩ := sendFrags_mem logger bufLen env fs hfit 1 x hx
          rw [e, serialize_length]
          exact frag_fits _ L fs hfs f hf
        · rcases frag_outcome _ L fs hfs with rfl | ⟨rfl, _⟩ | ⟨hS, _, _⟩
          · exact Or.inl rfl
          · exact Or.inr (Or.inl rfl)
          · exact Or.inr (Or.inr hS)
        · intro f hf
          have hp : f.packetID = pktIDOfDraw draw := by
            rcases frag_outcome _ L fs hfs with rfl | ⟨rfl, _⟩ | ⟨hS, _, _⟩
            · simp at hf
            · simp only [List.mem_singleton] at hf; rw [hf]
            · exact hS.pid f hf
          exact ⟨hp, by rw [hp]; exact (packet_id_nonzero_range draw hdraw).2.2⟩

/-- a message larger than the 4096-byte buffer is not sent at all: nothing reaches SendDatagram,
    not even a part, and no error is reported (unless the server's traffic logger refuses) -/
theorem oversize_dropped_silently (logger : Bool) (bufLen : Nat) (m : UDPMessage) (draw : Nat) (env : Nat → Env1)
    (h : bufLen < size m) :
    autoFrag logger bufLen m draw env =
      .ok ([], if logger ∧ (env 0).logOk = false then some .disconnect else none) := by
  rw [autoFrag_spec]
  split
  · rfl
  · first | rfl | rw [if_pos h]

/-- a message that the transport refuses as too large and that would need more than 255
    fragments (or whose limit leaves no room for payload) is not sent at all either: after the
    refused whole attempt no fragment is handed over, nothing leaves, no error is reported -/
theorem overcount_dropped_silently (logger : Bool) (bufLen : Nat) (m : UDPMessage) (draw : Nat) (env : Nat → Env1)
    (L : Int) (hbuf : size m ≤ bufLen) (hlog : logger = true → (env 0).logOk = true) (hr : (env 0).resp = .tooLarge L)
    (hfit : ¬ (size m : Int) ≤ L)
    (h : L ≤ (headerSize m : Int) ∨ 255 < fragCountOf m (L - (headerSize m : Int)).toNat) :
    autoFrag logger bufLen m draw env = .ok ([⟨serialize m, .tooLarge L⟩], none) ∧
    delivered [⟨serialize m, .tooLarge L⟩] = [] := by
  refine ⟨?_, by simp [delivered]⟩
  rw [autoFrag_spec]
  rw [if_neg (by intro ⟨h1, h2⟩; rw [hlog h1] at h2; exact absurd h2 (by decide)), if_neg (by omega)]
  have hnone : fragUDP { m with packetID := pktIDOfDraw draw } L = .ok [] :=
    (frag_none_iff _ L).mpr ⟨hfit, h⟩
  simp only [hr, hnone, bind_ok, sendFrags]

/-- ROUND TRIP, whole: the transport accepts the message as it is -/
theorem autofrag_roundtrip_whole (logger : Bool) (bufLen : Nat) (m : UDPMessage) (hm : SenderShaped m) (draw : Nat)
    (env : Nat → Env1) (hbuf : size m ≤ bufLen) (hlog : logger = true → (env 0).logOk = true)
    (hr : (env 0).resp = .ok) :
    autoFrag logger bufLen m draw env = .ok ([⟨serialize m, .ok⟩], none) ∧
    recvAll (delivered [⟨serialize m, .ok⟩]) = [m] ∧ feed {} m = .ok ({}, some m) := by
  obtain ⟨_, _, hc, ha1, ha2, hd⟩ := hm
  refine ⟨?_, ?_, ?_⟩
  · rw [autoFrag_spec]
    rw [if_neg (by intro ⟨h1, h2⟩; rw [hlog h1] at h2; exact absurd h2 (by decide)), if_neg (by omega)]
    simp only [hr]
  · simp only [delivered, List.filter_cons, decide_true, ↓reduceIte, List.filter_nil, List.map_cons, List.map_nil,
      recvAll, List.filterMap_cons, serialize_parse m ha1 ha2 hd, List.filterMap_nil]
  · exact defrag_passthrough {} m (by rw [hc]; decide)

/-- ROUND TRIP, fragmented.  The transport refuses the whole message with limit L and accepts
    every fragment.  Then every fragment leaves, in order; and the receiver — ParseUDPMessage on
    each datagram, Feed into a fresh Defragger — handed those datagrams in ANY order with ANY
    duplicates (each at least once) emits exactly one message: the original session, address and
    payload (with the drawn packet id, which the receiver does not hand on). -/
theorem autofrag_roundtrip (logger : Bool) (bufLen : Nat) (m : UDPMessage) (hm : SenderShaped m) (draw : Nat)
    (env : Nat → Env1) (L : Int) (hbuf : size m ≤ bufLen)
    (hr : (env 0).resp = .tooLarge L)
    (hlog : ∀ n, logger = true → (env n).logOk = true) (hok : ∀ n, 1 ≤ n → (env n).resp = .ok)
    (fs : List UDPMessage) (hfs : fragUDP { m with packetID := pktIDOfDraw draw } L = .ok fs) (h2 : 2 ≤ fs.length) :
    ∃ hs, autoFrag logger bufLen m draw env = .ok (hs, none) ∧ delivered hs = fs.map serialize ∧
      ∀ σ : List Bytes, (∀ b ∈ σ, b ∈ delivered hs) → (∀ b ∈ delivered hs, b ∈ σ) →
        ∃ d' outs, feedAll {} (recvAll σ) = .ok (d', outs) ∧
          emitted outs = [{ m with packetID := pktIDOfDraw draw }] := by
  obtain ⟨_, hfid, hc, ha1, ha2, hd⟩ := hm
  have hsz : size ({ m with packetID := pktIDOfDraw draw } : UDPMessage) = size m := rfl
  have hfit : ∀ f ∈ fs, size f ≤ bufLen := fun f hf => by
    have := frag_size_le _ L fs hfs f hf; rw [hsz] at this; omega
  have hall := sendFrags_all_ok logger bufLen env fs hfit 1 (fun n hn => ⟨hok n hn, hlog n⟩)
  have hdel : delivered (⟨serialize m, .tooLarge L⟩ :: fs.map (fun f => (⟨serialize f, .ok⟩ : Handed))) = fs.map serialize := by
    simp only [delivered, List.filter_cons, reduceCtorEq, decide_false, Bool.false_eq_true, ↓reduceIte]
    rw [List.filter_eq_self.mpr (by intro h hh; obtain ⟨f, _, rfl⟩ := List.mem_map.mp hh; simp)]
    simp [List.map_map]
  refine ⟨⟨serialize m, .tooLarge L⟩ :: fs.map (fun f => ⟨serialize f, .ok⟩), ?_, hdel, ?_⟩
  · rw [autoFrag_spec]
    rw [if_neg (by intro ⟨h1, h2'⟩; rw [hlog 0 h1] at h2'; exact absurd h2' (by decide)), if_neg (by omega)]
    simp only [hr, hfs, bind_ok, hall]
  · intro σ hsub hsup
    rw [hdel] at hsub hsup
    obtain ⟨hS, _, hne⟩ := frag_reassembles _ L fs hfs h2
    have hF : ∀ f ∈ fs, 1 ≤ f.addr.length ∧ f.addr.length ≤ 2048 ∧ 1 ≤ f.data.length := fun f hf => by
      have := hS.addr f hf
      simp only at this
      rw [this]; exact ⟨ha1, ha2, hne f hf⟩
    obtain ⟨r1, r2⟩ := recvAll_serialized fs hF σ (fun b hb => by
      obtain ⟨f, hf, e⟩ := List.mem_map.mp (hsub b hb); exact ⟨f, hf, e.symm⟩)
    exact frag_then_defrag { m with packetID := pktIDOfDraw draw } ⟨hfid, hc⟩ L fs hfs h2 (recvAll σ) r1
      (fun f hf => r2 f hf (hsup _ (List.mem_map_of_mem hf)))

/-- A MIDDLE FRAGMENT FAILS.  The transport refuses the whole message with limit L, the splitter
    produces the fragment set `fs`, and the send path returns an error (a SendDatagram failure or a
    logger refusal on some fragment).  Then exactly a proper prefix `fs[0..j)`, j < n, has left, no
    later fragment is sent after the failed one, and the receiver — whatever order, duplicates
    or losses it sees those datagrams in — never emits anything: all-or-nothing holds at the far
    side because the set can never become complete. -/
theorem autofrag_partial_failure (logger : Bool) (bufLen : Nat) (m : UDPMessage) (hm : SenderShaped m) (draw : Nat)
    (env : Nat → Env1) (L : Int) (hr : (env 0).resp = .tooLarge L)
    (fs : List UDPMessage) (hfs : fragUDP { m with packetID := pktIDOfDraw draw } L = .ok fs) (h2 : 2 ≤ fs.length)
    (hs : List Handed) (e : SendErr) (h : autoFrag logger bufLen m draw env = .ok (hs, some e)) :
    hs = [] ∨ ∃ j k, j < fs.length ∧ j ≤ k ∧ k ≤ j + 1 ∧
      hs.map (·.bytes) = serialize m :: (fs.take k).map serialize ∧
      delivered hs = (fs.take j).map serialize ∧
      ∀ σ : List Bytes, (∀ b ∈ σ, b ∈ delivered hs) →
        ∃ d' outs, feedAll {} (recvAll σ) = .ok (d', outs) ∧ emitted outs = [] := by
  obtain ⟨_, hfid, hc, ha1, ha2, hd⟩ := hm
  rw [autoFrag_spec] at h
  split at h
  · simp only [ok.injEq, Prod.mk.injEq] at h; exact Or.inl h.1.symm
  · split at h
    · simp only [ok.injEq, Prod.mk.injEq] at h; exact Or.inl h.1.symm
    · rename_i hlog hbuf
      right
      simp only [hr, hfs, bind_ok, ok.injEq, Prod.mk.injEq] at h
      obtain ⟨h1, herr⟩ := h
      have hsz : size ({ m with packetID := pktIDOfDraw draw } : UDPMessage) = size m := rfl
      have hfit : ∀ f ∈ fs, size f ≤ bufLen := fun f hf => by
        have := frag_size_le _ L fs hfs f hf; rw [hsz] at this; omega
      obtain ⟨j, k, hjk, hkj, hk, s1, s2, s3⟩ := sendFrags_spec logger bufLen env fs hfit 1
      have hjn : j < fs.length := by
        have : j ≠ fs.length := fun e' => by rw [s3.mpr e'] at herr; simp at herr
        omega
      obtain ⟨hS, _, hne⟩ := frag_reassembles _ L fs hfs h2
      have hdel : delivered hs = (fs.take j).map serialize := by
        rw [← h1]
        have : delivered (⟨serialize m, .tooLarge L⟩ :: (sendFrags logger bufLen env 1 fs).1)
            = delivered (sendFrags logger bufLen env 1 fs).1 := by simp [delivered]
        rw [this, s2]
      -- handed = delivered prefix plus at most the failing datagram
      refine ⟨j, k, hjn, hjk, hkj, by rw [← h1]; simp only [List.map_cons, s1], hdel, ?_⟩
      intro σ hsub
      rw [hdel] at hsub
      have hF : ∀ f ∈ fs.take j, 1 ≤ f.addr.length ∧ f.addr.length ≤ 2048 ∧ 1 ≤ f.data.length := fun f hf => by
        have hf' := List.mem_of_mem_take hf
        have := hS.addr f hf'
        simp only at this
        rw [this]; exact ⟨ha1, ha2, hne f hf'⟩
      obtain ⟨r1, _⟩ := recvAll_serialized (fs.take j) hF σ (fun b hb => by
        obtain ⟨f, hf, e'⟩ := List.mem_map.mp (hsub b hb); exact ⟨f, hf, e'.symm⟩)
      -- fragment j never left, so the set is never complete
      have hmiss : fs[j] ∉ fs.take j := by
        intro hmem
        obtain ⟨i, hi, e'⟩ := List.getElem_of_mem hmem
        simp only [List.length_take] at hi
        rw [List.getElem_take] at e'
        have a := hS.fid i (by omega)
        have b := hS.fid j hjn
        rw [e'] at a; omega
      have hnc : ¬ Complete fs (recvAll σ) := fun hcomp => hmiss (r1 _ (hcomp fs[j] (List.getElem_mem hjn)))
      cases hrecv : recvAll σ with
      | nil => exact ⟨{}, [], rfl, rfl⟩
      | cons y b =>
        rw [hrecv] at r1 hnc
        obtain ⟨d', outs, f1, _, f3⟩ := defrag_any_order _ fs hS {} ⟨[], [], rfl⟩ (fresh_not_holding _ fs hS) [] y b
          (fun x hx => List.mem_of_mem_take (r1 x hx))
        simp only [List.nil_append] at f1 f3
        exact ⟨d', outs, f1, by rw [f3, if_neg hnc]⟩


/-- a send on a concrete message: 5 payload bytes, address "ab", the transport refuses the whole
    datagram with limit 13 and accepts the rest; draw 8 → packet id 9; four datagrams are handed
    over (16, 13, 13, 12 bytes), three leave -/
example :
    (autoFrag true 4096 ⟨1, 0, 0, 1, [byte 97, byte 98], [byte 1, byte 2, byte 3, byte 4, byte 5]⟩ 8
      (fun i => if i = 0 then ⟨true, .tooLarge 13⟩ else {})).bind
        (fun r => .ok (r.1.map (fun h => (h.bytes.length, h.resp)), r.2, (delivered r.1).length)) =
    .ok ([(16, .tooLarge 13), (13, .ok), (13, .ok), (12, .ok)], none, 3) := by decide
/-- the same send when the second fragment's SendDatagram fails: the third is never handed over,
    one fragment has left, the error is returned -/
example :
    (autoFrag false 4096 ⟨1, 0, 0, 1, [byte 97, byte 98], [byte 1, byte 2, byte 3, byte 4, byte 5]⟩ 8
      (fun i => if i = 0 then ⟨true, .tooLarge 13⟩ else if i = 2 then ⟨true, .fail⟩ else {})).bind
        (fun r => .ok (r.1.map (fun h => (h.bytes.length, h.resp)), r.2, (delivered r.1).length)) =
    .ok ([(16, .tooLarge 13), (13, .ok), (13, .fail)], some .other, 1) := by decide
/-- the hypotheses of the round-trip theorems are satisfiable -/
example : SenderShaped ⟨1, 0, 0, 1, [byte 97, byte 98], [byte 1, byte 2, byte 3, byte 4, byte 5]⟩ := by
  unfold SenderShaped; decide

/-! ### sessions: several packets through ONE receiveLoop / ONE udpConn -/

/-- a session never panics -/
theorem session_total (logger stop : Bool) (bufLen : Nat) (ps : List Pkt) :
    NoPanic (sessionSend logger stop bufLen ps) := sessionSend_noPanic logger stop bufLen ps

/-- FRESH ID PER PACKET.  In a session the i-th result is what sending the i-th packet ON ITS OWN
    gives — a function of that packet's message, of ITS OWN draw and of the answers to ITS OWN
    calls, of nothing that happened to earlier packets — and every datagram handed over after its
    whole attempt is a fragment carrying `pktIDOfDraw` of that draw (non-zero). -/
theorem session_ids_fresh_per_packet (logger stop : Bool) (bufLen : Nat) (ps : List Pkt)
    (hdraw : ∀ p ∈ ps, p.draw < 65535)
    (rs : List (List Handed × Option SendErr)) (h : sessionSend logger stop bufLen ps = .ok rs) :
    rs.length ≤ ps.length ∧
    ∀ (i : Nat) (r : List Handed × Option SendErr), rs[i]? = some r → ∃ p : Pkt, ps[i]? = some p ∧
      autoFrag logger bufLen p.m p.draw p.env = .ok r ∧
      ∀ x ∈ r.1.drop 1, ∃ f : UDPMessage, x.bytes = serialize f ∧
        f.packetID = pktIDOfDraw p.draw ∧ f.packetID ≠ 0 := by
  obtain ⟨hl, hg⟩ := sessionSend_get logger stop bufLen ps rs h
  refine ⟨hl, ?_⟩
  intro i r hr
  obtain ⟨p, hp, ha⟩ := hg i r hr
  refine ⟨p, hp, ha, ?_⟩
  intro x hx
  have hd := hdraw p (List.mem_of_getElem? hp)
  rcases autofrag_all_or_nothing_sized logger bufLen p.m p.draw hd p.env r.1 r.2 ha with h0 | ⟨rest, h1, h2⟩
  · rw [h0] at hx; simp at hx
  · rw [h1] at hx
    simp only [List.drop_succ_cons, List.drop_zero] at hx
    rcases h2 with h2 | ⟨L, fs, j, k, _, _, _, _, _, hmap, _, _, _, _, hpid⟩
    · rw [h2] at hx; simp at hx
    · have : x.bytes ∈ rest.map (·.bytes) := List.mem_map_of_mem hx
      rw [hmap] at this
      obtain ⟨f, hf, e⟩ := List.mem_map.mp this
      have := hpid f (List.mem_of_mem_take hf)
      exact ⟨f, e.symm, this.1, this.2⟩

/-- NO MIXING ACROSS THE PACKETS OF A SESSION.  Sender-shaped messages, draws pairwise distinct
    (what the per-packet draw gives except with probability ≈ k²/131070).  Take ANY sequence of
    datagrams that left during the session — any packets, any subset, any order, any duplicates —
    through ParseUDPMessage and one fresh Defragger: no panic, and every message handed on has the
    session, address and payload of ONE packet of the session. -/
theorem session_no_mixing (logger stop : Bool) (bufLen : Nat) (ps : List Pkt)
    (hshape : ∀ p ∈ ps, SenderShaped p.m) (hdraw : ∀ p ∈ ps, p.draw < 65535)
    (hdist : ps.Pairwise (fun p q => p.draw ≠ q.draw))
    (rs : List (List Handed × Option SendErr)) (h : sessionSend logger stop bufLen ps = .ok rs)
    (σ : List Bytes) (hσ : ∀ b ∈ σ, ∃ r ∈ rs, b ∈ delivered r.1) :
    ∃ d' outs, feedAll {} (recvAll σ) = .ok (d', outs) ∧
      ∀ out ∈ emitted outs, ∃ p ∈ ps,
        out.sessionID = p.m.sessionID ∧ out.addr = p.m.addr ∧ out.data = p.m.data := by
  -- the fragment sets of the session
  let sets := ps.filterMap fragSetOf
  have hsets : ∀ a ∈ sets, IsFragSet a.1 a.2 := by
    intro a ha
    obtain ⟨p, _, hp⟩ := List.mem_filterMap.mp ha
    exact (fragSetOf_isFragSet p a hp).2
  have hsd : ∀ a ∈ sets, ∀ b ∈ sets, a.1.packetID = b.1.packetID → a = b := by
    intro a ha b hb e
    obtain ⟨p, hp, hpa⟩ := List.mem_filterMap.mp ha
    obtain ⟨q, hq, hqb⟩ := List.mem_filterMap.mp hb
    rw [(fragSetOf_isFragSet p a hpa).1, (fragSetOf_isFragSet q b hqb).1] at e
    have : p.draw = q.draw := pktIDOfDraw_inj _ _ (hdraw p hp) (hdraw q hq) e
    have := pairwise_draw_eq ps hdist p q hp hq this
    subst this
    rw [hpa] at hqb; exact Option.some.inj hqb
  -- what the receiver parses
  have hrecv : ∀ x ∈ recvAll σ,
      (∃ p ∈ ps, (x = p.m ∨ x = p.withID)) ∨ ∃ a ∈ sets, x ∈ a.2 := by
    intro x hx
    simp only [recvAll, List.mem_filterMap] at hx
    obtain ⟨b, hb, hx⟩ := hx
    obtain ⟨r, hr, hbr⟩ := hσ b hb
    obtain ⟨p, hp, ha⟩ := sessionSend_mem logger stop bufLen ps rs h r hr
    obtain ⟨_, _, _, a1, a2, d1⟩ := hshape p hp
    rcases autoFrag_delivered_cases logger bufLen p r ha b hbr with e | e | ⟨a, hfa, f, hf, e⟩
    · rw [e, serialize_parse p.m a1 a2 d1] at hx
      exact Or.inl ⟨p, hp, Or.inl (Option.some.inj hx).symm⟩
    · rw [e, serialize_parse p.withID a1 a2 d1] at hx
      exact Or.inl ⟨p, hp, Or.inr (Option.some.inj hx).symm⟩
    · have hS := (fragSetOf_isFragSet p a hfa)
      have hadr := hS.2.addr f hf
      rw [hS.1] at hadr
      have hne : 1 ≤ f.data.length := by
        -- fragments of a fragment set produced by the splitter are non-empty
        unfold fragSetOf at hfa
        split at hfa
        · rename_i L _
          split at hfa
          · rename_i fs hfs
            split at hfa
            · rename_i h2
              simp only [Option.some.injEq] at hfa; subst hfa
              exact (frag_reassembles _ L fs hfs h2).2.2 f hf
            · simp at hfa
          · simp at hfa
        · simp at hfa
      rw [e, serialize_parse f (by rw [hadr]; exact a1) (by rw [hadr]; exact a2) hne] at hx
      exact Or.inr ⟨a, List.mem_filterMap.mpr ⟨p, hp, hfa⟩, (Option.some.inj hx) ▸ hf⟩
  have hcnt : ∀ x ∈ recvAll σ, x.fragCount.val ≤ 1 ∨ ∃ a ∈ sets, x ∈ a.2 := by
    intro x hx
    rcases hrecv x hx with ⟨p, hp, e⟩ | h'
    · left
      obtain ⟨_, _, hc, _⟩ := hshape p hp
      rcases e with rfl | rfl
      · rw [hc]; decide
      · show p.m.fragCount.val ≤ 1
        rw [hc]; decide
    · exact Or.inr h'
  obtain ⟨d', outs, hfeed, hout⟩ := defrag_no_mixing sets hsets hsd (recvAll σ) hcnt
  refine ⟨d', outs, hfeed, ?_⟩
  intro out ho
  rcases hout out ho with ⟨hmem, hc1⟩ | ⟨a, ha, e⟩
  · rcases hrecv out hmem with ⟨p, hp, e⟩ | ⟨a, ha, hin⟩
    · rcases e with rfl | rfl
      · exact ⟨p, hp, rfl, rfl, rfl⟩
      · exact ⟨p, hp, rfl, rfl, rfl⟩
    · have := (hsets a ha).cnt out hin
      have := (hsets a ha).two
      omega
  · obtain ⟨p, hp, hpa⟩ := List.mem_filterMap.mp ha
    rw [e, (fragSetOf_isFragSet p a hpa).1]
    exact ⟨p, hp, rfl, rfl, rfl⟩

/-- a two-packet session (both refused whole with limit 13, draws 8 and 8000 → ids 9 and 8001):
    each packet's fragments carry its own id -/
example :
    let m : UDPMessage := ⟨1, 0, 0, 1, [byte 97, byte 98], [byte 1, byte 2, byte 3, byte 4, byte 5]⟩
    let env : Nat → Env1 := fun i => if i = 0 then ⟨true, .tooLarge 13⟩ else {}
    (sessionSend true true 4096 [⟨m, 8, env⟩, ⟨m, 8000, env⟩]).bind
        (fun rs => .ok (rs.map (fun r => (recvAll (delivered r.1)).map (fun f => (f.packetID.val, f.fragID.val, f.fragCount.val))))) =
      .ok [[(9, 0, 3), (9, 1, 3), (9, 2, 3)], [(8001, 0, 3), (8001, 1, 3), (8001, 2, 3)]] := by decide

/-! ### defect D1: the pinned tree (fragment count narrowed to uint8 before the slice is made) -/

/-- the pinned FragUDPMessage panics EXACTLY when 256 or more fragments are needed … -/
theorem frag_pinned_panics_iff (m : UDPMessage) (L : Int) :
    fragUDPPinned m L = .panic ↔
      ¬ (size m : Int) ≤ L ∧ 0 < L - (headerSize m : Int) ∧ 255 < fragCountOf m (L - (headerSize m : Int)).toNat := by
  rw [fragUDPPinned_spec]
  split
  · simp_all
  · split
    · constructor
      · intro h; simp at h
      · intro ⟨_, h, _⟩; omega
    · split
      · rename_i h1 h2 h3
        simp only [true_iff]
        exact ⟨h1, by omega, h3⟩
      · rename_i h1 h2 h3
        constructor
        · intro h; simp at h
        · intro ⟨_, _, h⟩; exact absurd h h3

/-- … and otherwise does what the repaired function does: the patch changes behaviour only
    where the pinned code crashes the process -/
theorem frag_pinned_agrees (m : UDPMessage) (L : Int) (h : fragUDPPinned m L ≠ .panic) :
    fragUDPPinned m L = fragUDP m L := by
  rw [fragUDPPinned_spec] at h ⊢
  rw [fragUDP_spec]
  by_cases h1 : (size m : Int) ≤ L
  · simp only [h1, ↓reduceIte]
  · by_cases h2 : L - (headerSize m : Int) ≤ 0
    · simp only [h1, h2, ↓reduceIte]
    · by_cases h3 : fragCountOf m (L - (headerSize m : Int)).toNat > 255
      · simp only [h1, h2, h3, ↓reduceIte, ne_eq, not_true_eq_false] at h
      · simp only [h1, h2, h3, ↓reduceIte]

set_option maxRecDepth 100000 in
/-- D1, the failing input of DESIGN §7: payload 4096, 16 payload bytes per fragment (header 16,
    limit 32): the count 256 becomes 0, the slice is empty, `frags[0]` faults -/
theorem frag_count_pinned_counterexample :
    fragUDPPinned ⟨1, 1, 0, 1, List.replicate 7 (byte 97), List.replicate 4096 (byte 0)⟩ 32 = .panic := by
  decide

set_option maxRecDepth 20000 in
/-- 257 fragments: count 1, the second store faults -/
theorem frag_count_pinned_counterexample_257 :
    fragUDPPinned ⟨1, 1, 0, 1, [byte 97], List.replicate 257 (byte 0)⟩ 11 = .panic := by
  decide

set_option maxRecDepth 100000 in
/-- the same inputs on the repaired function: discarded -/
theorem frag_fixed_on_counterexample :
    fragUDP ⟨1, 1, 0, 1, List.replicate 7 (byte 97), List.replicate 4096 (byte 0)⟩ 32 = .ok [] ∧
    fragUDP ⟨1, 1, 0, 1, [byte 97], List.replicate 257 (byte 0)⟩ 11 = .ok [] := by
  decide

end Hy.Props.C05
