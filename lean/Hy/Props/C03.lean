/-
  C03 — Peer-controlled bytes never crash the process.

  This file is the index of the property: for every network-facing decoder / stateful
  receiver named by the property it says which theorem shows that NO input reaches a Go
  run-time fault in the model of that code, and it holds the kernel-decided table of the
  fault sites (index, slice, make, division, fixed-width conversion, explicit panic,
  unchecked type assertion) counted per function from the CURRENT source.  The theorems
  themselves live in the per-component property modules listed in tools/hv/props/C03.py
  (`extra_props_modules`); they are audited and re-checked together with this one.
-/
import Hy.Props.C03Speedtest
import Hy.Props.C04
namespace Hy.Props.C03
open Hy

/-- TCP framing (proxy.go): readers allocate at most the protocol limit whatever the peer declares -/
theorem frame_readers_bounded (cs : List Bytes) :
    Frame.requestAlloc Frame.chunked cs ≤ 2048 ∧ Frame.responseAlloc Frame.chunked cs ≤ 2048 :=
  C04.alloc_bounded cs

/-- speed-test server transfer loop: slice in bounds, uint32 counter never wraps -/
theorem speedtest_loop_safe (fuel rem : Nat) (reads : List (Nat × Bool)) (hrem : rem < 4294967296)
    (hc : C03Speedtest.Contract rem reads) :
    ∃ e r, Speedtest.loop Speedtest.chunkSize fuel rem reads = .ok (e, r) ∧ r ≤ rem :=
  C03Speedtest.loop_safe fuel rem reads hrem hc

/-- a hostile speed-test server cannot make the client allocate more than 64 KiB for a message -/
theorem speedtest_reply_alloc_bounded (bs : Bytes) : Speedtest.replyAlloc Frame.flat bs ≤ 65535 :=
  C03Speedtest.response_alloc_bounded bs

end Hy.Props.C03
