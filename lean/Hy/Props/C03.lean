/-
  C03 — Peer-controlled bytes never crash the process.

  This file is the index of the property.  For every network-facing decoder / stateful
  receiver the property names it restates the theorem showing that NO input (and, for the
  stateful ones, no input sequence from any reachable state) reaches a Go run-time fault in
  the model of that code — models in which every index, slice, make and narrowing conversion
  is an explicit possibly-panicking operation (`Hy.Res`).  It also holds the kernel-decided
  table of the fault sites counted per function from the CURRENT source of the 17 anchored
  files (`sites_match`): a new index/slice/make/division/conversion/panic site in any of them
  changes the regenerated table and fails here, even when no sampled input reaches it.

  The models are tied to the code by the differential streams of the owning properties
  (C04 frame, C05 frag/defrag, C13 salamander, C14 gecko, C17 sniff, C20 punch) and by the
  streams listed in tools/hv/props/C03.py, all of which run the real decoders under recover()
  on exact-size (cap == len) inputs.
-/
import Hy.Props.C03Speedtest
import Hy.Props.C04
import Hy.Props.C05
import Hy.Props.C13
import Hy.Props.C14
import Hy.Props.C17
import Hy.Props.C20
import Hy.Gen.SitesC03
namespace Hy.Props.C03
open Hy

/-! ### proxy stream frames (core/internal/protocol/proxy.go) -/

/-- ReadTCPRequest / ReadTCPResponse allocate at most the protocol limit whatever the peer declares -/
theorem frame_readers_bounded (cs : List Bytes) :
    Frame.requestAlloc Frame.chunked cs ≤ 2048 ∧ Frame.responseAlloc Frame.chunked cs ≤ 2048 :=
  C04.alloc_bounded cs

/-! ### UDP datagrams and fragments (proxy.go ParseUDPMessage, frag.go; server/client receive paths) -/

/-- ParseUDPMessage: every datagram gives a message or an error -/
theorem udp_parse_total (bs : Bytes) : Res.NoPanic (Frag.parseUDPMessage bs) := C05.parse_total bs

/-- FragUDPMessage (reply path; address length and datagram limit are controlled by the peer and the path) -/
theorem udp_frag_total (m : Frag.UDPMessage) (L : Int) : Res.NoPanic (Frag.fragUDP m L) := C05.frag_total m L

/-- Defragger.Feed: every history of messages, with any field values the wire allows -/
theorem udp_defrag_total (ms : List Frag.UDPMessage) : Res.NoPanic (Frag.feedAll {} ms) := C05.feed_total ms

/-! ### Salamander (extras/obfs/salamander.go, conn.go) -/

/-- packets too short to hold a salt and a payload byte are dropped (the model of Deobfuscate is
    total by construction: its only index arithmetic is guarded by this length test) -/
theorem salamander_short_dropped (H : Bytes → Bytes) (psk w : Bytes) (cap : Nat) (h : w.length ≤ 8) :
    Salamander.deobfuscate H psk w cap = none := C13.short_dropped H psk w cap h

/-! ### Gecko (extras/obfs/gecko.go, gecko_frame.go) -/

theorem gecko_decode_total (inp : Bytes) : Res.NoPanic (Gecko.decodeFrame inp) := C14.decode_total inp

/-- the receiver: every datagram, from EVERY receiver state -/
theorem gecko_rx_total (st : Gecko.St) (src : Nat) (d : Bytes) (now : Nat) (tie : Gecko.Key) (pcap : Nat) :
    Res.NoPanic (Gecko.rxStep st src d now tie pcap) := C14.rx_total st src d now tie pcap

/-! ### hole-punch / STUN demux (extras/realm/punch.go, punch_conn.go) -/

theorem punch_decode_total (pkt : Bytes) (m : Punch.Meta) : Res.NoPanic (Punch.decode Sha256.hash pkt m) :=
  C20.decode_total_sha256 pkt m

/-- the demultiplexing reader over any sequence of incoming packets, any registry -/
theorem punch_read_total (ins : List Punch.Input) (c : Punch.Conn) :
    ∃ c' r k, Punch.readFrom Sha256.hash c ins = .ok (c', r, k) ∧ c'.reg = c.reg :=
  C20.read_total_sha256 ins c

/-! ### first bytes of a sniffed TCP / UDP flow (extras/sniff) -/

theorem sniff_tcp_total (cfg : Sniff.Cfg) (P : Sniff.Parsers) (addr : Bytes) (s : Sniff.Stream) :
    Res.NoPanic (Sniff.sniffTCP cfg P addr s) := C17.tls_record_arith_total cfg P addr s

theorem sniff_quic_total (C : Quic.Crypto) (sortFn : List Quic.Frame → List Quic.Frame)
    (sni : Bytes → Option Bytes) (addr data : Bytes) (hc : C17.CryptoContract C sortFn) :
    Res.NoPanic (Quic.sniffUDP Quic.fixed C sortFn sni addr data) :=
  C17.quic_sniff_total C sortFn sni addr data hc

/-! ### speed-test server and the client's reply readers (extras/outbounds/speedtest) -/

theorem speedtest_loop_safe (fuel rem : Nat) (reads : List (Nat × Bool)) (hrem : rem < 4294967296)
    (hc : C03Speedtest.Contract rem reads) :
    ∃ e r, Speedtest.loop Speedtest.chunkSize fuel rem reads = .ok (e, r) ∧ r ≤ rem :=
  C03Speedtest.loop_safe fuel rem reads hrem hc

theorem speedtest_reply_alloc_bounded (bs : Bytes) : Speedtest.replyAlloc Frame.flat bs ≤ 65535 :=
  C03Speedtest.response_alloc_bounded bs

/-! ### the fault-site table (regenerated from the source on every run)

  per function: [index, slice, make, div/mod, fixed-width conversion, panic, unchecked type assertion].
  Covered by (theorem above / owning property):
    proxy.go ReadTCP*/WriteTCP*/varintPut ........ C04 (alloc_bounded, roundtrips; writers sized by quicvarint.Len)
    proxy.go ParseUDPMessage/Serialize/HeaderSize . udp_parse_total, C05.serialize_size
    frag.go ...................................... udp_frag_total, udp_defrag_total
    server/udp.go, client/udp.go ................. map reads and `make` of constant size only; receive paths = parse → Feed
                                                   (C07 no-panic invariants for the server manager)
    salamander.go, conn.go ....................... salamander_short_dropped, C13.counts_read/counts_write (2048-byte buffers)
    gecko.go, gecko_frame.go ..................... gecko_decode_total, gecko_rx_total, C14.split_total/encode_total
    punch.go, punch_conn.go ...................... punch_decode_total, punch_read_total, C20.encode_total
    stun.go ...................................... pion/stun is external (run under recover()); netIPPortToAddrPort's
                                                   copies are onto fixed [4]/[16] arrays from To4/To16 results (C20 model)
    sniff.go, internal/quic/* .................... sniff_tcp_total, sniff_quic_total (newProtectionKey/hkdfExpandLabel
                                                   panics only on impossible HKDF/AES key-size errors: constant sizes)
    speedtest/* .................................. speedtest_loop_safe, speedtest_reply_alloc_bounded, C03Speedtest.*
-/
theorem sites_match : Gen.SitesC03.sites = [
    ("core/client/udp.go:newUDPSessionManager", [0, 0, 1, 0, 0, 0, 0]),
    ("core/client/udp.go:udpConn.Send", [0, 0, 0, 0, 2, 0, 0]),
    ("core/client/udp.go:udpSessionManager.NewUDP", [1, 0, 2, 0, 0, 0, 0]),
    ("core/client/udp.go:udpSessionManager.feed", [1, 0, 0, 0, 0, 0, 0]),
    ("core/internal/frag/frag.go:Defragger.Feed", [3, 1, 2, 0, 2, 0, 0]),
    ("core/internal/frag/frag.go:FragUDPMessage", [1, 1, 1, 1, 2, 0, 0]),
    ("core/internal/protocol/proxy.go:ParseUDPMessage", [0, 2, 0, 0, 1, 0, 0]),
    ("core/internal/protocol/proxy.go:ReadTCPRequest", [0, 0, 1, 0, 1, 0, 0]),
    ("core/internal/protocol/proxy.go:ReadTCPResponse", [1, 1, 1, 0, 1, 0, 0]),
    ("core/internal/protocol/proxy.go:UDPMessage.HeaderSize", [0, 0, 0, 0, 2, 0, 0]),
    ("core/internal/protocol/proxy.go:UDPMessage.Serialize", [2, 4, 0, 0, 1, 0, 0]),
    ("core/internal/protocol/proxy.go:WriteTCPRequest", [0, 4, 1, 0, 7, 0, 0]),
    ("core/internal/protocol/proxy.go:WriteTCPResponse", [2, 4, 1, 0, 6, 0, 0]),
    ("core/internal/protocol/proxy.go:varintPut", [15, 0, 0, 0, 15, 1, 0]),
    ("core/server/udp.go:newUDPSessionManager", [0, 0, 1, 0, 0, 0, 0]),
    ("core/server/udp.go:sendMessageAutoFrag", [0, 0, 0, 0, 2, 0, 0]),
    ("core/server/udp.go:udpSessionEntry.checkAddr", [2, 0, 1, 0, 0, 0, 0]),
    ("core/server/udp.go:udpSessionEntry.receiveLoop", [0, 1, 2, 0, 0, 0, 0]),
    ("core/server/udp.go:udpSessionManager.Run", [0, 0, 1, 0, 0, 0, 0]),
    ("core/server/udp.go:udpSessionManager.cleanup", [0, 0, 1, 0, 0, 0, 0]),
    ("core/server/udp.go:udpSessionManager.feed", [2, 0, 0, 0, 0, 0, 0]),
    ("extras/obfs/conn.go:obfsPacketConn.ReadFrom", [0, 1, 0, 0, 0, 0, 0]),
    ("extras/obfs/conn.go:obfsPacketConn.WriteTo", [0, 1, 0, 0, 0, 0, 0]),
    ("extras/obfs/conn.go:wrapPacketConn", [0, 0, 2, 0, 0, 0, 0]),
    ("extras/obfs/gecko.go:geckoPacketConn.ReadFrom", [1, 2, 0, 0, 0, 0, 0]),
    ("extras/obfs/gecko.go:geckoPacketConn.WriteTo", [1, 0, 0, 0, 0, 0, 0]),
    ("extras/obfs/gecko.go:geckoPacketConn.acceptChunk", [6, 1, 3, 0, 2, 0, 0]),
    ("extras/obfs/gecko.go:geckoPacketConn.dropEntryLocked", [3, 0, 0, 0, 0, 0, 0]),
    ("extras/obfs/gecko.go:geckoPacketConn.gcLoop", [0, 0, 0, 1, 0, 0, 0]),
    ("extras/obfs/gecko.go:geckoPacketConn.randomPadLen", [0, 0, 0, 0, 1, 0, 0]),
    ("extras/obfs/gecko.go:geckoPacketConn.writeFragmented", [0, 2, 1, 1, 4, 0, 0]),
    ("extras/obfs/gecko.go:newGeckoPacketConn", [0, 0, 4, 0, 0, 0, 0]),
    ("extras/obfs/gecko.go:randIntn", [0, 2, 0, 1, 2, 0, 0]),
    ("extras/obfs/gecko_frame.go:decodeFrame", [4, 2, 0, 0, 2, 0, 0]),
    ("extras/obfs/gecko_frame.go:encodeFrame", [3, 3, 0, 0, 3, 0, 0]),
    ("extras/obfs/salamander.go:newSalamanderObfuscator", [0, 0, 1, 0, 0, 0, 0]),
    ("extras/obfs/salamander.go:salamanderObfuscator.Deobfuscate", [2, 2, 0, 1, 0, 0, 0]),
    ("extras/obfs/salamander.go:salamanderObfuscator.Obfuscate", [2, 2, 0, 1, 0, 0, 0]),
    ("extras/obfs/salamander.go:salamanderObfuscator.keyLocked", [0, 2, 0, 0, 0, 0, 0]),
    ("extras/outbounds/speedtest/protocol.go:readDownloadResponse", [2, 1, 1, 0, 0, 0, 0]),
    ("extras/outbounds/speedtest/protocol.go:readUploadResponse", [2, 1, 1, 0, 0, 0, 0]),
    ("extras/outbounds/speedtest/protocol.go:writeDownloadRequest", [1, 1, 1, 0, 0, 0, 0]),
    ("extras/outbounds/speedtest/protocol.go:writeDownloadResponse", [2, 2, 1, 0, 1, 0, 0]),
    ("extras/outbounds/speedtest/protocol.go:writeUploadRequest", [1, 1, 1, 0, 0, 0, 0]),
    ("extras/outbounds/speedtest/protocol.go:writeUploadResponse", [2, 2, 1, 0, 1, 0, 0]),
    ("extras/outbounds/speedtest/protocol.go:writeUploadSummary", [0, 1, 1, 1, 1, 0, 0]),
    ("extras/outbounds/speedtest/server.go:handleDownload", [0, 1, 1, 0, 0, 0, 0]),
    ("extras/outbounds/speedtest/server.go:handleUpload", [0, 1, 1, 0, 1, 0, 0]),
    ("extras/outbounds/speedtest/server.go:server", [2, 1, 0, 0, 0, 0, 0]),
    ("extras/realm/punch.go:DecodePunchPacket", [1, 5, 0, 0, 0, 0, 0]),
    ("extras/realm/punch.go:EncodePunchPacket", [1, 8, 2, 0, 1, 0, 0]),
    ("extras/realm/punch.go:randomPaddingLength", [0, 0, 0, 0, 1, 0, 0]),
    ("extras/realm/punch.go:xorPunchPacket", [2, 0, 0, 1, 0, 0, 0]),
    ("extras/realm/punch_conn.go:NewPunchPacketConn", [0, 0, 3, 0, 0, 0, 0]),
    ("extras/realm/punch_conn.go:PunchPacketConn.AddPunchAttempt", [1, 0, 0, 0, 0, 0, 0]),
    ("extras/realm/punch_conn.go:PunchPacketConn.ReadFrom", [0, 2, 0, 0, 0, 0, 0]),
    ("extras/realm/stun.go:Discover", [2, 1, 2, 0, 0, 0, 0]),
    ("extras/realm/stun.go:DiscoverWithDemux", [2, 0, 1, 0, 0, 0, 0]),
    ("extras/realm/stun.go:finishSTUNResults", [0, 0, 1, 0, 0, 0, 0]),
    ("extras/realm/stun.go:netIPPortToAddrPort", [0, 2, 0, 0, 2, 0, 0]),
    ("extras/realm/stun.go:resolveSTUNServers", [2, 0, 1, 0, 0, 0, 0]),
    ("extras/realm/stun.go:sendSTUNRequests", [1, 0, 1, 0, 0, 0, 0]),
    ("extras/sniff/internal/quic/header.go:ParseInitialHeader", [0, 0, 0, 0, 1, 0, 0]),
    ("extras/sniff/internal/quic/header.go:beUint32", [0, 0, 1, 0, 0, 0, 0]),
    ("extras/sniff/internal/quic/header.go:parseLongHeader", [0, 0, 3, 0, 5, 0, 0]),
    ("extras/sniff/internal/quic/packet_protector.go:PacketProtector.UnProtect", [9, 7, 0, 0, 5, 0, 0]),
    ("extras/sniff/internal/quic/packet_protector.go:ProtectionKey.nonce", [2, 1, 1, 0, 1, 0, 0]),
    ("extras/sniff/internal/quic/packet_protector.go:decodePacketNumber", [0, 0, 0, 1, 1, 0, 0]),
    ("extras/sniff/internal/quic/packet_protector.go:hkdfExpandLabel", [0, 0, 1, 0, 1, 1, 0]),
    ("extras/sniff/internal/quic/packet_protector.go:newProtectionKey", [0, 2, 2, 0, 0, 4, 0]),
    ("extras/sniff/internal/quic/payload.go:ReadCryptoPayload", [0, 1, 0, 0, 1, 0, 0]),
    ("extras/sniff/internal/quic/payload.go:assembleCryptoFrames", [7, 1, 1, 0, 2, 0, 0]),
    ("extras/sniff/internal/quic/payload.go:extractCryptoFrames", [0, 0, 1, 0, 3, 0, 0]),
    ("extras/sniff/sniff.go:Sniffer.Check", [0, 0, 0, 0, 2, 0, 0]),
    ("extras/sniff/sniff.go:Sniffer.TCP", [4, 7, 3, 0, 2, 0, 0]),
    ("extras/sniff/sniff.go:Sniffer.UDP", [1, 0, 0, 0, 0, 0, 0]),
    ("extras/sniff/sniff.go:Sniffer.isHTTP", [0, 1, 0, 0, 0, 0, 0]),
    ("extras/sniff/sniff.go:Sniffer.isTLS", [4, 0, 0, 0, 0, 0, 0]),
    ("extras/sniff/sniff.go:teeReader.Read", [0, 3, 0, 0, 0, 0, 0])] := by decide

end Hy.Props.C03
