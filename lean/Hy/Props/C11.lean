/-
  C11 — Brutal sends at the configured rate: bounded above, never stalled.
  Property theorems only; helper lemmas live in Hy.Proofs.Pacer / Hy.Proofs.Brutal.

  Models: Hy.Model.Pacer (core/internal/congestion/common/pacer.go, with Go's int64/uint64
  wrap-around and truncated division) and Hy.Model.Brutal (core/internal/congestion/brutal/brutal.go).

  Range hypotheses.  The property holds "within the range where rate × gap fits 63 bits";
  here that range is explicit:
    `Ok p`        0 ≤ budget ≤ 2^62, 0 < datagram size ≤ 2^32, 0 ≤ lastSentTime < 2^62
                  (kept by every gated step: `reachable_ok`)
    `BwOk bw`     0 < bw ≤ 2^40 bytes/s          (rates up to 8.8 Tbit/s)
    `GapOk p bw t`  lastSentTime ≤ t < 2^62 and, once something has been sent,
                  bw·(t − lastSentTime) < 2^63
  Outside it the model wraps exactly like the Go code (and the differential still agrees),
  but the statements below are not claimed.

  Floats.  `ackRate` is the exact rational (`AckRate`); the two float64 expressions of
  brutal.go enter as the values `bw` / `raw` they produce, over which the theorems quantify
  (any bw in (0, B]; any raw).  That the IEEE value of ⌊bps/ackRate⌋ lies in [bps, ⌊5·bps/4⌋]
  is the trusted step (checked on every sampled state by the harness oracle O3 and by the
  driver's `fq` flag); for the exact rational it is `bandwidth_bounds`.
-/
import Hy.Proofs.Brutal
import Hy.Gen.TransPacer
namespace Hy.Props.C11
open Hy Hy.Pacer Hy.Brutal

/-! ### obligations on the regenerated constants (a changed constant fails here) -/
theorem const_maxBurstPackets : Gen.maxBurstPackets = 10 := by decide
theorem const_maxBurstPacingDelayMultiplier : Gen.maxBurstPacingDelayMultiplier = 4 := by decide
theorem const_MinPacingDelay : Gen.MinPacingDelayNs = 1000000 := by decide
theorem const_InitialPacketSize : Gen.InitialPacketSize = 1280 := by decide
theorem const_pktInfoSlotCount : Gen.pktInfoSlotCount = 5 := by decide
theorem const_minSampleCount : Gen.minSampleCount = 50 := by decide
/-- minAckRate is 0.8 exactly as a Go constant, and its float64 is the one nearest to 4/5 -/
theorem const_minAckRate :
    Gen.minAckRateMilli = 800 ∧ Gen.minAckRateBits = 0x3FE999999999999A := by decide
theorem const_congestionWindowMultiplier : Gen.congestionWindowMultiplier = 2 := by decide
theorem const_noRttWindow : Gen.brutalNoRttWindow = 10240 := by decide

/-! ### bounded above -/

/-- Rate conformance of the pacer, with packets that bypass pacing.  Take ANY in-range pacer
    state and ANY sequence of
      * paced sends (`Ev.send`): covered by the budget the pacer reports at that moment — what
        `HasPacingBudget` + "at most one datagram" give;
      * UNPACED sends (`Ev.usend`): reported to OnPacketSent although the pacer did not release
        them (ACK-only packets, PTO probes, path-MTU probes) — any size ≥ 0, at any time not
        before the previous send, whatever the budget;
      * datagram-size changes (each ≤ M),
    with every bandwidth value `getBandwidth()` returned in (0, B].  Then for every way of cutting
    the sequence into `pre ++ mid ++ post` with the PACED sends of `mid` inside [t1, t2], the
    bytes released by pacing in `mid` are at most  max(B·4ms, 10·M) + B·(t2 − t1)/10⁹ —
    an unpaced send only lowers the budget (floored at 0); it can never re-arm a burst. -/
theorem pacer_conformance_with_ungated (B M : Int) (hB0 : 0 ≤ B) (hB : B ≤ 1099511627776)
    (hM : M ≤ 4294967296)
    (p : Pacer) (hp : Ok p) (hm : p.maxDatagramSize ≤ M) (pre mid post : List Ev)
    (hg : AllGated B M p (pre ++ mid ++ post)) (t1 t2 : Int) (ht : t1 ≤ t2)
    (hwin : ∀ t size bw, Ev.send t size bw ∈ mid → t1 ≤ t ∧ t ≤ t2) :
    total mid ≤ burst B M + B * (t2 - t1) / 1000000000 := by
  rw [List.append_assoc] at hg
  obtain ⟨hpre, hrest⟩ := (allGated_append pre (mid ++ post) p).mp hg
  obtain ⟨hmid, _⟩ := (allGated_append mid post _).mp hrest
  obtain ⟨hok, hmm⟩ := ok_run hB hM pre p hp hm hpre
  exact window_bound hB hM t1 t2 ht hB0 mid _ hok hmm hmid hwin

/-- the design's `pacer_conformance` (every send paced) is the special case without `usend` -/
theorem pacer_conformance (B M : Int) (hB0 : 0 ≤ B) (hB : B ≤ 1099511627776) (hM : M ≤ 4294967296)
    (p : Pacer) (hp : Ok p) (hm : p.maxDatagramSize ≤ M) (pre mid post : List Ev)
    (_hpaced : ∀ t size bw, Ev.usend t size bw ∉ pre ++ mid ++ post)
    (hg : AllGated B M p (pre ++ mid ++ post)) (t1 t2 : Int) (ht : t1 ≤ t2)
    (hwin : ∀ t size bw, Ev.send t size bw ∈ mid → t1 ≤ t ∧ t ≤ t2) :
    total mid ≤ burst B M + B * (t2 - t1) / 1000000000 :=
  pacer_conformance_with_ungated B M hB0 hB hM p hp hm pre mid post hg t1 t2 ht hwin

/-- `HasPacingBudget(t)` and "at most one datagram" make a send admissible -/
theorem gated_by_HasPacingBudget (B M : Int) (s : Sender) (t size bw : Int)
    (hsync : s.maxDatagramSize = s.pacer.maxDatagramSize)
    (ht : 0 < t) (hgap : GapOk s.pacer bw t) (hbw : 0 < bw) (hB : bw ≤ B)
    (hs0 : 0 ≤ size) (hs : size ≤ s.maxDatagramSize)
    (hpb : hasPacingBudget s bw t = true) : Gated B M s.pacer (.send t size bw) := by
  unfold hasPacingBudget at hpb
  simp only [decide_eq_true_eq, hsync] at hpb
  exact gated_of_hasBudget ht hgap hbw hB hs0 (by omega) hpb

/-- The property's "burst + rate/0.8 × interval" for a BrutalSender: over every history of a
    sender created with rate `bps` (congestion events, paced and unpaced sends, datagram-size
    changes in any order) whose paced sends are gated and whose bandwidth values are at most ⌊5·bps/4⌋ — the bound
    `bandwidth_bounds` proves for ⌊bps/ackRate⌋ in every reachable state — the bytes released
    in any window [t1, t2] are at most max(⌊5·bps/4⌋·4ms, 10·M) + ⌊5·bps/4⌋·(t2 − t1)/10⁹. -/
theorem brutal_conformance (bps : Nat) (nc : Bool) (M : Int)
    (hbps : bps * 5 / 4 ≤ 1099511627776) (hM : M ≤ 4294967296) (hM0 : 1280 ≤ M)
    (pre mid post : List SEv)
    (hg : AllGated ((bps * 5 / 4 : Nat) : Int) M (Brutal.new bps nc).pacer
            (pacerEvs (pre ++ mid ++ post)))
    (t1 t2 : Int) (ht : t1 ≤ t2)
    (hwin : ∀ t size bw, SEv.send t size bw ∈ mid → t1 ≤ t ∧ t ≤ t2) :
    total (pacerEvs mid)
      ≤ burst ((bps * 5 / 4 : Nat) : Int) M + ((bps * 5 / 4 : Nat) : Int) * (t2 - t1) / 1000000000 := by
  rw [pacerEvs_append, pacerEvs_append] at hg
  have hmem : ∀ (es : List SEv) t size bw, Ev.send t size bw ∈ pacerEvs es → SEv.send t size bw ∈ es := by
    intro es
    induction es with
    | nil => intro t size bw h; cases h
    | cons e es ih =>
      intro t size bw h
      cases e with
      | ack t' a l => exact List.mem_cons_of_mem _ (ih t size bw h)
      | send t' s' b' =>
        simp only [pacerEvs, List.mem_cons] at h
        rcases h with h | h
        · cases h; exact List.mem_cons_self ..
        · exact List.mem_cons_of_mem _ (ih t size bw h)
      | usend t' s' b' =>
        simp only [pacerEvs, List.mem_cons] at h
        rcases h with h | h
        · cases h
        · exact List.mem_cons_of_mem _ (ih t size bw h)
      | setMds m =>
        simp only [pacerEvs, List.mem_cons] at h
        rcases h with h | h
        · cases h
        · exact List.mem_cons_of_mem _ (ih t size bw h)
  exact pacer_conformance_with_ungated _ M (Int.natCast_nonneg _) (by omega) hM Pacer.new ok_new
    (by have : Pacer.new.maxDatagramSize = 1280 := by decide
        omega)
    _ _ _ hg t1 t2 ht (fun t size bw h => hwin t size bw (hmem mid t size bw h))

/-- ⌊bps / ackRate⌋ (exact rational) lies in [bps, ⌊5·bps/4⌋] in every reachable state -/
theorem bandwidth_bounds (bps : Nat) (nc : Bool) (es : List SEv) :
    bps ≤ bandwidthQ bps (runS (Brutal.new bps nc) es).ackRate ∧
    bandwidthQ bps (runS (Brutal.new bps nc) es).ackRate ≤ bps * 5 / 4 :=
  bandwidthQ_bounds bps _ (runS_inRange es _ (by simp [Brutal.new, AckRate.InRange, AckRate.num, AckRate.den]))

/-- every admissible history — unpaced sends of any size included — keeps the pacer in range
    (so `wakeup_sufficient` / `can_always_eventually_send` apply after them) and the two copies of the datagram size equal -/
theorem reachable_ok (bps : Nat) (nc : Bool) (B M : Int) (hB : B ≤ 1099511627776)
    (hM : M ≤ 4294967296) (hM0 : 1280 ≤ M) (es : List SEv)
    (hg : AllGated B M Pacer.new (pacerEvs es)) :
    Ok (runS (Brutal.new bps nc) es).pacer ∧
    (runS (Brutal.new bps nc) es).maxDatagramSize = (runS (Brutal.new bps nc) es).pacer.maxDatagramSize := by
  refine ⟨?_, mds_sync_run es _ rfl⟩
  rw [pacer_run]
  exact (ok_run hB hM _ Pacer.new ok_new
    (by have : Pacer.new.maxDatagramSize = 1280 := by decide
        omega) hg).1

/-! ### never stalled: the announced wake-up time is sufficient -/

/-- TimeUntilSend cannot divide by zero when the bandwidth is positive -/
theorem timeUntilSend_total (p : Pacer) (bw : Int) (hp : Ok p) (hbw : BwOk bw) :
    Res.NoPanic (timeUntilSend p bw) := timeUntilSend_noPanic hp hbw

/-- If TimeUntilSend (computed with bandwidth bw) announces a time t ≠ 0, then at t and at
    every later instant the budget covers a full datagram, for every bandwidth bw' ≥ bw in
    force when the timer fires (the ceiling division: with floor it would be one byte short). -/
theorem wakeup_sufficient (p : Pacer) (bw bw' t now : Int) (hp : Ok p) (hbw : BwOk bw)
    (hle : bw ≤ bw') (hbw' : bw' ≤ 1099511627776)
    (htus : timeUntilSend p bw = .ok t) (ht : t ≠ 0) (hnow : t ≤ now) (hg : GapOk p bw' now) :
    p.maxDatagramSize ≤ budget p bw' now := by
  rw [timeUntilSend_inrange hp hbw] at htus
  split at htus
  · cases htus; exact absurd rfl ht
  · rename_i hlt
    cases htus
    exact budget_at_deadline hp hbw hle hbw' (by omega) hnow hg

/-- and if it announces 0 ("send immediately") the budget covers a full datagram at once -/
theorem wakeup_immediate (p : Pacer) (bw bw' now : Int) (hp : Ok p) (hbw : BwOk bw)
    (hbw' : 0 ≤ bw' ∧ bw' ≤ 1099511627776)
    (htus : timeUntilSend p bw = .ok 0) (hg : GapOk p bw' now) :
    p.maxDatagramSize ≤ budget p bw' now := by
  rw [timeUntilSend_inrange hp hbw] at htus
  split at htus
  · rename_i hge
    exact budget_when_ready hp hbw'.1 hbw'.2 hge hg
  · -- a deadline is never 0
    have h0 := Res.ok.inj htus
    have := hp.l0
    unfold deadline at h0
    omega

/-- Uniform version: if the bandwidth never drops below b > 0, then (i) whatever bandwidth
    bw ≥ b TimeUntilSend is evaluated with, the time it announces is at most
    D = lastSentTime + max(1ms, ⌈10⁹·(mds − budget)/b⌉), and (ii) from D on the budget covers
    a full datagram under every bandwidth bw' ≥ b — even if the bandwidth changed in between. -/
theorem wakeup_uniform (p : Pacer) (b bw bw' : Int) (hp : Ok p) (hb : BwOk b)
    (hbw : b ≤ bw ∧ bw ≤ 1099511627776) (hbw' : b ≤ bw' ∧ bw' ≤ 1099511627776)
    (hlt : p.budgetAtLastSent < p.maxDatagramSize) :
    (∀ t, timeUntilSend p bw = .ok t → t ≤ deadline p b) ∧
    (∀ now, deadline p b ≤ now → GapOk p bw' now → p.maxDatagramSize ≤ budget p bw' now) := by
  constructor
  · intro t htus
    rw [timeUntilSend_inrange hp ⟨by have := hb.1; omega, hbw.2⟩, if_neg (by omega)] at htus
    cases htus
    unfold deadline
    have := hp.b0
    have := ceilDiv_anti (1000000000 * (p.maxDatagramSize - p.budgetAtLastSent)) b bw
      (by omega) hb.1 hbw.1
    omega
  · intro now hnow hg
    exact budget_at_deadline hp hb hbw'.1 hbw'.2 hlt hnow hg

/-! ### the loss-compensation factor -/

/-- 4/5 ≤ ackRate ≤ 1 after every history (num/den with 0 < num ≤ den, 4·den ≤ 5·num) -/
theorem ackrate_range (bps : Nat) (nc : Bool) (es : List SEv) :
    (runS (Brutal.new bps nc) es).ackRate.InRange :=
  runS_inRange es _ (by simp [Brutal.new, AckRate.InRange, AckRate.num, AckRate.den])

/-- with loss compensation disabled the factor is 1, always -/
theorem ackrate_disabled (bps : Nat) (es : List SEv) :
    (runS (Brutal.new bps true) es).ackRate = .one :=
  ackRate_noComp_run es _ rfl rfl

/-- After a congestion event at time t (time non-decreasing over the congestion events of the
    history; sends and datagram-size changes interleaved at will), with A / L the packets
    acked / lost in the events of the seconds (t−5 s, t]:
      fewer than 50 samples → 1;  otherwise the clamp 4/5 if A/(A+L) < 4/5, else A/(A+L). -/
theorem ackrate_value (bps : Nat) (pre : List SEv) (t a l : Nat)
    (hc : Chrono 0 (pre ++ [.ack t a l])) :
    let h := pre ++ [.ack t a l]
    let A := sumAck (InLast5 (t / 1000000000)) true h
    let L := sumAck (InLast5 (t / 1000000000)) false h
    (runS (Brutal.new bps false) h).ackRate =
      if A + L < 50 then .one else if 5 * A < 4 * (A + L) then .floor else .ratio A (A + L) := by
  intro h A L
  have := ackRate_after_event bps false pre t a l hc
  simp only [Bool.false_eq_true, if_false] at this
  rw [this]
  unfold rateOf
  rw [const_minSampleCount]

/-- the same value as a rational: ackRate = max(4/5, A/(A+L)), i.e. num/den = max(4T, 5A)/(5T) -/
theorem ackrate_value_max (bps : Nat) (pre : List SEv) (t a l : Nat)
    (hc : Chrono 0 (pre ++ [.ack t a l])) :
    let h := pre ++ [.ack t a l]
    let A := sumAck (InLast5 (t / 1000000000)) true h
    let L := sumAck (InLast5 (t / 1000000000)) false h
    let r := (runS (Brutal.new bps false) h).ackRate
    (50 ≤ A + L → r.num * (5 * (A + L)) = r.den * max (4 * (A + L)) (5 * A)) ∧
    (A + L < 50 → r = .one) := by
  intro h A L r
  have hv := ackRate_after_event bps false pre t a l hc
  simp only [Bool.false_eq_true, if_false] at hv
  constructor
  · intro h50
    show (runS (Brutal.new bps false) h).ackRate.num * _ = (runS (Brutal.new bps false) h).ackRate.den * _
    rw [hv]
    exact rateOf_value A L (by rw [const_minSampleCount]; exact h50)
  · intro hlt
    show (runS (Brutal.new bps false) h).ackRate = _
    rw [hv]
    unfold rateOf
    rw [if_pos (by rw [const_minSampleCount]; exact hlt)]

/-- events other than congestion events do not touch the factor -/
theorem ackrate_stable (s : Sender) (e : SEv) (hne : ∀ t a l, e ≠ .ack t a l) :
    (applySEv s e).ackRate = s.ackRate := ackRate_nonack s e hne

/-! ### the window -/

/-- GetCongestionWindow ≥ one datagram, whatever the float product `raw` evaluates to and
    whatever the RTT (datagrams up to the 10240-byte pre-RTT window) -/
theorem cwnd_ge_datagram (s : Sender) (rtt raw : Int) (hm : s.maxDatagramSize ≤ 10240) :
    s.maxDatagramSize ≤ getCongestionWindow s rtt raw :=
  window_ge_datagram s rtt raw (by rw [const_noRttWindow]; exact hm)

/-- The sender can always eventually send: with nothing in flight CanSend holds, and from
    D = lastSentTime (if a datagram of budget is left) or
    D = lastSentTime + max(1ms, ⌈10⁹·(mds − budget)/b⌉) on, HasPacingBudget holds, for every
    bandwidth bw' ≥ b in force at that time (b > 0 a lower bound of the bandwidth, e.g. bps). -/
theorem can_always_eventually_send (s : Sender) (rtt raw b bw' now : Int)
    (hp : Ok s.pacer) (hsync : s.maxDatagramSize = s.pacer.maxDatagramSize)
    (hb : BwOk b) (hbw' : b ≤ bw' ∧ bw' ≤ 1099511627776)
    (hnow : (if s.pacer.budgetAtLastSent ≥ s.pacer.maxDatagramSize then s.pacer.lastSentTime
             else deadline s.pacer b) ≤ now)
    (hg : GapOk s.pacer bw' now) :
    canSend s rtt raw 0 = true ∧ hasPacingBudget s bw' now = true := by
  have hm0 := hp.m0
  refine ⟨canSend_zero s rtt raw (by omega), ?_⟩
  unfold hasPacingBudget
  simp only [decide_eq_true_eq, hsync]
  split at hnow
  · rename_i hge
    exact budget_when_ready hp (by have := hb.1; omega) hbw'.2 hge hg
  · rename_i hlt
    exact budget_at_deadline hp hb hbw'.1 hbw'.2 (by omega) hnow hg

/-! ### non-vacuity: concrete instances meeting the hypotheses -/

/-- a sender at 65536 B/s that has spent its budget: the announced time is last + ⌈10⁹·1280/65536⌉ -/
example : timeUntilSend ⟨0, 1280, 3600000000000⟩ 65536 = .ok 3600019531250 := by decide
example : budget ⟨0, 1280, 3600000000000⟩ 65536 3600019531250 = 1280 := by decide
/-- one nanosecond earlier the budget is one byte short (what floor division would announce) -/
example : budget ⟨0, 1280, 3600000000000⟩ 65536 3600019531249 = 1279 := by decide
example : Ok ⟨0, 1280, 3600000000000⟩ := by refine ⟨?_, ?_, ?_, ?_, ?_, ?_⟩ <;> decide
example : GapOk ⟨0, 1280, 3600000000000⟩ 65536 3600019531250 := by
  refine ⟨?_, ?_, ?_⟩ <;> decide

/-- a gated sequence at 40 GB/s with ackRate 0.8 (bandwidth 5·10¹⁰): the initial burst of ten
    datagrams at t, and 120 µs later 4 more (6 MB of budget have accrued, capped at 200 MB) -/
example : AllGated 50000000000 1500 Pacer.new
    ([Ev.setMds 1500] ++ List.replicate 10 (Ev.send 3600000000000 1280 50000000000)
      ++ List.replicate 4 (Ev.send 3600000120000 1500 40000000000)) := by
  decide
/-- and at 1 MB/s: the burst of 15000 bytes covers eleven 1280-byte datagrams (920 left), one
    more full datagram 1 ms later (920 + 1000 ≥ 1500) -/
example : AllGated 1250000 1500 Pacer.new
    ([Ev.setMds 1500] ++ List.replicate 11 (Ev.send 3600000000000 1280 1000000)
      ++ [Ev.send 3600001000000 1500 1000000]) := by
  decide
/-- 0.5 ms would be too early for it (920 + 500 < 1500): that sequence is not gated -/
example : ¬ AllGated 1250000 1500 Pacer.new
    ([Ev.setMds 1500] ++ List.replicate 11 (Ev.send 3600000000000 1280 1000000)
      ++ [Ev.send 3600000500000 1500 1000000]) := by
  decide

/-- `pacer_conformance_with_ungated` applied to the 40 GB/s sequence: the four datagrams sent at
    the single instant t2 = t1 are within the burst allowance alone -/
example : total (List.replicate 4 (Ev.send 3600000120000 1500 40000000000))
    ≤ burst 50000000000 1500 + 50000000000 * (3600000120000 - 3600000120000) / 1000000000 :=
  pacer_conformance_with_ungated 50000000000 1500 (by decide) (by decide) (by decide) Pacer.new ok_new (by decide)
    ([Ev.setMds 1500] ++ List.replicate 10 (Ev.send 3600000000000 1280 50000000000))
    (List.replicate 4 (Ev.send 3600000120000 1500 40000000000)) [] (by decide) _ _ (by decide)
    (by intro t size bw h
        simp only [List.replicate, List.mem_cons, Ev.send.injEq, List.not_mem_nil, or_false, or_self] at h
        omega)

/-- `wakeup_sufficient` applied to the 65536 B/s pacer above, with the bandwidth raised to
    81920 (ackRate 0.8) by the time the timer fires -/
example : (1280 : Int) ≤ budget ⟨0, 1280, 3600000000000⟩ 81920 3600019531250 :=
  wakeup_sufficient ⟨0, 1280, 3600000000000⟩ 65536 81920 3600019531250 3600019531250
    ⟨by decide, by decide, by decide, by decide, by decide, by decide⟩ ⟨by decide, by decide⟩
    (by decide) (by decide) (by decide) (by decide) (by decide)
    ⟨by decide, by decide, fun _ => by decide⟩

/-- `can_always_eventually_send` applied to a sender that has just used up its whole burst -/
example :
    let s := runS (Brutal.new 65536 false) [SEv.send 3600000000000 12800 65536]
    canSend s 0 0 0 = true ∧ hasPacingBudget s 65536 3600019531250 = true :=
  can_always_eventually_send _ 0 0 65536 65536 3600019531250
    ⟨by decide, by decide, by decide, by decide, by decide, by decide⟩ (by decide)
    ⟨by decide, by decide⟩ ⟨by decide, by decide⟩ (by decide)
    ⟨by decide, by decide, fun _ => by decide⟩

/-- unpaced sends: at 1 MB/s the burst (12800) is used up, then a 1400-byte path-MTU probe and a
    40-byte ACK-only packet are reported while the budget is 0 and 100: the sequence is admissible,
    the budget is floored at 0, and the pacer announces a wake-up instead of a new burst
    (the seeded "pacing debt" variant would hold −1400 here and Budget would read it as an overflow) -/
example : AllGated 1250000 1500 Pacer.new
    (List.replicate 10 (Ev.send 3600000000000 1280 1000000)
      ++ [Ev.usend 3600000000000 1400 1000000, Ev.usend 3600000100000 40 1000000]) := by
  decide
example : run Pacer.new [Ev.send 3600000000000 12800 1000000, Ev.usend 3600000000000 1400 1000000]
    = ⟨0, 1280, 3600000000000⟩ := by decide
example : budget ⟨0, 1280, 3600000000000⟩ 1000000 3600000000000 = 0 := by decide
/-- the floor matters: with a negative remainder Budget's overflow guard hands out a full burst -/
example : budget ⟨-1400, 1280, 3600000000000⟩ 1000000 3600000000000 = 12800 := by decide

/-- a history with 60 samples in the window, 45 acked: 45/60 < 4/5 → clamp; 50/60 → 5/6 -/
example : (runS (Brutal.new 1000000 false) [.ack 3600000000000 45 15]).ackRate = .floor := by decide
example : (runS (Brutal.new 1000000 false) [.ack 3600000000000 30 0, .send 3600000000001 1280 1000000,
    .ack 3601000000000 20 10]).ackRate = .ratio 50 60 := by decide
/-- a slot expires: the same events six seconds apart leave fewer than 50 samples -/
example : (runS (Brutal.new 1000000 false) [.ack 3600000000000 30 0,
    .ack 3606000000000 20 10]).ackRate = .one := by decide
example : Chrono 0 [.ack 3600000000000 30 0, .send 3600000000001 1280 1000000, .ack 3601000000000 20 10] := by
  simp [Chrono]

/-! ### pacer.go as TRANSLATED from the current Go source equals the model, function by function

`Hy.Gen.TransPacer.*` is regenerated on every run by `verifgen translate` from the text of
`maxBurstSize`, `Budget`, `SentPacket`, `TimeUntilSend`, `SetMaxDatagramSize` in
core/internal/congestion/common/pacer.go (go/ast → Lean: int64/uint64 wrap-around, truncated
division and the division-by-zero panic explicit; the package constants `maxBurstPackets`,
`maxBurstPacingDelayMultiplier` resolved to their current values; receiver fields and the value
returned by `getBandwidth()` are parameters; `congestion.ByteCount`, `monotime.Time`,
`time.Duration` are int64 and `Time.Sub/Add/IsZero`, `Duration.Nanoseconds` are wrapped
subtraction / addition / `= 0` / the identity, as in the quic-go fork — trusted).
The theorems hold for ALL integer field values, times, sizes and bandwidths — no range
hypothesis, no sampling: the hand-written `Hy.Pacer` functions the conformance and wake-up theorems
above are about ARE the repository's current arithmetic.  `congestion.MinPacingDelay` is a parameter
of the translation, instantiated with the value read from the compiled package.
The proofs normalise both sides modulo commutativity of `+ * min max` (`go_ac_norm`), so operand
swaps and renamings in the Go source do not disturb them. -/

/-- `congestion.MinPacingDelay` in nanoseconds, as read from the compiled package -/
def minPacingDelay : Int := ((Gen.MinPacingDelayNs : Nat) : Int)

theorem i64_eq_wrap64 (x : Int) : GoInt.i64 x = wrap64 x := rfl
theorem u64_eq_wrapU64 (x : Int) : GoInt.u64 x = wrapU64 x := rfl

set_option linter.unusedSimpArgs false

theorem maxBurstSize_translation_eq (p : Pacer) (bw : Int) :
    Gen.TransPacer.Pacer_maxBurstSize bw p.maxDatagramSize minPacingDelay = maxBurstSize p bw := by
  unfold Gen.TransPacer.Pacer_maxBurstSize maxBurstSize
  have e : burstNs = 4000000 := by decide
  have e1 : minPacingDelay = 1000000 := by decide
  have e2 : (((Gen.maxBurstPackets : Nat) : Int)) = 10 := by decide
  have e3 : wrap64 4000000 = 4000000 := by decide
  simp only [e, e1, e2, i64_eq_wrap64, Int.reduceMul, e3] <;> go_ac_rfl

theorem budget_translation_eq (p : Pacer) (bw now : Int) :
    Gen.TransPacer.Pacer_Budget p.budgetAtLastSent bw p.lastSentTime p.maxDatagramSize now minPacingDelay
      = budget p bw now := by
  unfold Gen.TransPacer.Pacer_Budget budget
  simp only [maxBurstSize_translation_eq, i64_eq_wrap64, overflowBudget, gt_iff_lt, ge_iff_le]
  go_ac_norm
  split
  · rfl
  · go_split

/-- SentPacket assigns exactly `budgetAtLastSent` and `lastSentTime` (the translator's output tuple is
    the set of receiver fields the Go function assigns), with the model's values -/
theorem sentPacket_translation_eq (p : Pacer) (bw t size : Int) :
    Gen.TransPacer.Pacer_SentPacket p.budgetAtLastSent bw p.lastSentTime p.maxDatagramSize t size minPacingDelay
      = ((sentPacket p bw t size).budgetAtLastSent, (sentPacket p bw t size).lastSentTime)
    ∧ (sentPacket p bw t size).maxDatagramSize = p.maxDatagramSize := by
  refine ⟨?_, rfl⟩
  unfold Gen.TransPacer.Pacer_SentPacket sentPacket
  simp only [budget_translation_eq, i64_eq_wrap64, gt_iff_lt, ge_iff_le]
  go_ac_norm
  first
  | (go_split; done)
  | (split <;> split <;> simp only [Prod.mk.injEq, and_true] <;> unfold wrap64 <;> omega)

/-- TimeUntilSend, including its panic: the translated function divides by `uint64(getBandwidth())`
    and panics exactly when the model does -/
theorem timeUntilSend_translation_eq (p : Pacer) (bw : Int) :
    Gen.TransPacer.Pacer_TimeUntilSend p.budgetAtLastSent bw p.lastSentTime p.maxDatagramSize minPacingDelay
      = Pacer.timeUntilSend p bw := by
  unfold Gen.TransPacer.Pacer_TimeUntilSend Pacer.timeUntilSend ceilDivU
  have e1 : ∀ x : Int, wrap64 (wrap64 x * 1) = wrap64 x := by intro x; unfold wrap64; omega
  have e2 : ∀ x : Int, wrap64 (1 * wrap64 x) = wrap64 x := by intro x; unfold wrap64; omega
  simp only [i64_eq_wrap64, u64_eq_wrapU64, minPacingDelay, e1, e2, gt_iff_lt, ge_iff_le]
  go_ac_norm
  split
  · rfl
  · by_cases hb : wrapU64 bw = 0
    · simp [hb]
    · simp only [hb, ne_eq, not_false_eq_true, not_true_eq_false, ↓reduceIte]
      go_split

theorem setMaxDatagramSize_translation_eq (p : Pacer) (s : Int) :
    Gen.TransPacer.Pacer_SetMaxDatagramSize p.maxDatagramSize s = (setMaxDatagramSize p s).maxDatagramSize := rfl

/-- the translation computes: 1 MB/s, 1280-byte datagrams, 100 bytes of budget left → wake up after
    ⌈1180·10⁹/10⁶⌉ = 1 180 000 ns; a zero bandwidth panics -/
example : Gen.TransPacer.Pacer_TimeUntilSend 100 1000000 3600000000000 1280 minPacingDelay
    = .ok 3600001180000 := by decide
example : Gen.TransPacer.Pacer_TimeUntilSend 100 0 3600000000000 1280 minPacingDelay = .panic := by decide

end Hy.Props.C11
