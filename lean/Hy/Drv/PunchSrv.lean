/- `hydrv punchsrv`: line-protocol driver for Hy.Model.PunchSrv (C20, ServerPuncher).  Each op
   applies its labels and then runs the internal steps (everything except new calls, packets,
   ticks, timeouts and cancellations) to quiescence, as the real goroutines do between two
   harness ops.  Core Lean only. -/
import Hy.Model.PunchSrv
import Hy.Drv.Punch
namespace Hy.Drv.PunchSrv
open Hy Hy.Punch Hy.Drv Hy.Drv.Punch

structure St where
  srv : Srv
  ks : List Nat            -- calls started so far
  reported : List Nat      -- calls whose return has been printed
  nsent : Nat
  nlog : Nat

def init : St := ⟨Srv.init (Conn.new 0), [], [], 0, 0⟩

def internalLabels (ks : List Nat) : List SLabel :=
  [.scan, .dispTake, .dispLookup, .dispSend] ++
  ks.flatMap (fun k => [.reg k, .connAdd k, .rollback k, .event k, .connRemove k, .pmapDelete k])

/-- quiescence: rounds of all internal labels; 8 rounds exceed anything one op can trigger -/
def settle (s : Srv) (ks : List Nat) : Srv :=
  (List.range 8).foldl (fun s _ => srun H s (internalLabels ks)) s

def showOutcome : Outcome → String
  | .success peer t => s!"ok/{showAP peer}/{t.val}"
  | .timeout => "timeout"
  | .cancelled => "cancel"
  | .duplicate => "dup"
  | .invalid => "invalid"
  | .addFailed => "addfail"

def insertSorted (x : String) : List String → List String
  | [] => [x]
  | y :: ys => if x < y then x :: y :: ys else if x = y then y :: ys else y :: insertSorted x ys

def sortDedup (xs : List String) : List String := xs.foldl (fun acc x => insertSorted x acc) []

def showSet (xs : List String) : String :=
  let s := sortDedup xs
  if s.isEmpty then "." else ",".intercalate s

def parseCands (s : String) : Option (List AddrPort) :=
  if s = "." then some []
  else (s.splitOn ",").mapM (fun e =>
    match e.splitOn ":" with
    | [ip, port] =>
      match ofHex ip, port.toNat? with
      | some ip, some port => some (ip, port)
      | _, _ => none
    | _ => none)

/-- the snapshot printed after every op; `hellosToo`: scall ops list the hello burst, later ops only acks -/
def snapshot (st : St) (hellosToo : Bool) : St × String :=
  let s := st.srv
  let rets := st.ks.filterMap (fun k =>
    if st.reported.contains k then none
    else match (s.procs k).pc with
      | .returned o => some (k, s!"{k}:{showOutcome o}")
      | _ => none)
  let newSent := (s.sent.drop st.nsent).filter (fun x => hellosToo || x.type == typeAck)
  let sends := newSent.map (fun x => s!"{x.type.val}/{showAP x.dst}/{toHexF (s.procs x.k).md.nonce}")
  let reg := s.sys.conn.reg.map (fun e => s!"{toHexF e.1}/{toHexF e.2.nonce}")
  let pm := (st.ks.filter (fun k => s.pmap (s.procs k).id == some k)).map (fun k => toHexF (s.procs k).id)
  let pass := ((s.sys.log.drop st.nlog).filter (fun pv => pv.2 == Verdict.pass)).length
  let out := s!"ret={showSet (rets.map (·.2))} sent={showSet sends} reg={showSet reg} pm={showSet pm} " ++
    s!"pass={pass} q={s.sys.conn.events.length} panic={showBool s.sys.panicked}"
  ({ st with reported := st.reported ++ rets.map (·.1), nsent := s.sent.length, nlog := s.sys.log.length }, out)

def doCall (st : St) (k : Nat) (id : Id) (m : Meta) (cands : List AddrPort) (tmo ivl : Int) : St :=
  let ks := if st.ks.contains k then st.ks else st.ks ++ [k]
  let s := sstep H st.srv (.call k id m cands (cfgOk tmo ivl))
  { st with srv := settle s ks, ks := ks }

def step (st : St) (line : String) : St × String :=
  match fields line with
  | ["sreset", n] =>
    match n.toInt? with
    | some n => ({ init with srv := Srv.init (Conn.new n) }, "ok")
    | none => (st, "bad-op")
  | ["scall", k, id, n, o, cands, tmo, ivl, fin] =>
    match k.toNat?, ofHex id, parseMeta n o, parseCands cands, tmo.toInt?, ivl.toInt? with
    | some k, some id, some m, some cands, some tmo, some ivl =>
      let st := doCall st k id m cands tmo ivl
      let st := if fin = "timeout" then { st with srv := settle (sstep H st.srv (.timeout k)) st.ks } else st
      snapshot st true
    | _, _, _, _, _, _ => (st, "bad-op")
  | ["scall2", kw, kl, id, nw, ow, nl, ol, cands] =>
    -- two calls with the same id entered concurrently; the harness reports which one won the lock
    match kw.toNat?, kl.toNat?, ofHex id, parseMeta nw ow, parseMeta nl ol, parseCands cands with
    | some kw, some kl, some id, some mw, some ml, some cands =>
      let st := doCall st kw id mw cands 1 1
      let st := doCall st kl id ml cands 1 1
      snapshot st true
    | _, _, _, _, _, _ => (st, "bad-op")
  | ["scancel", k] =>
    match k.toNat? with
    | some k => snapshot { st with srv := settle (sstep H st.srv (.cancel k)) st.ks } false
    | none => (st, "bad-op")
  | ["spkt", spec] =>
    match parseInput spec with
    | some (.pkt p, _) => snapshot { st with srv := settle (sstep H st.srv (.recv p)) st.ks } false
    | _ => (st, "bad-op")
  | _ => (st, "bad-op")

end Hy.Drv.PunchSrv
