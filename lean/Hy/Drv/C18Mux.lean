/-
  `hydrv c18mux`: runs a mux history of the correspondence harness
  (harness/app/internal/proxymux/zz_verif_c18_test.go) on Hy.Model.Mux.

  The harness applies one external stimulus at a time and lets the real goroutines run
  until all are blocked. This driver is the matching SCHEDULER: it turns each stimulus
  into the labels of the steps the goroutines take until quiescence and feeds them to
  the proved step function `Mux.step Mux.fixed` through `MuxMgr.stepMux / capture / register`
  (one mux, mainLoop's capture of the close channels explicit, `wake := false` = the code as it is) — every state change goes through them; the scheduler only decides which
  labels to emit (it tracks which Accept calls are outstanding and which clients have sent).
  Core Lean only.
-/
import Hy.Model.MuxMgr
import Hy.Drv.Util
namespace Hy.Drv.C18Mux
open Hy Hy.Drv Hy.Mux Hy.MuxMgr Hy.Conn

structure DS where
  w : MuxW := { key := 0 }
  payload : List (Nat × Stream) := []     -- conn id → the chunks its client sends
  sent : List Nat := []                   -- clients that have sent their bytes (B)
  hung : List Nat := []                   -- clients that hung up (finalisation)
  gated : List Nat := []                  -- conns whose first data Read returns only at R<c>
  filled : List Nat := []                 -- gated conns whose client has sent: the Read is under way
  outstanding : List (Nat × Nat) := []    -- (call index, sub-listener) of blocked Accept calls
  results : List (Nat × String) := []     -- call index → result
  nCalls : Nat := 0
  late : Option Nat := none
  order : List Nat := []                  -- conns in the order their first byte was read

def DS.st (d : DS) : St := d.w.st

def DS.apply (d : DS) (l : Label) : DS :=
  match l with
  | .listen k => { d with w := register false d.w k }
  | l => { d with w := stepMux d.w l }

def DS.capture (d : DS) : DS := { d with w := MuxMgr.capture d.w }

def DS.payloadOf (d : DS) (c : Nat) : Stream :=
  match d.payload.find? (fun p => p.1 = c) with
  | some p => p.2
  | none => []

def DS.conns (d : DS) : List Nat := (d.payload.map (·.1)).mergeSort

/-- acceptLoop → mainLoop hand-over; mainLoop then loops and captures again -/
def stepHand (d : DS) : DS := (d.capture.apply .handToMain).capture

/-- dispatch goroutines: first byte / EOF, lock region, select -/
def stepConn (d : DS) (c : Nat) : DS :=
  match d.st.conn c with
  | .reading =>
    if d.hung.contains c ∧ ¬ d.sent.contains c then d.apply (.readFail c)
    else if d.sent.contains c then
      -- io.ReadFull over the conn's chunks (empty chunks before the byte are looped over)
      let d1 := d.apply (readLabel c (d.payloadOf c))
      if (detect (d.payloadOf c)).isSome then { d1 with order := d.order ++ [c] } else d1
    else d
  | .got _ => d.apply (.pick c)
  | .pending _ t =>
    if subClosed d.st.subs t then d.apply (.dropClosed c) else d
  | _ => d

/-- a blocked Accept on t receives the longest-waiting pending conn -/
def stepDeliver (d : DS) : DS :=
  d.outstanding.foldl (fun d (call : Nat × Nat) =>
    let cand := d.order.find? (fun c => match d.st.conn c with
      | .pending _ t => t = call.2
      | _ => false)
    match cand with
    | some c =>
      let d1 := d.apply (.deliver c)
      { d1 with outstanding := d1.outstanding.filter (· ≠ call), results := d1.results ++ [(call.1, s!"c{c}")] }
    | none =>
      if subClosed d.st.subs call.2 then
        { d with outstanding := d.outstanding.filter (· ≠ call), results := d.results ++ [(call.1, "err")] }
      else d) d

def stepMainClose (d : DS) (k : Kind) : DS := (d.capture.apply (.mainSeesSubClosed k)).capture

def stepMainAccept (d : DS) : DS := d.capture.apply .mainSeesAcceptClosed

/-- the deferred function of mainLoop: base.Close() (a blocked base.Accept returns the
    armed conn, or an error), close(l.closeChan), sub-listeners notified -/
def stepExit (d : DS) : DS :=
  if d.st.phase ≠ .exiting then d else
  let d1 := if d.st.aloop = .idle then
      match d.late with
      | some c => { d.apply (.baseAccept c) with late := none }
      | none => d.apply .baseAcceptErr
    else d
  ((d1.apply .exitA).apply .aloopQuit).apply .exitB

def round (d : DS) : DS :=
  let d := stepHand d
  let d := d.conns.foldl stepConn d
  let d := d.conns.foldl stepConn d   -- got → pending in the same quiescence
  let d := stepDeliver d
  let d := stepMainClose d .socks
  let d := stepMainClose d .http
  let d := stepMainAccept d
  stepExit d

def settle (d : DS) : DS := (List.range 6).foldl (fun d _ => round d) d

def parseConnTok (s : String) : Option (Nat × Stream) :=
  match s.splitOn "=" with
  | [c, p] => match c.toNat?, parseChunks p with
    | some c, some p => some (c, p)
    | _, _ => none
  | _ => none

def stimulus (d : DS) (tok : String) : Option DS :=
  let cs := tok.toList
  if tok = "LS" then some (d.apply (.listen .socks))
  else if tok = "LH" then some (d.apply (.listen .http))
  else if tok = "E" then some (if d.st.aloop = .idle then d.apply .baseAcceptErr else d)
  else if cs.take 4 = "late".toList then
    match parseConnTok (String.ofList (cs.drop 4)) with
    | some (c, p) =>
      if d.payload.any (·.1 = c) then some d
      else some { d with payload := d.payload ++ [(c, p)], late := if d.late.isNone then some c else d.late }
    | none => none
  else match cs with
    | 'X' :: r => match (String.ofList r).toNat? with
      | some t => some (if t < d.st.subs.length then d.apply (.closeSub t) else d)
      | none => none
    | 'A' :: r => match (String.ofList r).toNat? with
      | some t =>
        if t < d.st.subs.length ∧ ¬ d.outstanding.any (·.2 = t) then
          some { d with outstanding := d.outstanding ++ [(d.nCalls, t)], nCalls := d.nCalls + 1 }
        else some d
      | none => none
    | 'C' :: r => match parseConnTok (String.ofList r) with
      | some (c, p) =>
        if d.payload.any (·.1 = c) then some d
        else
          let d1 := { d with payload := d.payload ++ [(c, p)] }
          some (if d1.st.aloop = .idle then d1.apply (.baseAccept c) else d1)
      | none => none
    | 'G' :: r => match parseConnTok (String.ofList r) with
      | some (c, p) =>
        if d.payload.any (·.1 = c) then some d
        else
          let d1 := { d with payload := d.payload ++ [(c, p)], gated := d.gated ++ [c] }
          some (if d1.st.aloop = .idle then d1.apply (.baseAccept c) else d1)
      | none => none
    | 'B' :: r => match (String.ofList r).toNat? with
      | some c =>
        if d.payload.any (·.1 = c) ∧ ¬ d.sent.contains c then
          -- a gated Read with data to deliver completes only at R<c>: until then the
          -- dispatcher of c has not taken its step
          if d.gated.contains c ∧ ¬ (d.payloadOf c).flatten.isEmpty then
            some (if d.filled.contains c then d else { d with filled := d.filled ++ [c] })
          else some { d with sent := d.sent ++ [c] }
        else some d
      | none => none
    | 'R' :: r => match (String.ofList r).toNat? with
      | some c => some (if d.filled.contains c ∧ ¬ d.sent.contains c then { d with sent := d.sent ++ [c] } else d)
      | none => none
    | _ => none

def finalise (d : DS) : DS :=
  let d := settle d
  let d := (List.range d.st.subs.length).foldl (fun d t => d.apply (.closeSub t)) d
  let d := settle d
  -- every gate opens, every silent client hangs up
  let d := settle { d with sent := d.sent ++ d.filled.filter (fun c => ¬ d.sent.contains c), hung := d.conns }
  let d := if d.st.aloop = .idle then d.apply .baseAcceptErr else d
  settle d

def readPattern : List Nat := [0, 1, 0, 2, 1, 7, 0, 64]

def showListen : Ev → Option String
  | .listen _ (.ok t) => some s!"ok{t}"
  | .listen _ .inUse => some "inuse"
  | .listen _ .errClosed => some "closed"
  | _ => none

def join (ss : List String) : String := if ss.isEmpty then "." else ",".intercalate ss

def showConn (d : DS) (c : Nat) : String :=
  match d.st.conn c with
  | .fresh => s!"c{c}=unused"
  | .delivered b t =>
    -- what the handler reads through connWithOneByte with the harness's read sizes
    match wrapped (d.payloadOf c) with
    | some w =>
      let r := OneByte.reads (List.replicate 4 readPattern).flatten w
      s!"c{c}=d{t}:{toHexF (r.1.flatten ++ r.2.pending)}"
    | none => s!"c{c}=d{t}:?{b.val}"
  | .closed => s!"c{c}=x"
  | _ => s!"c{c}=lost"

def render (d : DS) : String :=
  let ls := d.st.log.reverse.filterMap showListen
  let rs := (List.range d.nCalls).map (fun i => match d.results.find? (·.1 = i) with
    | some r => r.2
    | none => "blocked")
  " ".intercalate (["mux", s!"L={join ls}", s!"A={join rs}"] ++ d.conns.map (showConn d))
    ++ (if d.st.panicked then " PANIC" else "")

def step (line : String) : String :=
  match fields line with
  | "mux" :: toks =>
    let r := toks.foldl (fun (acc : Option DS) tok => match acc with
      | none => none
      | some d => stimulus (settle d) tok) (some {})
    match r with
    | some d => render (finalise d)
    | none => "bad-op"
  | _ => "bad-op"

end Hy.Drv.C18Mux
