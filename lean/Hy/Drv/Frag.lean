/- `hydrv frag` (stateless: codec + splitter) and `hydrv defrag` (stateful: Defragger) —
   line-protocol drivers for Hy.Model.Frag (C05). Core Lean only. -/
import Hy.Model.Frag
import Hy.Model.AutoFrag
import Hy.Drv.Util
namespace Hy.Drv.Frag
open Hy Hy.Frag Hy.Drv

/-- deterministic filler both sides compute: byte i = seed + 7 i + 13 ⌊i/256⌋ (mod 256) -/
def pat (seed n : Nat) : Bytes := (List.range n).map fun i => byte (seed + i * 7 + i / 256 * 13)

/-- order-sensitive digest of a byte string -/
def digest (bs : Bytes) : Nat := bs.foldl (fun h b => (h * 31 + b.val + 1) % 4294967291) 7

def showData (bs : Bytes) : String :=
  if bs.length ≤ 48 then toHexF bs else s!"#{bs.length}:{digest bs}"

def showMsg (m : UDPMessage) : String :=
  s!"{m.sessionID.val} {m.packetID.val} {m.fragID.val} {m.fragCount.val} {showData m.addr} {showData m.data}"

def mkMsg (sid pid fid cnt : Nat) (addr data : Bytes) : UDPMessage :=
  { sessionID := u32 sid, packetID := u16 pid, fragID := byte fid, fragCount := byte cnt, addr := addr, data := data }

def nats (l : List String) : Option (List Nat) := l.mapM String.toNat?

def showFrag (f : UDPMessage) : String :=
  s!"{f.fragID.val}:{f.fragCount.val}:{size f}:{digest (serialize f)}"

def showFrags : Res (List UDPMessage) → String
  | .panic => "panic"
  | .reject => "reject"
  | .ok [] => "nil"
  | .ok fs => s!"ok n={fs.length} " ++ " ".intercalate (fs.map showFrag)

/-- one token of the recorded environment: [R]O | [R]T<limit> | [R]F -/
def parseEnv1 (tok : String) : Option Env1 :=
  let (logOk, t) := if tok.startsWith "R" then (false, (tok.drop 1).toString) else (true, tok)
  if t = "O" then some ⟨logOk, .ok⟩
  else if t = "F" then some ⟨logOk, .fail⟩
  else if t.startsWith "T" then ((t.drop 1).toString.toInt?).map fun L => ⟨logOk, .tooLarge L⟩
  else none

def showResp : Resp → String
  | .ok => "O"
  | .fail => "F"
  | .tooLarge L => s!"T{L}"

def showErr : Option SendErr → String
  | none => "none"
  | some (.tooLarge L) => s!"toolarge:{L}"
  | some .other => "other"
  | some .disconnect => "disconnect"

def showHanded (hs : List Handed) : String :=
  hs.foldl (fun acc h => acc ++ s!" {h.bytes.length}:{digest h.bytes}:{showResp h.resp}") ""

/-- one packet of a session op: alen:aseed:dlen:dseed:draw:toks -/
def parsePkt (sid : Nat) (t : String) : Option Pkt :=
  match t.splitOn ":" with
  | [alen, aseed, dlen, dseed, draw, toks] =>
    match nats [alen, aseed, dlen, dseed, draw], (if toks = "-" then some [] else (toks.splitOn ",").mapM parseEnv1) with
    | some [alen, aseed, dlen, dseed, draw], some envs =>
      some ⟨mkMsg sid 0 0 1 (pat aseed alen) (pat dseed dlen), draw, fun i => envs.getD i {}⟩
    | _, _ => none
  | _ => none

def step (line : String) : String :=
  match fields line with
  | ["session", side, sid, pkts] =>
    match sid.toNat?, (pkts.splitOn "|").mapM (fun t => sid.toNat?.bind fun s => parsePkt s t) with
    | some _, some ps =>
      if side ≠ "c" ∧ side ≠ "s" then "bad-op" else
      match sessionSend (side == "s") (side == "s") Gen.MaxUDPSize ps with
      | .ok rs => " | ".intercalate (rs.map fun r => s!"err={showErr r.2} n={r.1.length}" ++ showHanded r.1)
      | .reject => "reject"
      | .panic => "panic"
    | _, _ => "bad-op"
  | ["pidhunt", side, seed, n] =>
    -- oracle-only operation (the draws of the real math/rand are not reproduced here): the model's
    -- statement about it is `packet_id_nonzero_range`
    if (side = "c" ∨ side = "s") ∧ (nats [seed, n]).isSome then "ok" else "bad-op"
  | ["autofrag", side, sid, alen, aseed, dlen, dseed, draw, toks] =>
    match nats [sid, alen, aseed, dlen, dseed, draw], (if toks = "-" then some [] else (toks.splitOn ",").mapM parseEnv1) with
    | some [sid, alen, aseed, dlen, dseed, draw], some envs =>
      if side ≠ "c" ∧ side ≠ "s" then "bad-op" else
      let m := mkMsg sid 0 0 1 (pat aseed alen) (pat dseed dlen)
      match autoFrag (side == "s") Gen.MaxUDPSize m draw (fun i => envs.getD i {}) with
      | .ok (hs, e) => s!"err={showErr e} n={hs.length}" ++ showHanded hs
      | .reject => "reject"
      | .panic => "panic"
    | _, _ => "bad-op"
  | "ser" :: rest =>
    match nats rest with
    | some [sid, pid, fid, cnt, alen, aseed, dlen, dseed, buflen] =>
      let m := mkMsg sid pid fid cnt (pat aseed alen) (pat dseed dlen)
      match serializeInto buflen m with
      | none => "-1"
      | some bs => s!"ok {bs.length} {digest bs}"
    | _ => "bad-op"
  | "rt" :: rest =>
    match nats rest with
    | some [sid, pid, fid, cnt, alen, aseed, dlen, dseed] =>
      let m := mkMsg sid pid fid cnt (pat aseed alen) (pat dseed dlen)
      match parseUDPMessage (serialize m) with
      | .ok m' => "ok " ++ showMsg m'
      | .reject => "reject"
      | .panic => "panic"
    | _ => "bad-op"
  | ["parse", h] =>
    match ofHex h with
    | some bs =>
      match parseUDPMessage bs with
      | .ok m => "ok " ++ showMsg m
      | .reject => "reject"
      | .panic => "panic"
    | none => "bad-op"
  | ["frag", sid, pid, fid, cnt, alen, aseed, dlen, dseed, limit] =>
    match nats [sid, pid, fid, cnt, alen, aseed, dlen, dseed], limit.toInt? with
    | some [sid, pid, fid, cnt, alen, aseed, dlen, dseed], some limit =>
      showFrags (fragUDP (mkMsg sid pid fid cnt (pat aseed alen) (pat dseed dlen)) limit)
    | _, _ => "bad-op"
  | _ => "bad-op"

/-! ### stateful: the Defragger plus the fragment sets registered by `orig` -/

structure St where
  d : Defragger := {}
  origs : List (List UDPMessage) := []

def init : St := {}

def showState (d : Defragger) : String :=
  s!"st={d.pktID.val},{d.frags.length},{d.count},{d.size}"

def doFeed (s : St) (m : UDPMessage) : St × String :=
  match feed s.d m with
  | .ok (d', none) => ({ s with d := d' }, "nil " ++ showState d')
  | .ok (d', some out) => ({ s with d := d' }, "msg " ++ showMsg out ++ " " ++ showState d')
  | .reject => (s, "reject")
  | .panic => (s, "panic")

def stepSt (s : St) (line : String) : St × String :=
  match fields line with
  | ["reset"] => (init, "ok")
  | ["orig", sid, pid, alen, aseed, dlen, dseed, limit] =>
    match nats [sid, pid, alen, aseed, dlen, dseed], limit.toInt? with
    | some [sid, pid, alen, aseed, dlen, dseed], some limit =>
      match fragUDP (mkMsg sid pid 0 1 (pat aseed alen) (pat dseed dlen)) limit with
      | .ok fs => ({ s with origs := s.origs ++ [fs] }, s!"frags {fs.length}")
      | _ => ({ s with origs := s.origs ++ [[]] }, "panic")
    | _, _ => (s, "bad-op")
  | ["feedf", i, j] =>
    match i.toNat?, j.toNat? with
    | some i, some j =>
      match s.origs[i]? with
      | some fs =>
        match fs[j]? with
        | some m => doFeed s m
        | none => (s, "bad-op")
      | none => (s, "bad-op")
    | _, _ => (s, "bad-op")
  | ["feed", sid, pid, fid, cnt, a, dd] =>
    match nats [sid, pid, fid, cnt], ofHex a, ofHex dd with
    | some [sid, pid, fid, cnt], some a, some dd => doFeed s (mkMsg sid pid fid cnt a dd)
    | _, _, _ => (s, "bad-op")
  | _ => (s, "bad-op")

end Hy.Drv.Frag
