/-
  `hydrv c18mux`, lines starting with `mgr`: runs a manager-level history of the
  correspondence harness (harness/app/internal/proxymux/zz_verif_c18mgr_test.go) on
  Hy.Model.MuxMgr with `wake := false` (the code as it is).

  Like Hy.Drv.C18Mux this is the SCHEDULER matching "apply one stimulus, let the real
  goroutines run until all are blocked": it emits the labels of the steps they take and feeds
  them to `MuxMgr.mstep`; every state change goes through `mstep`. Core Lean only.
-/
import Hy.Model.MuxMgr
import Hy.Drv.C18Mux
namespace Hy.Drv.C18Mgr
open Hy Hy.Drv Hy.Mux Hy.MuxMgr Hy.Conn

structure DS where
  m : MSt := {}
  subs : List (Nat × Nat) := []           -- global sub-listener id (= index) → (mux id, local id)
  connMux : List (Nat × Nat) := []        -- conn id → mux id (set when a base listener hands it out)
  payload : List (Nat × Stream) := []
  sent : List Nat := []
  hung : List Nat := []
  outstanding : List (Nat × Nat) := []    -- (call index, global sub id)
  results : List (Nat × String) := []
  nCalls : Nat := 0
  order : List Nat := []
  failKeys : List Nat := []
  listens : List String := []

def DS.ap (d : DS) (l : MLabel) : DS := { d with m := mstep false d.m l }

def DS.mux? (d : DS) (id : Nat) : Option MuxW := d.m.muxes[id]?

def DS.baseOpen (d : DS) (id : Nat) : Bool := match d.m.muxes[id]? with | some w => w.baseOpen | none => false

def DS.st (d : DS) (id : Nat) : St := match d.m.muxes[id]? with | some w => w.st | none => {}

def DS.payloadOf (d : DS) (c : Nat) : Stream :=
  match d.payload.find? (fun p => p.1 = c) with
  | some p => p.2
  | none => []

def DS.conns (d : DS) : List Nat := (d.payload.map (·.1)).mergeSort

def DS.muxOf (d : DS) (c : Nat) : Option Nat := (d.connMux.find? (·.1 = c)).map (·.2)

def DS.globalSub (d : DS) (id t : Nat) : Option Nat := d.subs.findIdx? (fun p => p = (id, t))

def stepConn (d : DS) (c : Nat) : DS :=
  match d.muxOf c with
  | none => d
  | some id =>
    match (d.st id).conn c with
    | .reading =>
      if d.hung.contains c ∧ ¬ d.sent.contains c then d.ap (.mux id (.readFail c))
      else if d.sent.contains c then
        let d1 := d.ap (.mux id (readLabel c (d.payloadOf c)))
        if (detect (d.payloadOf c)).isSome then { d1 with order := d.order ++ [c] } else d1
      else d
    | .got _ => d.ap (.mux id (.pick c))
    | .pending _ t => if subClosed (d.st id).subs t then d.ap (.mux id (.dropClosed c)) else d
    | _ => d

def stepDeliver (d : DS) : DS :=
  d.outstanding.foldl (fun d (call : Nat × Nat) =>
    match d.subs[call.2]? with
    | none => d
    | some (id, t) =>
      let cand := d.order.find? (fun c => decide (d.muxOf c = some id) && (match (d.st id).conn c with
        | .pending _ t' => decide (t' = t)
        | _ => false))
      match cand with
      | some c =>
        let d1 := d.ap (.mux id (.deliver c))
        { d1 with outstanding := d1.outstanding.filter (· ≠ call), results := d1.results ++ [(call.1, s!"c{c}")] }
      | none =>
        if subClosed (d.st id).subs t then
          { d with outstanding := d.outstanding.filter (· ≠ call), results := d.results ++ [(call.1, "err")] }
        else d) d

/-- mainLoop and acceptLoop of mux id -/
def stepMain (d : DS) (id : Nat) : DS :=
  let d := d.ap (.capture id)
  let d := d.ap (.mux id .handToMain)
  let d := d.ap (.capture id)
  let d := d.ap (.mux id (.mainSeesSubClosed .socks))
  let d := d.ap (.capture id)
  let d := d.ap (.mux id (.mainSeesSubClosed .http))
  let d := d.ap (.capture id)
  let d := d.ap (.mux id .mainSeesAcceptClosed)
  if (d.st id).phase = .exiting then
    -- deleteFunc, base.Close() (a blocked base Accept returns an error), close(closeChan), sub-listeners notified
    let d := if (d.st id).aloop = .idle then d.ap (.mux id .baseAcceptErr) else d
    ((d.ap (.mux id .exitA)).ap (.mux id .aloopQuit)).ap (.mux id .exitB)
  else d

def round (d : DS) : DS :=
  let d := (List.range d.m.muxes.length).foldl stepMain d
  let d := d.conns.foldl stepConn d
  let d := d.conns.foldl stepConn d
  let d := stepDeliver d
  (List.range d.m.muxes.length).foldl stepMain d

def settle (d : DS) : DS := (List.range 5).foldl (fun d _ => round d) d

def keyOf (alias : String) : Option Nat :=
  match alias.toList.head? with
  | some 'a' => some 0
  | some 'b' => some 1
  | _ => none

def doListen (d : DS) (k : Kind) (key : Nat) (late : Bool) : DS :=
  let ok := ¬ d.failKeys.contains key
  let fresh := (d.m.table key).isNone
  let d := if fresh ∧ ¬ ok then { d with failKeys := d.failKeys.erase key } else d
  let n0 := d.m.results.length
  let d := d.ap (.call k key ok)
  if d.m.results.length > n0 then { d with listens := d.listens ++ ["err"] }
  else
    match d.m.table key with
    | none => d
    | some id =>
      let d := if late then settle d else d
      let len0 := (d.st id).subs.length
      let d := d.ap (.register id k)
      match d.m.results.head? with
      | some (.reg _ (.ok t)) =>
        { d with listens := d.listens ++ [s!"ok{d.subs.length}"], subs := d.subs ++ [(id, t)] }
      | some (.reg _ .inUse) => { d with listens := d.listens ++ ["inuse"] }
      | some (.reg _ .errClosed) => { d with listens := d.listens ++ ["closed"] }
      | _ => { d with listens := d.listens ++ [s!"?{len0}"] }

def splitAt (s : String) (ch : Char) : Option (String × String) :=
  match s.splitOn (String.singleton ch) with
  | [a, b] => some (a, b)
  | _ => none

def stimulus (d : DS) (tok : String) : Option DS :=
  match splitAt tok '@' with
  | some (hd, rest) =>
    if hd = "LS" ∨ hd = "LH" ∨ hd = "lLS" ∨ hd = "lLH" then
      match keyOf rest with
      | some key => some (doListen d (if hd = "LS" ∨ hd = "lLS" then .socks else .http) key (hd = "lLS" ∨ hd = "lLH"))
      | none => none
    else if hd = "F" then (keyOf rest).map (fun key => if d.failKeys.contains key then d else { d with failKeys := d.failKeys ++ [key] })
    else if hd = "E" then
      (keyOf rest).map (fun key => match d.m.table key with
        | some id => if (d.st id).aloop = .idle then d.ap (.mux id .baseAcceptErr) else d
        | none => d)
    else match hd.toList with
      | 'C' :: r =>
        match (String.ofList r).toNat?, splitAt rest '=' with
        | some c, some (alias, chunks) =>
          match keyOf alias, parseChunks chunks with
          | some key, some cs =>
            if d.payload.any (·.1 = c) then some d
            else
              let d1 := { d with payload := d.payload ++ [(c, cs)] }
              match d1.m.table key with
              | some id =>
                if (d1.st id).aloop = .idle ∧ d1.baseOpen id = true then
                  some { d1.ap (.mux id (.baseAccept c)) with connMux := d1.connMux ++ [(c, id)] }
                else some d1
              | none => some d1
          | _, _ => none
        | _, _ => none
      | _ => none
  | none =>
    match tok.toList with
    | 'X' :: r => match (String.ofList r).toNat? with
      | some g => some (match d.subs[g]? with
        | some (id, t) => d.ap (.mux id (.closeSub t))
        | none => d)
      | none => none
    | 'A' :: r => match (String.ofList r).toNat? with
      | some g =>
        if g < d.subs.length ∧ ¬ d.outstanding.any (·.2 = g) then
          some { d with outstanding := d.outstanding ++ [(d.nCalls, g)], nCalls := d.nCalls + 1 }
        else some d
      | none => none
    | 'B' :: r => match (String.ofList r).toNat? with
      | some c => some (if d.payload.any (·.1 = c) ∧ ¬ d.sent.contains c then { d with sent := d.sent ++ [c] } else d)
      | none => none
    | _ => none

def showConn (d : DS) (c : Nat) : String :=
  match d.muxOf c with
  | none => s!"c{c}=unused"
  | some id =>
    match (d.st id).conn c with
    | .fresh => s!"c{c}=unused"
    | .delivered _ t =>
      let g := (d.globalSub id t).getD 999
      match wrapped (d.payloadOf c) with
      | some w =>
        let r := OneByte.reads (List.replicate 4 C18Mux.readPattern).flatten w
        s!"c{c}=d{g}:{toHexF (r.1.flatten ++ r.2.pending)}"
      | none => s!"c{c}=d{g}:?"
    | .closed => s!"c{c}=x"
    | _ => s!"c{c}=lost"

def finish (d : DS) : String :=
  -- finalisation 1: close every sub-listener, run to quiescence, look at the base listeners
  let d := settle d
  let d := (List.range d.subs.length).foldl (fun d g => match d.subs[g]? with
    | some (id, t) => d.ap (.mux id (.closeSub t))
    | none => d) d
  let d := settle d
  let bases := d.m.muxes.map (fun w => (if w.key = 0 then "a" else "b") ++ ":" ++ (if w.baseOpen then "o" else "c"))
  -- finalisation 2: one more connection per base listener that is still open (its client hangs
  -- up at once): mainLoop wakes, captures afresh, sees the closed sub-listeners and releases
  let d := (List.range d.m.muxes.length).foldl (fun d id =>
    if (d.st id).aloop = .idle ∧ d.baseOpen id = true then
      let c := 900 + id
      { (d.ap (.mux id (.baseAccept c))) with payload := d.payload ++ [(c, [])], connMux := d.connMux ++ [(c, id)],
                                              sent := d.sent ++ [c] }
    else d) d
  let d := settle d
  let after := d.m.muxes.map (fun w => (if w.key = 0 then "a" else "b") ++ ":" ++ (if w.baseOpen then "o" else "c"))
  -- finalisation 3
  let d := settle { d with hung := d.conns }
  let d := (List.range d.m.muxes.length).foldl (fun d id =>
    if (d.st id).aloop = .idle ∧ d.baseOpen id = true
    then d.ap (.mux id .baseAcceptErr) else d) d
  let d := settle d
  let rs := (List.range d.nCalls).map (fun i => match d.results.find? (·.1 = i) with
    | some r => r.2
    | none => "blocked")
  " ".intercalate (["mgr", s!"L={C18Mux.join d.listens}", s!"A={C18Mux.join rs}"] ++ d.conns.map (showConn d)
    ++ [s!"bases={C18Mux.join bases}", s!"after={C18Mux.join after}"])

def step (toks : List String) : String :=
  let r := toks.foldl (fun (acc : Option DS) tok => match acc with
    | none => none
    | some d => stimulus (settle d) tok) (some {})
  match r with
  | some d => finish d
  | none => "bad-op"

end Hy.Drv.C18Mgr
