/- `hydrv hopaddr`: line-protocol driver for Hy.Model.HopAddr (C19). -/
import Hy.Model.HopAddr
import Hy.Drv.Util
import Hy.Drv.PortUnion
namespace Hy.Drv.HopAddr
open Hy Hy.HopAddr Hy.Drv

def showSplitErr : SplitErr → String
  | .missingPort => "missingport"
  | .tooManyColons => "toomanycolons"
  | .missingBracket => "missingbracket"
  | .unexpectedOpen => "unexpectedopen"
  | .unexpectedClose => "unexpectedclose"

def showErr : ResolveErr → String
  | .split e => s!"err split:{showSplitErr e}"
  | .resolve => "err resolve"
  | .badPort => "err port"

def bytesOfChars (cs : List Char) : Bytes := cs.map fun c => byte c.toNat

def ipSum (ip : IP) : Nat := ip.foldl (fun a b => a * 3 + b.val) 0

/-- rolling hash of the destination list (same formula as the Go harness) -/
def hashDests (ds : List Dest) : Nat :=
  (ds.foldl (fun (acc : Nat × Nat) d => ((acc.1 * 31 + d.2 + acc.2 + ipSum d.1 * 7) % 1000000007, acc.2 + 1)) (0, 0)).1

/-- the resolver result recorded by the harness: "err" or the IP bytes in hex ("-" = nil IP) -/
def parseIpRes (s : String) : Option (Option IP) :=
  if s = "err" then some none else (ofHex s).map some

def describe (ipText : List Char) (a : HopAddr) : String :=
  let ds := addrs a
  s!"ok ip={toHexF a.ip} n={a.ports.length} h={PortUnion.hashPorts a.ports} ah={hashDests ds} " ++
  s!"first={(ds.head?.map (·.2)).getD 0} last={(ds.getLast?.map (·.2)).getD 0} " ++
  s!"str={toHexF (bytesOfChars (toText (fun _ => ipText) a))} net={network}"

def step (line : String) : String :=
  match fields line with
  | ["resolve", addr, ipres, iptext] =>
    match ofHex addr, parseIpRes ipres, ofHex iptext with
    | some bs, some r, some t =>
      match resolveUDPHopAddr (fun _ => r) (PortUnion.charsOfBytes bs) with
      | .ok a => describe (PortUnion.charsOfBytes t) a
      | .error e => showErr e
    | _, _, _ => "bad-op"
  | ["join", h, p] =>
    match ofHex h, ofHex p with
    | some h, some p => toHexF (bytesOfChars (joinHostPort (PortUnion.charsOfBytes h) (PortUnion.charsOfBytes p)))
    | _, _ => "bad-op"
  | _ => "bad-op"

end Hy.Drv.HopAddr
