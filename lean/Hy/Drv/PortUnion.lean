/- `hydrv portunion`: line-protocol driver for Hy.Model.PortUnion (C19). -/
import Hy.Model.PortUnion
import Hy.Drv.Util
namespace Hy.Drv.PortUnion
open Hy Hy.PortUnion Hy.Drv

def probes : List Nat :=
  [0, 1, 2, 79, 80, 81, 442, 443, 444, 1023, 1024, 9999, 10000, 10001, 20000, 32767, 32768,
   50000, 65533, 65534, 65535]

def showRanges (u : PU) : String :=
  if u.isEmpty then "." else ",".intercalate (u.map fun r => s!"{r.s}-{r.e}")

/-- rolling hash of the port list (same formula as the Go harness) -/
def hashPorts (ps : List Nat) : Nat :=
  (ps.foldl (fun (acc : Nat × Nat) p => ((acc.1 * 31 + p + acc.2) % 1000000007, acc.2 + 1)) (0, 0)).1

def describe (u : PU) : String :=
  let ps := ports u
  let c := String.ofList (probes.map fun p => if contains u p then '1' else '0')
  s!"ok {showRanges u} n={ps.length} h={hashPorts ps} c={c}"

/-- a Go string is bytes: byte b ↦ Char.ofNat b -/
def charsOfBytes (bs : Bytes) : List Char := bs.map fun b => Char.ofNat b.val

def parseRange (s : String) : Option R :=
  match s.splitOn "-" with
  | [a, b] =>
    match a.toNat?, b.toNat? with
    | some x, some y => if x ≤ y ∧ y ≤ 65535 then some ⟨x, y⟩ else none
    | _, _ => none
  | _ => none

def step (line : String) : String :=
  match fields line with
  | ["parse", h] =>
    match ofHex h with
    | some bs =>
      match parseChars (charsOfBytes bs) with
      | some u => describe u
      | none => "nil"
    | none => "bad-op"
  | ["norm", l] =>
    if l = "." then describe (normalize [])
    else
      match (l.splitOn ",").mapM parseRange with
      | some u => describe (normalize u)
      | none => "bad-op"
  | _ => "bad-op"

end Hy.Drv.PortUnion
