/- `hydrv sniff`, UDP half: line-protocol driver for Hy.Model.QuicInitial (C17 / C03-D2).
   op:  udp <addr> <packet> <sample> <mask> <pn> <hdrlen> <open> <perm> <sni>
        <sample>,<mask> "~" | hex: the header-protection mask and the sample it was computed on
        <open> "~" (AEAD not reached) | "!" (authentication failed) | hex plaintext, valid for
        packet number <pn> and an AAD of <hdrlen> bytes;  <perm> "." | csv (sort.Slice's order)
   out: ok data=<"=" | hex> addr=<hex> err=<0|1> pl=<"~" | hex>  |  panic
   A crypto call at an input other than the recorded one gets an unusable answer, so a
   model/harness disagreement on WHICH bytes are sampled or authenticated shows up as a diff. -/
import Hy.Model.QuicInitial
import Hy.Drv.Sniff
namespace Hy.Drv.QuicInitial
open Hy Hy.Quic Hy.Drv Hy.Drv.Sniff

def showOpt : Option Bytes → String
  | none => "~"
  | some b => toHexF b

def stepUdp (addr pkt sample mask pn hl opn perm sni : String) : String :=
  match ofHex addr, ofHex pkt, parseOptBytes sample, parseOptBytes mask, pn.toNat?, hl.toNat?,
        parseNatList perm, parseOptBytes sni with
  | some addr, some pkt, some sample, some mask, some pn, some hl, some perm, some sni =>
    let plain : Option (Option Bytes) :=
      if opn = "~" ∨ opn = "!" then some none else (ofHex opn).map some
    match plain with
    | none => "bad-op"
    | some plain =>
      let C : Crypto := {
        mask := fun _ _ s => match sample, mask with
          | some sm, some mk => if s = sm then mk else []
          | _, _ => []
        open_ := fun _ _ p hdr _ => if p = pn ∧ hdr.length = hl then plain else none
        scribble := id }
      let sortFn : List Frame → List Frame := fun l =>
        if perm.length = l.length then perm.filterMap (fun i => l[i]?) else l
      match sniffUDP Quic.fixed C sortFn (fun _ => sni) addr pkt, readCryptoPayload Quic.fixed C sortFn pkt with
      | .ok o, .ok (_, pl) =>
        let d := if o.data = pkt then "=" else toHexF o.data
        s!"ok data={d} addr={toHexF o.addr} err={showBool o.err} pl={showOpt pl}"
      | _, _ => "panic"
  | _, _, _, _, _, _, _, _ => "bad-op"

/-- `two k <7 fields per stream>…`: k streams through one Sniffer, one after the other -/
def stepTwo : Nat → List String → Option (List String)
  | 0, [] => some []
  | k + 1, addr :: cs :: dl :: fin :: reads :: hh :: sni :: rest =>
    (stepTwo k rest).map (fun l => stepTcp addr cs dl fin reads hh sni :: l)
  | _, _ => none

def step (line : String) : String :=
  match fields line with
  | "two" :: k :: rest =>
    match k.toNat? with
    | some k => match stepTwo k rest with
      | some outs => " ; ".intercalate outs
      | none => "bad-op"
    | none => "bad-op"
  | ["tcp", addr, cs, dl, fin, reads, hh, sni] => stepTcp addr cs dl fin reads hh sni
  | ["udp", addr, pkt, sample, mask, pn, hl, opn, perm, sni] => stepUdp addr pkt sample mask pn hl opn perm sni
  | _ => "bad-op"

end Hy.Drv.QuicInitial
