/- `hydrv sniff`, UDP half: line-protocol driver for Hy.Model.QuicInitial (C17 / C03-D2).
   op:  udp <addr> <packet> <sample> <mask> <pn> <hdrlen> <open> <perm> <sni>
        <sample>,<mask> "~" | hex: the header-protection mask and the sample it was computed on
        <open> "~" (AEAD not reached) | "!" (authentication failed) | hex plaintext, valid for
        packet number <pn> and an AAD of <hdrlen> bytes;  <perm> "." | csv (sort.Slice's order)
   out: ok data=<"=" | hex> addr=<hex> err=<0|1> pl=<"~" | hex>  |  panic
   A crypto call at an input other than the recorded one gets an unusable answer, so a
   model/harness disagreement on WHICH bytes are sampled or authenticated shows up as a diff. -/
import Hy.Model.QuicInitial
import Hy.Model.SniffServer
import Hy.Drv.Sniff
namespace Hy.Drv.QuicInitial
open Hy Hy.Quic Hy.Drv Hy.Drv.Sniff

def showOpt : Option Bytes → String
  | none => "~"
  | some b => toHexF b

/-- the crypto parameters as recorded by the harness -/
def mkCrypto (sample mask : Option Bytes) (pn hl : Nat) (plain : Option Bytes) : Crypto := {
  mask := fun _ _ s => match sample, mask with
    | some sm, some mk => if s = sm then mk else []
    | _, _ => []
  open_ := fun _ _ p hdr _ => if p = pn ∧ hdr.length = hl then plain else none
  scribble := id }

def mkSort (perm : List Nat) : List Frame → List Frame := fun l =>
  if perm.length = l.length then perm.filterMap (fun i => l[i]?) else l

def parseOpen (opn : String) : Option (Option Bytes) :=
  if opn = "~" ∨ opn = "!" then some none else (ofHex opn).map some

def stepUdp (addr pkt sample mask pn hl opn perm sni : String) : String :=
  match ofHex addr, ofHex pkt, parseOptBytes sample, parseOptBytes mask, pn.toNat?, hl.toNat?,
        parseNatList perm, parseOptBytes sni, parseOpen opn with
  | some addr, some pkt, some sample, some mask, some pn, some hl, some perm, some sni, some plain =>
    let C := mkCrypto sample mask pn hl plain
    let sortFn := mkSort perm
    match sniffUDP Quic.fixed C sortFn (fun _ => sni) addr pkt, readCryptoPayload Quic.fixed C sortFn pkt with
    | .ok o, .ok (_, pl) =>
      let d := if o.data = pkt then "=" else toHexF o.data
      s!"ok data={d} addr={toHexF o.addr} err={showBool o.err} pl={showOpt pl}"
    | _, _ => "panic"
  | _, _, _, _, _, _, _, _, _ => "bad-op"

/-! end-to-end cases (component `sniffe2e`): the server's composition, Hy.Model.SniffServer -/

/-- `t <hooked> <addr> <sent> <cut|-> <kind h|s|n> <name|~>`: the client's bytes arrive as one
    chunk, or as two with the sniff deadline firing between them (after exactly the Read calls
    the sniffer needs for the first); the parser returns `name` on the visible bytes. -/
def e2eTcp (hooked addr sent cut kind name : String) : String :=
  match parseBool hooked, ofHex addr, ofHex sent, parseDl cut, parseOptBytes name with
  | some hooked, some addr, some sent, some cut, some name =>
    let P : Sniff.Parsers := {
      reads := List.replicate 100 4096
      httpHost := fun _ => if kind = "h" then name else none
      sni := fun _ => if kind = "s" then name else none }
    let s : Sniff.Stream :=
      match cut with
      | none => ⟨[sent], none, false⟩
      | some c =>
        let big := 1000000
        let used := match Sniff.sniffTCP Sniff.fixed P addr ⟨[sent.take c], some big, false⟩ with
          | .ok o => big - o.s.dl.getD big
          | _ => 0
        ⟨[sent.take c, sent.drop c], some used, false⟩
    match SniffServer.hookedTCP Sniff.fixed P hooked sent.length addr s with
    | .ok w =>
      let d := match w.dial with | some a => toHexF a | none => "~"
      s!"t same={showBool (decide (w.target = sent))} n={w.target.length} dial={d} resp={w.responses}"
    | _ => "panic"
  | _, _, _, _, _ => "bad-op"

def e2eUdp (hooked addr pkt sample mask pn hl opn perm sni : String) : String :=
  match parseBool hooked, ofHex addr, ofHex pkt, parseOptBytes sample, parseOptBytes mask, pn.toNat?,
        hl.toNat?, parseNatList perm, parseOptBytes sni, parseOpen opn with
  | some hooked, some addr, some pkt, some sample, some mask, some pn, some hl, some perm, some sni, some plain =>
    match SniffServer.hookedUDP Quic.fixed (mkCrypto sample mask pn hl plain) (mkSort perm) (fun _ => sni)
        hooked addr pkt with
    | .ok ⟨some d, some (p, to)⟩ => s!"u first={showBool (decide (p = pkt))} dial={toHexF d} to={toHexF to}"
    | .ok _ => "u none"
    | _ => "panic"
  | _, _, _, _, _, _, _, _, _, _ => "bad-op"

def stepE2E : Nat → List String → Option (List String)
  | 0, [] => some []
  | k + 1, "t" :: hooked :: addr :: sent :: cut :: kind :: name :: rest =>
    (stepE2E k rest).map (fun l => e2eTcp hooked addr sent cut kind name :: l)
  | k + 1, "u" :: hooked :: addr :: pkt :: sample :: mask :: pn :: hl :: opn :: perm :: sni :: rest =>
    (stepE2E k rest).map (fun l => e2eUdp hooked addr pkt sample mask pn hl opn perm sni :: l)
  | _, _ => none

/-- `two k <7 fields per stream>…`: k streams through one Sniffer, one after the other -/
def stepTwo : Nat → List String → Option (List String)
  | 0, [] => some []
  | k + 1, addr :: cs :: dl :: fin :: reads :: hh :: sni :: rest =>
    (stepTwo k rest).map (fun l => stepTcp addr cs dl fin reads hh sni :: l)
  | _, _ => none

def step (line : String) : String :=
  match fields line with
  | "e2e" :: k :: rest =>
    match k.toNat? with
    | some k => match stepE2E k rest with
      | some outs => " ; ".intercalate outs
      | none => "bad-op"
    | none => "bad-op"
  | "two" :: k :: rest =>
    match k.toNat? with
    | some k => match stepTwo k rest with
      | some outs => " ; ".intercalate outs
      | none => "bad-op"
    | none => "bad-op"
  | ["tcp", addr, cs, dl, fin, reads, hh, sni] => stepTcp addr cs dl fin reads hh sni
  | ["udp", addr, pkt, sample, mask, pn, hl, opn, perm, sni] => stepUdp addr pkt sample mask pn hl opn perm sni
  | _ => "bad-op"

end Hy.Drv.QuicInitial
