/-
  `hydrv brutal`: line-protocol driver for Hy.Model.Brutal + Hy.Model.Pacer (C11).

  ops (decimal integers; every op ends with the observation point `now inflight`):
      reset <bps> <nocomp> <now> <inflight>      NewBrutalSender(bps, nocomp); RTT provider returns 0
      rtt <ns> <now> <inflight>                  SmoothedRTT() returns ns from now on
      mds <size> <now> <inflight>                SetMaxDatagramSize(size)
      send <t> <size> <now> <inflight>           OnPacketSent(t, _, _, size, true)
      usend <t> <size> <now> <inflight>          the same call, for a packet the pacer did not release
      gsend <t> <size> <now> <inflight>          OnPacketSent only if HasPacingBudget(t) and size ≤ datagram size
      ack <t> <nAck> <nLoss> <now> <inflight>    OnCongestionEventEx(_, t, nAck packets, nLoss packets)
      q <now> <inflight>                         nothing
  result: the pacer's fields, getBandwidth(), maxBurstSize(), Budget(now), HasPacingBudget(now),
  TimeUntilSend, CanSend(inflight), GetCongestionWindow(), Float64bits(ackRate), the five slots.

  FLOATS.  The model keeps `ackRate` as an exact rational.  Here, and only here, the two
  float64 expressions of brutal.go are recomputed with Lean `Float` (IEEE-754 binary64, the
  same operations in the same order as the Go code) so that the integers the Go code derives
  from them can be compared exactly.  `fq=1` additionally certifies, in exact integer
  arithmetic, that on this state the float values are where the theorems assume them to be:
  ackRate within half an ulp of the rational, bps ≤ bandwidth ≤ ⌊5·bps/4⌋ and within 1 of
  ⌊bps/ackRate⌋, window product within 1 of the rational floor.
-/
import Hy.Model.Brutal
import Hy.Drv.Util
namespace Hy.Drv.Brutal
open Hy Hy.Brutal Hy.Pacer Hy.Drv

structure DS where
  s : Sender
  rtt : Int

def init : DS := { s := Brutal.new 0 false, rtt := 0 }

/-- `b.ackRate` as the float64 Go holds -/
def ackRateF : AckRate → Float
  | .one => 1.0
  | .floor => Float.ofBits (UInt64.ofNat Gen.minAckRateBits)
  | .ratio a t => Float.ofNat a / Float.ofNat t

/-- `congestion.ByteCount(float64(bs.bps) / bs.ackRate)` -/
def bandwidthF (s : Sender) : Int :=
  (Float.ofNat s.bps / ackRateF s.ackRate).toInt64.toInt

/-- `time.Duration.Seconds()` -/
def secondsF (d : Int) : Float :=
  Float.ofInt (Int.tdiv d 1000000000) + Float.ofInt (Int.tmod d 1000000000) / 1000000000.0

/-- `congestion.ByteCount(float64(b.bps) * rtt.Seconds() * congestionWindowMultiplier / b.ackRate)` -/
def rawWindowF (s : Sender) (rtt : Int) : Int :=
  (Float.ofNat s.bps * secondsF rtt * Float.ofNat Gen.congestionWindowMultiplier
    / ackRateF s.ackRate).toInt64.toInt

/-- |x − num/den| ≤ ulp(x)/2 for the float64 with bit pattern `bits` (normal, exponent ≤ 0) -/
def halfUlpOf (bits num den : Nat) : Bool :=
  let e := bits / 4503599627370496 % 2048
  let m := 4503599627370496 + bits % 4503599627370496
  if e = 0 ∨ e > 1075 ∨ bits ≥ 9223372036854775808 then false
  else
    let a : Int := m * den
    let b : Int := num * 2 ^ (1075 - e)
    decide (2 * (a - b).natAbs ≤ den)

def floatsWhereAssumed (s : Sender) (rtt : Int) : Bool :=
  let r := s.ackRate
  let bw := bandwidthF s
  let okRate := halfUlpOf (ackRateF r).toBits.toNat r.num r.den
  let okBw := decide ((s.bps : Int) ≤ bw ∧ bw ≤ ((s.bps * 5 / 4 : Nat) : Int)
                ∧ (bw - (bandwidthQ s.bps r : Nat)).natAbs ≤ 1)
  let okRaw := if rtt ≤ 0 then true
               else decide ((rawWindowF s rtt - (rawWindowQ s.bps r rtt.toNat : Nat)).natAbs ≤ 1)
  okRate && okBw && okRaw

def hex16 (n : Nat) : String :=
  let ds := (Nat.toDigits 16 n)
  String.ofList (List.replicate (16 - ds.length) '0' ++ ds)

def showSlots (s : Sender) : String :=
  ",".intercalate ((List.range Gen.pktInfoSlotCount).map fun i =>
    let x := s.slots i
    s!"{x.ts}:{x.ack}:{x.loss}")

def observe (d : DS) (now inflight : Int) : String :=
  let s := d.s
  let bw := bandwidthF s
  let raw := rawWindowF s d.rtt
  let tus := match timeUntilSend s bw with
    | .ok t => toString t
    | .reject => "reject"
    | .panic => "panic"
  s!"ok b={s.pacer.budgetAtLastSent} last={s.pacer.lastSentTime} mds={s.pacer.maxDatagramSize} bw={bw} " ++
  s!"mb={maxBurstSize s.pacer bw} bud={budget s.pacer bw now} hpb={showBool (hasPacingBudget s bw now)} " ++
  s!"tus={tus} cs={showBool (canSend s d.rtt raw inflight)} cwnd={getCongestionWindow s d.rtt raw} " ++
  s!"ar={hex16 (ackRateF s.ackRate).toBits.toNat} slots={showSlots s} fq={showBool (floatsWhereAssumed s d.rtt)}"

/-- the model keeps the slot array as a function; re-tabulate it after every event so that
    the closure chain does not grow with the history (driver performance only) -/
def tabulate (s : Sender) : Sender :=
  let l := (List.range Gen.pktInfoSlotCount).map s.slots
  { s with slots := fun i => l.getD i ⟨0, 0, 0⟩ }

def ints (fs : List String) : Option (List Int) := fs.mapM String.toInt?

def step (d : DS) (line : String) : DS × String :=
  match fields line with
  | op :: rest =>
    match ints rest with
    | none => (d, "bad-op")
    | some xs =>
      let fin (d' : DS) (now inflight : Int) := (d', observe d' now inflight)
      match op, xs with
      | "reset", [bps, nc, now, infl] =>
        if bps < 0 ∨ (nc ≠ 0 ∧ nc ≠ 1) then (d, "bad-op")
        else fin { s := Brutal.new bps.toNat (nc = 1), rtt := 0 } now infl
      | "rtt", [ns, now, infl] => fin { d with rtt := ns } now infl
      | "mds", [sz, now, infl] => fin { d with s := setMaxDatagramSize d.s sz } now infl
      | "send", [t, sz, now, infl] =>
        fin { d with s := onPacketSent d.s (bandwidthF d.s) t sz } now infl
      | "usend", [t, sz, now, infl] =>
        fin { d with s := onPacketSent d.s (bandwidthF d.s) t sz } now infl
      | "gsend", [t, sz, now, infl] =>
        let bw := bandwidthF d.s
        if hasPacingBudget d.s bw t && decide (0 ≤ sz ∧ sz ≤ d.s.maxDatagramSize) then
          fin { d with s := onPacketSent d.s bw t sz } now infl
        else fin d now infl
      | "ack", [t, a, l, now, infl] =>
        if t < 0 ∨ a < 0 ∨ l < 0 then (d, "bad-op")
        else fin { d with s := tabulate (onCongestionEventEx d.s t.toNat a.toNat l.toNat) } now infl
      | "q", [now, infl] => fin d now infl
      | _, _ => (d, "bad-op")
  | [] => (d, "bad-op")

end Hy.Drv.Brutal
