/- `hydrv frame`: line-protocol driver for Hy.Model.Frame (C04). -/
import Hy.Model.Frame
import Hy.Drv.Util
namespace Hy.Drv.Frame
open Hy Hy.Frame Hy.Drv

def showRd {α} (total : Nat) (f : α → String) : Rd (List Bytes) α → String
  | .ok a s => s!"ok {f a} consumed={total - flatLen s}"
  | .eof => s!"eof consumed={total}"
  | .proto s => s!"proto consumed={total - flatLen s}"

def step (line : String) : String :=
  match fields line with
  | ["rdreq", cs] =>
    match parseChunks cs with
    | some cs => showRd (flatLen cs) toHexF (readRequest chunked cs) ++ s!" big={showBool (decide (requestAlloc chunked cs > 1048576))}"
    | none => "bad-op"
  | ["rdframed", cs] =>
    match parseChunks cs with
    | some cs => showRd (flatLen cs) toHexF (readFramedRequest chunked cs)
    | none => "bad-op"
  | ["rdresp", cs] =>
    match parseChunks cs with
    | some cs => showRd (flatLen cs) (fun (p : Bool × Bytes) => s!"{showBool p.1} {toHexF p.2}")
        (readResponse chunked cs) ++ s!" big={showBool (decide (responseAlloc chunked cs > 1048576))}"
    | none => "bad-op"
  | ["wrreq", a, p] =>
    match ofHex a, ofHex p with
    | some a, some p =>
      let inr := decide (Gen.tcpRequestPaddingMin ≤ p.length ∧ p.length < Gen.tcpRequestPaddingMax)
      s!"{toHexF (writeRequest a p)} padrange={showBool inr}"
    | _, _ => "bad-op"
  | ["wrresp", ok, m, p] =>
    match parseBool ok, ofHex m, ofHex p with
    | some ok, some m, some p =>
      let inr := decide (Gen.tcpResponsePaddingMin ≤ p.length ∧ p.length < Gen.tcpResponsePaddingMax)
      s!"{toHexF (writeResponse ok m p)} padrange={showBool inr}"
    | _, _, _ => "bad-op"
  | _ => "bad-op"

end Hy.Drv.Frame
