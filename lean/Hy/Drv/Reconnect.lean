/-
  `hydrv reconnect`: line-protocol driver for Hy.Model.Reconnect (C16).

  One line = one whole history (so the driver is stateless):

    seq OP OP …      sequential history, run on the model of the REPAIRED code (`fixed`);
                     `pseq OP …` runs the same history on the pinned variant (diagnostics)
      L              NewReconnectableClient(lazy = true)
      E:att          NewReconnectableClient(lazy = false); att = environment's answer to the attempt
      T:att          rc.TCP(accepted target)     att = answer IF this call has to reconnect
      R:att          rc.TCP(target the server's outbound refuses)
      U:att          rc.UDP()
      F:att          rc.TCP() repeated, holding the streams, until one fails (saturates the
                     server's stream limit on the current connection)
      K              the server closes the current connection; the harness waits until the
                     client has seen it (settled environment)
      C              rc.Close()
      att ∈ ok | cfg (configFunc error) | bad (invalid config) | new (ConnFactory.New error)
            | auth | tls | down (handshake fails after the socket was obtained)
    output: `seq` then, per op,  RESULT/cfgCalls/connectedFunc-args/open-sockets/sockets-so-far

    conc …           concurrent history: checked by the harness's model-free oracle only;
                     the driver answers the constant the harness prints.
-/
import Hy.Model.Reconnect
import Hy.Drv.Util
namespace Hy.Drv.Reconnect
open Hy Hy.Reconnect Hy.Drv

def parseAtt : String → Option Att
  | "ok" => some .ok
  | "cfg" => some .cfgErr
  | "bad" => some .badCfg
  | "new" => some .newErr
  | "auth" => some .connErr
  | "tls" => some .connErr
  | "down" => some .connErr
  | _ => none

def showRet : Ret → String
  | .ok => "ok" | .closed => "closed" | .recoverable => "recoverable" | .other => "other"
  | .cfgErr => "cfgErr" | .badCfg => "badCfg" | .newErr => "newErr" | .connErr => "connErr"

def showNats (l : List Nat) : String :=
  if l.isEmpty then "-" else ",".intercalate (l.map toString)

def lastRet (s : St) : String :=
  match s.log with
  | .ret _ r :: _ => showRet r
  | .startRet none :: _ => "start"
  | .startRet (some e) :: _ => showRet e
  | _ => "?"

def summary (s : St) : String :=
  s!"{cfgCount s.log}/{showNats (connArgs s.log).reverse}/{showNats (openList s)}/{s.nextId}"

/-- one TCP()/UDP() call of the single goroutine 0 in the settled environment -/
def call (cfg : Cfg) (s : St) (sat : Option Nat) (k : Kind) (a : Att) (fill : Bool) : St × Option Nat × String :=
  if !s.started then (s, sat, "nostart")
  else
    let s1 := step cfg s (.callBegin 0 a)
    match s1.pc 0 with
    | .idle => (s1, sat, lastRet s1)
    | .using c =>
      let r := settled s1 sat c k
      let (r, sat) := if fill && r == .ok then (FRes.recoverable, some c) else (r, sat)
      let s2 := step cfg s1 (.callEnd 0 r)
      (s2, sat, lastRet s2)

def doOp (cfg : Cfg) (s : St) (sat : Option Nat) (op : String) : Option (St × Option Nat × String) :=
  match op.splitOn ":" with
  | ["L"] =>
    if s.started then some (s, sat, "dup")
    else let s' := step cfg s (.start true .ok); some (s', sat, lastRet s')
  | ["E", a] =>
    match parseAtt a with
    | none => none
    | some a =>
      if s.started then some (s, sat, "dup")
      else let s' := step cfg s (.start false a); some (s', sat, lastRet s')
  | ["T", a] => (parseAtt a).map (fun a => call cfg s sat .tcp a false)
  | ["R", a] => (parseAtt a).map (fun a => call cfg s sat .tcpRefused a false)
  | ["U", a] => (parseAtt a).map (fun a => call cfg s sat .udp a false)
  | ["F", a] => (parseAtt a).map (fun a => call cfg s sat .tcp a true)
  | ["K"] =>
    if !s.started then some (s, sat, "nostart")
    else match s.client with
      | some c =>
        if s.sock c == some true && !s.dead c then some (step cfg s (.kill c), sat, "kill")
        else some (s, sat, "nokill")
      | none => some (s, sat, "nokill")
  | ["C"] =>
    if !s.started then some (s, sat, "nostart")
    else some (step cfg s .close, sat, "close")
  | _ => none

def runSeq (cfg : Cfg) (ops : List String) : String :=
  let rec go (s : St) (sat : Option Nat) (acc : List String) : List String → String
    | [] => " ".intercalate ("seq" :: acc.reverse)
    | op :: rest =>
      match doOp cfg s sat op with
      | none => "bad-op"
      | some (s', sat', r) => go s' sat' (s!"{r}/{summary s'}" :: acc) rest
  go init none [] ops

def step (line : String) : String :=
  match fields line with
  | "seq" :: ops => runSeq fixed ops
  | "pseq" :: ops => runSeq pinned ops
  | "conc" :: _ => "conc checked"
  | _ => "bad-op"

end Hy.Drv.Reconnect
