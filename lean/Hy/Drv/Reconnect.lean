/-
  `hydrv reconnect`: line-protocol driver for Hy.Model.Reconnect (C16).

  One line = one whole history (so the driver is stateless):

    seq OP OP …      sequential history, run on the model of the REPAIRED code (`fixed`);
                     `pseq OP …` runs the same history on the pinned variant (diagnostics)
      L              NewReconnectableClient(lazy = true)
      E:att          NewReconnectableClient(lazy = false); att = environment's answer to the attempt
      T:att          rc.TCP(accepted target)     att = answer IF this call has to reconnect
      R:att          rc.TCP(target the server's outbound refuses)
      U:att          rc.UDP()
      F:att          rc.TCP() repeated, holding the streams, until one fails (saturates the
                     server's stream limit on the current connection)
      K              the server closes the current connection; the harness waits until the
                     client has seen it (settled environment)
      C              rc.Close()
      X:kw           the late-error schedule with a second goroutine B (k = T | U, w = a | b):
                       a:  B.begin (parked before it enters the inner client) ; kill ; A ; C ; B.end
                       b:  kill ; B.begin (parked after the inner client answered) ; A ; C ; B.end
                     A = rc.TCP (sees the loss, the client is dropped), C = rc.TCP (reconnects),
                     B.end = B's error from the REPLACED client is processed only now.
                     result `x.B0.K.A.C.B` (B0 = parked, or B's result if it never reached the inner client)
      att ∈ ok | cfg (configFunc error) | bad (invalid config) | new (ConnFactory.New error)
            | tls | down (tr.DialEarly fails: handshake error / timeout, no quic.Conn)
            | rt (the server drops the connection while answering the auth request: RoundTrip error)
            | auth (the server answers with a status other than 233)
    output: `seq` then, per op,
      RESULT/cfgCalls/connectedFunc-args/open-sockets/sockets-so-far/RESOURCES
    RESOURCES = for every factory socket `id:pNtNcX` — how often its packet conn (p) and transport (t)
    were closed, and the QUIC conn: `-` never obtained (as seen by the server: never accepted), `*` the
    server closed it first (kill, rt), `1` closed by the client, `0` still open.

    cfgeval KIND a1 a2 …   app/cmd/client.go: the resolver answers a1, a2, … to successive evaluations of
                     the configuration function; a fresh evaluation returns the current answer each time

    conc …           concurrent history: checked by the harness's model-free oracle only;
                     the driver answers the constant the harness prints.
-/
import Hy.Model.Reconnect
import Hy.Drv.Util
namespace Hy.Drv.Reconnect
open Hy Hy.Reconnect Hy.Drv

def parseAtt : String → Option Att
  | "ok" => some .ok
  | "cfg" => some .cfgErr
  | "bad" => some .badCfg
  | "new" => some .newErr
  | "auth" => some .authErr
  | "rt" => some .rtErr
  | "tls" => some .dialErr
  | "down" => some .dialErr
  | _ => none

def showRet : Ret → String
  | .ok => "ok" | .closed => "closed" | .recoverable => "recoverable" | .other => "other"
  | .cfgErr => "cfgErr" | .badCfg => "badCfg" | .newErr => "newErr" | .connErr => "connErr"

def showNats (l : List Nat) : String :=
  if l.isEmpty then "-" else ",".intercalate (l.map toString)

def lastRet (s : St) : String :=
  match s.log with
  | .ret _ r :: _ => showRet r
  | .startRet none :: _ => "start"
  | .startRet (some e) :: _ => showRet e
  | _ => "?"

def showCount : Option Nat → String
  | none => "-"
  | some n => toString n

/-- `sc` = sockets whose connection the SERVER closed first (what the client does to the QUIC conn
    afterwards is not observable from outside) -/
def showRes (s : St) (sc : List Nat) (c : Nat) : String :=
  match s.res c with
  | none => s!"{c}:?"
  | some r =>
    let cc := match r.conn with
      | none => "-"
      | some n => if sc.contains c || s.dead c then "*" else if n == 0 then "0" else "1"
    s!"{c}:p{showCount r.pkt}t{showCount r.tr}c{cc}" ++ (if r.nilDeref then "!" else "")

def summary (s : St) (sc : List Nat) : String :=
  let rs := (List.range s.nextId).map (showRes s sc)
  let rstr := if rs.isEmpty then "-" else ",".intercalate rs
  s!"{cfgCount s.log}/{showNats (connArgs s.log).reverse}/{showNats (openList s)}/{s.nextId}/{rstr}"

/-- one TCP()/UDP() call of the single goroutine 0 in the settled environment -/
structure Aux where
  sat : Option Nat := none      -- the client whose stream limit the harness has saturated
  sc  : List Nat := []          -- sockets whose connection the server closed first

def call (cfg : Cfg) (s : St) (x : Aux) (k : Kind) (a : Att) (fill : Bool) : St × Aux × String :=
  if !s.started then (s, x, "nostart")
  else
    let s1 := step cfg s (.callBegin 0 a)
    -- an `rt` attempt that was really made: the server dropped that socket's connection
    let x := if a == .rtErr && s1.nextId == s.nextId + 1 then { x with sc := s.nextId :: x.sc } else x
    match s1.pc 0 with
    | .idle => (s1, x, lastRet s1)
    | .using c =>
      let r := settled s1 x.sat c k
      let (r, x) := if fill && r == .ok then (FRes.recoverable, { x with sat := some c }) else (r, x)
      let s2 := step cfg s1 (.callEnd 0 r)
      (s2, x, lastRet s2)

def doOp (cfg : Cfg) (s : St) (x : Aux) (op : String) : Option (St × Aux × String) :=
  match op.splitOn ":" with
  | ["L"] =>
    if s.started then some (s, x, "dup")
    else let s' := step cfg s (.start true .ok); some (s', x, lastRet s')
  | ["E", a] =>
    match parseAtt a with
    | none => none
    | some a =>
      if s.started then some (s, x, "dup")
      else
        let s' := step cfg s (.start false a)
        let x := if a == .rtErr && s'.nextId == s.nextId + 1 then { x with sc := s.nextId :: x.sc } else x
        some (s', x, lastRet s')
  | ["T", a] => (parseAtt a).map (fun a => call cfg s x .tcp a false)
  | ["R", a] => (parseAtt a).map (fun a => call cfg s x .tcpRefused a false)
  | ["U", a] => (parseAtt a).map (fun a => call cfg s x .udp a false)
  | ["F", a] => (parseAtt a).map (fun a => call cfg s x .tcp a true)
  | ["X", v] =>
    let kb? : Option Kind := if v.startsWith "T" then some .tcp else if v.startsWith "U" then some .udp else none
    let w? : Option Bool := if v.endsWith "a" then some true else if v.endsWith "b" then some false else none
    match kb?, w?, v.length == 2 with
    | some kb, some killAfter, true =>
      if !s.started then some (s, x, "nostart")
      else
        let doKill (s : St) : St × String :=
          match s.client with
          | some c => if s.sock c == some true && !s.dead c then (step cfg s (.kill c), "kill") else (s, "nokill")
          | none => (s, "nokill")
        let (s, k1) := if killAfter then (s, "") else doKill s
        -- B.begin (goroutine 1)
        let n0 := s.nextId
        let s := step cfg s (.callBegin 1 .ok)
        let _ := n0
        let (parkedOn, b0) := match s.pc 1 with
          | .using c => (some c, "parked")
          | .idle => (none, lastRet s)
        let (s, k2) := if killAfter then doKill s else (s, "")
        let k := if killAfter then k2 else k1
        let (s, x, ra) := call cfg s x .tcp .ok false
        let (s, x, rc) := call cfg s x .tcp .ok false
        match parkedOn with
        | some c =>
          let r := settled s x.sat c kb
          let s := step cfg s (.callEnd 1 r)
          some (s, x, s!"x.{b0}.{k}.{ra}.{rc}.{lastRet s}")
        | none => some (s, x, s!"x.{b0}.{k}.{ra}.{rc}.-")
    | _, _, _ => none
  | ["K"] =>
    if !s.started then some (s, x, "nostart")
    else match s.client with
      | some c =>
        if s.sock c == some true && !s.dead c then some (step cfg s (.kill c), x, "kill")
        else some (s, x, "nokill")
      | none => some (s, x, "nokill")
  | ["C"] =>
    if !s.started then some (s, x, "nostart")
    else some (step cfg s .close, x, "close")
  | _ => none

def runSeq (cfg : Cfg) (ops : List String) : String :=
  let rec go (s : St) (x : Aux) (acc : List String) : List String → String
    | [] => " ".intercalate ("seq" :: acc.reverse)
    | op :: rest =>
      match doOp cfg s x op with
      | none => "bad-op"
      | some (s', x', r) => go s' x' (s!"{r}/{summary s' x'.sc}" :: acc) rest
  go init {} [] ops

def step (line : String) : String :=
  match fields line with
  | "seq" :: ops => runSeq fixed ops
  | "pseq" :: ops => runSeq pinned ops
  | "conc" :: _ => "conc checked"
  | "cfgeval" :: _kind :: answers => " ".intercalate ("cfgeval" :: configEvals answers)
  | _ => "bad-op"

end Hy.Drv.Reconnect
