/- `hydrv c18socks | c18http | c18xform`: line-protocol drivers for Hy.Model.Socks5,
   Hy.Model.HttpIn and the two stream transformers (C18). Core Lean only. -/
import Hy.Model.Socks5
import Hy.Model.HttpIn
import Hy.Model.Mux
import Hy.Drv.Util
namespace Hy.Drv.C18
open Hy Hy.Drv

def kv (fs : List String) (k : String) : Option String :=
  fs.findSome? (fun f => match f.splitOn "=" with
    | [k', v] => if k' = k then some v else none
    | _ => none)

def parseNats (s : String) : Option (List Nat) :=
  if s = "." then some [] else (s.splitOn ".").mapM String.toNat?

/-! ### socks -/
def showSocksEff : Socks5.Eff → String
  | .write bs => s!"W:{toHexF bs}"
  | .authCall u p r => s!"A:{toHexF u}:{toHexF p}:{showBool r}"
  | .hyTCP a => s!"T:{toHexF a}"
  | .hyUDP => "U"
  | .udpReply => "UR"
  | .upstream bs => s!"UP:{toHexF bs}"
  | .hold _ => "H"
  | .close => "X"

def socksStep (fs : List String) : String :=
  match kv fs "auth" >>= parseBool, kv fs "user" >>= ofHex, kv fs "pass" >>= ofHex,
        kv fs "noudp" >>= parseBool, kv fs "dial" >>= parseBool, kv fs "udp" >>= parseBool,
        kv fs "chunks" >>= parseChunks with
  | some a, some u, some p, some noudp, some dial, some udp, some cs =>
    let cfg : Socks5.Cfg := { authSet := a, auth := fun u' p' => decide (u' = u ∧ p' = p), disableUDP := noudp,
                              dialOk := dial, udpOk := udp, localOk := true }
    let effs := Socks5.run cfg cs
    (if effs.any (fun e => match e with | .hyTCP _ => true | .hyUDP => true | _ => false) then "upstream " else "refused ")
      ++ " ".intercalate (effs.map showSocksEff)
  | _, _, _, _, _, _, _ => "bad-op"

/-! ### http -/
def showHttpEff : HttpIn.Eff → String
  | .authCall u p r => s!"A:{toHexF u}:{toHexF p}:{showBool r}"
  | .status c => s!"S:{c}"
  | .hyTCP a => s!"T:{toHexF a}"
  | .upstream bs => s!"UP:{toHexF bs}"
  | .close => "X"

def parseRest (s : String) : Option (List Bytes) :=
  if s = "." then some [] else (s.splitOn "/").mapM ofHex

def parseReq (s : String) : Option HttpIn.Req :=
  match s.splitOn "," with
  | ["C", h, p, pa, buf, rest, dial] =>
    match ofHex h, ofHex p, ofHex pa, ofHex buf, parseRest rest, parseBool dial with
    | some h, some p, some pa, some buf, some rest, some dial =>
      some { isConnect := true, host := h, port := p, pauth := pa, buffered := buf, connRest := rest, dialOk := dial }
    | _, _, _, _, _, _ => none
  | ["P", pa, uok, dials, da, ka, dial] =>
    match ofHex pa, parseBool uok, parseBool dials, ofHex da, parseBool ka, parseBool dial with
    | some pa, some uok, some dials, some da, some ka, some dial =>
      some { isConnect := false, pauth := pa, urlOk := uok, dials := dials, dialAddr := da, keepAlive := ka, dialOk := dial }
    | _, _, _, _, _, _ => none
  | _ => none

def httpStep (fs : List String) : String :=
  match kv fs "auth" >>= parseBool, kv fs "user" >>= ofHex, kv fs "pass" >>= ofHex, kv fs "reqs" with
  | some a, some u, some p, some rs =>
    match (if rs = "." then some [] else (rs.splitOn ";").mapM parseReq) with
    | some reqs =>
      let cfg : HttpIn.Cfg := { authSet := a, auth := fun u' p' => decide (u' = u ∧ p' = p) }
      let effs := HttpIn.dispatch cfg reqs
      (if effs.any (fun e => match e with | .hyTCP _ => true | _ => false) then "upstream " else "refused ")
        ++ " ".intercalate (effs.map showHttpEff)
    | none => "bad-op"
  | _, _, _, _ => "bad-op"

/-! ### stream transformers: one output per scripted read ("!" = the read hit the end of
    the underlying stream), then what draining the rest yields -/
def showReads (outs : List (Bytes × Bool)) (rest : Bytes) : String :=
  (if outs.isEmpty then "." else "|".intercalate (outs.map (fun o => toHexF o.1 ++ (if o.2 then "!" else ""))))
    ++ s!" rest={toHexF rest}"

def cachedReads : List Nat → HttpIn.Cached → List (Bytes × Bool) × HttpIn.Cached
  | [], s => ([], s)
  | n :: ns, s =>
    let eof := s.buf.isEmpty && s.conn.isEmpty
    let r := s.read n
    let rr := cachedReads ns r.2
    ((r.1, eof) :: rr.1, rr.2)

def oneByteReads : List Nat → Mux.OneByte → List (Bytes × Bool) × Mux.OneByte
  | [], s => ([], s)
  | n :: ns, s =>
    let eof := s.bRead && s.conn.isEmpty
    let r := s.read n
    let rr := oneByteReads ns r.2
    ((r.1, eof) :: rr.1, rr.2)

def step (line : String) : String :=
  let fs := fields line
  match fs.head? with
  | some "socks" => socksStep fs
  | some "http" => httpStep fs
  | some "cached" =>
    match kv fs "buf" >>= ofHex, kv fs "chunks" >>= parseChunks, kv fs "reads" >>= parseNats with
    | some buf, some cs, some ns =>
      let r := cachedReads ns { buf := buf, conn := cs }
      "cached " ++ showReads r.1 r.2.pending
    | _, _, _ => "bad-op"
  | some "onebyte" =>
    match kv fs "b" >>= ofHex, kv fs "chunks" >>= parseChunks, kv fs "reads" >>= parseNats with
    | some [b], some cs, some ns =>
      let r := oneByteReads ns { b := b, bRead := false, conn := cs }
      "onebyte " ++ showReads r.1 r.2.pending
    | _, _, _ => "bad-op"
  | _ => "bad-op"

end Hy.Drv.C18
