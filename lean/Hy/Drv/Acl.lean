/- `hydrv acl`: line-protocol driver for Hy.Model.Acl (C09). Stateful: `rules …` loads a rule
   text (parse + compile, fresh cache), `q …` is one `Match` + `handle` call. -/
import Hy.Model.Acl
import Hy.Drv.Util
namespace Hy.Drv.Acl
open Hy Hy.Acl Hy.Drv

structure St where
  rules : Option (List Rule × Str) := none      -- compiled rules, identity of the default outbound
  store : Store := []

def init : St := {}

def strOfHex (s : String) : Option Str := (ofHex s).map (·.map (·.val))

def hexOfStr (s : Str) : String := toHexF (s.map byte)

def strOfAscii (s : String) : Str := s.toList.map Char.toNat

def asciiOfStr (s : Str) : String := String.ofList (s.map Char.ofNat)

def showMatcher : Matcher → String
  | .all => "all"
  | .exact p => s!"exact:{hexOfStr p}"
  | .wildcard p => s!"wild:{hexOfStr p}"
  | .suffix p => s!"suffix:{hexOfStr p}"
  | .ip a => s!"ip:{hexOfStr a}"
  | .cidr n m => s!"cidr:{hexOfStr n}/{hexOfStr m}"

def protoNum : Proto → Nat
  | .both => 0 | .tcp => 1 | .udp => 2

def parseProto (s : String) : Option Proto :=
  if s = "0" then some .both else if s = "1" then some .tcp else if s = "2" then some .udp else none

def showOptIP : Option IP → String
  | none => "-"
  | some a => hexOfStr a

def showRule (r : Rule) : String :=
  s!"{asciiOfStr r.outbound}|{showMatcher r.matcher}|{protoNum r.proto}|{r.startPort}|{r.endPort}|{showOptIP r.hijack}"

/-- `name=id,name=id,…` -/
def parseObs (s : String) : Option (List (Str × Str)) :=
  (s.splitOn ",").mapM fun kv =>
    match kv.splitOn "=" with
    | [k, v] => some (strOfAscii k, strOfAscii v)
    | _ => none

/-- code points: `-` = empty, else decimal numbers joined by `.` -/
def parseRunes (s : String) : Option Str :=
  if s = "-" then some [] else (s.splitOn ".").mapM (·.toNat?)

def parseQueryFields (n a b p port : String) : Option Query :=
  match strOfHex n, strOfHex a, strOfHex b, parseProto p, port.toNat? with
  | some n, some a, some b, some p, some port => some ⟨n, a, b, p, port⟩
  | _, _, _, _, _ => none

/-- evicted entries, each named by a query that has its key: `.` = none, else
    `name:v4:v6:proto:port` joined by `;` -/
def parseEvict (s : String) : Option (List Key) :=
  if s = "." then some []
  else (s.splitOn ";").mapM fun e =>
    match e.splitOn ":" with
    | [n, a, b, p, port] => (parseQueryFields n a b p port).map key
    | _ => none

/-- shape of the request's `ResolveInfo`: 0 = nil, 1 = {IPv4, IPv6}, 2 = the same with `Err` set -/
def parseShape (s : String) : Option (IP → IP → Option RInfo) :=
  if s = "0" then some (fun _ _ => none)
  else if s = "1" then some (fun a b => some ⟨a, b, false⟩)
  else if s = "2" then some (fun a b => some ⟨a, b, true⟩)
  else none

def showRewrite : Option Rewrite → String
  | none => "0"
  | some r => s!"1:{hexOfStr r.host}:{showOptIP r.r4}:{showOptIP r.r6}"

def step (st : St) (line : String) : St × String :=
  match fields line with
  | ["rules", dflt, obs, text] =>
    match parseObs obs, strOfHex text with
    | some obs, some text =>
      if !isAscii text then ({}, "nonascii")
      else match loadRules obs text with
        | .ok rs =>
          let dump := if rs.isEmpty then "-" else ";".intercalate (rs.map showRule)
          ({ rules := some (rs, strOfAscii dflt), store := [] }, s!"ok {rs.length} {dump}")
        | .syntaxErr n => ({}, s!"err syntax {n}")
        | .compileErr n w => ({}, s!"err compile {n} {w}")
        | .unsupported n => ({}, s!"unsupported {n}")
    | _, _ => ({}, "bad-op")
  | ["q", n, a, b, p, port, u, ev, shape] =>
    match st.rules, parseQueryFields n a b p port, parseRunes u, parseEvict ev, parseShape shape with
    | none, _, _, _, _ => (st, "no-rules")
    | some (rs, dflt), some q, some u, some ev, some mk =>
      if !isAscii q.name then (st, "nonascii")
      else
        -- the request: name + ResolveInfo in the given shape; the engine builds the lookup from it
        let ri := mk q.v4 q.v6
        let hit := (lookup st.store (key (reqQuery q.name ri q.proto q.port))).isSome
        let (store', d, (eng, rw)) :=
          engineHandle (fun _ => u) rs dflt st.store q.name ri q.proto q.port (fun k => ev.contains k)
        let (ob, hij) : String × String :=
          match d with
          | none => ("-", "-")
          | some (ob, h) => (asciiOfStr ob, showOptIP h)
        ({ st with store := store' },
          s!"ob={ob} hij={hij} hit={showBool hit} len={store'.length} eng={asciiOfStr eng} rw={showRewrite rw}")
    | _, _, _, _, _ => (st, "bad-op")
  | _ => (st, "bad-op")

end Hy.Drv.Acl
