/- `hydrv punchcodec` / `hydrv punchconn`: line-protocol drivers for Hy.Model.Punch (C20),
   instantiated with the Lean SHA-256.  Core Lean only. -/
import Hy.Model.Punch
import Hy.Drv.Util
namespace Hy.Drv.Punch
open Hy Hy.Punch Hy.Drv

def H : Bytes → Bytes := Sha256.hash

def showRes {α} (f : α → String) : Res α → String
  | .ok a => f a
  | .reject => "reject"
  | .panic => "panic"

def parseMeta (n o : String) : Option Meta :=
  match ofHex n, ofHex o with
  | some n, some o => some ⟨n, o⟩
  | _, _ => none

/-! #### codec (stateless) -/

def stepCodec (line : String) : String :=
  match fields line with
  | ["sha", m] =>
    match ofHex m with
    | some m => "ok " ++ toHexF (H m)
    | none => "bad-op"
  | ["enc", t, n, o, pad, salt] =>
    match t.toNat?, parseMeta n o, ofHex pad, ofHex salt with
    | some t, some m, some pad, some salt =>
      if t < 256 then showRes (fun b => s!"ok {toHexF b}") (encode H (byte t) m pad salt) else "bad-op"
    | _, _, _, _ => "bad-op"
  | ["dec", pkt, n, o] =>
    match ofHex pkt, parseMeta n o with
    | some pkt, some m => showRes (fun (r : Byte × Nat) => s!"ok {r.1.val} {r.2}") (decode H pkt m)
    | _, _ => "bad-op"
  | _ => "bad-op"

/-! #### demux conn (stateful) -/

def parseAddr (s : String) : Option Addr :=
  match s.splitOn ":" with
  | [k, ip, port] =>
    match ofHex ip, port.toInt? with
    | some ip, some port =>
      if k = "u" then some ⟨true, ip, port⟩
      else if k = "x" ∨ k = "n" then some ⟨false, ip, port⟩
      else none
    | _, _ => none
  | _ => none

def parseOptAddr (s : String) : Option (Option (Bytes × Int)) :=
  if s = "n" then some none
  else match s.splitOn "/" with
    | [ip, port] =>
      match ofHex ip, port.toInt? with
      | some ip, some port => some (some (ip, port))
      | _, _ => none
    | _ => none

def parseView (s : String) : Option StunView :=
  match s.splitOn "," with
  | [bits, x, m, tx] =>
    match bits.toList, parseOptAddr x, parseOptAddr m, ofHex tx with
    | [a, b, c], some x, some m, some tx =>
      if (a = '0' ∨ a = '1') ∧ (b = '0' ∨ b = '1') ∧ (c = '0' ∨ c = '1')
      then some ⟨a = '1', b = '1', c = '1', x, m, tx⟩ else none
    | _, _, _, _ => none
  | _ => none

/-- (input, the address token to echo) -/
def parseInput (s : String) : Option (Input × String) :=
  if s = "E" then some (.err, "")
  else match s.splitOn "@" with
    | [data, addr, view, hint] =>
      match ofHex data, parseAddr addr, parseView view, ofHex hint with
      | some data, some a, some v, some h => some (.pkt ⟨data, a, v, h⟩, addr)
      | _, _, _, _ => none
    | _ => none

def parseInputs (s : String) : Option (List (Input × String)) :=
  if s = "." then some [] else (s.splitOn ";").mapM parseInput

def parseReg (s : String) : Option Registry :=
  if s = "." then some []
  else (s.splitOn ";").mapM (fun e =>
    match e.splitOn "," with
    | [id, n, o] =>
      match ofHex id, parseMeta n o with
      | some id, some m => some (id, m)
      | _, _ => none
    | _ => none)

def showAP (a : AddrPort) : String := s!"{toHexF a.1}:{a.2}"

def showList (xs : List String) : String := if xs.isEmpty then "." else ";".intercalate xs

def showEvent (e : PunchEvent) : String := s!"{toHexF e.id},{showAP e.src},{e.type.val},{e.padLen}"

/-- `conc`: D = diverted under every interleaving of the volatile registrations, R = returned
    under every interleaving, ? = depends on the interleaving (Hy.Props.C20.conc_sandwich) -/
def concClass (stable vol : Registry) (p : PktIn) : String :=
  match classify H stable p, classify H (stable ++ vol) p with
  | .ok .pass, .ok .pass => "R"
  | .ok .pass, .ok _ => "?"
  | .ok _, .ok _ => "D"
  | _, _ => "!"

def stepConn (c : Conn) (line : String) : Conn × String :=
  match fields line with
  | ["reset", n] =>
    match n.toInt? with
    | some n => let c' := Conn.new n; (c', s!"ok {c'.cap}")
    | none => (c, "bad-op")
  | ["add", id, n, o] =>
    match ofHex id, parseMeta n o with
    | some id, some m =>
      match addAttempt c.reg id m with
      | .ok r => ({ c with reg := r }, "ok")
      | .reject => (c, "reject")
      | .panic => (c, "panic")
    | _, _ => (c, "bad-op")
  | ["rm", id] =>
    match ofHex id with
    | some id => ({ c with reg := c.reg.remove id }, "ok")
    | none => (c, "bad-op")
  | ["read", specs] =>
    match parseInputs specs with
    | some ins =>
      match readFrom H c (ins.map (·.1)) with
      | .ok (c', r, k) =>
        let q := s!"q={c'.events.length},{c'.stun.length}"
        match r with
        | .pkt data _ =>
          let tok := match ins[k - 1]? with
            | some (_, t) => t
            | none => "?"
          (c', s!"ret {k} {toHexF data} {tok} {q}")
        | .err => (c', s!"err {k} {q}")
      | .reject => (c, "reject")
      | .panic => (c, "panic")
    | none => (c, "bad-op")
  | ["drain"] =>
    ({ c with events := [], stun := [] },
      s!"ev {showList (c.events.map showEvent)} stun {showList (c.stun.map (fun e => showAP e.addr))}")
  | ["discover", tx, ans] =>
    -- DiscoverWithDemux with one open transaction `tx`; `ans` = n | the server's answer as a packet spec
    let answer : Option (Option PktIn) :=
      if ans = "n" then some none
      else match parseInput ans with
        | some (.pkt p, _) => some (some p)
        | _ => none
    match ofHex tx, answer with
    | some tx, some answer =>
      match discover H c [tx] answer with
      | .ok (c', r) =>
        let q := s!"q={c'.events.length},{c'.stun.length}"
        match r with
        | .addrs as => (c', s!"addrs {showList (as.map showAP)} {q}")
        | .failed => (c', s!"failed {q}")
      | .reject => (c, "reject")
      | .panic => (c, "panic")
    | _, _ => (c, "bad-op")
  | ["conc", st, vo, specs] =>
    match parseReg st, parseReg vo, parseInputs specs with
    | some st, some vo, some ins =>
      let s := String.join (ins.map (fun i => match i.1 with
        | .pkt p => concClass st vo p
        | .err => "E"))
      (c, "ok " ++ s)
    | _, _, _ => (c, "bad-op")
  | _ => (c, "bad-op")

def initConn : Conn := Conn.new 0

end Hy.Drv.Punch
