/- `hydrv bbr`: replays recorded steps of the real bbrSender on Hy.Model.BbrCore (C12b).
   Each op line carries the event AND the values the implementation's sampler / float
   arithmetic produced (key=value fields); the driver prints the model's post-state in the
   harness's canonical format. -/
import Hy.Model.BbrFull
import Hy.Drv.Util
namespace Hy.Drv.Bbr
open Hy Hy.Bbr Hy.Drv Hy.Sampler

def modeNum : Mode → Nat
  | .startup => 0 | .drain => 1 | .probeBw => 2 | .probeRtt => 3

def recNum : Rec → Nat
  | .none => 0 | .conservation => 1 | .growth => 2

def gainSym : Gain → String
  | .high => "H" | .drain => "D" | .val c => toString c

/-- positional, same order as the harness (`state()` in zz_verif_c12_bbr.go):
    mode rtc lastSent roundEnd lossEvents bytesLostRound minRtt minRttTs cwnd initCwnd maxCwnd minCwnd pacingRate
    pacingGain cycleOffset lastCycleStart | full roundsWoGain bwAtLastRound exitingQuiescence exitProbeRttAt
    probeRttRoundPassed lastSampleAppLimited hasNonAppLimitedSample recoveryState endRecoveryAt recoveryWindow
    detectOvershooting bytesLostOvershoot cwndForMinPacing maxCwndAdjusted mds bytesInFlight |
    GetCongestionWindow bandwidthForPacer CanSend(0) -/
def showState (s : S) (bps : Int) : String :=
  s!"{modeNum s.mode} {s.roundTripCount} {s.lastSentPacket} {s.currentRoundTripEnd} {s.numLossEventsInRound} {s.bytesLostInRound} {s.minRtt} {s.minRttTimestamp} {s.cwnd} {s.initCwnd} {s.maxCwnd} {s.minCwnd} {s.pacingRate} {gainSym s.pacingGain} {s.cycleOffset} {s.lastCycleStart}" ++
  s!" | {showBool s.isAtFullBandwidth} {s.roundsWithoutGain} {s.bandwidthAtLastRound} {showBool s.exitingQuiescence} {s.exitProbeRttAt} {showBool s.probeRttRoundPassed} {showBool s.lastSampleIsAppLimited} {showBool s.hasNoAppLimitedSample} {recNum s.rcv} {s.endRecoveryAt} {s.recWnd} {showBool s.detectOvershooting} {s.bytesLostOvershoot} {s.cwndForMinPacing} {s.maxCwndAdjusted} {s.mds} {s.bytesInFlight}" ++
  s!" | {getCwnd s} {bandwidthForPacer bps} {showBool (canSend s 0)}"

def parsePkts (s : String) : Option (List (Int × Nat)) :=
  if s = "-" then some []
  else (s.splitOn ",").mapM fun f =>
    match f.splitOn ":" with
    | [a, b] => do let pn ← a.toInt?; let sz ← b.toNat?; pure (pn, sz)
    | _ => none

/-- sampler part of the state line, same order as `samplerState()` in zz_verif_c12_bbr.go:
    totalBytesSent totalBytesAcked totalBytesLost totalBytesSentAtLastAckedPacket lastAckedPacketSentTime
    lastAckedPacketAckTime lastSentPacket lastAckedPacket isAppLimited endOfAppLimitedPhase slotsUsed firstPacket
    presentEntries a0Len recent0(time,bytes) recent1(time,bytes) | epochStart epochBytes lastSentBeforeEpoch numEpochs
    3 x (extraAcked bytesAcked timeDelta round time) totalBytesAckedAfterLastAckEvent | 3 x (maxBw sample, time) -/
def showSampler (st : Full) : String :=
  let m := st.smp
  let t := m.tracker
  let est (e : ExtraAckedEvent × Nat) : String :=
    s!" {e.1.extraAcked} {e.1.bytesAcked} {e.1.timeDelta} {e.1.round} {e.2}"
  let bw (e : Nat × Nat) : String := s!" {e.1} {e.2}"
  s!"{m.totalBytesSent} {m.totalBytesAcked} {m.totalBytesLost} {m.totalBytesSentAtLastAckedPacket} {m.lastAckedPacketSentTime} {m.lastAckedPacketAckTime} {m.lastSentPacket} {m.lastAckedPacket} {showBool m.isAppLimited} {m.endOfAppLimitedPhase} {m.map.slotsUsed} {m.map.first} {m.map.present} {m.a0.len} {m.recent0.ackTime} {m.recent0.totalBytesAcked} {m.recent1.ackTime} {m.recent1.totalBytesAcked}" ++
  s!" | {t.epochStart} {t.epochBytes} {t.lastSentBeforeEpoch} {t.numEpochs}" ++ est t.filter.e0 ++ est t.filter.e1 ++ est t.filter.e2 ++
  s!" {m.totalBytesAckedAfterLastAckEvent} |" ++ bw st.maxBw.e0 ++ bw st.maxBw.e1 ++ bw st.maxBw.e2

def showFull (st : Full) (bps : Int) : String := showState st.core bps ++ " | " ++ showSampler st

/-- the sample returned by the sampler: sampleMaxBandwidth sampleIsAppLimited sampleRtt sampleMaxInflight extraAcked
    lastPacketSendState(isValid isAppLimited totalBytesSent totalBytesAcked totalBytesLost bytesInFlight) -/
def showSample (e : EventSample) : String :=
  let s := e.lastPacketSendState
  s!"{e.sampleMaxBandwidth} {showBool e.sampleIsAppLimited} {e.sampleRtt} {e.sampleMaxInflight} {e.extraAcked} {showBool s.isValid} {showBool s.isAppLimited} {s.totalBytesSent} {s.totalBytesAcked} {s.totalBytesLost} {s.bytesInFlight}"

/-- the recorded float-scaled values, positional: appLimitedPre rttMin tgtPacing tgt1 tgtCwnd growthTarget
    lossThresh targetRate rnd bps -/
def parseRec : List String → Option (Recorded × Int)
  | [al, rtt, tp, t1, tc, gt, lt, tr, rnd, bps] => do
    let r : Recorded :=
      { appLimPre := ← parseBool al, rttMin := ← rtt.toNat?, tgtPacing := ← tp.toNat?, tgt1 := ← t1.toNat?,
        tgtCwnd := ← tc.toNat?, growthTarget := ← gt.toNat?, lossThresh := ← lt.toNat?, targetRate := ← tr.toNat?,
        rnd := ← rnd.toNat? }
    pure (r, ← bps.toInt?)
  | _ => none

def fullOf (p : String) (mds : Nat) : Option Full :=
  if p = "std" then some (Full.new stdCfg (Gen.bbr_standard_overestimateAvoidance == 1) (Gen.bbr_standard_reduceExtraAcked == 1) mds)
  else if p = "con" then some (Full.new conCfg (Gen.bbr_conservative_overestimateAvoidance == 1) (Gen.bbr_conservative_reduceExtraAcked == 1) mds)
  else if p = "agg" then some (Full.new aggCfg (Gen.bbr_aggressive_overestimateAvoidance == 1) (Gen.bbr_aggressive_reduceExtraAcked == 1) mds)
  else none

abbrev St := Option Full

def init : St := none

def step (st : St) (line : String) : St × String :=
  let fs := fields line
  match fs with
  | "note" :: _ => (st, "note")
  | "stall" :: _ => (st, "note")
  | ["new", p, mds, bps] =>
    match mds.toNat?, bps.toInt? with
    | some mds, some bps =>
      match fullOf p mds with
      | some s => (some s, s!"ok {showFull s bps}")
      | none => (st, "bad-op")
    | _, _ => (st, "bad-op")
  | ["sent", t, infl, pn, sz, r, bps] =>
    match st, t.toInt?, infl.toInt?, pn.toInt?, sz.toInt?, parseBool r, bps.toInt? with
    | some s, some t, some infl, some pn, some sz, some r, some bps =>
      match s.sent t infl pn sz r with
      | .ok s' => (some s', s!"ok {showFull s' bps}")
      | .panic => (st, "panic")
      | .reject => (st, "reject")
    | _, _, _, _, _, _, _ => (st, "bad-op")
  | ["mds", n, bps] =>
    match st, n.toNat?, bps.toInt? with
    | some s, some n, some bps =>
      match s.setDatagramSize n with
      | .ok s' => (some s', s!"ok {showFull s' bps}")
      | .panic => (st, "panic")
      | .reject => (st, "reject")
    | _, _, _ => (st, "bad-op")
  | "ev" :: prior :: now :: a :: l :: rest =>
    match st, prior.toNat?, now.toNat?, parsePkts a, parsePkts l, parseRec rest with
    | some s, some prior, some now, some a, some l, some (r, bps) =>
      match s.event prior now a l r with
      | .ok o => (some o.st, s!"ok {showFull o.st bps} | {showSample o.es} {o.lu}")
      | .panic => (st, "panic")
      | .reject => (st, "reject")
    | _, _, _, _, _, _ => (st, "bad-op")
  | _ => (st, "bad-op")

def parseEnv : List String → Option (Env × Int)
  | [sv, sa, si, srtt, ba, bl, ta, xa, mah, bw, rtt, tp, t1, tc, gt, lt, tr, rnd, bps] => do
    let sampleRtt ← if srtt = "inf" then some none else srtt.toNat?.map some
    let env : Env :=
      { sampleValid := ← parseBool sv, sampleAppLimited := ← parseBool sa, sendStateInflight := ← si.toNat?,
        sampleRtt := sampleRtt, bytesAcked := ← ba.toNat?, bytesLost := ← bl.toNat?, totalAcked := ← ta.toNat?,
        excessAcked := ← xa.toNat?, maxAckHeight := ← mah.toNat?, bw := ← bw.toNat?, rttMin := ← rtt.toNat?,
        tgtPacing := ← tp.toNat?, tgt1 := ← t1.toNat?, tgtCwnd := ← tc.toNat?, growthTarget := ← gt.toNat?,
        lossThresh := ← lt.toNat?, targetRate := ← tr.toNat?, rnd := ← rnd.toNat? }
    pure (env, ← bps.toInt?)
  | _ => none

abbrev CoreSt := Option S

def initCore : CoreSt := none

/-- `hydrv bbrcore`: control logic only, sampler outputs recorded (used for the long fat-path trace,
    where the list-backed queue model would be slow) -/
def stepCore (st : CoreSt) (line : String) : CoreSt × String :=
  let fs := fields line
  match fs with
  | "note" :: _ => (st, "note")
  | "stall" :: _ => (st, "note")
  | ["new", p, mds, bps] =>
    match cfgOf p, mds.toNat?, bps.toInt? with
    | some cfg, some mds, some bps =>
      let s := new cfg mds
      (some s, s!"ok {showState s bps}")
    | _, _, _ => (st, "bad-op")
  | ["sent", infl, pn, bps] =>
    match st, infl.toNat?, pn.toInt?, bps.toInt? with
    | some s, some infl, some pn, some bps =>
      let s' := onPacketSent s infl pn
      (some s', s!"ok {showState s' bps}")
    | _, _, _, _ => (st, "bad-op")
  | ["mds", n, bps] =>
    match st, n.toNat?, bps.toInt? with
    | some s, some n, some bps =>
      match setMds s n with
      | .ok s' => (some s', s!"ok {showState s' bps}")
      | .panic => (st, "panic")
      | .reject => (st, "reject")
    | _, _, _ => (st, "bad-op")
  | "ev" :: prior :: now :: a :: l :: rest =>
    match st, prior.toNat?, now.toNat?, parsePkts a, parsePkts l, parseEnv rest with
    | some s, some prior, some now, some a, some l, some (env, bps) =>
      match onCongestionEvent s { prior := prior, now := now, acked := a, lost := l, env := env } with
      | .ok (s', lu) => (some s', s!"ok {showState s' bps} {lu}")
      | .panic => (st, "panic")
      | .reject => (st, "reject")
    | _, _, _, _, _, _ => (st, "bad-op")
  | _ => (st, "bad-op")


end Hy.Drv.Bbr
