/- `hydrv bbr`: replays recorded steps of the real bbrSender on Hy.Model.BbrCore (C12b).
   Each op line carries the event AND the values the implementation's sampler / float
   arithmetic produced (key=value fields); the driver prints the model's post-state in the
   harness's canonical format. -/
import Hy.Model.BbrProfiles
import Hy.Drv.Util
namespace Hy.Drv.Bbr
open Hy Hy.Bbr Hy.Drv

def modeNum : Mode → Nat
  | .startup => 0 | .drain => 1 | .probeBw => 2 | .probeRtt => 3

def recNum : Rec → Nat
  | .none => 0 | .conservation => 1 | .growth => 2

def gainSym : Gain → String
  | .high => "H" | .drain => "D" | .val c => toString c

def showState (s : S) (bps : Int) : String :=
  s!"m={modeNum s.mode} rtc={s.roundTripCount} lsp={s.lastSentPacket} cre={s.currentRoundTripEnd} nle={s.numLossEventsInRound} blr={s.bytesLostInRound} mr={s.minRtt} mrt={s.minRttTimestamp} cw={s.cwnd} icw={s.initCwnd} mxw={s.maxCwnd} mnw={s.minCwnd} pr={s.pacingRate} pg={gainSym s.pacingGain} co={s.cycleOffset} lcs={s.lastCycleStart}" ++
  s!" full={showBool s.isAtFullBandwidth} rwg={s.roundsWithoutGain} balr={s.bandwidthAtLastRound} xq={showBool s.exitingQuiescence} xpr={s.exitProbeRttAt} prp={showBool s.probeRttRoundPassed} lsal={showBool s.lastSampleIsAppLimited} hnal={showBool s.hasNoAppLimitedSample} rs={recNum s.rcv} era={s.endRecoveryAt} rw={s.recWnd} dov={showBool s.detectOvershooting} blo={s.bytesLostOvershoot} cmp={s.cwndForMinPacing} mxa={s.maxCwndAdjusted} mds={s.mds} bif={s.bytesInFlight}" ++
  s!" | gcw={getCwnd s} bwp={bandwidthForPacer bps} cs0={showBool (canSend s 0)}"

def parsePkts (s : String) : Option (List (Int × Nat)) :=
  if s = "-" then some []
  else (s.splitOn ",").mapM fun f =>
    match f.splitOn ":" with
    | [a, b] => do let pn ← a.toInt?; let sz ← b.toNat?; pure (pn, sz)
    | _ => none

/-- value of `key=` among the fields -/
def kv (fs : List String) (key : String) : Option String :=
  fs.findSome? fun f => if f.startsWith (key ++ "=") then some (f.drop (key.length + 1)).toString else none

def kvNat (fs : List String) (key : String) : Option Nat := (kv fs key).bind String.toNat?
def kvInt (fs : List String) (key : String) : Option Int := (kv fs key).bind String.toInt?
def kvBool (fs : List String) (key : String) : Option Bool := (kv fs key).bind parseBool

def parseEnv (fs : List String) : Option Env := do
  let srtt ← kv fs "srtt"
  let sampleRtt ← if srtt = "inf" then some none else srtt.toNat?.map some
  pure { sampleValid := ← kvBool fs "sv", sampleAppLimited := ← kvBool fs "sa", sendStateInflight := ← kvNat fs "si",
         sampleRtt := sampleRtt, bytesAcked := ← kvNat fs "ba", bytesLost := ← kvNat fs "bl", totalAcked := ← kvNat fs "ta",
         excessAcked := ← kvNat fs "xa", maxAckHeight := ← kvNat fs "mah", bw := ← kvNat fs "bw", rttMin := ← kvNat fs "rtt",
         tgtPacing := ← kvNat fs "tp", tgt1 := ← kvNat fs "t1", tgtCwnd := ← kvNat fs "tc", growthTarget := ← kvNat fs "gt",
         lossThresh := ← kvNat fs "lt", targetRate := ← kvNat fs "tr", rnd := ← kvNat fs "rnd" }

abbrev St := Option S

def init : St := none

def step (st : St) (line : String) : St × String :=
  let fs := fields line
  match fs with
  | "note" :: _ => (st, "note")
  | "stall" :: _ => (st, "note")
  | "new" :: p :: mds :: rest =>
    match cfgOf p, mds.toNat?, kvInt rest "bps" with
    | some cfg, some mds, some bps =>
      let s := new cfg mds
      (some s, s!"ok {showState s bps}")
    | _, _, _ => (st, "bad-op")
  | "sent" :: infl :: pn :: rest =>
    match st, infl.toNat?, pn.toInt?, kvInt rest "bps" with
    | some s, some infl, some pn, some bps =>
      let s' := onPacketSent s infl pn
      (some s', s!"ok {showState s' bps}")
    | _, _, _, _ => (st, "bad-op")
  | "mds" :: n :: rest =>
    match st, n.toNat?, kvInt rest "bps" with
    | some s, some n, some bps =>
      match setMds s n with
      | .ok s' => (some s', s!"ok {showState s' bps}")
      | .panic => (st, "panic")
      | .reject => (st, "reject")
    | _, _, _ => (st, "bad-op")
  | "ev" :: prior :: now :: a :: l :: rest =>
    match st, prior.toNat?, now.toNat?, parsePkts a, parsePkts l, parseEnv rest, kvInt rest "bps" with
    | some s, some prior, some now, some a, some l, some env, some bps =>
      match onCongestionEvent s { prior := prior, now := now, acked := a, lost := l, env := env } with
      | .ok (s', lu) => (some s', s!"ok {showState s' bps} lu={lu}")
      | .panic => (st, "panic")
      | .reject => (st, "reject")
    | _, _, _, _, _, _, _ => (st, "bad-op")
  | _ => (st, "bad-op")

end Hy.Drv.Bbr
