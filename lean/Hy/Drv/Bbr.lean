/- `hydrv bbr`: replays recorded steps of the real bbrSender on Hy.Model.BbrCore (C12b).
   Each op line carries the event AND the values the implementation's sampler / float
   arithmetic produced (key=value fields); the driver prints the model's post-state in the
   harness's canonical format. -/
import Hy.Model.BbrProfiles
import Hy.Drv.Util
namespace Hy.Drv.Bbr
open Hy Hy.Bbr Hy.Drv

def modeNum : Mode → Nat
  | .startup => 0 | .drain => 1 | .probeBw => 2 | .probeRtt => 3

def recNum : Rec → Nat
  | .none => 0 | .conservation => 1 | .growth => 2

def gainSym : Gain → String
  | .high => "H" | .drain => "D" | .val c => toString c

/-- positional, same order as the harness (`state()` in zz_verif_c12_bbr.go):
    mode rtc lastSent roundEnd lossEvents bytesLostRound minRtt minRttTs cwnd initCwnd maxCwnd minCwnd pacingRate
    pacingGain cycleOffset lastCycleStart | full roundsWoGain bwAtLastRound exitingQuiescence exitProbeRttAt
    probeRttRoundPassed lastSampleAppLimited hasNonAppLimitedSample recoveryState endRecoveryAt recoveryWindow
    detectOvershooting bytesLostOvershoot cwndForMinPacing maxCwndAdjusted mds bytesInFlight |
    GetCongestionWindow bandwidthForPacer CanSend(0) -/
def showState (s : S) (bps : Int) : String :=
  s!"{modeNum s.mode} {s.roundTripCount} {s.lastSentPacket} {s.currentRoundTripEnd} {s.numLossEventsInRound} {s.bytesLostInRound} {s.minRtt} {s.minRttTimestamp} {s.cwnd} {s.initCwnd} {s.maxCwnd} {s.minCwnd} {s.pacingRate} {gainSym s.pacingGain} {s.cycleOffset} {s.lastCycleStart}" ++
  s!" | {showBool s.isAtFullBandwidth} {s.roundsWithoutGain} {s.bandwidthAtLastRound} {showBool s.exitingQuiescence} {s.exitProbeRttAt} {showBool s.probeRttRoundPassed} {showBool s.lastSampleIsAppLimited} {showBool s.hasNoAppLimitedSample} {recNum s.rcv} {s.endRecoveryAt} {s.recWnd} {showBool s.detectOvershooting} {s.bytesLostOvershoot} {s.cwndForMinPacing} {s.maxCwndAdjusted} {s.mds} {s.bytesInFlight}" ++
  s!" | {getCwnd s} {bandwidthForPacer bps} {showBool (canSend s 0)}"

def parsePkts (s : String) : Option (List (Int × Nat)) :=
  if s = "-" then some []
  else (s.splitOn ",").mapM fun f =>
    match f.splitOn ":" with
    | [a, b] => do let pn ← a.toInt?; let sz ← b.toNat?; pure (pn, sz)
    | _ => none

/-- the recorded environment, positional: sampleValid sampleAppLimited sendStateInflight sampleRtt bytesAcked
    bytesLost totalAcked excessAcked maxAckHeight bw rttMin tgtPacing tgt1 tgtCwnd growthTarget lossThresh
    targetRate rnd bps -/
def parseEnv : List String → Option (Env × Int)
  | [sv, sa, si, srtt, ba, bl, ta, xa, mah, bw, rtt, tp, t1, tc, gt, lt, tr, rnd, bps] => do
    let sampleRtt ← if srtt = "inf" then some none else srtt.toNat?.map some
    let env : Env :=
      { sampleValid := ← parseBool sv, sampleAppLimited := ← parseBool sa, sendStateInflight := ← si.toNat?,
        sampleRtt := sampleRtt, bytesAcked := ← ba.toNat?, bytesLost := ← bl.toNat?, totalAcked := ← ta.toNat?,
        excessAcked := ← xa.toNat?, maxAckHeight := ← mah.toNat?, bw := ← bw.toNat?, rttMin := ← rtt.toNat?,
        tgtPacing := ← tp.toNat?, tgt1 := ← t1.toNat?, tgtCwnd := ← tc.toNat?, growthTarget := ← gt.toNat?,
        lossThresh := ← lt.toNat?, targetRate := ← tr.toNat?, rnd := ← rnd.toNat? }
    pure (env, ← bps.toInt?)
  | _ => none

abbrev St := Option S

def init : St := none

def step (st : St) (line : String) : St × String :=
  let fs := fields line
  match fs with
  | "note" :: _ => (st, "note")
  | "stall" :: _ => (st, "note")
  | ["new", p, mds, bps] =>
    match cfgOf p, mds.toNat?, bps.toInt? with
    | some cfg, some mds, some bps =>
      let s := new cfg mds
      (some s, s!"ok {showState s bps}")
    | _, _, _ => (st, "bad-op")
  | ["sent", infl, pn, bps] =>
    match st, infl.toNat?, pn.toInt?, bps.toInt? with
    | some s, some infl, some pn, some bps =>
      let s' := onPacketSent s infl pn
      (some s', s!"ok {showState s' bps}")
    | _, _, _, _ => (st, "bad-op")
  | ["mds", n, bps] =>
    match st, n.toNat?, bps.toInt? with
    | some s, some n, some bps =>
      match setMds s n with
      | .ok s' => (some s', s!"ok {showState s' bps}")
      | .panic => (st, "panic")
      | .reject => (st, "reject")
    | _, _, _ => (st, "bad-op")
  | "ev" :: prior :: now :: a :: l :: rest =>
    match st, prior.toNat?, now.toNat?, parsePkts a, parsePkts l, parseEnv rest with
    | some s, some prior, some now, some a, some l, some (env, bps) =>
      match onCongestionEvent s { prior := prior, now := now, acked := a, lost := l, env := env } with
      | .ok (s', lu) => (some s', s!"ok {showState s' bps} {lu}")
      | .panic => (st, "panic")
      | .reject => (st, "reject")
    | _, _, _, _, _, _ => (st, "bad-op")
  | _ => (st, "bad-op")

end Hy.Drv.Bbr
