/- `hydrv cudp`: line-protocol driver for Hy.Model.ClientUdp (C03, replies arriving at a client). -/
import Hy.Model.ClientUdp
import Hy.Drv.Util
namespace Hy.Drv.ClientUdp
open Hy Hy.ClientUdp Hy.Drv

def showOut : Out → String
  | .newId id => s!"new {id}" | .mgrClosed => "closed"
  | .unknown => "unknown" | .deliver => "deliver" | .drop => "drop"
  | .msg => "msg" | .empty => "empty" | .eof => "eof" | .noSuch => "nosuch"
  | .ok => "ok" | .panic => "panic"

def initSt : St := init 0

def stepLine (s : St) (line : String) : St × String :=
  let go (o : Op) := let (s', out) := step s o; (s', showOut out)
  match fields line with
  | ["reset", n] => match n.toNat? with
    | some k => (init k, "ok")
    | none => (s, "bad-op")
  | ["new"] => go .new
  | ["feed", n] => match n.toNat? with | some k => go (.feed k) | none => (s, "bad-op")
  | ["recv", n] => match n.toNat? with | some k => go (.recv k) | none => (s, "bad-op")
  | ["close", n] => match n.toNat? with | some k => go (.close k) | none => (s, "bad-op")
  | ["closeall"] => go .closeAll
  | ["race", n] => match n.toNat? with | some k => go (.race k) | none => (s, "bad-op")
  | _ => (s, "bad-op")

end Hy.Drv.ClientUdp
