/- `hydrv relay`: line-protocol driver for Hy.Model.Relay (C06). -/
import Hy.Model.Relay
import Hy.Drv.Util
namespace Hy.Drv.Relay
open Hy Hy.Relay Hy.Drv

/-- test pattern: byte i of a run starting at `start` is `(start + i) mod 251` -/
def pat (start len : Nat) : Bytes := (List.range len).map (fun i => byte ((start + i) % 251))

def fnv32 (bs : Bytes) : Nat :=
  bs.foldl (fun h b => ((h ^^^ b.val) * 16777619) % 4294967296) 2166136261

def digest (bs : Bytes) : String := s!"{bs.length}:{fnv32 bs}"

/-- "start:len" -/
def parseSpec (s : String) : Option Bytes :=
  if s.startsWith "x" then ofHex (s.drop 1).toString else
  match s.splitOn ":" with
  | [a, b] => do
    let a ← a.toNat?
    let b ← b.toNat?
    pure (pat a b)
  | _ => none

/-- "." or "start:len;start:len;…" -/
def parseRuns (s : String) : Option Bytes :=
  if s = "." then some [] else do
    let rs ← (s.splitOn ";").mapM parseSpec
    pure rs.flatten

def parseErr (s : String) : Option (Option Bool) :=
  if s = "n" then some none else if s = "E" then some (some true) else if s = "X" then some (some false) else none

/-- "start:len/e" -/
def parseRd (s : String) : Option Rd :=
  match s.splitOn "/" with
  | [d, e] => do
    let d ← parseSpec d
    let e ← parseErr e
    pure ⟨d, e⟩
  | _ => none

def parseSrc (s : String) : Option (List Rd) :=
  if s = "." then some [] else (s.splitOn ",").mapM parseRd

def parseVerd (s : String) : Option (List Bool) :=
  if s = "." then some [] else s.toList.mapM (fun c => if c = '1' then some true else if c = '0' then some false else none)

/-- "ok" or "k<N>" -/
def parseW (s : String) : Option (Option Nat) :=
  if s = "ok" then some none
  else if s.startsWith "k" then (s.drop 1).toNat?.map some
  else none

def parseWres (s : String) : Option (List (Option Nat)) :=
  if s = "." then some [] else (s.splitOn ",").mapM parseW

def showErr : Option Bool → String
  | none => "n"
  | some true => "E"
  | some false => "X"

def showOut : Option Out → String
  | none => "running"
  | some .done => "nil"
  | some .disconnect => "disconnect"
  | some .writeErr => "werr"
  | some .readErr => "rerr"

def showEv : Ev → String
  | .read n e => s!"r{n}{showErr e}"
  | .log n v => s!"l{n}{if v then "+" else "-"}"
  | .write n a => s!"w{n}/{a}"

def showTrace (tr : List Ev) : String :=
  if tr.isEmpty then "." else ",".intercalate (tr.reverse.map showEv)

def showG (g : G) : String :=
  s!"res={showOut g.out} written={digest g.written.flatten} logged={g.logged} offered={g.offered} inflight={g.inflight} trace={showTrace g.trace}"

def parseSched (s : String) : Option (List Label) :=
  if s = "." then some [] else
  s.toList.mapM (fun c => if c = 'u' then some Label.up else if c = 'd' then some Label.down
    else if c = 'm' then some Label.main else none)

/-- logs oldest first on the line: "n+" / "n-"; the model keeps them newest first -/
def parseLogs (s : String) : Option (List (Nat × Bool)) :=
  if s = "." then some [] else do
    let l ← (s.splitOn ",").mapM (fun t =>
      if t.endsWith "+" then (t.dropEnd 1).toNat?.map (fun n => (n, true))
      else if t.endsWith "-" then (t.dropEnd 1).toNat?.map (fun n => (n, false))
      else none)
    pure l.reverse

/-- mode: "p" = no traffic logger, only the byte stream can be observed; "0"/"1"/"2" = mode
    of `Obs.check`; a trailing "c" = the scenario is one of `complete_if_no_early_close`
    (everything sent must have arrived) -/
def checkDir (name : String) (mode : String) (sent got logs : String) : Option String :=
  let complete := mode.endsWith "c"
  let base := if complete then (mode.dropEnd 1).toString else mode
  match parseSpec sent, parseRuns got with
  | some sent, some got =>
    let fin := if complete && got.length ≠ sent.length then s!"{name}:incomplete" else ""
    if base = "p" then
      some (if got.isPrefixOf sent then fin else s!"{name}:prefix")
    else
      match base.toNat?, parseLogs logs with
      | some m, some logs =>
        match Obs.check Gen.copyBufSize m { sent := sent, got := got, logs := logs } with
        | none => some fin
        | some c => some s!"{name}:{c}"
      | _, _ => none
  | _, _ => none

def step (line : String) : String :=
  match fields line with
  | ["copy", src, verd, wres] =>
    match parseSrc src, parseVerd verd, parseWres wres with
    | some src, some verd, some wres =>
      showG (copyLoop (deliver Gen.copyBufSize src) verd wres)
    | _, _, _ => "bad-op"
  | [tw, sched, us, uv, uw, ds, dv, dw] =>
    -- twoway: copyTwoWayEx with the logger as it is (a refusal only shows in the result);
    -- twowayw: with the logger wrapped as in the repaired handleTCPRequest
    match (if tw = "twoway" then some Variant.pinned else if tw = "twowayw" then some Variant.fixed else none),
      parseSched sched, parseSrc us, parseVerd uv, parseWres uw, parseSrc ds, parseVerd dv, parseWres dw with
    | some v, some sched, some us, some uv, some uw, some ds, some dv, some dw =>
      let s := run v (St.init (G.init (deliver Gen.copyBufSize us) uv uw)
        (G.init (deliver Gen.copyBufSize ds) dv dw)) sched
      s!"ret={showOut s.ret} tclosed={showBool s.targetClosed} sclosed={showBool s.streamClosed} up[{showG s.up}] down[{showG s.down}]"
    | _, _, _, _, _, _, _, _ => "bad-op"
  | ["dial", fo, hook, k, msg] =>
    -- Outbound.TCP failed with text `msg`; hook: 0 = none configured, 1 = configured and
    -- declining, 2 = intercepting; k Reads time out before the response arrives (fast open).
    -- Any padding / chunking gives the same decision.
    match parseBool fo, hook.toNat?, k.toNat?, parseSpec msg with
    | some fo, some hook, some k, some msg =>
      let h := if hook = 0 then Hook.absent else if hook = 1 then Hook.declines else Hook.intercepts
      let r := serverResponses .fixed h (some msg) [] []
      let cs := r.1
      let relay := showBool r.2
      match clientTCP fo cs, connAfterTCP fo cs with
      | .dialError m, _ => s!"dialerr {digest m} relay={relay} at=tcp"
      | .closedError, _ => "closed at=tcp"
      | .conn, some c =>
        match (appReads c (List.replicate k RdEv.timeout ++ [RdEv.go])).getLast? with
        | some (.dialError m) => s!"dialerr {digest m} relay={relay} at=read"
        | some (.data _) => "data at=read"
        | some .eof => "eof at=read"
        | some (.error p) => s!"error proto={showBool p} at=read"
        | _ => "bad-op"
      | .conn, none => "bad-op"
    | _, _, _, _ => "bad-op"
  | ["dialok", payload] =>
    match parseSpec payload with
    | some payload =>
      match clientOpen [(serverRespond .fixed none []).1 ++ payload] with
      | .established rest => s!"established {digest rest.flatten} relay=1"
      | .dialError m => s!"dialerr {digest m}"
      | .failed p => s!"failed proto={showBool p}"
    | none => "bad-op"
  | ["trace", closed, um, usent, ugot, ulogs, dm, dsent, dgot, dlogs] =>
    match parseBool closed, checkDir "up" um usent ugot ulogs, checkDir "down" dm dsent dgot dlogs with
    | some closed, some a, some b =>
      let vetoed := (ulogs.contains '-') || (dlogs.contains '-')
      if a ≠ "" then s!"invalid {a}"
      else if b ≠ "" then s!"invalid {b}"
      else if vetoed && !closed then "invalid noclose"
      else "valid"
    | _, _, _ => "bad-op"
  | _ => "bad-op"

end Hy.Drv.Relay
