/- `hydrv ring` / `hydrv pnq`: line-protocol drivers for Hy.Model.Ring and Hy.Model.Pnq (C12a).
   Stateful: `reset N` starts a fresh container with initial capacity N. -/
import Hy.Model.Pnq
import Hy.Drv.Util
namespace Hy.Drv.Ring
open Hy Hy.Ring Hy.Pnq Hy.Drv

def showList {α} (f : α → String) (l : List α) : String :=
  if l.isEmpty then "-" else ",".intercalate (l.map f)

def showRB {α} (f : α → String) (r : RB α) : String :=
  s!"h={r.head} t={r.tail} f={showBool r.full} ring={showList f r.ring}"

def showOut : Out Nat → String
  | .unit => "ok"
  | .val a => s!"v {a}"
  | .num n => s!"n {n}"
  | .flag b => s!"b {showBool b}"

def parseROp : List String → Option (ROp Nat)
  | ["push", x] => x.toNat?.map .push
  | ["pop"] => some .pop
  | ["off", i] => i.toInt?.map .offset
  | ["front"] => some .front
  | ["back"] => some .back
  | ["clear"] => some .clear
  | ["len"] => some .len
  | ["empty"] => some .empty
  | ["grow"] => some .grow
  | _ => none

def ringInit : RB Nat := init 0

def ringStep (r : RB Nat) (line : String) : RB Nat × String :=
  match fields line with
  | ["reset", n] =>
    match n.toNat? with
    | some n => let r' : RB Nat := init n; (r', s!"ok {showRB toString r'}")
    | none => (r, "bad-op")
  | fs =>
    match parseROp fs with
    | none => (r, "bad-op")
    | some op =>
      match implStep r op with
      | .ok (r', o) => (r', s!"{showOut o} {showRB toString r'}")
      | .panic => (r, s!"panic {showRB toString r}")
      | .reject => (r, s!"reject {showRB toString r}")

/-! ### pnq -/

def showEntry (e : Entry Nat) : String := s!"{showBool e.present}:{e.val}"

def showPNQ (q : PNQ Nat) : String :=
  s!"n={q.present} first={q.first} last={q.lastPacket} slots={q.slotsUsed} {showRB showEntry q.entries}"

def showRet : Ret Nat → String
  | .flag b => if b then "true" else "false"
  | .entry none => "nil"
  | .entry (some v) => s!"v {v}"
  | .unit => "ok"

def parseOp : List String → Option (Op Nat)
  | ["emp", pn, v] =>
    match pn.toInt? with
    | none => none
    | some pn => if v = "nil" then some (.emplace pn none) else v.toNat?.map (fun v => .emplace pn (some v))
  | ["get", pn] => pn.toInt?.map .getEntry
  | ["rm", pn] => pn.toInt?.map .remove
  | ["upto", n] => n.toInt?.map .removeUpTo
  | _ => none

def pnqInit : PNQ Nat := new 0

def pnqStep (q : PNQ Nat) (line : String) : PNQ Nat × String :=
  match fields line with
  | ["reset", n] =>
    match n.toNat? with
    | some n => let q' : PNQ Nat := new n; (q', s!"ok {showPNQ q'}")
    | none => (q, "bad-op")
  | fs =>
    match parseOp fs with
    | none => (q, "bad-op")
    | some op =>
      match q.step op with
      | .ok (q', r) => (q', s!"{showRet r} {showPNQ q'}")
      | .panic => (q, s!"panic {showPNQ q}")
      | .reject => (q, s!"reject {showPNQ q}")

end Hy.Drv.Ring
