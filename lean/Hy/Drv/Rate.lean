/- `hydrv rate`: line-protocol driver for Hy.Model.Rate (C10). Core Lean only. -/
import Hy.Model.Rate
import Hy.Model.RateConfig
import Hy.Drv.Util
namespace Hy.Drv.Rate
open Hy Hy.Rate Hy.RateCfg Hy.Drv

def showErr : PErr → String
  | .none => "ok"
  | .syntax => "syntax"
  | .range => "range"

def showInst : Installed → String
  | .brutal r => s!"brutal:{r}"
  | .bbr => "bbr"
  | .builtin => "builtin"

/-- "bbr" / "reno" (the normalised `CongestionConfig.Type`) → is it reno -/
def parseCC (s : String) : Option Bool :=
  if s = "reno" then some true else if s = "bbr" then some false else none

def u64? (s : String) : Option Nat :=
  match s.toNat? with
  | some n => if n ≤ U64Max then some n else none
  | none => none

def showSide (reno : Bool) (o : Outcome) : String :=
  s!"{showInst (install reno o.ctl)} rep={o.reported}"

def showBps : BpsRes → String
  | .ok n => s!"ok {n}"
  | .errFormat => "err format"
  | .errRange => "err range"
  | .errUnit => "err unit"

def showCfg : CfgRes → String
  | .ok tx rx => s!"ok {tx} {rx}"
  | .errUp => "err bandwidth.up"
  | .errDown => "err bandwidth.down"
  | .errCoreTx => "err BandwidthConfig.MaxTx"
  | .errCoreRx => "err BandwidthConfig.MaxRx"

def step (line : String) : String :=
  match fields line with
  | ["pu", h] =>
    match ofHex h with
    | some s => let r := parseUintE s; s!"pu {r.1} {showErr r.2}"
    | none => "bad-op"
  | ["reqparse", vs] =>
    match parseChunks vs with
    | some vals => s!"req rx={authRequestFromHeader vals}"
    | none => "bad-op"
  | ["respparse", vs] =>
    match parseChunks vs with
    | some vals => let r := authResponseFromHeader vals; s!"resp rx={r.rx} auto={showBool r.rxAuto}"
    | none => "bad-op"
  | ["reqfmt", n] =>
    match u64? n with
    | some n => s!"reqhdr {toHexF (authRequestToHeader n)}"
    | none => "bad-op"
  | ["respfmt", a, n] =>
    match parseBool a, u64? n with
    | some a, some n => s!"resphdr {toHexF (authResponseToHeader { rx := n, rxAuto := a })}"
    | _, _ => "bad-op"
  | ["hs", cUp, cDown, sUp, sDown, ign, sCC, cCC] =>
    match u64? cUp, u64? cDown, u64? sUp, u64? sDown, parseBool ign, parseCC sCC, parseCC cCC with
    | some cUp, some cDown, some sUp, some sDown, some ign, some sReno, some cReno =>
      if !(serverLimitOK sUp && serverLimitOK sDown) then "scfg-reject" else
      let h := handshake cUp cDown sUp sDown ign
      s!"hs auth={h.authTx} srv={showSide sReno h.server} cli={showSide cReno h.client}"
    | _, _, _, _, _, _, _ => "bad-op"
  | ["rawcli", vs, sUp, sDown, ign, sCC] =>
    match parseChunks vs, u64? sUp, u64? sDown, parseBool ign, parseCC sCC with
    | some vals, some sUp, some sDown, some ign, some sReno =>
      if !(serverLimitOK sUp && serverLimitOK sDown) then "scfg-reject" else
      let rx := authRequestFromHeader vals
      let hdr := authResponseToHeader { rx := sDown, rxAuto := ign }
      s!"rawcli auth={rx} srv={showSide sReno (serverTx rx sUp ign)} resp={toHexF hdr}"
    | _, _, _, _, _ => "bad-op"
  | ["rawsrv", vs, cUp, cDown, cCC] =>
    match parseChunks vs, u64? cUp, u64? cDown, parseCC cCC with
    | some vals, some cUp, some cDown, some cReno =>
      let resp := authResponseFromHeader vals
      s!"rawsrv cli={showSide cReno (clientTx resp cUp)} req={toHexF (authRequestToHeader cDown)}"
    | _, _, _, _ => "bad-op"
  | ["scfg", up, down] =>
    match u64? up, u64? down with
    | some up, some down => if serverLimitOK up && serverLimitOK down then "scfg ok" else "scfg reject"
    | _, _ => "bad-op"
  | ["bps", h] =>
    match ofHex h with
    | some b => s!"bps {showBps (stringToBps b)}"
    | none => "bad-op"
  | ["convint", i] =>
    match i.toInt? with
    | some i =>
      if -9223372036854775808 ≤ i ∧ i ≤ 9223372036854775807 then s!"conv {showBps (convBandwidth (.int i))}" else "bad-op"
    | none => "bad-op"
  | ["ccfg", u, d] =>
    match ofHex u, ofHex d with
    | some u, some d => s!"ccfg {showCfg (clientConfig { up := u, down := d })}"
    | _, _ => "bad-op"
  | ["acfg", u, d] =>
    match ofHex u, ofHex d with
    | some u, some d => s!"acfg {showCfg (serverConfig { up := u, down := d })}"
    | _, _ => "bad-op"
  | ["noop"] => "noop"
  | _ => "bad-op"

end Hy.Drv.Rate
