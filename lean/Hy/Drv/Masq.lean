/-
  `hydrv masq`: line-protocol driver for Hy.Model.Masq (C02).  Stateful: a history runs from
  `reset` to `end`; the state is the server configuration, which connections are authenticated
  (according to the MODEL's own answers) and the datagram bookkeeping.

    reset <udp> <maxRx> <rxAuto>                                        -> ok
    req <c> <v> <method>/<host>/<path> <pad> <mstatus> <mhdrs> <mbody>  -> <status> <hdrs> <body> called=<b>
        (hex fields; v = would the authenticator accept the credentials; pad = the Hysteria-Padding
         value the server drew; m* = `masq r`: what the masquerade handler ALONE answers)
    h3err <c>                                                           -> h3err
    stream <c> <malformed>                                              -> silent | reply | closed-no-bytes
    dgram <c> <wellformed>                                              -> sent
    breq <c> <v>            (auth request, blocking authenticator)      -> pending | 233
    rel <c>                                                             -> 233 | other | none
    noop <text>                                                         -> <text>
    end                                                                 -> end c<i>:<UDPMessages received> ...
-/
import Hy.Model.Masq
import Hy.Drv.Util
namespace Hy.Drv.Masq
open Hy Hy.Masq Hy.Drv

structure CState where
  id : Nat
  authed : Bool := false
  dgrams : Nat := 0     -- well-formed UDPMessages sent by the client
  pend : Option Bool := none   -- a blocked authenticator call and the verdict it will return

structure S where
  cfg : Cfg := ⟨false, 0, false⟩
  conns : List CState := []
  live : Bool := false

def init : S := {}

def getC (s : S) (c : Nat) : CState := (s.conns.find? (·.id == c)).getD { id := c }

def setC (s : S) (k : CState) : S :=
  if s.conns.any (·.id == k.id) then { s with conns := s.conns.map (fun x => if x.id == k.id then k else x) }
  else { s with conns := s.conns ++ [k] }

def strOfBytes (bs : Bytes) : String := String.ofList (bs.map (fun b => Char.ofNat b.val))

def strOfHex (s : String) : Option String := (ofHex s).map strOfBytes

def hexOfStr (s : String) : String := toHexF (bytesOfString s)

/-- "name=value" lines -> pairs (split at the first '=') -/
def parseHeaders (s : String) : List (String × String) :=
  if s = "" then [] else
  (s.splitOn "\n").map (fun ln =>
    let cs := ln.toList
    let name := cs.takeWhile (· != '=')
    (String.ofList name, String.ofList (cs.drop (name.length + 1))))

/-- canonical form of a header list: lower-case names, "name=value", sorted, joined by newlines -/
def canonHeaders (hs : List (String × String)) : String :=
  let lines := hs.map (fun (n, v) => String.ofList (lowerChars n) ++ "=" ++ v)
  "\n".intercalate (lines.mergeSort (fun a b => decide (a ≤ b)))

def showResp (r : Resp) : String :=
  let h := canonHeaders r.headers
  s!"{r.status} {if h = "" then "-" else hexOfStr h} {if r.body = "" then "-" else r.body}"

/-- `breq`/`rel` answers are reported as `233` / `other` (the whole response is compared by `req`) -/
def out233 (_cfg : Cfg) : String := "233"

/-- the blocked authenticator of `c` returns: ServeHTTP finishes as `serve` says -/
def release (s : S) (c : Nat) : S × String :=
  let k := getC s c
  match k.pend with
  | none => (setC s k, "none")
  | some v =>
    let r : Req := ⟨Gen.MethodPost, Gen.URLHost, Gen.URLPath⟩
    let (resp, authed') := serve (fun _ => ⟨0, [], ""⟩) (fun _ => v) s.cfg "" k.authed r
    (setC s { k with authed := authed', pend := none }, if resp.status = Gen.StatusAuthOK then out233 s.cfg else "other")

def step (s : S) (line : String) : S × String :=
  match fields line with
  | ["reset", u, rx, a] =>
    match parseBool u, rx.toNat?, parseBool a with
    | some u, some rx, some a => ({ cfg := ⟨u, rx, a⟩, conns := [], live := true }, "ok")
    | _, _, _ => (s, "bad-op")
  | ["req", c, v, triple, pad, mst, mh, mb] =>
    match c.toNat?, parseBool v, (triple.splitOn "/").mapM strOfHex, strOfHex pad, mst.toNat?, strOfHex mh with
    | some c, some v, some [m, h, p], some pad, some mst, some mh =>
      if !s.live then (s, "bad-op") else
      let k := getC s c
      let r : Req := ⟨m, h, p⟩
      let masq : Req → Resp := fun _ => ⟨mst, parseHeaders mh, if mb = "-" then "" else mb⟩
      let (resp, authed') := serve masq (fun _ => v) s.cfg pad k.authed r
      (setC s { k with authed := authed' }, s!"{showResp resp} called={showBool (authCalled k.authed r)}")
    | _, _, _, _, _, _ => (s, "bad-op")
  | ["breq", c, v] =>
    match c.toNat?, parseBool v with
    | some c, some v =>
      let k := getC s c
      let r : Req := ⟨Gen.MethodPost, Gen.URLHost, Gen.URLPath⟩
      if k.pend.isSome then (s, "skipped")
      else if authCalled k.authed r then (setC s { k with pend := some v }, "pending")
      else (setC s k, out233 s.cfg)
    | _, _ => (s, "bad-op")
  | ["rel", c] =>
    match c.toNat? with
    | some c => release s c
    | none => (s, "bad-op")
  | ["noop", t] => (s, t)
  | ["h3err", c] =>
    match c.toNat? with
    | some c => (setC s (getC s c), "h3err")
    | none => (s, "bad-op")
  | ["stream", c, bad] =>
    match c.toNat?, parseBool bad with
    | some c, some bad =>
      let k := getC s c
      (setC s k, if !k.authed then "silent" else if bad then "closed-no-bytes" else "reply")
    | _, _ => (s, "bad-op")
  | ["dgram", c, ok] =>
    match c.toNat?, parseBool ok with
    | some c, some ok =>
      let k := getC s c
      (setC s { k with dgrams := k.dgrams + (if ok then 1 else 0) }, "sent")
    | _, _ => (s, "bad-op")
  | ["end"] =>
    if !s.live then (s, "bad-op") else
    let ids := (s.conns.map (·.id)).mergeSort (· ≤ ·)
    let s := ids.foldl (fun s c => (release s c).1) s    -- blocked authenticators are released at the end
    let parts := ids.map (fun c =>
      let k := getC s c
      s!" c{c}:{if k.authed && s.cfg.udp then k.dgrams else 0}")
    ({ s with live := false }, "end" ++ String.join parts)
  | _ => (s, "bad-op")

end Hy.Drv.Masq
