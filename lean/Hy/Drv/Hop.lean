/- `hydrv hop`: line-protocol driver for Hy.Model.Hop (C19).  State: the connection, if any. -/
import Hy.Model.Hop
import Hy.Model.PortUnion
import Hy.Drv.Util
import Hy.Drv.PortUnion
import Hy.Drv.HopAddr
namespace Hy.Drv.Hop
open Hy Hy.Hop Hy.Drv

def showOpt : Option Nat → String
  | some k => toString k
  | none => "-"

def showOut : Out → String
  | .idle => "idle"
  | .hopOk new c => s!"hop new={new} closed={showOpt c}"
  | .hopListenErr => "hop listenerr"
  | .hopClosed => "hop closed"
  | .wrote k d => s!"write sock={k} ip={toHexF d.1} port={d.2}"
  | .writeSockErr k => s!"write sockerr={k}"
  | .writeClosed => "write closed"
  | .queued => "queued"
  | .dropped => "dropped"
  | .readWaiting => "read waiting"
  | .readPkt d => s!"read pkt={toHexF d}"
  | .readTimeout => "read timeout"
  | .readErrClosed => "read closed"
  | .setOk => "set ok"
  | .setErr => "set err"
  | .addr k => s!"addr sock={k}"
  | .closeOk => "close ok"
  | .closeErr => "close err"
  | .closeAgain => "close again"
  | .panic => "panic"

def parseLabel : List String → Option Label
  | ["hop", ok, idx] => do pure (.hop (← parseBool ok) (← idx.toNat?))
  | ["write"] => some .write
  | ["recv", k, d] => do pure (.recv (← k.toNat?) (← ofHex d))
  | ["rtimeout", k] => do pure (.rtimeout (← k.toNat?))
  | ["readBegin"] => some .readBegin
  | ["readSelect", p, n] => do pure (.readSelect (← parseBool p) (← n.toNat?))
  | ["setdl", t] => do pure (.setDeadline (← t.toNat?))
  | ["setrdl", t] => do pure (.setReadDeadline (← t.toNat?))
  | ["setwdl", t] => do pure (.setWriteDeadline (← t.toNat?))
  | ["setrbuf", n] => do pure (.setReadBuffer (← n.toInt?))
  | ["setwbuf", n] => do pure (.setWriteBuffer (← n.toInt?))
  | ["addr"] => some .localAddr
  | ["close"] => some .close
  | _ => none

def showSock (k : Nat) (x : Sock) : String :=
  s!"{k}:{if x.closed then "c" else "o"}:{x.rbuf}:{x.wbuf}:{x.rdl}:{x.wdl}"

/-- the census as the environment sees it -/
def showSocks (s : St) : String :=
  let l := (List.range s.mark).map fun k => showSock k (s.sock k)
  s!"socks {" ".intercalate l} q={s.queue.length}"

def runLabels (s : St) : List String → Option (St × List String)
  | [] => some (s, [])
  | part :: rest =>
    match fields part with
    | ["socks"] =>
      match runLabels s rest with
      | some (s', outs) => some (s', showSocks s :: outs)
      | none => none
    | ["idle"] =>
      match runLabels s rest with
      | some (s', outs) => some (s', "idle" :: outs)
      | none => none
    | fs =>
      match parseLabel fs with
      | none => none
      | some l =>
        let (s1, o) := step s l
        match runLabels s1 rest with
        | some (s', outs) => some (s', showOut o :: outs)
        | none => none

def init : Option St := none

def step (σ : Option St) (line : String) : Option St × String :=
  match fields line with
  | ["reset", addr, ipres, mn, mx, ok, idx] =>
    match ofHex addr, HopAddr.parseIpRes ipres, mn.toInt?, mx.toInt?, parseBool ok, idx.toNat? with
    | some bs, some r, some mn, some mx, some ok, some idx =>
      match Hy.HopAddr.resolveUDPHopAddr (fun _ => r) (PortUnion.charsOfBytes bs) with
      | .error e => (none, "new " ++ HopAddr.showErr e)
      | .ok a =>
        match newConn (Hy.HopAddr.addrs a) ⟨mn, mx⟩ ok idx with
        | .ok s => (some s, s!"new ok n={a.ports.length} ip={toHexF a.ip}")
        | .reject => (none, "new err")
        | .panic => (none, "new panic")
    | _, _, _, _, _, _ => (σ, "bad-op")
  | ["end"] => (none, "end")
  | ["interval", mn, mx] =>
    match mn.toInt?, mx.toInt? with
    | some mn, some mx =>
      match normalized ⟨mn, mx⟩ with
      | some c => (σ, s!"interval ok {c.min} {c.max}")
      | none => (σ, "interval err")
    | _, _ => (σ, "bad-op")
  | ["jitter", mn, mx, r] =>
    match mn.toInt?, mx.toInt?, r.toInt? with
    | some mn, some mx, some r => (σ, s!"jitter {nextHopInterval ⟨mn, mx⟩ r}")
    | _, _, _ => (σ, "bad-op")
  | _ =>
    match σ with
    | none => (σ, "noconn")
    | some s =>
      match runLabels s (line.splitOn ";") with
      | some (s', outs) => (some s', " ; ".intercalate outs)
      | none => (σ, "bad-op")

end Hy.Drv.Hop
