/- `hydrv udpsession`: line-protocol driver for Hy.Model.UdpSession (C07, and C08's policy part).

   Each harness operation is ONE stimulus applied to the real session manager followed by a wait for
   quiescence; here it is expanded into the model's atomic steps (a fixed macro per kind of stimulus),
   then the steps that need no further stimulus are run to completion (`settle`).  Choices the
   implementation made (map iteration order of a sweep / of the shutdown scan, the evicted cache key)
   arrive on the op line.  Times are milliseconds since the manager started.

   reset <timeout_ms> <deny>
   msg <sid> <pid> <fid> <fcnt> <addr> <data> <hook> <dialerr> <wok> <victim>
   slowdial <msg fields> <hook> <dialerr> <wok> <victim> <g1/g2/...>   datagram whose dial completes only at the
                                                      first sweep that finds the entry idle (census only)
   slowclose <msg fields> <hook> <dialerr> <wok> <g1/g2/...>   datagram fed while the sweeper is between the two
                                                      halves of CloseWithErr on that id's expired entry (census only)
   expirenew <target> <msg fields> <hook> <dialerr> <wok> <g1/g2/...>   as slowclose, the datagram has another id than the
                                                      expiring session <target> (census only)
   hold <sid> <pid> <fid> <fcnt> <addr> <data>        receive-loop lookup only (pointer kept)
   release <hook> <dialerr> <wok> <victim>            entry.Feed on the held pointer
   reply <k> <raddr> <data> <ok|err|block|big>        packet arrives on socket k; result of SendMessage
                                                      (big = refused as too large, re-sent as fragments: one logical send)
   unblock <k> <ok|err>                               a blocked SendMessage returns
   readerr <k>                                        ReadFrom on socket k fails
   sleep <ms> <g1/g2/...>                             per tick in the interval: session ids in the order closed ("." none)
   slowlost                                           connection loss with slow Close() calls across the next sweep (census only)
   connlost <order>                                   ReceiveMessage fails; ids in the order cleanup closed them
   Output: events (without CheckUDP calls) | tbl=<sid@last,…> open=<k,…> loops=<n> rl=<pc> sw=<pc>                                -/
import Hy.Gen.Core
import Hy.Model.UdpSession
import Hy.Drv.Util
import Hy.Drv.UdpAcl
namespace Hy.Drv.UdpSession
open Hy Hy.UdpSession Hy.Drv
open Hy.UdpAcl (Addr DialRes)
open Hy.Drv.UdpAcl (addrIn addrOut pol dialRes)

structure DS where
  deny    : List Addr := []
  timeout : Nat := 0
  now     : Nat := 0
  s       : St := {}

def init : DS := {}

def intervalMs : Nat := Gen.idleCleanupIntervalNs / 1000000

def cfg (d : DS) : Cfg := { P := pol d.deny, cap := Gen.maxSessionACLCache, timeout := d.timeout }

def dataIn (s : String) : String := if s = "-" then "" else s
def dataOut (s : String) : String := if s = "" then "-" else s

def showOptNat : Option Nat → String
  | some k => toString k
  | none => "fail"

def showEv : Ev → String
  | .hook a r => s!"hook,{addrOut a}," ++ (match r with | some b => addrOut b | none => "E")
  | .new sid a => s!"new,{sid},{addrOut a}"
  | .dial _ a k => s!"dial,{addrOut a},{showOptNat k}"
  | .check a ok => s!"check,{addrOut a},{showBool ok}"
  | .write k ms a dat ok => s!"write,{k},{ms},{addrOut a},{dataOut dat}," ++ (if ok then "ok" else "err")
  | .close k => s!"close,{k}"
  | .logClose sid e => s!"logclose,{sid}," ++ (if e then "err" else "nil")
  | .up k sid f dat => s!"up,{k},{sid},{addrOut f},{dataOut dat}"

def insertNat (x : Nat × String) : List (Nat × String) → List (Nat × String)
  | [] => [x]
  | y :: r => if x.1 < y.1 then x :: y :: r else y :: insertNat x r

def showTbl (s : St) : String :=
  let rows := (List.range s.nEnt).filterMap (fun i =>
    match s.ent i with
    | some e => if s.tbl e.sid == some i then some (e.sid, s!"{e.sid}@{e.last}") else none
    | none => none)
  let sorted := rows.foldl (fun acc x => insertNat x acc) []
  if sorted.isEmpty then "." else ",".intercalate (sorted.map (·.2))

def showOpen (s : St) : String :=
  let ks := (List.range s.nSock).filter (fun k => s.sock k == 0)
  if ks.isEmpty then "." else ",".intercalate (ks.map toString)

def loops (s : St) : Nat :=
  ((List.range s.nEnt).filter (fun i => match s.ent i with
    | some e => e.lp == .read || e.lp == .send
    | none => false)).length

def showRl : RlPc → String
  | .idle => "idle" | .got _ => "got" | .create _ => "create" | .feed _ _ => "feed" | .closing _ => "closing"
  | .write _ _ => "write" | .stopping p => s!"stopping{p.length}" | .done => "done"

def showSw : SwPc → String
  | .idle => "idle" | .closing _ _ p => s!"closing{p.length}" | .done => "done"

def summary (s : St) : String :=
  s!"tbl={showTbl s} open={showOpen s} loops={loops s} rl={showRl s.rl} sw={showSw s.sw}"

def runL (d : DS) (ls : List Label) : DS := { d with s := run (cfg d) d.s ls }

/-- steps that need no further stimulus, entry by entry (two passes are enough: a pass can only enable
    later steps of the same entry, which it then takes) -/
def settleEntry (c : Cfg) (now : Nat) (s : St) (i : Nat) : St :=
  let s := match s.ent i with
    | some e => match e.lp, e.conn with
      | .read, some k => if s.sock k != 0 then step c s (.loopRead i now none) else s
      | .send, _ => if s.down then step c s (.loopSent i false) else s
      | _, _ => s
    | none => s
  let s := step c s (.loopCloseA i)
  step c s (.exitB i)

def settle (d : DS) : DS :=
  let c := cfg d
  let pass := fun (s : St) => (List.range s.nEnt).foldl (settleEntry c d.now) s
  { d with s := pass (pass d.s) }

/-- print and clear the event log -/
def flush (d : DS) : DS × String :=
  -- CheckUDP calls are not printed: whether and when the policy is consulted is C08's (driver udpacl)
  let es := d.s.evs.reverse.filter (fun e => match e with | .check _ _ => false | _ => true)
  let txt := if es.isEmpty then "-" else " ".intercalate (es.map showEv)
  ({ d with s := { d.s with evs := [] } }, txt ++ " | " ++ summary d.s)

def parseIds (s : String) : Option (List Nat) :=
  if s = "." then some [] else (s.splitOn ",").mapM String.toNat?

/-- entry index among `cands` whose session id is `sid` -/
def findBySid (s : St) (cands : List Nat) (sid : Nat) : Option Nat :=
  cands.find? (fun i => match s.ent i with | some e => e.sid == sid | none => false)

def sockEntry (s : St) (k : Nat) : Option Nat := if k < s.nSock then some (s.sockEnt k) else none

/-- the entry whose reply loop is at program point `pc` on socket k (and, for `read`, k still open) -/
def loopAt (s : St) (k : Nat) (pc : LoopPc) : Option Nat :=
  match sockEntry s k with
  | some i => match s.ent i with
    | some e => if e.lp == pc && e.conn == some k && (pc != .read || s.sock k == 0) then some i else none
    | none => none
  | none => none

def closeByRl (c : Cfg) (s : St) (sid : Nat) : St :=
  match s.rl with
  | .stopping p => match findBySid s p sid with
    | some i => step c (step c s (.rlStopClose i)) (.exitB i)
    | none => s
  | _ => s

def closeBySw (c : Cfg) (s : St) (sid : Nat) : St :=
  match s.sw with
  | .closing _ _ p => match findBySid s p sid with
    | some i => step c (step c s (.swClose i)) (.exitB i)
    | none => s
  | _ => s

/-- tick times in (now, now+ms] -/
def ticksIn (now ms : Nat) : List Nat :=
  if intervalMs = 0 then [] else
  let first := (now / intervalMs + 1)
  let last := (now + ms) / intervalMs
  (List.range (last + 1 - first)).map (fun j => (first + j) * intervalMs)

def doTicks (d : DS) (ticks : List Nat) (groups : List (List Nat)) : DS :=
  match ticks, groups with
  | [], _ => d
  | t :: ts, gs =>
    let g := gs.headD []
    let c := cfg d
    let s := step c d.s (.tick t)
    let s := g.foldl (closeBySw c) s
    let s := step c s .swDone
    let d1 := settle { d with s := s, now := t }
    doTicks d1 ts gs.tail

def mkMsg (sid pid fid fcnt addr data : String) : Option Msg := do
  let sid ← sid.toNat?
  let pid ← pid.toNat?
  let fid ← fid.toNat?
  let fcnt ← fcnt.toNat?
  pure { sid, pid, fid, fcnt, addr := addrIn addr, data := dataIn data }

def feedLabels (d : DS) (m : Msg) (hook de wok victim : String) : Option (List Label) := do
  let de ← parseBool de
  let wok ← parseBool wok
  let dr ← dialRes (pol d.deny) m.addr hook de
  pure [.feedA d.now dr, .rlCloseA, .feedB (addrIn victim) wok]

def step (d : DS) (line : String) : DS × String :=
  match fields line with
  | ["reset", t, deny] =>
    match t.toNat? with
    | some t =>
      let dl := if deny = "." then [] else (deny.splitOn ",").map addrIn
      ({ deny := dl, timeout := t }, "ok")
    | none => (d, "bad-op")
  | ["msg", sid, pid, fid, fcnt, addr, data, hook, de, wok, victim] =>
    match mkMsg sid pid fid fcnt addr data with
    | some m =>
      match feedLabels d m hook de wok victim with
      | some ls =>
        if d.s.rl != .idle ∨ d.s.down then (d, "busy")
        else flush (settle (runL d ([.recv m, .lookup, .insert d.now] ++ ls)))
      | none => (d, "bad-op")
    | none => (d, "bad-op")
  | ["slowclose", sid, pid, fid, fcnt, addr, data, hook, de, wok, groups] =>
    -- the sweeper has done the first half of CloseWithErr on session sid's expired entry (closeA: closed,
    -- socket closed) and not yet the second (exitB) when a datagram with that id is fed; census only
    match mkMsg sid pid fid fcnt addr data, (groups.splitOn "/").mapM parseIds with
    | some m, some gs =>
      if d.s.rl != .idle ∨ d.s.down then (d, "busy")
      else if intervalMs = 0 then (d, "bad-op")
      else
        let target : Option (Nat × Nat) := match d.s.tbl m.sid with
          | some i => match d.s.ent i with
            | some e => match e.conn with
              | some k => if d.s.sock k == 0 then some (i, e.last) else none
              | none => none
            | none => none
          | none => none
        match target with
        | none => let r := flush d; (r.1, "skip | " ++ summary r.1.s)
        | some (i, lastAct) =>
          let cand := ((lastAct + d.timeout) / intervalMs + 1) * intervalMs
          let tk := if cand > d.now then cand else (d.now / intervalMs + 1) * intervalMs
          let ticks := ticksIn d.now (tk - d.now)
          let pre := ticks.dropLast
          let d1 := doTicks d pre gs
          let d2 := { d1 with now := tk }
          match feedLabels d2 m hook de wok "_" with
          | some ls =>
            let c := cfg d2
            let s := Hy.UdpSession.step c d2.s (.tick tk)
            let s := Hy.UdpSession.step c s (.swClose i)
            let s := run c s ([.recv m, .lookup, .insert tk] ++ ls)
            let s := Hy.UdpSession.step c s (.exitB i)
            let s := (gs.getD pre.length []).foldl (closeBySw c) s
            let s := Hy.UdpSession.step c s .swDone
            let r := flush (settle { d2 with s := s })
            (r.1, "slowc | " ++ summary r.1.s)
          | none => (d, "bad-op")
    | _, _ => (d, "bad-op")
  | ["expirenew", tgt, sid, pid, fid, fcnt, addr, data, hook, de, wok, groups] =>
    -- as slowclose, but the datagram carries another id than the expiring session `tgt`; (closeA: closed,
    -- socket closed) and not yet the second (exitB) when a datagram with that id is fed; census only
    match mkMsg sid pid fid fcnt addr data, (groups.splitOn "/").mapM parseIds with
    | some m, some gs =>
      if d.s.rl != .idle ∨ d.s.down then (d, "busy")
      else if intervalMs = 0 then (d, "bad-op")
      else
        let target : Option (Nat × Nat) := match d.s.tbl (tgt.toNat?.getD m.sid) with
          | some i => match d.s.ent i with
            | some e => match e.conn with
              | some k => if d.s.sock k == 0 then some (i, e.last) else none
              | none => none
            | none => none
          | none => none
        match target with
        | none => let r := flush d; (r.1, "skip | " ++ summary r.1.s)
        | some (i, lastAct) =>
          let cand := ((lastAct + d.timeout) / intervalMs + 1) * intervalMs
          let tk := if cand > d.now then cand else (d.now / intervalMs + 1) * intervalMs
          let ticks := ticksIn d.now (tk - d.now)
          let pre := ticks.dropLast
          let d1 := doTicks d pre gs
          let d2 := { d1 with now := tk }
          match feedLabels d2 m hook de wok "_" with
          | some ls =>
            let c := cfg d2
            let s := Hy.UdpSession.step c d2.s (.tick tk)
            let s := Hy.UdpSession.step c s (.swClose i)
            let s := run c s ([.recv m, .lookup, .insert tk] ++ ls)
            let s := Hy.UdpSession.step c s (.exitB i)
            let s := (gs.getD pre.length []).foldl (closeBySw c) s
            let s := Hy.UdpSession.step c s .swDone
            let r := flush (settle { d2 with s := s })
            (r.1, "slowc | " ++ summary r.1.s)
          | none => (d, "bad-op")
    | _, _ => (d, "bad-op")
  | ["slowdial", sid, pid, fid, fcnt, addr, data, hook, de, wok, victim, groups] =>
    -- a datagram at `now`, then the sweeps up to the first one that finds Last = now idle; the model's
    -- initConn is atomic (skeleton_initConn), so only the census is printed and compared
    match mkMsg sid pid fid fcnt addr data, (groups.splitOn "/").mapM parseIds with
    | some m, some gs =>
      match feedLabels d m hook de wok victim with
      | some ls =>
        if d.s.rl != .idle ∨ d.s.down then (d, "busy")
        else if intervalMs = 0 then (d, "bad-op")
        else
          let d1 := settle (runL d ([.recv m, .lookup, .insert d.now] ++ ls))
          let tk := ((d.now + d.timeout) / intervalMs + 1) * intervalMs
          let d2 := doTicks d1 (ticksIn d.now (tk - d.now)) gs
          let r := flush { d2 with now := tk }
          (r.1, "slow | " ++ summary r.1.s)
      | none => (d, "bad-op")
    | _, _ => (d, "bad-op")
  | ["hold", sid, pid, fid, fcnt, addr, data] =>
    match mkMsg sid pid fid fcnt addr data with
    | some m =>
      if d.s.rl != .idle ∨ d.s.down then (d, "busy")
      else
        let d1 := runL d [.recv m, .lookup]
        match d1.s.rl with
        | .feed _ _ => let r := flush d1; (r.1, "held " ++ r.2)
        | _ => let r := flush d; (r.1, "miss " ++ r.2)
    | none => (d, "bad-op")
  | ["release", hook, de, wok, victim] =>
    match d.s.rl with
    | .feed _ m =>
      match feedLabels d m hook de wok victim with
      | some ls => flush (settle (runL d ls))
      | none => (d, "bad-op")
    | _ => (d, "busy")
  | ["reply", k, raddr, data, res] =>
    match k.toNat? with
    | some k =>
      if res ≠ "ok" ∧ res ≠ "err" ∧ res ≠ "block" ∧ res ≠ "big" then (d, "bad-op") else
      match loopAt d.s k .read with
      | some i =>
        let ls : List Label := [.loopRead i d.now (some (addrIn raddr, dataIn data))] ++
          (if res = "ok" ∨ res = "big" then [.loopSent i true] else if res = "err" then [.loopSent i false] else [])
        flush (settle (runL d ls))
      | none => flush d
    | none => (d, "bad-op")
  | ["unblock", k, res] =>
    match k.toNat? with
    | some k =>
      if res ≠ "ok" ∧ res ≠ "err" then (d, "bad-op") else
      match loopAt d.s k .send with
      | some i => flush (settle (runL d [.loopSent i (res = "ok")]))
      | none => flush d
    | none => (d, "bad-op")
  | ["readerr", k] =>
    match k.toNat? with
    | some k =>
      match loopAt d.s k .read with
      | some i => flush (settle (runL d [.loopRead i d.now none]))
      | none => flush d
    | none => (d, "bad-op")
  | ["sleep", ms, groups] =>
    match ms.toNat?, (groups.splitOn "/").mapM parseIds with
    | some ms, some gs =>
      let d1 := doTicks d (ticksIn d.now ms) gs
      flush { d1 with now := d.now + ms }
    | _, _ => (d, "bad-op")
  | ["slowlost"] =>
    -- connection loss whose final cleanup overlaps the next sweep: whoever closes what, the census is that
    -- of a connection loss; the clock ends at the next sweep tick
    if d.s.rl == .done then (let r := flush d; (r.1, "slowl | " ++ summary r.1.s)) else
    if d.s.rl != .idle then (d, "busy") else
    if intervalMs = 0 then (d, "bad-op") else
    let c := cfg d
    let s := run c d.s [.connLost, .recvErr]
    let pend : List Nat := match s.rl with | .stopping p => p | _ => []
    let s := pend.foldl (fun s i => Hy.UdpSession.step c (Hy.UdpSession.step c s (.rlStopClose i)) (.exitB i)) s
    let s := run c s [.rlStopDone, .swStop]
    let r := flush (settle { d with s := s, now := (d.now / intervalMs + 1) * intervalMs })
    (r.1, "slowl | " ++ summary r.1.s)
  | ["connlost", order] =>
    match parseIds order with
    | some ids =>
      if d.s.rl == .done then flush d else
      if d.s.rl != .idle then (d, "busy") else
      let c := cfg d
      let s := run c d.s [.connLost, .recvErr]
      let s := ids.foldl (closeByRl c) s
      let s := run c s [.rlStopDone, .swStop]
      flush (settle { d with s := s })
    | none => (d, "bad-op")
  | _ => (d, "bad-op")

end Hy.Drv.UdpSession
