/- `hydrv sniff`, TCP half: line-protocol driver for Hy.Model.Sniff (C17).
   op:  tcp <addr> <chunks> <dl> <fin> <reads> <httpHost> <sni>
        <dl> "-" | n;  <reads> "." | csv;  <httpHost>, <sni> "~" (none) | hex ("-" = empty)
   out: ok pb=<hex> addr=<hex> rest=<hex>  |  abort  |  panic -/
import Hy.Model.Sniff
import Hy.Drv.Util
namespace Hy.Drv.Sniff
open Hy Hy.Sniff Hy.Drv

def parseNatList (s : String) : Option (List Nat) :=
  if s = "." then some [] else (s.splitOn ",").mapM String.toNat?

/-- "~" = none -/
def parseOptBytes (s : String) : Option (Option Bytes) :=
  if s = "~" then some none else (ofHex s).map some

def parseDl (s : String) : Option (Option Nat) :=
  if s = "-" then some none else s.toNat?.map some

def showTcp : Res TcpOut → String
  | .ok o => s!"ok pb={toHexF o.putback} addr={toHexF o.addr} rest={toHexF o.s.unread}"
  | .reject => "abort"
  | .panic => "panic"

def stepTcp (addr cs dl fin reads hh sni : String) : String :=
  match ofHex addr, parseChunks cs, parseDl dl, parseBool fin, parseNatList reads,
        parseOptBytes hh, parseOptBytes sni with
  | some addr, some cs, some dl, some fin, some reads, some hh, some sni =>
    let P : Parsers := { reads := reads, httpHost := fun _ => hh, sni := fun _ => sni }
    showTcp (sniffTCP fixed P addr ⟨cs, dl, fin⟩)
  | _, _, _, _, _, _, _ => "bad-op"

end Hy.Drv.Sniff
