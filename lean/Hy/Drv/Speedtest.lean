/- `hydrv speedtest`: line-protocol driver for Hy.Model.Speedtest (C03, speed-test part). -/
import Hy.Model.Speedtest
import Hy.Drv.Util
namespace Hy.Drv.Speedtest
open Hy Hy.Frame Hy.Speedtest Hy.Drv

/-- the reads a scripted connection hands to `conn.Read(buf[:n])` in the upload loop:
    each read returns min(n, rest of the current chunk); an empty chunk is a (0,nil) read;
    after the script: (0, EOF).  `lastEOF` = the last data comes together with io.EOF. -/
partial def readsFor (lastEOF : Bool) (rem : Nat) (cs : List Bytes) (acc : List (Nat × Bool)) : List (Nat × Bool) :=
  if rem = 0 then acc.reverse
  else match cs with
    | [] => (acc.reverse ++ [(0, true)])
    | c :: rest =>
      let n := if rem > chunkSize then chunkSize else rem
      if c.isEmpty then readsFor lastEOF rem rest ((0, false) :: acc)
      else
        let k := if c.length ≤ n then c.length else n
        let rest' := if k = c.length then rest else c.drop k :: rest
        let eof := lastEOF && rest'.isEmpty
        readsFor lastEOF (rem - k) rest' ((k, eof) :: acc)

def step (line : String) : String :=
  match fields line with
  | ["srv", eofFlag, cs] =>
    match parseBool eofFlag, parseChunks cs with
    | some lastEOF, some cs =>
      let total := flatLen cs
      match readReq chunked cs with
      | .eof => s!"closed out=- written=0 consumed={total}"
      | .unknown _ => s!"closed out=- written=0 consumed=1"
      | .download l _ => s!"done out={toHexF respOK} written={5 + l} consumed=5"
      | .upload l s =>
        let reads := readsFor lastEOF l s []
        match loop chunkSize (reads.length + 1) l reads with
        | .ok (.done, _) =>
          let consumed := 5 + reads.foldl (fun a p => a + p.1) 0
          s!"done out={toHexF respOK} written={5 + 8} consumed={consumed}"
        | .ok (_, _) =>
          let consumed := 5 + reads.foldl (fun a p => a + p.1) 0
          s!"closed out={toHexF respOK} written=5 consumed={consumed}"
        | .reject => "reject"
        | .panic => "panic"
    | _, _ => "bad-op"
  | [op, cs] =>
    if op = "reply-dl" ∨ op = "reply-ul" then
      match parseChunks cs with
      | some cs =>
        let total := flatLen cs
        match readReply chunked cs with
        | .eof => s!"eof consumed={total}"
        | .ok st m s => s!"ok {showBool st} {toHexF m} consumed={total - flatLen s}"
      | none => "bad-op"
    else if op = "summary" then
      match parseChunks cs with
      | some cs =>
        let total := flatLen cs
        match readSummary chunked cs with
        | none => s!"eof consumed={total}"
        | some ((d, l), s) => s!"ok {d} {l} consumed={total - flatLen s}"
      | none => "bad-op"
    else "bad-op"
  | _ => "bad-op"

end Hy.Drv.Speedtest
