/- `hydrv udpacl`: line-protocol driver for Hy.Model.UdpAcl (C08).

   reset <deny>                       deny = "." or comma separated addresses; P a = (a ≠ "" ∧ a ∉ deny)
   dg <addr> <hook> <dialerr> <victim>
        hook    K (unchanged) | E (hook error) | R:<addr> (rewritten)
        dialerr 0|1 (io.UDP fails for a reason other than the policy)
        victim  the key the implementation's eviction removed, "_" if none
   reply <raddr>
   The empty address is written "_".  Output: events, then override / original / the cache sorted by key. -/
import Hy.Gen.Core
import Hy.Model.UdpAcl
import Hy.Drv.Util
namespace Hy.Drv.UdpAcl
open Hy Hy.UdpAcl Hy.Drv

structure DS where
  deny : List Addr := []
  s    : Sess := {}

def init : DS := {}

def pol (deny : List Addr) : Addr → Bool := fun a => a ≠ "" && !deny.contains a

def addrIn (s : String) : Addr := if s = "_" then "" else s
def addrOut (a : Addr) : String := if a = "" then "_" else a

def insertSorted (x : Addr × Bool) : List (Addr × Bool) → List (Addr × Bool)
  | [] => [x]
  | y :: r => if x.1 < y.1 then x :: y :: r else y :: insertSorted x r

def sortCache (c : Cache) : Cache := c.foldl (fun acc x => insertSorted x acc) []

def showCache (c : Cache) : String :=
  if c.isEmpty then "." else ",".intercalate ((sortCache c).map (fun e => addrOut e.1 ++ (if e.2 then "+" else "-")))

def showEv : Ev → String
  | .dial a ok => s!"dial,{addrOut a},{showBool ok}"
  | .check a => s!"check,{addrOut a}"
  | .write a => s!"write,{addrOut a}"
  | .up f => s!"up,{addrOut f}"

def showEvs (es : List Ev) : String := if es.isEmpty then "-" else " ".intercalate (es.map showEv)

def showSess (s : Sess) : String :=
  s!"conn={showBool s.conn} closed={showBool s.closed} ovr={addrOut s.acl.override} org={addrOut s.acl.original} cache={showCache s.acl.cache}"

/-- the dial outcome from the op's fields: the fake outbound obeys the contract (fails on denied) -/
def dialRes (P : Addr → Bool) (addr : Addr) (hook : String) (dialerr : Bool) : Option DialRes :=
  if hook = "E" then some .hookErr
  else
    let actual : Option Addr :=
      if hook = "K" then some addr
      else if hook.startsWith "R:" then some (addrIn (hook.drop 2).toString) else none
    actual.map (fun a => if P a && !dialerr then .ok a else .fail a)

def step (d : DS) (line : String) : DS × String :=
  match fields line with
  | ["reset", deny] =>
    let dl := if deny = "." then [] else (deny.splitOn ",").map addrIn
    ({ deny := dl, s := {} }, "ok")
  | ["dg", addr, hook, de, victim] =>
    match parseBool de with
    | some de =>
      let P := pol d.deny
      match dialRes P (addrIn addr) hook de with
      | some dr =>
        let r := stepOp P Gen.maxSessionACLCache d.s (.dg (addrIn addr) dr (addrIn victim))
        ({ d with s := r.1 }, showEvs r.2 ++ " | " ++ showSess r.1)
      | none => (d, "bad-op")
    | none => (d, "bad-op")
  | ["reply", raddr] =>
    let r := stepOp (pol d.deny) Gen.maxSessionACLCache d.s (.reply (addrIn raddr))
    ({ d with s := r.1 }, showEvs r.2 ++ " | " ++ showSess r.1)
  | _ => (d, "bad-op")

end Hy.Drv.UdpAcl
