/- `hydrv salamander`: line-protocol driver for Hy.Model.Salamander (C13), with the hash
   instantiated by the Lean BLAKE2b-256 of Hy/Crypto/Blake2b.lean.

   hash <hex>                     → hash <digest>
   new <key>                      → ok | refused
   xfer <key> <cap> <items>       → xfer W=<n>:<e>,… X=<wire>,… R=<n>:<addr>:<e>:<payload>,…  | refused
        items: p<salt>:<payload>  WriteTo(payload) with that salt, wire datagram queued for the reader
               f<salt>:<payload>  WriteTo(payload) whose inner write fails
               j<hex> / e<hex>    raw datagram on the reader's inner socket (e: with an inner error)
        the address of item k (1-based) is k
   conc <key> <cap> <hex@port,…>  → conc n=<deliveries> dl=<fnv64 of the deliveries sorted by address>
   duplex <key> <cap> <hex@port,…> <salt:payload,…>
                                  → duplex in=<n>:<fnv64 of the deliveries in queue order> out=<n>:<fnv64 of the wires> -/
import Hy.Model.Salamander
import Hy.Crypto.Blake2b
import Hy.Drv.Util
namespace Hy.Drv.Salamander
open Hy Hy.Salamander Hy.Drv

def listOr (ss : List String) : String := if ss.isEmpty then "." else ",".intercalate ss

def showDelivery (d : Delivery) : String :=
  s!"{d.n}:{d.addr}:{showBool d.err}:{toHexF d.payload}"

inductive Item where
  | wr (fail : Bool) (salt p : Bytes)
  | raw (err : Bool) (d : Bytes)

def parseItem (s : String) : Option Item :=
  match s.toList with
  | [] => none
  | c :: rest =>
    let body := String.ofList rest
    if c = 'p' ∨ c = 'f' then
      match body.splitOn ":" with
      | [a, b] => do
        let salt ← ofHex a
        let p ← ofHex b
        pure (.wr (c = 'f') salt p)
      | _ => none
    else if c = 'j' ∨ c = 'e' then do
      let d ← ofHex body
      pure (.raw (c = 'e') d)
    else none

def parseItems (s : String) : Option (List Item) :=
  if s = "." then some [] else (s.splitOn ",").mapM parseItem

/-- run the items: (W entries, X entries, reader's queue) -/
def runItems (psk : Bytes) : Nat → List Item → List String × List String × List Inc
  | _, [] => ([], [], [])
  | k, it :: rest =>
    let (w, x, q) := runItems psk (k + 1) rest
    match it with
    | .wr fail salt p =>
      let r := writeTo blake2b256 psk salt p fail
      let q' := if fail then q else { data := r.wire, addr := k, err := false } :: q
      (s!"{r.n}:{showBool r.err}" :: w, toHexF r.wire :: x, q')
    | .raw err d => (w, x, { data := d, addr := k, err := err } :: q)

def parseAt (s : String) : Option Inc :=
  match s.splitOn "@" with
  | [h, p] => do
    let d ← ofHex h
    let port ← p.toNat?
    pure { data := d, addr := port, err := false }
  | _ => none

def parseWr (s : String) : Option (Bytes × Bytes) :=
  match s.splitOn ":" with
  | [a, b] => do
    let salt ← ofHex a
    let p ← ofHex b
    pure (salt, p)
  | _ => none

def fnv (h : UInt64) (bs : Bytes) : UInt64 :=
  bs.foldl (fun h b => (h ^^^ UInt64.ofNat b.val) * 0x100000001b3) h

def digest (ds : List Delivery) : UInt64 :=
  ds.foldl (fun h d => fnv (fnv (fnv h (be32 d.addr)) (be32 d.n)) d.payload) 0xcbf29ce484222325

def hex16 (x : UInt64) : String :=
  toHex ((List.range 8).map (fun i => byte ((x >>> (8 * (7 - i)).toUInt64).toNat)))

def step (line : String) : String :=
  match fields line with
  | ["hash", d] =>
    match ofHex d with
    | some d => "hash " ++ toHexF (blake2b256 d)
    | none => "bad-op"
  | ["new", k] =>
    match ofHex k with
    | some k => if accepts k then "ok" else "refused"
    | none => "bad-op"
  | ["xfer", k, cap, items] =>
    match ofHex k, cap.toNat?, parseItems items with
    | some k, some cap, some items =>
      if !accepts k then "refused" else
      let (w, x, q) := runItems k 1 items
      let r := (deliveries blake2b256 k cap q).map showDelivery
      s!"xfer W={listOr w} X={listOr x} R={listOr r}"
    | _, _, _ => "bad-op"
  | ["conc", k, cap, items] =>
    match ofHex k, cap.toNat?, (if items = "." then some [] else (items.splitOn ",").mapM parseAt) with
    | some k, some cap, some q =>
      if !accepts k then "refused" else
      let ds := (deliveries blake2b256 k cap q).mergeSort (fun a b => a.addr ≤ b.addr)
      s!"conc n={ds.length} dl={hex16 (digest ds)}"
    | _, _, _ => "bad-op"
  | ["duplex", k, cap, inb, outb] =>
    match ofHex k, cap.toNat?, (if inb = "." then some [] else (inb.splitOn ",").mapM parseAt),
          (if outb = "." then some [] else (outb.splitOn ",").mapM parseWr) with
    | some k, some cap, some q, some ws =>
      if !accepts k then "refused" else
      let ds := deliveries blake2b256 k cap q
      let h := ws.foldl (fun h (sp : Bytes × Bytes) =>
        let w := (writeTo blake2b256 k sp.1 sp.2 false).wire
        fnv (fnv h (be32 w.length)) w) 0xcbf29ce484222325
      s!"duplex in={ds.length}:{hex16 (digest ds)} out={ws.length}:{hex16 h}"
    | _, _, _, _ => "bad-op"
  | _ => "bad-op"

end Hy.Drv.Salamander
