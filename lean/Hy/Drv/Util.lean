/- Driver utilities: line protocol parsing. Core Lean only. -/
import Hy.Base.Bytes
namespace Hy.Drv
open Hy

def fields (line : String) : List String :=
  (line.splitOn " ").filter (· ≠ "")

/-- chunk list: "." = no chunks; otherwise comma-separated hex, "-" = empty chunk -/
def parseChunks (s : String) : Option (List Bytes) :=
  if s = "." then some [] else (s.splitOn ",").mapM ofHex

def showChunks (cs : List Bytes) : String :=
  if cs.isEmpty then "." else ",".intercalate (cs.map toHexF)

def flatLen (cs : List Bytes) : Nat := cs.foldl (fun a c => a + c.length) 0

def parseBool (s : String) : Option Bool :=
  if s = "1" then some true else if s = "0" then some false else none

def showBool (b : Bool) : String := if b then "1" else "0"

end Hy.Drv
