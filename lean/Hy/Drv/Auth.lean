/-
  `hydrv auth`: replays one history of the C01 loopback harness on Hy.Model.Auth.

  input   hist <cfg> <event> <event> ...        (events as the harness hands them on; for an HTTP request:
                                                 whether the server TREATED it as an authentication request)
  output  hist mon=<gate monitor><re-evaluation monitor> ev=<what each client event observes> c<i>=<effects of connection i as the fakes
          see them, in order> dg<i>=<datagrams sent>/<UDPMessages received>/0 ...

  Each client event is a fixed sequence of atomic model steps (the harness waits for every
  event to complete, and controls the authenticator's blocking), executed with `Hy.Auth.step`;
  what is printed is computed from the model's effects only.  The line must equal the line the
  harness printed for the real server: that is the correspondence.  What this checks: the
  real server's observable behaviour on this history IS the behaviour of the model under the
  schedule the harness enforced (per-connection order of effects, and every client-visible
  outcome); it does not explore other interleavings (the theorems do).
-/
import Hy.Model.Auth
import Hy.Drv.Util
namespace Hy.Drv.Auth
open Hy Hy.Auth Hy.Drv

structure VCfg where
  udp : Bool
  hook : Bool
  masq : Nat
  tl : Bool
  ev : Bool
  rxAuto : Bool
  maxRx : Nat

def bit (c : Char) : Option Bool := if c = '1' then some true else if c = '0' then some false else none

def parseCfg (s : String) : Option VCfg :=
  match s.toList with
  | ['u', u, 'k', k, 'm', m, 't', t, 'e', e, 'a', a, 'r', r] => do
    let u ← bit u
    let k ← bit k
    let m ← (if m = '0' then some 0 else if m = '1' then some 1 else if m = '2' then some 2 else none)
    let t ← bit t
    let e ← bit e
    let a ← bit a
    let r ← bit r
    pure { udp := u, hook := k, masq := m, tl := t, ev := e, rxAuto := a, maxRx := if r then 1000000 else 0 }
  | _ => none

/-- client-side bookkeeping of one connection (what the harness's raw client knows) -/
structure Cli where
  id : Nat
  pendV : Option Bool := none       -- verdict the blocked authenticator will return
  queued : Option String := none    -- auth string of the request waiting on authMutex
  sawUDP : Bool := false            -- a 233 with Hysteria-UDP: true was seen
  sent : Nat := 0
  replies : Nat := 0
  isClosed : Bool := false

structure D where
  cfg : VCfg
  st : St := {}
  clis : List Cli := []

def D.mcfg (d : D) : Auth.Cfg := ⟨d.cfg.udp⟩

def getCli (d : D) (c : Nat) : Cli := (d.clis.find? (·.id == c)).getD { id := c }

def setCli (d : D) (k : Cli) : D :=
  if d.clis.any (·.id == k.id) then { d with clis := d.clis.map (fun x => if x.id == k.id then k else x) }
  else { d with clis := d.clis ++ [k] }

/-- fire one atomic step; returns the effects it emitted (chronological) -/
def exec (d : D) (c : Nat) (a : Act) : D × List Eff :=
  let effs := (cstep d.mcfg c (d.st.conn c) a).2
  ({ d with st := step d.mcfg d.st ⟨c, a⟩ }, effs)

def isPrefixOf (p s : List Char) : Bool :=
  match p, s with
  | [], _ => true
  | _ :: _, [] => false
  | a :: p, b :: s => a == b && isPrefixOf p s

def hasSub (sub : List Char) : List Char → Bool
  | [] => sub.isEmpty
  | c :: s => isPrefixOf sub (c :: s) || hasSub sub s

def failing (a : String) : Bool := hasSub ".fail.".toList a.toList

def accepts (auth : String) : Bool := isPrefixOf "ok".toList auth.toList

/-- the UDP session manager consumes everything quic-go holds for the connection; each packet
    written to a remote is echoed back to the client -/
def drain : Nat → D → Nat → D
  | 0, d, _ => d
  | fuel + 1, d, c =>
    match (d.st.conn c).dgq with
    | [] => d
    | m :: _ =>
      let ok := match m with
        | some (a, _) => !failing a
        | none => true
      let (d1, effs) := exec d c (.udpRecv ok)
      let d2 := effs.foldl (fun d e =>
        match e with
        | .relay _ .udpUp a n =>
          let (d', ef) := exec d c (.udpReply a n)
          if ef.isEmpty then d' else
            let k := getCli d' c
            setCli d' { k with replies := k.replies + 1 }
        | _ => d) d1
      drain fuel d2 c

def settle (d : D) (c : Nat) : D :=
  if (getCli d c).sawUDP then drain ((d.st.conn c).dgq.length + 1) d c else d

/-- HTTP outcomes are abstracted to `233` / `other`: what a non-233 response contains, and which
    requests are auth-shaped, are C02's clauses (stream `masq`), not C01's -/
def out233 (_cfg : VCfg) : String := "233"

def after233 (d : D) (c : Nat) : D :=
  let k := getCli d c
  let d := setCli d { k with sawUDP := k.sawUDP || d.cfg.udp }
  settle d c

def isAuthCall : Eff → Bool
  | .authCall .. => true
  | _ => false

/-- an auth-shaped request handled to completion with a non-blocking authenticator -/
def doAuthReq (d : D) (c : Nat) (auth : String) : D × String :=
  let (d1, e1) := exec d c (.authBegin auth)
  if e1.any (· == .resp233 c) then (after233 d1 c, out233 d.cfg)
  else if e1.any isAuthCall then
    let (d2, _) := exec d1 c (.authVerdict (accepts auth))
    let (d3, e3) := exec d2 c .authCommit
    if e3.any (· == .resp233 c) then (after233 d3 c, out233 d.cfg)
    else if e3.any (· == .masq c) then (d3, "other")
    else (d3, "stuck")
  else (d1, "stuck")

def strOfHex (s : String) : Option String := (ofHex s).map (fun bs => String.ofList (bs.map (fun b => Char.ofNat b.val)))

def unTok (s : String) : String := if s = "-" then "" else s

def release (d : D) (c : Nat) : D × String :=
  let k := getCli d c
  match k.pendV with
  | none => (d, "none")
  | some v =>
    let d := setCli d { k with pendV := none, queued := none }
    let (d1, _) := exec d c (.authVerdict v)
    let (d2, e2) := exec d1 c .authCommit
    let (d3, o1) :=
      if e2.any (· == .resp233 c) then
        -- the client marks UDP as seen; settling happens after the queued request
        let k2 := getCli d2 c
        (setCli d2 { k2 with sawUDP := k2.sawUDP || d2.cfg.udp }, out233 d.cfg)
      else if e2.any (· == .masq c) then (d2, "other") else (d2, "stuck")
    let (d4, o) :=
      match k.queued with
      | none => (d3, o1)
      | some a =>
        let (d4, o2) := doAuthReq d3 c a
        (d4, o1 ++ "+" ++ o2)
    (settle d4 c, o)

def splitSlash (s : String) : List String := s.splitOn "/"

def parseHead (s : String) : Option (Char × Nat) :=
  match s.toList with
  | k :: ds => if ds.isEmpty then none else (String.ofList ds).toNat?.map (fun n => (k, n))
  | [] => none

/-- one simple event (no `+`) -/
def simpleEvent (d : D) (tok : String) : Option (D × String) :=
  match splitSlash tok with
  | [] => none
  | hd :: rest =>
    match parseHead hd with
    | none => none
    | some (kind, c) =>
      let k0 := getCli d c
      let d := setCli d k0   -- the connection now exists
      match kind, rest with
      | 'C', [] => if k0.isClosed then some (d, "closed") else some (d, "not-closed")
      | 'N', [] => some (d, "none")
      | 'K', [] => some (d, "skipped")
      | 'H', [treated, a] =>
        -- `treated`: the server treated the request as an authentication request (observed by the
        -- harness: the authenticator was consulted for it, or it was answered 233)
        match parseBool treated with
        | some true => some (doAuthReq d c (unTok a))
        | some false =>
          let (d1, e1) := exec d c .http
          some (d1, if e1.any (· == .masq c) then "other" else "stuck")
        | none => none
      | 'B', [a] =>
        let a := unTok a
        let (d1, e1) := exec d c (.authBegin a)
        if e1.any isAuthCall then
          let k := getCli d1 c
          some (setCli d1 { k with pendV := some (accepts a) }, "pending")
        else none   -- the harness reports an immediately answered B as an H event
      | 'Q', [a] =>
        let k := getCli d c
        if k.pendV.isSome && k.queued.isNone then some (setCli d { k with queued := some (unTok a) }, "queued") else none
      | 'R', [] => some (release d c)
      | 'S', [kind, a, n] =>
        match n.toNat? with
        | none => none
        | some n =>
          let h := (d.st.conn c).tcp.length
          let (d1, _) := exec d c (.stream Gen.FrameTypeTCPRequest)
          if (d1.st.conn c).tcp.length = h then some (d1, "reset:0x200")
          else if kind = "bad" then
            let (d2, _) := exec d1 c (.tcpRead h none false)
            some (d2, "eof")
          else
            let hooked := d.cfg.hook && kind = "hook"
            let (d2, e2) := exec d1 c (.tcpRead h (some a) hooked)
            let (d3, e3) := exec d2 c (.tcpDial h (kind != "fail"))
            if kind = "fail" then
              let effs := e2 ++ e3
              if effs.any (· == .tcpResp c true) then some (d3, "resp:1:echo=0:eof")
              else if effs.any (· == .tcpResp c false) then some (d3, "resp:0")
              else some (d3, "eof")
            else
              let (d4, e4) := exec d3 c (.tcpRespond h)
              let (d5, _) := exec d4 c (.tcpRelay h true n)
              let (d6, e6) := exec d5 c (.tcpRelay h false n)
              let (d7, _) := exec d6 c (.tcpEnd h)
              let got := (e2 ++ e4).any (· == .tcpResp c true)
              let echo := e6.foldl (fun acc e => match e with | .relay _ .tcpDown _ k => acc + k | _ => acc) 0
              some (d7, if got then s!"resp:1:echo={echo}" else "eof")
      | 'G', [ft] =>
        match ft.toNat? with
        | none => none
        | some ft =>
          let h := (d.st.conn c).tcp.length
          let (d1, _) := exec d c (.stream ft)
          some (d1, if (d1.st.conn c).tcp.length = h then "reset:0x200" else "spawned")
      | 'D', [_, a, n] =>
        match n.toNat? with
        | none => none
        | some n =>
          let (d1, _) := exec d c (.dgramIn (if n = 0 then none else some (a, n)))
          let k := getCli d1 c
          let d2 := setCli d1 { k with sent := k.sent + 1 }
          some (settle d2 c, "sent")
      | 'X', [] =>
        let (d1, _) := exec d c .connEnd
        let k := getCli d1 c
        some (setCli d1 { k with isClosed := true }, "closed")
      | _, _ => none

def event (d : D) (tok : String) : Option (D × String) :=
  (tok.splitOn "+").foldl (fun acc t =>
    match acc with
    | none => none
    | some (d, o) =>
      match simpleEvent d t with
      | none => none
      | some (d', o') => some (d', if o = "" then o' else o ++ "+" ++ o')) (some (d, ""))

/-- end of the history: blocked authenticators are released (and answered), then every
    connection is closed -/
def finish (d : D) : D :=
  let ids := (d.clis.map (·.id)).mergeSort (· ≤ ·)
  ids.foldl (fun d c =>
    let d := if (getCli d c).pendV.isSome then (release d c).1 else d
    if (getCli d c).isClosed then d else (exec d c .connEnd).1) d

/-- what the fakes log for the effects of one connection, given which loggers are installed -/
def render (cfg : VCfg) : List Eff → List String
  | [] => []
  | .authCall _ cred :: r => s!"authCall({if cred = "" then "-" else cred})" :: render cfg r
  | .verdict _ v :: r => s!"verdict({showBool v})" :: render cfg r
  | .resp233 _ :: r => render cfg r
  | .masq _ :: r => render cfg r
  | .online _ up :: r =>
    (if cfg.tl then [if up then "online+" else "online-"] else []) ++
    (if cfg.ev then [if up then "connect" else "disconnect"] else []) ++ render cfg r
  | .dialTCP _ a :: r => (if cfg.ev then [s!"tcpReq({a})"] else []) ++ [s!"dialTCP({a})"] ++ render cfg r
  | .tcpResp _ _ :: r => render cfg r
  | .dialUDP _ a :: r => (if cfg.ev then [s!"udpReq({a})"] else []) ++ [s!"dialUDP({a})"] ++ render cfg r
  | .relay _ .udpUp a n :: r => s!"udpWrite({a},{n})" :: render cfg r
  | .relay _ .udpDown _ _ :: r => render cfg r
  | .relay _ .tcpUp a n :: .relay _ .tcpDown _ m :: r => s!"relay({a},{n},{m})" :: render cfg r
  | .relay _ .tcpUp a n :: r => s!"relay({a},{n},0)" :: render cfg r
  | .relay _ .tcpDown a n :: r => s!"relay({a},0,{n})" :: render cfg r

/-- the remote of a proxied TCP connection reports its byte counts when it is closed, i.e.
    after the TCPResponse: move the relay effects of a stream behind everything else of it -/
def step (line : String) : String :=
  match fields line with
  | "hist" :: cfg :: evs =>
    match parseCfg cfg with
    | none => "bad-op"
    | some cfg =>
      let r := evs.foldl (fun acc t =>
        match acc with
        | none => none
        | some (d, outs) =>
          match event d t with
          | none => none
          | some (d', o) => some (d', outs ++ [o])) (some (({ cfg := cfg } : D), []))
      match r with
      | none => "bad-op"
      | some (d, outs) =>
        let d := finish d
        let effs := d.st.effects
        let ids := (d.clis.map (·.id)).mergeSort (· ≤ ·)
        let per := ids.map (fun c =>
          let k := getCli d c
          let es := render cfg (effs.filter (fun e => e.conn == c))
          s!" c{c}={";".intercalate es} dg{c}={k.sent}/{k.replies}/0")
        s!"hist mon={showBool (gateMonitor effs)}{showBool (reevalMonitor effs)} ev=" ++ ",".intercalate outs ++ String.join per
  | _ => "bad-op"

end Hy.Drv.Auth
