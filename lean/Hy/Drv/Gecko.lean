/- `hydrv gecko`: line-protocol driver for Hy.Model.Gecko (C14). Stateful. -/
import Hy.Model.Gecko
import Hy.Drv.Util
namespace Hy.Drv.Gecko
open Hy Hy.Gecko Hy.Drv

structure DS where
  cfg : Cfg := { minPkt := 512, maxPkt := 1200 }
  rx : Rx := {}
  senders : List (Nat × Nat) := []     -- sender → value of its msgID counter

def init : DS := {}

def hashM : Nat := 4294967291

def mix (x y : Nat) : Nat := (x * 1000003 + y) % hashM

def maskOf (cs : List (Option Bytes)) : Nat :=
  (cs.zipIdx.foldl (fun a (c, i) => if c.isSome then a + 2 ^ i else a) 0)

def lenOf (cs : List (Option Bytes)) : Nat := cs.foldl (fun a c => a + (c.getD []).length) 0

def entHash (k : Key) (e : Ent) : Nat :=
  mix (mix (mix (mix (mix (mix k.src k.mid) e.total) e.received) (maskOf e.chunks)) e.deadline) (lenOf e.chunks)

def tabHash (t : List (Key × Ent)) : Nat := t.foldl (fun a ke => (a + entHash ke.1 ke.2) % hashM) 0

def perHash (p : List (Nat × Nat)) : Nat := p.foldl (fun a sv => (a + mix sv.1 sv.2) % hashM) 0

def insertBy {α} (lt : α → α → Bool) (x : α) : List α → List α
  | [] => [x]
  | y :: r => if lt x y then x :: y :: r else y :: insertBy lt x r

def sortBy {α} (lt : α → α → Bool) (l : List α) : List α := l.foldl (fun acc x => insertBy lt x acc) []

def showEnt (k : Key) (e : Ent) : String :=
  s!"{k.mid}/{e.total}/{e.received}/{maskOf e.chunks}/{e.deadline}/{lenOf e.chunks}"

/-- entries of one source, sorted by message id -/
def showSrc (st : St) (src : Nat) : String :=
  let es := sortBy (fun (a b : Key × Ent) => a.1.mid < b.1.mid) (st.tab.filter (fun ke => ke.1.src = src))
  if es.isEmpty then "-" else ",".intercalate (es.map (fun ke => showEnt ke.1 ke.2))

def showState (st : St) : String :=
  s!"n={st.tab.length} ns={st.per.length} h={tabHash st.tab}.{perHash st.per}"

def showChunkSlots (cs : List (Option Bytes)) : String :=
  ",".intercalate (cs.map (fun c => match c with | none => "_" | some b => toHexF b))

def keyLt (a b : Key) : Bool := a.src < b.src || (a.src == b.src && a.mid < b.mid)

def showDump (st : St) : String :=
  let es := sortBy (fun (a b : Key × Ent) => keyLt a.1 b.1) st.tab
  let ps := sortBy (fun (a b : Nat × Nat) => a.1 < b.1) st.per
  let e := if es.isEmpty then "-" else ";".intercalate (es.map (fun ke =>
    s!"{ke.1.src}:{ke.1.mid}:{ke.2.total}:{ke.2.received}:{ke.2.deadline}:{showChunkSlots ke.2.chunks}"))
  let p := if ps.isEmpty then "-" else ";".intercalate (ps.map (fun sv => s!"{sv.1}:{sv.2}"))
  s!"dump {e} | {p}"

def parseKey (s : String) : Option Key :=
  if s = "-" then some { src := 0, mid := 100000 }     -- names no entry (mid is a byte)
  else match s.splitOn ":" with
    | [a, b] => do
      let a ← a.toNat?
      let b ← b.toNat?
      pure { src := a, mid := b }
    | _ => none

def showOut : Out → String
  | .drop => "d"
  | .pass _ b => "p:" ++ toHexF b
  | .msg _ b => "m:" ++ toHexF b

/-- one datagram field `src=hex=tie` -/
def parseDgram (s : String) : Option (Nat × Bytes × Key) :=
  match s.splitOn "=" with
  | [a, b, c] => do
    let a ← a.toNat?
    let b ← ofHex b
    let c ← parseKey c
    pure (a, b, c)
  | _ => none

def showRes {α} (f : α → String) : Res α → String
  | .ok a => f a
  | .reject => "reject"
  | .panic => "panic"

def parseInt (s : String) : Option Int :=
  if s.startsWith "-" then (s.drop 1).toNat?.map (fun n => - (n : Int)) else s.toNat?.map (fun n => (n : Int))

/-- per chunk: recover the random draw from the pad length the code chose; infeasible → flag -/
def drawsOf (c : Cfg) (p : Bytes) (chunks : Nat) (pads : List Bytes) : List (Nat × Bytes) × Bool :=
  let chunkSize := if chunks = 0 then 0 else p.length / chunks
  let rec go (i : Nat) (ps : List Bytes) (acc : List (Nat × Bytes)) (ok : Bool) : List (Nat × Bytes) × Bool :=
    match ps with
    | [] => (acc.reverse, ok)
    | pb :: r =>
      let clen := if i < chunks - 1 then chunkSize else p.length - i * chunkSize
      let base := saltLen + headerSize + clen
      let lo := max c.minPkt base
      let draw := pb.length - (lo - base)
      let feasible := decide (draw < max 1 (padDrawBound c clen)) && decide (randomPadLen c clen draw = pb.length)
      go (i + 1) r ((draw, pb) :: acc) (ok && feasible)
  go 0 pads [] true

def step (s : DS) (line : String) : DS × String :=
  match fields line with
  | ["reset", mn, mx] =>
    match mn.toNat?, mx.toNat? with
    | some mn, some mx => ({ cfg := { minPkt := mn, maxPkt := mx } }, "reset")
    | _, _ => (s, "bad-op")
  | ["wrap", mn, mx] =>
    match parseInt mn, parseInt mx with
    | some mn, some mx =>
      match resolveCfg mn mx with
      | some c => (s, s!"wrap ok {c.minPkt} {c.maxPkt}")
      | none => (s, "wrap err")
    | _, _ => (s, "bad-op")
  | ["sent", _, _] => (s, "sent")
  | ["nop"] => (s, "nop")
  | "e2e" :: _ => (s, "e2e ok")
  | ["tx", snd, p, chunks, mid, pads] =>
    match snd.toNat?, ofHex p, chunks.toNat?, mid.toNat?, parseChunks pads with
    | some snd, some p, some chunks, some mid, some pads =>
      let long := decide (p.length ≠ 0) && decide ((p.getD 0 0).val ≥ 128)
      let ctr := perGet s.senders snd
      let idok := !long || decide (mid = (ctr + 1) % 256)
      let (draws, padok) := drawsOf s.cfg p chunks pads
      let res := writeTo s.cfg p chunks mid draws
      let s' := if long then { s with senders := aput s.senders snd (ctr + 1) } else s
      (s', showRes (fun fs => s!"tx {p.length} {showChunks fs} padok={showBool padok} idok={showBool idok}") res)
    | _, _, _, _, _ => (s, "bad-op")
  | "rx" :: now :: pcap :: ds =>
    match now.toNat?, pcap.toNat?, ds.mapM parseDgram with
    | some now, some pcap, some ds =>
      if ds.isEmpty then (s, "bad-op") else
      let rec go (st : St) (q : List (Nat × Bytes × Key)) (acc : List String) : Option (St × List String) :=
        match q with
        | [] => some (st, acc.reverse)
        | (src, d, tie) :: r =>
          match rxStep st src d now tie pcap with
          | .ok (st', o) => go st' r (showOut o :: acc)
          | _ => none
      match go s.rx.st ds [] with
      | some (st', outs) =>
        let lastSrc := (ds.getLast?.map (·.1)).getD 0
        ({ s with rx := { s.rx with st := st' } },
          s!"rx {",".intercalate outs} {showState st'} ps={perGet st'.per lastSrc} e={showSrc st' lastSrc}")
      | none => (s, "panic")
    | _, _, _ => (s, "bad-op")
  | ["adv", to] =>
    match to.toNat? with
    | some to =>
      let rx' := advance s.rx to
      ({ s with rx := rx' }, s!"adv {showState rx'.st}")
    | none => (s, "bad-op")
  | ["gc", now] =>
    match now.toNat? with
    | some now =>
      let st' := gcExpired s.rx.st now
      ({ s with rx := { s.rx with st := st' } }, s!"gc {showState st'}")
    | none => (s, "bad-op")
  | ["dec", d] =>
    match ofHex d with
    | some d =>
      (s, showRes (fun r => match r with
        | .val (h, pl) => s!"dec ok {h.pad} {h.mid} {h.idx} {h.total} {toHexF pl}"
        | .truncated => "dec truncated"
        | .invalid => "dec invalid") (decodeFrame d))
    | none => (s, "bad-op")
  | ["enc", pad, mid, idx, total, outLen, payload, rnd] =>
    match pad.toNat?, mid.toNat?, idx.toNat?, total.toNat?, outLen.toNat?, ofHex payload, ofHex rnd with
    | some pad, some mid, some idx, some total, some outLen, some payload, some rnd =>
      (s, showRes (fun r => match r with
        | .val f => s!"enc ok {toHexF f}"
        | .truncated => "enc truncated"
        | .invalid => "enc invalid")
        (encodeFrame { pad := pad, mid := mid, idx := idx, total := total } payload outLen rnd))
    | _, _, _, _, _, _, _ => (s, "bad-op")
  | ["dump"] => (s, showDump s.rx.st)
  | _ => (s, "bad-op")

end Hy.Drv.Gecko
