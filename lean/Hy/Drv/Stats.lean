/- `hydrv stats`: line-protocol driver for Hy.Model.Stats (C15).  Stateful: `reset <secret>`
   starts a fresh server.  Ids travel as hex tokens and are used as such (the model only
   compares ids); secrets, header values, methods, paths and the `clear` value are decoded to
   byte strings (one Char per byte). -/
import Hy.Model.Stats
import Hy.Drv.Util
namespace Hy.Drv.Stats
open Hy Hy.Stats Hy.Drv

structure DSt where
  secret : String
  st : St String
  seen : List String     -- ids met so far (hex tokens), sorted, no duplicates

def init : DSt := ⟨"", Hy.Stats.init, []⟩

def byteString (s : String) : Option String :=
  (ofHex s).map (fun bs => String.ofList (bs.map (fun b => Char.ofNat b.val)))

def insertSorted (x : String) : List String → List String
  | [] => [x]
  | y :: ys => if x = y then y :: ys else if x < y then x :: y :: ys else y :: insertSorted x ys

def see (d : DSt) (ids : List String) : DSt := { d with seen := ids.foldl (fun l x => insertSorted x l) d.seen }

def showTraffic (seen : List String) (m : String → Option Entry) : String :=
  let parts := seen.filterMap (fun k => (m k).map (fun e => s!"{k}={e.tx}/{e.rx}"))
  if parts.isEmpty then "-" else ",".intercalate parts

def showOnline (seen : List String) (m : String → Option Int) : String :=
  let parts := seen.filterMap (fun k => (m k).map (fun v => s!"{k}={v}"))
  if parts.isEmpty then "-" else ",".intercalate parts

def parseBody (s : String) : Option (Body String) :=
  if s = "bad" then some .bad
  else if s.startsWith "ids:" then
    let rest := (s.drop 4).toString
    if rest = "" then some (.ids []) else some (.ids (rest.splitOn ","))
  else none

def showResp (seen : List String) : Resp String → String
  | .unauthorized => "401"
  | .index => "200 index"
  | .notFound => "404"
  | .badRequest => "400"
  | .okEmpty => "200 empty"
  | .traffic m => "200 traffic " ++ showTraffic seen m
  | .census m => "200 online " ++ showOnline seen m
  | .dump => "200 dump"

/-- `totals <solo> <n> {id aTx cTx fTx aRx cRx fRx refusals kicks pending}` -/
def checkTotals (solo : Bool) : List String → Option String
  | [] => some "ok"
  | id :: a0 :: c0 :: f0 :: a1 :: c1 :: f1 :: rf :: kk :: pd :: rest => do
    let a0 ← a0.toNat?; let c0 ← c0.toNat?; let f0 ← f0.toNat?
    let a1 ← a1.toNat?; let c1 ← c1.toNat?; let f1 ← f1.toNat?
    let rf ← rf.toNat?; let kk ← kk.toNat?; let pd ← parseBool pd
    let t0 : Totals := ⟨a0, c0, f0, rf, kk, pd, solo⟩
    let t1 : Totals := ⟨a1, c1, f1, rf, kk, pd, solo⟩
    if t0.ok && t1.ok then checkTotals solo rest else some s!"viol {id}"
  | _ => none

/-- `census <n> {id on off shown}`: all notifications were paired; the listing must be
    `ofCount (on − off)` -/
def checkCensus : List String → Option String
  | [] => some "ok"
  | id :: on :: off :: shown :: rest => do
    let on ← on.toNat?; let off ← off.toNat?; let shown ← shown.toInt?
    let listed : Option Int := if shown = 0 then none else some shown
    if decide (off ≤ on) && decide (ofCount (on - off) = listed) then checkCensus rest else some s!"viol {id}"
  | _ => none

def step (d : DSt) (line : String) : DSt × String :=
  match fields line with
  | ["reset", sec] =>
    match byteString sec with
    | some sec => (⟨sec, Hy.Stats.init, []⟩, "reset")
    | none => (d, "bad-op")
  | ["log", id, tx, rx] =>
    match tx.toNat?, rx.toNat? with
    | some tx, some rx =>
      let r := logTraffic d.st id tx rx
      (see { d with st := r.1 } [id], "log " ++ showBool r.2)
    | _, _ => (d, "bad-op")
  | ["onl", id, on] =>
    match parseBool on with
    | some on => (see { d with st := logOnline d.st id on } [id], "onl")
    | none => (d, "bad-op")
  | ["http", hdr, method, path, clear, body] =>
    match byteString hdr, byteString method, byteString path, byteString clear, parseBody body with
    | some hdr, some method, some path, some clear, some body =>
      let d := match body with
        | .ids l => see d l
        | .bad => d
      let r := serve d.secret d.st ⟨hdr, method, path, clear, body⟩
      ({ d with st := r.1 }, showResp d.seen r.2)
    | _, _, _, _, _ => (d, "bad-op")
  | "totals" :: solo :: n :: rest =>
    match parseBool solo, n.toNat? with
    | some solo, some n =>
      if rest.length = 10 * n then (d, (checkTotals solo rest).getD "bad-op") else (d, "bad-op")
    | _, _ => (d, "bad-op")
  | "census" :: n :: rest =>
    match n.toNat? with
    | some n => if rest.length = 4 * n then (d, (checkCensus rest).getD "bad-op") else (d, "bad-op")
    | none => (d, "bad-op")
  | _ => (d, "bad-op")

end Hy.Drv.Stats
