/-
  Three-way outcome of a modelled Go function: a value, a rejection (Go returned an
  error / nil / dropped the input), or a Go runtime panic.  Panics are explicit so
  that "does not panic" is a theorem about the model and never an artefact of a
  totalised `getD` (DESIGN §3).
-/
namespace Hy

inductive Res (α : Type) where
  | ok : α → Res α
  | reject : Res α
  | panic : Res α
  deriving DecidableEq, Repr

namespace Res

def bind {α β} (r : Res α) (f : α → Res β) : Res β :=
  match r with
  | ok a => f a
  | reject => reject
  | panic => panic

instance : Monad Res where
  pure := ok
  bind := bind

def NoPanic {α} (r : Res α) : Prop := r ≠ panic

instance {α} [DecidableEq α] (r : Res α) : Decidable (NoPanic r) := by
  unfold NoPanic; exact inferInstance

@[simp] theorem noPanic_ok {α} (a : α) : NoPanic (ok a) := by simp [NoPanic]
@[simp] theorem noPanic_reject {α} : NoPanic (reject : Res α) := by simp [NoPanic]
@[simp] theorem not_noPanic_panic {α} : ¬ NoPanic (panic : Res α) := by simp [NoPanic]

theorem noPanic_bind {α β} (r : Res α) (f : α → Res β)
    (h1 : NoPanic r) (h2 : ∀ a, r = ok a → NoPanic (f a)) : NoPanic (r.bind f) := by
  cases r with
  | ok a => exact h2 a rfl
  | reject => simp [bind]
  | panic => exact absurd rfl h1

@[simp] theorem bind_ok {α β} (a : α) (f : α → Res β) : (ok a).bind f = f a := rfl
@[simp] theorem bind_reject {α β} (f : α → Res β) : (reject : Res α).bind f = reject := rfl
@[simp] theorem bind_panic {α β} (f : α → Res β) : (panic : Res α).bind f = panic := rfl
@[simp] theorem bind_eq {α β} (r : Res α) (f : α → Res β) : (r >>= f) = r.bind f := rfl
@[simp] theorem pure_eq {α} (a : α) : (pure a : Res α) = ok a := rfl

/-- Go slice primitives with bounds checks. -/
def idx {α} (l : List α) (i : Nat) : Res α :=
  match l[i]? with
  | some a => ok a
  | none => panic

/-- `l[i:j]` on a slice with `cap = len` -/
def slice {α} (l : List α) (i j : Nat) : Res (List α) :=
  if i ≤ j ∧ j ≤ l.length then ok ((l.take j).drop i) else panic

def sliceFrom {α} (l : List α) (i : Nat) : Res (List α) :=
  if i ≤ l.length then ok (l.drop i) else panic

def sliceTo {α} (l : List α) (j : Nat) : Res (List α) :=
  if j ≤ l.length then ok (l.take j) else panic

end Res
end Hy
