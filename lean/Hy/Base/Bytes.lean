/-
  Bytes: a byte is `Fin 256`; Go's shifts/masks on unsigned values are written as
  div/mod by powers of two so that `omega` closes codec goals (DESIGN §3).
  Core Lean only (this file is linked into the `hydrv` driver).
-/
namespace Hy

abbrev Byte := Fin 256
abbrev Bytes := List Byte

def byte (n : Nat) : Byte := ⟨n % 256, Nat.mod_lt _ (by decide)⟩

@[simp] theorem byte_val (n : Nat) : (byte n).val = n % 256 := rfl

theorem byte_of_val (b : Byte) : byte b.val = b := by
  apply Fin.ext; simp [byte]

/-- XOR of two bytes (on values; result is < 256 because both are). -/
def bxor (a b : Byte) : Byte := byte (a.val ^^^ b.val)

theorem xor_lt_256 {a b : Nat} (ha : a < 256) (hb : b < 256) : a ^^^ b < 256 :=
  Nat.xor_lt_two_pow (n := 8) ha hb

theorem bxor_bxor (a k : Byte) : bxor (bxor a k) k = a := by
  apply Fin.ext
  have h := xor_lt_256 a.isLt k.isLt
  simp only [bxor, byte_val, Nat.mod_eq_of_lt h]
  rw [Nat.xor_assoc, Nat.xor_self, Nat.xor_zero]
  exact Nat.mod_eq_of_lt a.isLt

/-- big-endian fixed width -/
def be16 (n : Nat) : Bytes := [byte (n / 256), byte n]
def be32 (n : Nat) : Bytes := [byte (n / 16777216), byte (n / 65536), byte (n / 256), byte n]

/-! ### hex (driver I/O) -/

def hexDigit (n : Nat) : Char :=
  if n < 10 then Char.ofNat (48 + n) else Char.ofNat (87 + n)

def toHex (bs : Bytes) : String :=
  String.ofList (bs.foldr (fun b acc => hexDigit (b.val / 16) :: hexDigit (b.val % 16) :: acc) [])

def hexVal (c : Char) : Option Nat :=
  let n := c.toNat
  if 48 ≤ n ∧ n ≤ 57 then some (n - 48)
  else if 97 ≤ n ∧ n ≤ 102 then some (n - 87)
  else if 65 ≤ n ∧ n ≤ 70 then some (n - 55)
  else none

def ofHexChars : List Char → Option Bytes
  | [] => some []
  | [_] => none
  | a :: b :: rest => do
    let x ← hexVal a
    let y ← hexVal b
    let r ← ofHexChars rest
    pure (byte (x * 16 + y) :: r)

/-- "-" denotes the empty string so that fields never vanish on a split. -/
def ofHex (s : String) : Option Bytes :=
  if s = "-" then some [] else ofHexChars s.toList

def toHexF (bs : Bytes) : String := if bs.isEmpty then "-" else toHex bs

def bytesOfString (s : String) : Bytes := s.toUTF8.toList.map (fun u => byte u.toNat)

end Hy
