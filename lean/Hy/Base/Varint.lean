/-
  QUIC variable-length integers as the code uses them:
  `enc` = protocol.varintPut / quicvarint.Append (minimal width),
  `encW w` = any width a peer may choose (w = 0,1,2,3 ↦ 1,2,4,8 bytes),
  `dec` = quicvarint.Read on a flat byte list.
-/
import Hy.Base.Bytes
namespace Hy.Varint
open Hy

def maxVarInt1 : Nat := 63
def maxVarInt2 : Nat := 16383
def maxVarInt4 : Nat := 1073741823
def maxVarInt8 : Nat := 4611686018427387903

def encW (w : Nat) (n : Nat) : Bytes :=
  match w with
  | 0 => [byte n]
  | 1 => [byte (n / 256 + 64), byte n]
  | 2 => [byte (n / 16777216 + 128), byte (n / 65536), byte (n / 256), byte n]
  | _ => [byte (n / 72057594037927936 + 192), byte (n / 281474976710656), byte (n / 1099511627776),
          byte (n / 4294967296), byte (n / 16777216), byte (n / 65536), byte (n / 256), byte n]

/-- minimal width for `n` (what `quicvarint.Len`/`varintPut` choose) -/
def minW (n : Nat) : Nat :=
  if n ≤ maxVarInt1 then 0 else if n ≤ maxVarInt2 then 1 else if n ≤ maxVarInt4 then 2 else 3

def enc (n : Nat) : Bytes := encW (minW n) n

/-- number of bytes of a width tag -/
def wlen (w : Nat) : Nat := match w with | 0 => 1 | 1 => 2 | 2 => 4 | _ => 8

/-- `w` can carry `n` -/
def fits (w n : Nat) : Prop :=
  (w = 0 → n < 64) ∧ (w = 1 → n < 16384) ∧ (w = 2 → n < 1073741824) ∧ (3 ≤ w → n < 4611686018427387904)

instance (w n : Nat) : Decidable (fits w n) := by unfold fits; exact inferInstance

def dec : Bytes → Option (Nat × Bytes)
  | [] => none
  | b :: rest =>
    let l := b.val / 64
    let b1 := b.val % 64
    if l = 0 then some (b1, rest)
    else if l = 1 then
      match rest with
      | b2 :: r => some (b2.val + b1 * 256, r)
      | _ => none
    else if l = 2 then
      match rest with
      | b2 :: b3 :: b4 :: r => some (b4.val + b3.val * 256 + b2.val * 65536 + b1 * 16777216, r)
      | _ => none
    else
      match rest with
      | b2 :: b3 :: b4 :: b5 :: b6 :: b7 :: b8 :: r =>
        some (b8.val + b7.val * 256 + b6.val * 65536 + b5.val * 16777216 + b4.val * 4294967296
              + b3.val * 1099511627776 + b2.val * 281474976710656 + b1 * 72057594037927936, r)
      | _ => none

theorem encW_length (w n : Nat) : (encW w n).length = wlen w := by
  match w with
  | 0 => rfl
  | 1 => rfl
  | 2 => rfl
  | _+3 => rfl

theorem fits_minW (n : Nat) (h : n ≤ maxVarInt8) : fits (minW n) n := by
  unfold minW fits maxVarInt1 maxVarInt2 maxVarInt4 maxVarInt8 at *
  split
  · omega
  · split
    · omega
    · split <;> omega

theorem dec_encW (w n : Nat) (rest : Bytes) (h : fits w n) :
    dec (encW w n ++ rest) = some (n, rest) := by
  obtain ⟨h0, h1, h2, h3⟩ := h
  match w, h0, h1, h2, h3 with
  | 0, h0, _, _, _ =>
    have := h0 rfl
    simp only [encW, List.cons_append, List.nil_append, dec, byte]
    simp only [show n % 256 / 64 = 0 by omega, ↓reduceIte, Option.some.injEq, Prod.mk.injEq, and_true]
    omega
  | 1, _, h1, _, _ =>
    have := h1 rfl
    simp only [encW, List.cons_append, List.nil_append, dec, byte]
    simp only [show (n / 256 + 64) % 256 / 64 = 1 by omega]
    simp
    omega
  | 2, _, _, h2, _ =>
    have := h2 rfl
    simp only [encW, List.cons_append, List.nil_append, dec, byte]
    simp only [show (n / 16777216 + 128) % 256 / 64 = 2 by omega]
    simp
    omega
  | w+3, _, _, _, h3 =>
    have := h3 (by omega)
    simp only [encW, List.cons_append, List.nil_append, dec, byte]
    simp only [show (n / 72057594037927936 + 192) % 256 / 64 = 3 by omega]
    simp
    omega

theorem dec_enc (n : Nat) (rest : Bytes) (h : n ≤ maxVarInt8) :
    dec (enc n ++ rest) = some (n, rest) :=
  dec_encW _ _ _ (fits_minW n h)

/-- a successful decode consumed a non-empty prefix and the value is < 2^62 -/
theorem dec_some_length {bs : Bytes} {n : Nat} {r : Bytes} (h : dec bs = some (n, r)) :
    r.length < bs.length ∧ bs.length ≤ r.length + 8 := by
  unfold dec at h
  split at h
  · simp at h
  · rename_i b rest
    simp only at h
    split at h
    · simp only [Option.some.injEq, Prod.mk.injEq] at h; obtain ⟨_, rfl⟩ := h; simp only [List.length_cons]; omega
    · split at h
      · split at h
        · simp only [Option.some.injEq, Prod.mk.injEq] at h; obtain ⟨_, rfl⟩ := h; simp only [List.length_cons]; omega
        · simp at h
      · split at h
        · split at h
          · simp only [Option.some.injEq, Prod.mk.injEq] at h; obtain ⟨_, rfl⟩ := h; simp only [List.length_cons]; omega
          · simp at h
        · split at h
          · simp only [Option.some.injEq, Prod.mk.injEq] at h; obtain ⟨_, rfl⟩ := h; simp only [List.length_cons]; omega
          · simp at h

end Hy.Varint
