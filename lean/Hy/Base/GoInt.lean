/-
  Go's fixed-width integer semantics over mathematical integers, for the definitions that
  `harness/gen/translate.go` regenerates from the Go source (`Hy/Gen/Trans*.lean`).

  A Go value of any integer type is represented by the `Int` it denotes.  Every arithmetic
  result of type T is passed through the wrap function of T (`u8 … u64`, `i8 … i64`), which
  is Go's wrap-around (unsigned: mod 2^n; signed: two's complement); the same function is the
  conversion `T(x)` from any integer type.  `int`/`uint` are 64 bits wide (64-bit targets).
  Signed `/` and `%` are `Int.tdiv`/`Int.tmod` (truncated); on unsigned operands `/` and `%`
  are the ordinary ones.  Right shift by a constant k is `/ 2^k` (floor: arithmetic shift for
  signed values); left shift is `* 2^k` followed by the wrap.  Bit operations are emitted for
  unsigned (hence non-negative) operands only and go through `Nat`.

  Everything is written with literal powers of two and `%` so that `omega` can work with the
  unfolded definitions.  Core Lean only.
-/
import Hy.Base.Bytes
namespace Hy.GoInt

def u8 (x : Int) : Int := x % 256
def u16 (x : Int) : Int := x % 65536
def u32 (x : Int) : Int := x % 4294967296
def u64 (x : Int) : Int := x % 18446744073709551616

def i8 (x : Int) : Int := (x + 128) % 256 - 128
def i16 (x : Int) : Int := (x + 32768) % 65536 - 32768
def i32 (x : Int) : Int := (x + 2147483648) % 4294967296 - 2147483648
def i64 (x : Int) : Int := (x + 9223372036854775808) % 18446744073709551616 - 9223372036854775808

/-- `a | b` on non-negative operands -/
def lor (a b : Int) : Int := Int.ofNat (a.toNat ||| b.toNat)
/-- `a & b` on non-negative operands -/
def land (a b : Int) : Int := Int.ofNat (a.toNat &&& b.toNat)
/-- `a ^ b` on non-negative operands -/
def lxor (a b : Int) : Int := Int.ofNat (a.toNat ^^^ b.toNat)

theorem u8_of_range {x : Int} (h0 : 0 ≤ x) (h1 : x < 256) : u8 x = x := by unfold u8; omega
theorem u16_of_range {x : Int} (h0 : 0 ≤ x) (h1 : x < 65536) : u16 x = x := by unfold u16; omega
theorem u32_of_range {x : Int} (h0 : 0 ≤ x) (h1 : x < 4294967296) : u32 x = x := by unfold u32; omega
theorem u64_of_range {x : Int} (h0 : 0 ≤ x) (h1 : x < 18446744073709551616) : u64 x = x := by
  unfold u64; omega
theorem i64_of_range {x : Int} (h0 : -9223372036854775808 ≤ x) (h1 : x < 9223372036854775808) :
    i64 x = x := by unfold i64; omega

theorem u64_natCast {n : Nat} (h : n < 18446744073709551616) : u64 (n : Int) = (n : Int) := by
  unfold u64; omega
theorem i64_natCast {n : Nat} (h : n < 9223372036854775808) : i64 (n : Int) = (n : Int) := by
  unfold i64; omega

/-! `x | tag` when the bits do not overlap: the three cases `varintPut` uses -/
theorem lor_64 {x : Int} (h0 : 0 ≤ x) (h1 : x < 64) : lor x 64 = x + 64 := by
  have h : ∀ a : Fin 64, a.val ||| 64 = a.val + 64 := by decide
  have hx : x.toNat < 64 := by omega
  unfold lor
  rw [show (64 : Int).toNat = 64 from rfl, h ⟨x.toNat, hx⟩]
  simp only [Int.ofNat_eq_natCast, Int.natCast_add]
  omega

theorem lor_128 {x : Int} (h0 : 0 ≤ x) (h1 : x < 64) : lor x 128 = x + 128 := by
  have h : ∀ a : Fin 64, a.val ||| 128 = a.val + 128 := by decide
  have hx : x.toNat < 64 := by omega
  unfold lor
  rw [show (128 : Int).toNat = 128 from rfl, h ⟨x.toNat, hx⟩]
  simp only [Int.ofNat_eq_natCast, Int.natCast_add]
  omega

theorem lor_192 {x : Int} (h0 : 0 ≤ x) (h1 : x < 64) : lor x 192 = x + 192 := by
  have h : ∀ a : Fin 64, a.val ||| 192 = a.val + 192 := by decide
  have hx : x.toNat < 64 := by omega
  unfold lor
  rw [show (192 : Int).toNat = 192 from rfl, h ⟨x.toNat, hx⟩]
  simp only [Int.ofNat_eq_natCast, Int.natCast_add]
  omega

/-- rewrites both sides of the goal into a normal form modulo commutativity / associativity of `+`, `*`,
    `min`, `max` (so that `a+b` rewritten to `b+a` in the Go source keeps an equivalence proof) -/
macro "go_ac_norm" : tactic =>
  `(tactic| try simp only [Int.add_comm, Int.add_left_comm, Int.add_assoc, Int.mul_comm, Int.mul_left_comm,
        Int.mul_assoc, Int.max_comm, Int.min_comm])

/-- closes `a = b` when the two sides are equal up to that normal form -/
macro "go_ac_rfl" : tactic => `(tactic| first | rfl | (go_ac_norm; done))

/-- case split on the first `if` of the goal, reduce the other `if`s on the same condition, close by `go_ac_rfl` -/
macro "go_split" : tactic =>
  `(tactic| (split <;> rename_i h <;> (try simp only [h, ↓reduceIte]) <;> (try go_ac_rfl)))

/-! ### abstraction between the translator's "list of stores" and the models' byte lists -/

/-- the stores `b[k] = bs[0]; b[k+1] = bs[1]; …` as the translator reports them: (index, byte) pairs -/
def storesFrom (k : Nat) : Hy.Bytes → List (Int × Int)
  | [] => []
  | b :: bs => ((k : Int), (b.val : Int)) :: storesFrom (k + 1) bs

/-- a Go function that writes exactly the bytes `bs` to `b[0..]`, in order, each index once -/
def storesOf (bs : Hy.Bytes) : List (Int × Int) := storesFrom 0 bs

end Hy.GoInt
