/-
  C16 — model of core/client/client.go: NewClient / (*clientImpl).connect / (*clientImpl).Close
  as straight-line programs over the three resources a client holds:

    pkt   the net.PacketConn returned by ConnFactory.New
    tr    the quic.Transport built on it
    conn  the quic.Conn that tr.DialEarly returns inside rt.RoundTrip

  A resource is `none` (never acquired) or `some n` (acquired, closed n times), so "closed
  exactly once" is `some 1`. Closing a resource that was never acquired is a nil dereference in
  Go (`conn.CloseWithError` on a nil *quic.Conn); the model records it (`nilDeref`) instead of
  hiding it. Which stage fails is the environment's answer (`Exit`), an INPUT of the model:

    factoryErr    ConnFactory.New returned an error                          → return nil, err
    dialErr       tr.DialEarly failed inside RoundTrip (handshake error/timeout): conn stays nil
    roundTripErr  DialEarly succeeded, RoundTrip failed afterwards (connection lost mid-auth)
    authErr       the server answered with a status other than 233           → AuthError
    ok            status 233: c.pktConn, c.tr, c.conn are set                → HandshakeInfo

  Core Lean only (linked into hydrv).
-/
namespace Hy.Connect

/-- `none` = never acquired; `some n` = acquired and closed n times -/
abbrev Rsrc := Option Nat

structure R3 where
  pkt  : Rsrc := none
  tr   : Rsrc := none
  conn : Rsrc := none
  /-- a Close was called through a nil pointer (Go would panic) -/
  nilDeref : Bool := false
deriving DecidableEq, Repr

inductive Exit
  | factoryErr | dialErr | roundTripErr | authErr | ok
deriving DecidableEq, Repr

/-- what connect() / NewClient return besides the client -/
inductive CRet
  | newErr       -- the factory's error, returned as is
  | connectErr   -- errors.ConnectError
  | authErr      -- errors.AuthError
  | cfgErr       -- errors.ConfigError from verifyAndFill (NewClient only)
  | ok
deriving DecidableEq, Repr

def closePkt (r : R3) : R3 :=
  match r.pkt with
  | some n => { r with pkt := some (n + 1) }
  | none => { r with nilDeref := true }

def closeTr (r : R3) : R3 :=
  match r.tr with
  | some n => { r with tr := some (n + 1) }
  | none => { r with nilDeref := true }

def closeConn (r : R3) : R3 :=
  match r.conn with
  | some n => { r with conn := some (n + 1) }
  | none => { r with nilDeref := true }

/-- (*clientImpl).connect, statement by statement (configuration translation and the
    congestion-control selection touch none of the three resources and are left out) -/
def connect (e : Exit) : R3 × CRet :=
  -- pktConn, err := c.config.ConnFactory.New(c.config.ServerAddr); if err != nil { return nil, err }
  if e = .factoryErr then ({}, .newErr)
  else
    let r : R3 := { pkt := some 0 }
    -- tr := &quic.Transport{Conn: pktConn, …}
    let r := { r with tr := some 0 }
    -- resp, err := rt.RoundTrip(req)     (its Dial callback: qc, err := tr.DialEarly(…); conn = qc)
    let r := if e = .dialErr then r else { r with conn := some 0 }
    if e = .dialErr ∨ e = .roundTripErr then
      -- if conn != nil { _ = conn.CloseWithError(…) }; _ = tr.Close(); _ = pktConn.Close()
      let r := if r.conn.isSome then closeConn r else r
      let r := closeTr r
      let r := closePkt r
      (r, .connectErr)
    else if e = .authErr then
      -- if resp.StatusCode != protocol.StatusAuthOK { conn.CloseWithError; tr.Close; pktConn.Close }
      let r := closeConn r
      let r := closeTr r
      let r := closePkt r
      (r, .authErr)
    else
      -- c.pktConn = pktConn; c.tr = tr; c.conn = conn
      (r, .ok)

/-- (*clientImpl).Close: `_ = c.conn.CloseWithError(…); _ = c.tr.Close(); _ = c.pktConn.Close()` -/
def close (r : R3) : R3 := closePkt (closeTr (closeConn r))

/-- NewClient: verifyAndFill, then connect; a client is returned only on success
    (`return nil, nil, err` otherwise). Result: resources, error, "a client was returned". -/
def newClient (cfgValid : Bool) (e : Exit) : R3 × CRet × Bool :=
  if !cfgValid then ({}, .cfgErr, false)
  else
    let (r, ret) := connect e
    (r, ret, decide (ret = .ok))

/-- what a successfully connected client owns: all three, none closed -/
def owned : R3 := { pkt := some 0, tr := some 0, conn := some 0 }

/-- some acquired resource has not been closed yet -/
def held (r : R3) : Bool := r.pkt == some 0 || r.tr == some 0 || r.conn == some 0

/-- a resource is released: never acquired, or closed exactly once -/
def Rsrc.once : Rsrc → Bool
  | none => true
  | some n => n == 1

/-- a resource is released: never acquired, or closed at least once -/
def Rsrc.released : Rsrc → Bool
  | none => true
  | some n => n != 0

/-! ### the exit table of connect(), for the tie to the source (go/ast facts)

The extractor reports, for every `return` of connect() in source order, which Close calls precede
it on its path, as a bit mask: 1 = conn.CloseWithError unconditionally, 8 = conn.CloseWithError
guarded by `conn != nil`, 2 = tr.Close, 4 = pktConn.Close. `modelMask` is the same thing read off
a RUN of the model (1 = conn closed, 2 = tr closed, 4 = pkt closed); `applyGuard` evaluates the
guard for a path on which conn was / was not acquired. -/

def modelMask (e : Exit) : Nat :=
  let r := (connect e).1
  let closed (x : Rsrc) : Bool := match x with | some n => n != 0 | none => false
  (if closed r.conn then 1 else 0) + (if closed r.tr then 2 else 0) + (if closed r.pkt then 4 else 0)

def applyGuard (m : Nat) (connAcquired : Bool) : Nat :=
  m % 8 + (if m / 8 % 2 = 1 ∧ connAcquired then 1 else 0)

end Hy.Connect
