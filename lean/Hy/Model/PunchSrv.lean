/-
  Model of extras/realm/server_punch.go (C20): ServerPuncher.Respond / addAttempt /
  removeAttempt / dispatch, composed with the conn model of Hy.Model.Punch, as a labelled
  step system over ANY number of concurrent Respond calls (indexed by a natural number).

  One call = one small program; each lock region / channel operation / call into the conn is
  an atomic step (DESIGN §3):

    call        Respond entered; argument checks (id, metadata, candidates, timeout, interval)
    reg         addAttempt, first lock region: duplicate id → error, else p.attempts[id] = ch
    connAdd     conn.AddPunchAttempt(id, meta); on success the first hello burst is sent
    rollback    (AddPunchAttempt failed) second lock region: delete(p.attempts, id)
    hello       ticker: sendPunchPackets(hello) to every candidate
    event       `case ev := <-events`: hello → send an ack to ev.From; the call completes
    timeout / cancel   ctx.Done() observed in the loop
    connRemove  deferred removeAttempt: conn.RemovePunchAttempt(id)
    pmapDelete  deferred removeAttempt: lock; delete(p.attempts, id); unlock — Respond returns
    recv / scan          the conn's reader (Hy.Model.Punch.step)
    dispTake / dispLookup / dispSend   the dispatch goroutine: receive from conn.Events(),
                look the channel up under the lock, non-blocking send to it

  A step on a label that is not enabled is the identity, so every list of labels is a
  schedule.  Inputs: the candidate list (computed by punch_engine.candidatePunchAddrs, not
  modelled) and whether the timeout/interval configuration is acceptable.  Core Lean only.
-/
import Hy.Model.Punch
namespace Hy.Punch
open Hy

inductive Outcome where
  | success (peer : AddrPort) (type : Byte)
  | timeout
  | cancelled
  | duplicate
  | invalid
  | addFailed
  deriving DecidableEq, Repr

inductive Pc where
  | idle
  | validated
  | needConnAdd
  | rollback
  | running
  | removing1 (o : Outcome)
  | removing2 (o : Outcome)
  | returned (o : Outcome)
  deriving DecidableEq, Repr

structure Proc where
  id : Id
  md : Meta
  cands : List AddrPort
  pc : Pc
  queue : List PunchEvent          -- the attempt's event channel (capacity 16)
  deriving Repr

def Proc.idle : Proc := ⟨[], ⟨[], []⟩, [], .idle, []⟩

structure Send where
  k : Nat
  type : Byte
  dst : AddrPort
  deriving DecidableEq, Repr

structure ConnOp where
  k : Nat
  add : Bool                       -- true: AddPunchAttempt, false: RemovePunchAttempt
  id : Id
  deriving DecidableEq, Repr

inductive Disp where
  | idle
  | took (ev : PunchEvent)
  | found (ev : PunchEvent) (ch : Option Nat)
  deriving DecidableEq, Repr

def attemptChanCap : Nat := 16

structure Srv where
  sys : Sys                        -- the conn, its reader and the log of classified packets
  pmap : Id → Option Nat           -- p.attempts: id ↦ the call whose channel is registered
  procs : Nat → Proc
  disp : Disp
  sent : List Send                 -- punch packets written to the conn by the calls, oldest first
  connOps : List ConnOp            -- successful registry operations on the conn, by whom

def Srv.init (c : Conn) : Srv := ⟨Sys.init c, fun _ => none, fun _ => Proc.idle, .idle, [], []⟩

def setProc (f : Nat → Proc) (k : Nat) (p : Proc) : Nat → Proc := fun x => if x = k then p else f x
def setMap (f : Id → Option Nat) (id : Id) (v : Option Nat) : Id → Option Nat :=
  fun x => if x = id then v else f x

inductive SLabel where
  | call (k : Nat) (id : Id) (m : Meta) (cands : List AddrPort) (cfgOk : Bool)
  | reg (k : Nat)
  | connAdd (k : Nat)
  | rollback (k : Nat)
  | hello (k : Nat)
  | event (k : Nat)
  | timeout (k : Nat)
  | cancel (k : Nat)
  | connRemove (k : Nat)
  | pmapDelete (k : Nat)
  | recv (p : PktIn)
  | scan
  | dispTake
  | dispLookup
  | dispSend
  deriving Repr

/-- Respond's checks on PunchConfig (milliseconds here): 0 means "use the default" (10 s / 100 ms),
    a negative timeout or interval is refused -/
def cfgOk (timeout interval : Int) : Bool := decide (0 ≤ timeout) && decide (0 ≤ interval)

def hellos (k : Nat) (cands : List AddrPort) : List Send := cands.map fun a => ⟨k, typeHello, a⟩

def withPc (s : Srv) (k : Nat) (pc : Pc) : Srv :=
  { s with procs := setProc s.procs k { s.procs k with pc := pc } }

def sstep (H : Bytes → Bytes) (s : Srv) : SLabel → Srv
  | .call k id m cands cfgOk =>
    match (s.procs k).pc with
    | .idle =>
      let ok := id ≠ [] ∧ isOk (decodeMeta m) = true ∧ cands ≠ [] ∧ cfgOk = true
      { s with procs := setProc s.procs k ⟨id, m, cands, if ok then .validated else .returned .invalid, []⟩ }
    | _ => s
  | .reg k =>
    match (s.procs k).pc with
    | .validated =>
      match s.pmap (s.procs k).id with
      | some _ => withPc s k (.returned .duplicate)
      | none => { withPc s k .needConnAdd with pmap := setMap s.pmap (s.procs k).id (some k) }
    | _ => s
  | .connAdd k =>
    match (s.procs k).pc with
    | .needConnAdd =>
      match addAttempt s.sys.conn.reg (s.procs k).id (s.procs k).md with
      | .ok r =>
        { withPc s k .running with
          sys := { s.sys with conn := { s.sys.conn with reg := r } },
          connOps := s.connOps ++ [⟨k, true, (s.procs k).id⟩],
          sent := s.sent ++ hellos k (s.procs k).cands }
      | .reject => withPc s k .rollback
      | .panic => { withPc s k .rollback with sys := { s.sys with panicked := true } }
    | _ => s
  | .rollback k =>
    match (s.procs k).pc with
    | .rollback => { withPc s k (.returned .addFailed) with pmap := setMap s.pmap (s.procs k).id none }
    | _ => s
  | .hello k =>
    match (s.procs k).pc with
    | .running => { s with sent := s.sent ++ hellos k (s.procs k).cands }
    | _ => s
  | .event k =>
    match (s.procs k).pc, (s.procs k).queue with
    | .running, ev :: rest =>
      { s with
        procs := setProc s.procs k { s.procs k with pc := .removing1 (.success ev.src ev.type), queue := rest },
        sent := if ev.type = typeHello then s.sent ++ [⟨k, typeAck, ev.src⟩] else s.sent }
    | _, _ => s
  | .timeout k =>
    match (s.procs k).pc with
    | .running => withPc s k (.removing1 .timeout)
    | _ => s
  | .cancel k =>
    match (s.procs k).pc with
    | .running => withPc s k (.removing1 .cancelled)
    | _ => s
  | .connRemove k =>
    match (s.procs k).pc with
    | .removing1 o =>
      { withPc s k (.removing2 o) with
        sys := { s.sys with conn := { s.sys.conn with reg := s.sys.conn.reg.remove (s.procs k).id } },
        connOps := s.connOps ++ [⟨k, false, (s.procs k).id⟩] }
    | _ => s
  | .pmapDelete k =>
    match (s.procs k).pc with
    | .removing2 o => { withPc s k (.returned o) with pmap := setMap s.pmap (s.procs k).id none }
    | _ => s
  | .recv p => { s with sys := step H s.sys (.recv p) }
  | .scan => { s with sys := step H s.sys .scan }
  | .dispTake =>
    match s.disp, s.sys.conn.events with
    | .idle, ev :: rest =>
      { s with disp := .took ev, sys := { s.sys with conn := { s.sys.conn with events := rest } } }
    | _, _ => s
  | .dispLookup =>
    match s.disp with
    | .took ev => { s with disp := .found ev (s.pmap ev.id) }
    | _ => s
  | .dispSend =>
    match s.disp with
    | .found ev (some k) =>
      { s with disp := .idle,
               procs := setProc s.procs k { s.procs k with queue := offer (s.procs k).queue attemptChanCap ev } }
    | .found _ none => { s with disp := .idle }
    | _ => s

def srun (H : Bytes → Bytes) (s : Srv) (sched : List SLabel) : Srv := sched.foldl (sstep H) s

end Hy.Punch
