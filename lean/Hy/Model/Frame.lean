/-
  Model of core/internal/protocol/proxy.go: ReadTCPRequest / WriteTCPRequest /
  ReadTCPResponse / WriteTCPResponse, and the server-side "consume the frame type"
  prefix (core/server/server.go handleStream → quicvarint.Read).

  The readers are written ONCE, generically over the two primitives the Go code
  uses on its io.Reader:
    rb   = quicvarint.byteReader.ReadByte  (one byte; loops over empty reads)
    take = io.ReadFull / io.CopyN(io.Discard)  (exactly n bytes or an EOF-class error)
  and instantiated on (a) the flat byte stream and (b) a stream that the transport
  delivers as arbitrary chunks (empty reads included).  `Hy.Proofs.Frame` shows the
  two agree for every chunking.
-/
import Hy.Base.Bytes
import Hy.Base.Varint
import Hy.Gen.Core
namespace Hy.Frame
open Hy

structure Ops (σ : Type) where
  rb : σ → Option (Byte × σ)
  take : Nat → σ → Option (Bytes × σ)

/-- outcome of a reader: value and unread stream; EOF-class error (everything the
    transport had was consumed); protocol error with the stream position at which
    the reader gave up. -/
inductive Rd (σ α : Type) where
  | ok (a : α) (s : σ)
  | eof
  | proto (s : σ)
  deriving Repr, DecidableEq

/-- read `k` more big-endian bytes into `acc` -/
def rbN {σ} (O : Ops σ) : Nat → Nat → σ → Option (Nat × σ)
  | 0, acc, s => some (acc, s)
  | k+1, acc, s =>
    match O.rb s with
    | none => none
    | some (b, s') => rbN O k (acc * 256 + b.val) s'

/-- quicvarint.Read through a ByteReader -/
def varint {σ} (O : Ops σ) (s : σ) : Option (Nat × σ) :=
  match O.rb s with
  | none => none
  | some (b, s1) =>
    let l := b.val / 64
    let b1 := b.val % 64
    rbN O (if l = 0 then 0 else if l = 1 then 1 else if l = 2 then 3 else 7) b1 s1

/-- ReadTCPRequest (after the frame type has been consumed) -/
def readRequest {σ} (O : Ops σ) (s : σ) : Rd σ Bytes :=
  match varint O s with
  | none => .eof
  | some (addrLen, s1) =>
    if addrLen = 0 ∨ addrLen > Gen.MaxAddressLength then .proto s1
    else
      match O.take addrLen s1 with
      | none => .eof
      | some (addr, s2) =>
        match varint O s2 with
        | none => .eof
        | some (padLen, s3) =>
          if padLen > Gen.MaxPaddingLength then .proto s3
          else if padLen > 0 then
            match O.take padLen s3 with
            | none => .eof
            | some (_, s4) => .ok addr s4
          else .ok addr s3

/-- argument of `make([]byte, addrLen)` in ReadTCPRequest; 0 when not reached -/
def requestAlloc {σ} (O : Ops σ) (s : σ) : Nat :=
  match varint O s with
  | none => 0
  | some (addrLen, _) =>
    if addrLen = 0 ∨ addrLen > Gen.MaxAddressLength then 0 else addrLen

/-- ReadTCPResponse -/
def readResponse {σ} (O : Ops σ) (s : σ) : Rd σ (Bool × Bytes) :=
  match O.take 1 s with
  | none => .eof
  | some (st, s0) =>
    match varint O s0 with
    | none => .eof
    | some (msgLen, s1) =>
      if msgLen > Gen.MaxMessageLength then .proto s1
      else
        match (if msgLen > 0 then O.take msgLen s1 else some ([], s1)) with
        | none => .eof
        | some (msg, s2) =>
          match varint O s2 with
          | none => .eof
          | some (padLen, s3) =>
            if padLen > Gen.MaxPaddingLength then .proto s3
            else if padLen > 0 then
              match O.take padLen s3 with
              | none => .eof
              | some (_, s4) => .ok (decide (st = [byte 0]), msg) s4
            else .ok (decide (st = [byte 0]), msg) s3

def responseAlloc {σ} (O : Ops σ) (s : σ) : Nat :=
  match O.take 1 s with
  | none => 0
  | some (_, s0) =>
    match varint O s0 with
    | none => 0
    | some (msgLen, _) => if msgLen > Gen.MaxMessageLength then 0 else msgLen

/-- the server's stream dispatcher: read the frame type, then the request -/
def readFramedRequest {σ} (O : Ops σ) (s : σ) : Rd σ Bytes :=
  match varint O s with
  | none => .eof
  | some (ft, s1) => if ft = Gen.FrameTypeTCPRequest then readRequest O s1 else .proto s1

/-! ### flat stream -/

def takeF (n : Nat) (l : Bytes) : Option (Bytes × Bytes) :=
  if n ≤ l.length then some (l.take n, l.drop n) else none

def rbF : Bytes → Option (Byte × Bytes)
  | [] => none
  | b :: r => some (b, r)

def flat : Ops Bytes := { rb := rbF, take := takeF }

/-! ### chunked stream -/

def rbC : List Bytes → Option (Byte × List Bytes)
  | [] => none
  | [] :: cs => rbC cs
  | (b :: c) :: cs => some (b, c :: cs)

def takeC (n : Nat) : List Bytes → Option (Bytes × List Bytes)
  | [] => if n = 0 then some ([], []) else none
  | c :: cs =>
    if n ≤ c.length then some (c.take n, c.drop n :: cs)
    else match takeC (n - c.length) cs with
      | some (bs, r) => some (c ++ bs, r)
      | none => none

def chunked : Ops (List Bytes) := { rb := rbC, take := takeC }

/-! ### writers (padding is an input: the Go code draws it at random) -/

def writeRequest (addr pad : Bytes) : Bytes :=
  Varint.enc Gen.FrameTypeTCPRequest ++ Varint.enc addr.length ++ addr ++ Varint.enc pad.length ++ pad

def writeResponse (ok : Bool) (msg pad : Bytes) : Bytes :=
  [if ok then byte 0 else byte 1] ++ Varint.enc msg.length ++ msg ++ Varint.enc pad.length ++ pad

/-- what a peer may send instead: any legal width per length field -/
def writeRequestW (w1 w2 : Nat) (addr pad : Bytes) : Bytes :=
  Varint.encW w1 addr.length ++ addr ++ Varint.encW w2 pad.length ++ pad

def writeResponseW (w1 w2 : Nat) (ok : Bool) (msg pad : Bytes) : Bytes :=
  [if ok then byte 0 else byte 1] ++ Varint.encW w1 msg.length ++ msg ++ Varint.encW w2 pad.length ++ pad

end Hy.Frame
