/-
  Executable model of extras/utils/portunion.go (C19): ParsePortUnion, Normalize, Ports,
  Contains.  Core Lean only (linked into `hydrv`).

  A Go string is a byte string; the model works on `List Char` where the driver maps every
  byte b to `Char.ofNat b`.  The code only ever compares bytes with ',', '-', the digits and
  the literals "all" / "*", so any byte >= 128 is just "some other character", as in Go
  (UTF-8 continuation bytes never equal an ASCII byte, so `strings.Split` on a 1-byte
  separator is byte-wise).
  Ports are `Nat`; the `uint16`/`uint32` widths of the Go code are modelled explicitly where
  the code converts (`% 65536`, `% 4294967296`).
-/
namespace Hy.PortUnion

/-- PortRange{Start, End} -/
structure R where
  s : Nat
  e : Nat
deriving DecidableEq, Repr

abbrev PU := List R

/-! ### strconv.ParseUint(s, 10, 16) -/

def digitVal (c : Char) : Nat := c.toNat - 48

/-- the accumulation loop of `strconv.ParseUint` for base 10, bitSize 16: a non-digit is a
    syntax error, a value above `maxVal = 65535` a range error (returned at once); the
    `n >= cutoff` test on the 64-bit accumulator can never fire because `n <= 65535`. -/
def parseUintLoop : Nat → List Char → Option Nat
  | n, [] => some n
  | n, c :: cs =>
    if c.isDigit then
      let n1 := 10 * n + digitVal c
      if n1 > 65535 then none else parseUintLoop n1 cs
    else none

def parseUint16 (cs : List Char) : Option Nat :=
  if cs.isEmpty then none else parseUintLoop 0 cs

/-! ### strings.Split(s, sep) for a one-byte separator, strings.Contains -/

def splitOn (sep : Char) : List Char → List (List Char)
  | [] => [[]]
  | c :: cs =>
    if c = sep then [] :: splitOn sep cs
    else
      match splitOn sep cs with
      | h :: t => (c :: h) :: t
      | [] => [[c]]

/-! ### ParsePortUnion -/

/-- one comma-separated item of the expression -/
def parseItem (cs : List Char) : Option R :=
  if cs.contains '-' then
    match splitOn '-' cs with
    | [a, b] =>
      match parseUint16 a, parseUint16 b with
      | some s, some e => if s > e then some ⟨e % 65536, s % 65536⟩ else some ⟨s % 65536, e % 65536⟩
      | _, _ => none
    | _ => none
  else
    match parseUint16 cs with
    | some p => some ⟨p % 65536, p % 65536⟩
    | none => none

/-- the `for _, portStr := range portStrs` loop: first failing item makes the whole parse fail -/
def parseItems : List (List Char) → Option PU
  | [] => some []
  | it :: rest =>
    match parseItem it with
    | none => none
    | some r =>
      match parseItems rest with
      | none => none
      | some rs => some (r :: rs)

/-- sort.Slice order: by Start, then by End.  Two ranges that compare equal are identical,
    so the (unstable) sort has exactly one possible result. -/
def le (a b : R) : Bool := a.s < b.s || (a.s == b.s && a.e ≤ b.e)

/-- the sorted list (insertion sort: the result of sorting by a total order whose ties are
    identical elements does not depend on the algorithm) -/
def insertBy (a : R) : List R → List R
  | [] => [a]
  | b :: l => if le a b then a :: b :: l else b :: insertBy a l

def sortR : List R → List R
  | [] => []
  | a :: l => insertBy a (sortR l)

/-- `uint32(current.Start) <= uint32(last.End)+1` -/
def touches (last c : R) : Bool :=
  c.s % 4294967296 ≤ (last.e % 4294967296 + 1) % 4294967296

/-- the merge loop of Normalize; `acc` is `normalized` in REVERSE (its head is `last`) -/
def mergeLoop : List R → List R → List R
  | acc, [] => acc
  | [], c :: rest => mergeLoop [c] rest
  | last :: acc, c :: rest =>
    if touches last c then
      mergeLoop ({ last with e := if c.e > last.e then c.e else last.e } :: acc) rest
    else mergeLoop (c :: last :: acc) rest

def normalize (u : PU) : PU :=
  if u.isEmpty then u else (mergeLoop [] (sortR u)).reverse

def allChars : List Char := ['a', 'l', 'l']

def parseChars (cs : List Char) : Option PU :=
  if cs = allChars ∨ cs = ['*'] then some [⟨0, 65535⟩]
  else
    match parseItems (splitOn ',' cs) with
    | none => none
    | some rs => if rs.isEmpty then none else some (normalize rs)

def parse (s : String) : Option PU := parseChars s.toList

/-! ### Ports, Contains -/

/-- `for i := uint32(r.Start); i <= uint32(r.End); i++ { append(uint16(i)) }` -/
def portsOfRange (r : R) : List Nat :=
  (List.range' (r.s % 4294967296) (r.e % 4294967296 + 1 - r.s % 4294967296)).map (· % 65536)

def ports (u : PU) : List Nat := u.flatMap portsOfRange

def R.has (r : R) (p : Nat) : Bool := r.s ≤ p && p ≤ r.e

def contains (u : PU) (p : Nat) : Bool := u.any (·.has p)

end Hy.PortUnion
