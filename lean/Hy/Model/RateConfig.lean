/-
  Where the declared limits of C10 come from: executable model of

    app/internal/utils/bpsconv.go   StringToBps, ConvBandwidth
    app/cmd/client.go               (*clientConfig).fillBandwidthConfig
    app/cmd/server.go               (*serverConfig).fillBandwidthConfig
    core/server/config.go           (*Config).fill — the 65536 floor on MaxTx / MaxRx
    core/client/config.go           (*Config).verifyAndFill — no bandwidth check at all

  A Go string is a byte string; `for i, c := range s`, strings.TrimSpace and
  strings.ToLower see it as runes (invalid UTF-8 = U+FFFD, one byte wide), so the model
  decodes first (`decode`, utf8.DecodeRuneInString) and works on code points. The two
  Unicode facts used — which runes ≥ 0x80 are `unicode.IsSpace`, which runes ≥ 0x80
  lower-case to an ASCII rune — are regenerated from the compiled unicode tables into
  Hy.Gen.App and compared in Props/C10.

  `stringToBps` is the code as it is: `v * unit / 8` is uint64 arithmetic, so the product
  is taken modulo 2^64 (an absurdly large configured value is read as a smaller one; noticed,
  outside C10, which bounds the rate by the limit the program actually holds).
  Core Lean only.
-/
import Hy.Model.Rate
namespace Hy.RateCfg
open Hy Hy.Rate

/-- a rune (Unicode code point) is a `Nat` -/
abbrev Rune := Nat

/-! ### utf8.DecodeRuneInString, iterated (what `range s` yields) -/

def runeError : Nat := 0xFFFD

def isCont (b : Nat) : Bool := 0x80 ≤ b && b ≤ 0xBF

/-- one step: (rune, bytes consumed ≥ 1) -/
def decode1 : List Nat → Nat × Nat
  | [] => (runeError, 1)
  | b0 :: rest =>
    if b0 < 0x80 then (b0, 1)
    else if 0xC2 ≤ b0 ∧ b0 ≤ 0xDF then
      match rest with
      | b1 :: _ => if isCont b1 then ((b0 % 32) * 64 + b1 % 64, 2) else (runeError, 1)
      | _ => (runeError, 1)
    else if 0xE0 ≤ b0 ∧ b0 ≤ 0xEF then
      match rest with
      | b1 :: b2 :: _ =>
        let lo := if b0 = 0xE0 then 0xA0 else 0x80
        let hi := if b0 = 0xED then 0x9F else 0xBF
        if lo ≤ b1 ∧ b1 ≤ hi ∧ isCont b2 then ((b0 % 16) * 4096 + (b1 % 64) * 64 + b2 % 64, 3)
        else (runeError, 1)
      | _ => (runeError, 1)
    else if 0xF0 ≤ b0 ∧ b0 ≤ 0xF4 then
      match rest with
      | b1 :: b2 :: b3 :: _ =>
        let lo := if b0 = 0xF0 then 0x90 else 0x80
        let hi := if b0 = 0xF4 then 0x8F else 0xBF
        if lo ≤ b1 ∧ b1 ≤ hi ∧ isCont b2 ∧ isCont b3 then
          ((b0 % 8) * 262144 + (b1 % 64) * 4096 + (b2 % 64) * 64 + b3 % 64, 4)
        else (runeError, 1)
      | _ => (runeError, 1)
    else (runeError, 1)

def decodeFuel : Nat → List Nat → List Nat
  | 0, _ => []
  | _, [] => []
  | fuel + 1, bs =>
    let (r, w) := decode1 bs
    r :: decodeFuel fuel (bs.drop w)

/-- the runes of a Go string -/
def decode (s : Bytes) : List Nat :=
  let bs := s.map (·.val)
  decodeFuel bs.length bs

/-! ### unicode.IsSpace, unicode.ToLower (as far as this function can tell) -/

/-- `unicode.IsSpace` -/
def isSpace (r : Nat) : Bool :=
  (9 ≤ r && r ≤ 13) || r == 32 || r == 0x85 || r == 0xA0 || r == 0x1680 ||
  (0x2000 ≤ r && r ≤ 0x200A) || r == 0x2028 || r == 0x2029 || r == 0x202F || r == 0x205F || r == 0x3000

/-- `unicode.ToLower`, exact on ASCII and on the two non-ASCII runes whose lower case IS
    ASCII (KELVIN SIGN → k, İ → i); every other rune ≥ 0x80 stays ≥ 0x80 and is left as
    it is here (it can never be part of an accepted unit, lower-cased or not). -/
def lower (r : Nat) : Nat :=
  if 65 ≤ r ∧ r ≤ 90 then r + 32 else if r = 0x212A then 107 else if r = 0x130 then 105 else r

def isDigit (r : Nat) : Bool := 48 ≤ r && r ≤ 57

/-- `strings.TrimSpace` -/
def trimLeft (l : List Nat) : List Nat := l.dropWhile isSpace
def trimRight (l : List Nat) : List Nat := (l.reverse.dropWhile isSpace).reverse
def trim (l : List Nat) : List Nat := trimRight (trimLeft l)

/-! ### StringToBps -/

/-- Kilobyte … Terabyte of bpsconv.go (powers of 1000) -/
def unitTable : List (String × Nat) :=
  [("b", 1), ("bps", 1),
   ("k", 1000), ("kb", 1000), ("kbps", 1000),
   ("m", 1000000), ("mb", 1000000), ("mbps", 1000000),
   ("g", 1000000000), ("gb", 1000000000), ("gbps", 1000000000),
   ("t", 1000000000000), ("tb", 1000000000000), ("tbps", 1000000000000)]

def runesOf (s : String) : List Nat := s.toList.map (·.toNat)

/-- the `switch` on the (lower-cased, trimmed) unit -/
def unitFactor (u : List Nat) : Option Nat :=
  (unitTable.find? (fun p => runesOf p.1 == u)).map (·.2)

inductive BpsRes where
  | ok (n : Nat)
  /-- "invalid format": no leading digits, or nothing after them -/
  | errFormat
  /-- strconv range error on the digits (more than 2^64-1) -/
  | errRange
  /-- "unsupported unit" -/
  | errUnit
  deriving DecidableEq, Repr

/-- digits (as runes) → the bytes ParseUint is given -/
def digitBytes (ds : List Nat) : Bytes := ds.map byte

/-- shared front end: trim, lower, split at the first non-digit, ParseUint, trim the unit.
    `k v f` is what the code does with the number and the unit's factor. -/
def stringToBpsWith (k : Nat → Nat → BpsRes) (r : List Nat) : BpsRes :=
  let s := (trim r).map lower
  let ds := s.takeWhile isDigit
  let rest := s.dropWhile isDigit
  -- `spl == 0`: the first rune is not a digit, or no non-digit was found
  if ds = [] ∨ rest = [] then .errFormat
  else
    match parseUintE (digitBytes ds) with
    | (v, .none) =>
      match unitFactor (trim rest) with
      | some f => k v f
      | none => .errUnit
    | _ => .errRange

/-- `return v * unit / 8, nil` with `v`, `unit` uint64: the product wraps modulo 2^64 -/
def stringToBpsR (r : List Nat) : BpsRes :=
  stringToBpsWith (fun v f => .ok (v * f % 18446744073709551616 / 8)) r

def stringToBps (s : Bytes) : BpsRes := stringToBpsR (decode s)

/-- `ConvBandwidth(interface{})`: a string goes through StringToBps, an `int` is converted
    with `uint64(i)` (two's complement); the app's config fields are strings, so only the
    first arm is reachable from a configuration file. -/
inductive Bw where
  | str (s : Bytes)
  | int (i : Int)

def convBandwidth : Bw → BpsRes
  | .str s => stringToBps s
  | .int i => .ok (i % 18446744073709551616).toNat

/-! ### configuration → core limits -/

/-- `bandwidth: {up, down}` of the client's / server's configuration file -/
structure AppBw where
  up : Bytes
  down : Bytes

inductive CfgRes where
  /-- `BandwidthConfig{MaxTx, MaxRx}` the core is started with -/
  | ok (maxTx maxRx : Nat)
  /-- configError{Field: "bandwidth.up"} / "bandwidth.down" (app) -/
  | errUp | errDown
  /-- errors.ConfigError{Field: "BandwidthConfig.MaxTx"} / MaxRx (core/server fill) -/
  | errCoreTx | errCoreRx
  deriving DecidableEq, Repr

/-- `fillBandwidthConfig` (identical in client.go and server.go): an empty string leaves the
    limit at 0; anything else must parse -/
def fillBandwidth (parse : Bytes → BpsRes) (c : AppBw) : CfgRes :=
  let up : Option Nat := if c.up = [] then some 0 else match parse c.up with | .ok n => some n | _ => none
  match up with
  | none => .errUp
  | some tx =>
    let down : Option Nat := if c.down = [] then some 0 else match parse c.down with | .ok n => some n | _ => none
    match down with
    | none => .errDown
    | some rx => .ok tx rx

/-- client: fillBandwidthConfig, then core/client verifyAndFill (which does not look at it) -/
def clientConfig (c : AppBw) : CfgRes := fillBandwidth stringToBps c

/-- server: fillBandwidthConfig, then core/server fill: non-zero and below 65536 is an error -/
def serverConfig (c : AppBw) : CfgRes :=
  match fillBandwidth stringToBps c with
  | .ok tx rx =>
    if !serverLimitOK tx then .errCoreTx else if !serverLimitOK rx then .errCoreRx else .ok tx rx
  | e => e

end Hy.RateCfg
