/-
  Model of the realm hole-punch codec and demultiplexer (C20):

    extras/realm/punch.go       EncodePunchPacket / DecodePunchPacket / decodePunchMetadata /
                                xorPunchPacket / validPunchPacketType
    extras/realm/punch_conn.go  PunchPacketConn: AddPunchAttempt / RemovePunchAttempt / ReadFrom /
                                decodeSTUNPacket / decodePunchPacket / emitPunch / emitSTUN
    extras/realm/stun.go        parseSTUNBindingResponse / netIPPortToAddrPort (the logic around pion/stun)
    extras/realm/punch_engine.go addrToAddrPort

  Conventions (DESIGN §3): every Go index / slice expression goes through `Res.idx/slice…`
  so that a panic is an explicit outcome; the hash is a PARAMETER `H` of every definition
  (`H (key ++ salt)` is `sha256(key ‖ salt)` in the code; the driver instantiates it with
  `Hy.Sha256.hash`); the code's random draws (padding, salt), the map iteration order (which
  matching attempt wins) and pion/stun's verdicts are INPUTS.  Core Lean only.
-/
import Hy.Base.Bytes
import Hy.Base.Res
import Hy.Crypto.Sha256
namespace Hy.Punch
open Hy

/-! ### constants (tied to the compiled package by `Hy.Props.C20.const_*`) -/

def saltLen : Nat := 8
def headerLen : Nat := 25
def maxPad : Nat := 1024
def minWire : Nat := 33
def maxWire : Nat := 1057
def nonceSize : Nat := 16
def keySize : Nat := 32
/-- "HYRLMv1\0" -/
def magic : Bytes := [72, 89, 82, 76, 77, 118, 49, 0]
def typeHello : Byte := 1
def typeAck : Byte := 2
def defaultEventBuffer : Nat := 16

def validType (t : Byte) : Bool := t == typeHello || t == typeAck

/-! ### metadata: two hex STRINGS (given as their bytes), hex.DecodeString + size check -/

structure Meta where
  nonce : Bytes
  obfs : Bytes
  deriving DecidableEq, Repr

def hexNib (b : Byte) : Option Nat :=
  let n := b.val
  if 48 ≤ n ∧ n ≤ 57 then some (n - 48)
  else if 97 ≤ n ∧ n ≤ 102 then some (n - 87)
  else if 65 ≤ n ∧ n ≤ 70 then some (n - 55)
  else none

/-- encoding/hex.DecodeString on the bytes of the string: any non-hex byte or an odd length is an error -/
def unhex : Bytes → Option Bytes
  | [] => some []
  | [_] => none
  | a :: b :: rest =>
    match hexNib a, hexNib b, unhex rest with
    | some x, some y, some r => some (byte (x * 16 + y) :: r)
    | _, _, _ => none

/-- decodeHexSize -/
def decodeHexSize (value : Bytes) (size : Nat) : Res Bytes :=
  match unhex value with
  | none => .reject
  | some b => if b.length ≠ size then .reject else .ok b

/-- decodePunchMetadata: (nonce, obfsKey) -/
def decodeMeta (m : Meta) : Res (Bytes × Bytes) := do
  let nonce ← decodeHexSize m.nonce nonceSize
  let key ← decodeHexSize m.obfs keySize
  pure (nonce, key)

/-! ### xorPunchPacket: `packet[i] ^= mask[i % len(mask)]` -/

/-- the loop body's index expression is checked: an empty mask panics (Go: integer divide by
    zero; here `i % 0 = i` and the index is out of range) -/
def xorAt (mask : Bytes) : Nat → Bytes → Res Bytes
  | _, [] => .ok []
  | i, c :: cs => do
    let k ← Res.idx mask (i % mask.length)
    let r ← xorAt mask (i + 1) cs
    pure (bxor c k :: r)

/-- `if !cond { return error }` -/
def check (b : Bool) : Res Unit := if b then .ok () else .reject

/-- EncodePunchPacket; `pad` (0..1024 random bytes) and `salt` (8 random bytes) are the code's draws -/
def encode (H : Bytes → Bytes) (t : Byte) (m : Meta) (pad salt : Bytes) : Res Bytes := do
  check (validType t)
  let (nonce, key) ← decodeMeta m
  -- plain := make([]byte, 25+pad); copy magic; plain[8] = type; copy(plain[9:25], nonce); pad
  let plain := magic ++ [t] ++ nonce ++ pad
  let body ← xorAt (H (key ++ salt)) 0 plain
  pure (salt ++ body)

/-- DecodePunchPacket: (type, padding length) -/
def decode (H : Bytes → Bytes) (pkt : Bytes) (m : Meta) : Res (Byte × Nat) := do
  check (decide (¬ pkt.length < minWire))                 -- "packet too short"
  check (decide (¬ pkt.length > maxWire))                 -- "packet too long"
  let (nonce, key) ← decodeMeta m
  let salt ← Res.sliceTo pkt saltLen                       -- packet[:punchSaltLen]
  let body ← Res.sliceFrom pkt saltLen                     -- append([]byte(nil), packet[punchSaltLen:]...)
  let plain ← xorAt (H (key ++ salt)) 0 body
  let mg ← Res.sliceTo plain magic.length                  -- plain[:len(punchMagic)]
  check (decide (mg = magic))                              -- "bad magic"
  let t ← Res.idx plain magic.length                       -- plain[len(punchMagic)]
  check (validType t)                                      -- "unknown packet type"
  let nn ← Res.slice plain (magic.length + 1) headerLen    -- plain[len(punchMagic)+1:punchHeaderLen]
  check (decide (nn = nonce))                              -- "nonce mismatch"
  pure (t, plain.length - headerLen)

def isOk {α} : Res α → Bool
  | .ok _ => true
  | _ => false

def isPanic {α} : Res α → Bool
  | .panic => true
  | _ => false

/-! ### addresses -/

/-- a net.Addr as the wrapped PacketConn returns it: is it a *net.UDPAddr, its IP bytes, its port -/
structure Addr where
  udp : Bool
  ip : Bytes
  port : Int
  deriving DecidableEq, Repr

def v4Prefix : Bytes := [0, 0, 0, 0, 0, 0, 0, 0, 0, 0, 255, 255]

/-- net.IP.To4: a 4-byte IP, or the last 4 bytes of a v4-mapped 16-byte IP -/
def to4 (ip : Bytes) : Option Bytes :=
  if ip.length = 4 then some ip
  else if ip.length = 16 ∧ ip.take 12 = v4Prefix then some (ip.drop 12)
  else none

/-- netip.Addr.Unmap on AddrFromSlice(ip) -/
def unmap (ip : Bytes) : Bytes :=
  if ip.length = 16 ∧ ip.take 12 = v4Prefix then ip.drop 12 else ip

/-- netip.AddrPort: (address bytes, port) -/
abbrev AddrPort := Bytes × Nat

/-- addrToAddrPort (punch_engine.go) -/
def addrToAddrPort (a : Addr) : Option AddrPort :=
  if a.udp = true ∧ (a.ip.length = 4 ∨ a.ip.length = 16) ∧ 0 < a.port ∧ a.port ≤ 65535
  then some (unmap a.ip, a.port.toNat) else none

/-! ### STUN: pion/stun is an oracle; the realm logic around it is modelled -/

/-- what pion/stun says about one packet -/
structure StunView where
  isMessage : Bool                     -- stun.IsMessage(packet)
  decodeOk : Bool                      -- stun.Decode(packet, msg) == nil
  bindingSuccess : Bool                -- msg.Type == stun.BindingSuccess
  xorAddr : Option (Bytes × Int)       -- XORMappedAddress.GetFrom(msg) == nil → (IP, Port)
  mappedAddr : Option (Bytes × Int)    -- MappedAddress.GetFrom(msg) == nil → (IP, Port)
  txid : Bytes                         -- msg.TransactionID (meaningful when decodeOk)
  deriving DecidableEq, Repr

/-- netIPPortToAddrPort -/
def netIPPortToAddrPort (ip : Bytes) (port : Int) : Option AddrPort :=
  if port ≤ 0 ∨ port > 65535 then none
  else match to4 ip with
    | some ip4 => some (ip4, port.toNat)
    | none => if ip.length = 16 then some (ip, port.toNat) else none

/-- parseSTUNBindingResponse: the mapped address, or an error -/
def parseStun (v : StunView) : Option AddrPort :=
  if !v.decodeOk then none
  else if !v.bindingSuccess then none
  else match v.xorAddr with
    | some (ip, port) => netIPPortToAddrPort ip port
    | none =>
      match v.mappedAddr with
      | some (ip, port) => netIPPortToAddrPort ip port
      | none => none

/-- STUNPacketEvent: `Message *stun.Message` is a POINTER — `none` is Go's nil; the consumer
    (DiscoverWithDemux) dereferences it.  The parsed message is represented by its transaction id. -/
structure StunEvent where
  message : Option Bytes
  addr : AddrPort
  deriving DecidableEq, Repr

/-- decodeSTUNPacket: an event is produced only from a successfully parsed binding response, and
    then carries that message (`Hy.Props.C20.stun_events_have_message`) -/
def decodeStun (v : StunView) : Option StunEvent :=
  if !v.isMessage then none
  else match parseStun v with
    | some a => some ⟨some v.txid, a⟩
    | none => none

/-! ### the attempt registry: a finite map id → metadata -/

abbrev Id := Bytes
abbrev Registry := List (Id × Meta)

def Registry.remove (r : Registry) (id : Id) : Registry := r.filter (fun e => e.1 != id)
def Registry.insert (r : Registry) (id : Id) (m : Meta) : Registry := (id, m) :: r.remove id
def Registry.get? (r : Registry) (id : Id) : Option Meta := (r.find? (fun e => e.1 == id)).map (·.2)

/-- AddPunchAttempt: the new registry, or an error (registry unchanged) -/
def addAttempt (r : Registry) (id : Id) (m : Meta) : Res Registry :=
  if id = [] then .reject
  else match decodeMeta m with
    | .ok _ => .ok (r.insert id m)
    | .reject => .reject
    | .panic => .panic

/-! ### the reader -/

structure PunchEvent where
  id : Id
  src : AddrPort
  type : Byte
  padLen : Nat
  deriving DecidableEq, Repr

/-- one packet as read from the wrapped conn, with the oracle's verdict and the id Go's map
    iteration happened to try first among the matching attempts -/
structure PktIn where
  data : Bytes
  src : Addr
  sv : StunView
  hint : Id
  deriving DecidableEq, Repr

/-- the entries under which the packet decodes -/
def matching (H : Bytes → Bytes) (r : Registry) (data : Bytes) : Registry :=
  r.filter (fun e => isOk (decode H data e.2))

/-- which of the matching entries the map iteration reaches first: the hinted one if it matches,
    else the first of the list -/
def pickEntry (c : Registry) (hint : Id) : Option (Id × Meta) :=
  match c.find? (fun e => e.1 == hint) with
  | some e => some e
  | none => c.head?

/-- decodePunchPacket: RLock region; `for id, meta := range attempts` returns on the first entry
    that decodes, in an order the runtime chooses (`hint`).  A panic of DecodePunchPacket under ANY
    registered entry is reported as a panic of the scan (some iteration order reaches it) — an
    over-approximation that `Hy.Props.C20.read_spec` shows never fires. -/
def scanPunch (H : Bytes → Bytes) (r : Registry) (p : PktIn) : Res (Option PunchEvent) :=
  match addrToAddrPort p.src with
  | none => .ok none
  | some src =>
    if r.any (fun e => isPanic (decode H p.data e.2)) then .panic
    else
      match pickEntry (matching H r p.data) p.hint with
      | none => .ok none
      | some e =>
        match decode H p.data e.2 with
        | .ok (t, n) => .ok (some ⟨e.1, src, t, n⟩)
        | _ => .ok none

inductive Verdict where
  | stun (ev : StunEvent)
  | punch (ev : PunchEvent)
  | pass
  deriving DecidableEq, Repr

/-- one iteration of ReadFrom's loop body on one packet -/
def classify (H : Bytes → Bytes) (r : Registry) (p : PktIn) : Res Verdict :=
  match decodeStun p.sv with
  | some a => .ok (.stun a)
  | none =>
    match scanPunch H r p with
    | .ok (some ev) => .ok (.punch ev)
    | .ok none => .ok .pass
    | .reject => .reject
    | .panic => .panic

/-- the conn: registry and the two buffered event channels -/
structure Conn where
  reg : Registry
  cap : Nat
  events : List PunchEvent
  stun : List StunEvent
  deriving DecidableEq, Repr

/-- NewPunchPacketConn -/
def Conn.new (eventBuffer : Int) : Conn :=
  ⟨[], if eventBuffer ≤ 0 then defaultEventBuffer else eventBuffer.toNat, [], []⟩

/-- `select { case ch <- ev: default: }` -/
def offer {α} (q : List α) (cap : Nat) (a : α) : List α := if q.length < cap then q ++ [a] else q

inductive Input where
  | pkt (p : PktIn)
  | err                        -- the wrapped ReadFrom returned an error
  deriving DecidableEq, Repr

inductive Ret where
  | pkt (data : Bytes) (src : Addr)     -- returned to the caller (QUIC)
  | err                                 -- the wrapped conn's error is passed on (also: input exhausted)
  deriving DecidableEq, Repr

/-- PunchPacketConn.ReadFrom over what the wrapped conn will deliver: new conn state, what the
    caller gets, how many inputs were consumed -/
def readFrom (H : Bytes → Bytes) (c : Conn) : List Input → Res (Conn × Ret × Nat)
  | [] => .ok (c, .err, 0)
  | .err :: _ => .ok (c, .err, 1)
  | .pkt p :: rest =>
    match classify H c.reg p with
    | .ok (.stun a) =>
      match readFrom H { c with stun := offer c.stun c.cap a } rest with
      | .ok (c', r, k) => .ok (c', r, k + 1)
      | .reject => .reject
      | .panic => .panic
    | .ok (.punch ev) =>
      match readFrom H { c with events := offer c.events c.cap ev } rest with
      | .ok (c', r, k) => .ok (c', r, k + 1)
      | .reject => .reject
      | .panic => .panic
    | .ok .pass => .ok (c, .pkt p.data p.src, 1)
    | .reject => .reject
    | .panic => .panic

/-! ### the consumer of the STUN events: DiscoverWithDemux after sendSTUNRequests

  `txs` = transaction ids of the binding requests just sent, `results` = mapped addresses seen so
  far (a set: first occurrence kept), the list = the events the channel delivers, in order, before
  the timeout.  `ev.Message.TransactionID` on a nil Message is a nil-pointer panic. -/

def consumeStun : List Bytes → List AddrPort → List StunEvent → Res (List Bytes × List AddrPort × List StunEvent)
  | [], results, evs => .ok ([], results, evs)            -- `for len(transactions) > 0`
  | txs, results, [] => .ok (txs, results, [])            -- ctx.Done(): nothing more arrives
  | txs, results, ev :: rest =>
    match ev.message with
    | none => .panic
    | some id =>
      if txs.contains id then
        consumeStun (txs.filter (· != id)) (if results.contains ev.addr then results else results ++ [ev.addr]) rest
      else consumeStun txs results rest

inductive DiscoverResult where
  | addrs (as : List AddrPort)      -- finishSTUNResults with at least one result (sorting by String() not modelled)
  | failed                          -- no result: the context's error / "no STUN responses received"
  deriving DecidableEq, Repr

/-- DiscoverWithDemux on a conn whose STUN channel holds `c.stun`: first the queued events are
    consumed; if transactions are still open and the server's answer arrives, the (concurrent)
    reader classifies it and the consumer sees whatever that put on the channel; then the timeout. -/
def discover (H : Bytes → Bytes) (c : Conn) (txs : List Bytes) (answer : Option PktIn) :
    Res (Conn × DiscoverResult) :=
  match consumeStun txs [] c.stun with
  | .panic => .panic
  | .reject => .reject
  | .ok (txs1, res1, left1) =>
    let fin (c : Conn) (res : List AddrPort) : Res (Conn × DiscoverResult) :=
      .ok (c, if res.isEmpty then .failed else .addrs res)
    match txs1, answer with
    | [], _ => fin { c with stun := left1 } res1
    | _, none => fin { c with stun := left1 } res1
    | _, some p =>
      match readFrom H { c with stun := left1 } [.pkt p] with
      | .panic => .panic
      | .reject => .reject
      | .ok (c2, _, _) =>
        match consumeStun txs1 res1 c2.stun with
        | .panic => .panic
        | .reject => .reject
        | .ok (_, res2, left2) => fin { c2 with stun := left2 } res2

/-! ### goroutines: registrations, removals and the reader as atomic steps

  add / remove = one lock region each; the reader is two steps: `recv` (the wrapped ReadFrom
  returns a packet into the reader's buffer — no shared state) and `scan` (decodeSTUNPacket,
  the RLock region of decodePunchPacket, the non-blocking channel send or the return).
  A step on a label that is not enabled leaves the state unchanged, so every list of labels
  is a schedule. -/

inductive Label where
  | add (id : Id) (m : Meta)
  | remove (id : Id)
  | recv (p : PktIn)
  | scan
  deriving DecidableEq, Repr

structure Sys where
  conn : Conn
  held : Option PktIn                  -- the packet in the reader's buffer, not yet classified
  log : List (PktIn × Verdict)         -- every classified packet with its verdict, oldest first
  panicked : Bool
  deriving Repr

def Sys.init (c : Conn) : Sys := ⟨c, none, [], false⟩

def step (H : Bytes → Bytes) (s : Sys) : Label → Sys
  | .add id m =>
    match addAttempt s.conn.reg id m with
    | .ok r => { s with conn := { s.conn with reg := r } }
    | .reject => s
    | .panic => { s with panicked := true }
  | .remove id => { s with conn := { s.conn with reg := s.conn.reg.remove id } }
  | .recv p =>
    match s.held with
    | none => { s with held := some p }
    | some _ => s
  | .scan =>
    match s.held with
    | none => s
    | some p =>
      match classify H s.conn.reg p with
      | .ok (.stun a) =>
        { s with held := none, log := s.log ++ [(p, .stun a)],
                 conn := { s.conn with stun := offer s.conn.stun s.conn.cap a } }
      | .ok (.punch ev) =>
        { s with held := none, log := s.log ++ [(p, .punch ev)],
                 conn := { s.conn with events := offer s.conn.events s.conn.cap ev } }
      | .ok .pass => { s with held := none, log := s.log ++ [(p, .pass)] }
      | _ => { s with held := none, panicked := true }

def run (H : Bytes → Bytes) (s : Sys) (sched : List Label) : Sys := sched.foldl (step H) s

end Hy.Punch
