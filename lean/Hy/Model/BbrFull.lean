/-
  C12(c) — the sender as a whole: control logic (Hy.Model.BbrCore) + bandwidth sampler
  (Hy.Model.BbrSampler) + the max-bandwidth windowed filter, composed in the call order of
  bbr_sender.go.  The sampler's outputs are now COMPUTED by the model; only the float-scaled
  quantities (`Rec`) and rttStats.MinRTT() are still recorded from the implementation.
  This file is the driver-side composition (executable, core Lean only); the theorems about the
  control logic quantify over every `Env`, so they cover whatever the sampler computes.
-/
import Hy.Model.BbrProfiles
import Hy.Model.BbrSampler
namespace Hy.Bbr
open Hy Hy.Sampler

structure Full where
  core : S
  smp : Sampler
  maxBw : WFilter Nat
  deriving Repr

/-- recorded float-scaled values of one OnCongestionEventEx call -/
structure Recorded where
  appLimPre : Bool          -- priorInFlight < getTargetCongestionWindow(1) in maybeAppLimited (before the update)
  rttMin : Nat
  tgtPacing : Nat
  tgt1 : Nat
  tgtCwnd : Nat
  growthTarget : Nat
  lossThresh : Nat
  targetRate : Nat
  rnd : Nat
  deriving Repr

def bwKey (n : Nat) : Int := (n : Int)

/-- `NewBbrSender` incl. applyProfile's sampler switches -/
def Full.new (cfg : Cfg) (overestimateAvoidance reduceExtraAcked : Bool) (mds : Nat) : Full :=
  let smp := Sampler.new Gen.bbr_bandwidthWindowSize Gen.bbr_connStateMapInit Gen.bbr_candidatesInit
  let smp := if overestimateAvoidance then smp.enableOverestimateAvoidance else smp
  let smp := smp.setReduceExtraAcked reduceExtraAcked
  { core := Bbr.new cfg mds, smp := smp, maxBw := WFilter.new 0 Gen.bbr_bandwidthWindowSize }

def Full.sent (st : Full) (t inflight pn bytes : Int) (retransmittable : Bool) : Res Full := do
  let smp ← st.smp.onPacketSent t pn bytes inflight retransmittable
  pure { st with core := onPacketSent st.core inflight.toNat pn, smp := smp }

def Full.setDatagramSize (st : Full) (n : Nat) : Res Full := do
  let c ← Bbr.setMds st.core n
  pure { st with core := c }

/-- the part of OnCongestionEventEx before maybeEnterOrExitProbeRtt, replayed only to learn
    (a) whether checkIfFullBandwidthReached expired the ack-height filter and (b) whether the
    PROBE_RTT block called sampler.OnAppLimited() -/
def sideEffects (s : S) (e : Ev) : Res (Bool × Bool) := do
  let hasLosses := !e.lost.isEmpty
  let s := { s with bytesInFlight := e.prior - sumBytes e.acked - sumBytes e.lost }
  let (s, isRoundStart) :=
    match e.acked.getLast? with
    | some p =>
      let (s, rs) := updateRoundTripCounter s p.1
      (updateRecoveryState s p.1 hasLosses rs, rs)
    | none => (s, false)
  let s := if e.env.sampleValid then
      { s with lastSampleIsAppLimited := e.env.sampleAppLimited,
               hasNoAppLimitedSample := s.hasNoAppLimitedSample || !e.env.sampleAppLimited }
    else s
  let (s, minRttExpired) :=
    match e.env.sampleRtt with
    | some r => maybeUpdateMinRtt s e.now r
    | none => (s, false)
  let s := if hasLosses then
      { s with numLossEventsInRound := s.numLossEventsInRound + 1,
               bytesLostInRound := s.bytesLostInRound + e.env.bytesLost }
    else s
  let s ← if s.mode = .probeBw then updateGainCyclePhase s e hasLosses else pure s
  let expired := isRoundStart ∧ !s.isAtFullBandwidth ∧ !s.lastSampleIsAppLimited ∧
      e.env.bw ≥ e.env.growthTarget ∧ s.cfg.expireAckAggStartup
  let s := if isRoundStart ∧ !s.isAtFullBandwidth then checkIfFullBandwidthReached s e else s
  let s ← maybeExitStartupOrDrain s e
  let inProbeRtt := s.mode = .probeRtt ∨ (minRttExpired ∧ !s.exitingQuiescence)
  pure (decide expired, decide inProbeRtt)

structure EvOut where
  st : Full
  es : EventSample
  lu : Int

/-- `OnCongestionEventEx` with the sampler computed by the model -/
def Full.event (st : Full) (prior now : Nat) (acked lost : List (Int × Nat)) (r : Recorded) : Res EvOut := do
  let ackedI : List (Int × Int) := acked.map fun p => (p.1, (p.2 : Int))
  let lostI : List (Int × Int) := lost.map fun p => (p.1, (p.2 : Int))
  let ackedBefore := st.smp.totalBytesAcked
  let lostBefore := st.smp.totalBytesLost
  let smp := if r.appLimPre then st.smp.onAppLimited else st.smp
  let core0 := { st.core with bytesInFlight := prior - sumBytes acked - sumBytes lost }
  let rtc := match acked.getLast? with
    | some p => (updateRoundTripCounter core0 p.1).1.roundTripCount
    | none => st.core.roundTripCount
  let (smp, es) ← smp.onCongestionEvent (now : Int) ackedI lostI st.maxBw.getBest infBandwidth rtc
  let maxBw :=
    if ackedBefore ≠ smp.totalBytesAcked then
      if !es.sampleIsAppLimited ∨ es.sampleMaxBandwidth > st.maxBw.getBest then
        st.maxBw.update bwKey 0 es.sampleMaxBandwidth rtc
      else st.maxBw
    else st.maxBw
  let env0 : Env :=
    { sampleValid := es.lastPacketSendState.isValid, sampleAppLimited := es.lastPacketSendState.isAppLimited,
      sendStateInflight := es.lastPacketSendState.bytesInFlight.toNat,
      sampleRtt := if es.sampleRtt = infRTT then none else some es.sampleRtt.toNat,
      bytesAcked := (smp.totalBytesAcked - ackedBefore).toNat, bytesLost := (smp.totalBytesLost - lostBefore).toNat,
      totalAcked := smp.totalBytesAcked.toNat, excessAcked := es.extraAcked.toNat,
      maxAckHeight := smp.maxAckHeight.toNat, bw := maxBw.getBest, rttMin := r.rttMin,
      tgtPacing := r.tgtPacing, tgt1 := r.tgt1, tgtCwnd := r.tgtCwnd, growthTarget := r.growthTarget,
      lossThresh := r.lossThresh, targetRate := r.targetRate, rnd := r.rnd }
  let ev0 : Ev := { prior := prior, now := now, acked := acked, lost := lost, env := env0 }
  let (expired, inProbeRtt) ← sideEffects st.core ev0
  let smp := if expired then smp.resetMaxAckHeightTracker 0 rtc else smp
  let ev : Ev := { ev0 with env := { env0 with maxAckHeight := smp.maxAckHeight.toNat } }
  let (core, lu) ← onCongestionEvent st.core ev
  let smp := if inProbeRtt then smp.onAppLimited else smp
  let smp ← smp.removeObsoletePackets lu
  pure { st := { core := core, smp := smp, maxBw := maxBw }, es := es, lu := lu }

end Hy.Bbr
