import Hy.Model.Connect
/-
  C16 — model of core/client/reconnect.go (reconnectableClientImpl).

  State: rc.client / rc.count / rc.closed, the census of every socket the ConnFactory ever
  returned (allocation mark `nextId`, `sock c = some true` open, `some false` closed), which
  clients lost their server connection (`dead`, environment), a program counter per calling
  goroutine and the log of externally visible events (configFunc evaluations, factory
  sockets, connectedFunc calls with their count argument, what every call returned).

  Atomic steps (labels) — one per lock region / environment action:
    start lazy a      NewReconnectableClient (eager: rc.reconnect() before anyone shares rc)
    callBegin g a     clientDo, first lock region: closed? ; client = nil → reconnect() ; unlock
                      (`a` = what the environment answers IF a reconnect attempt is made: configFunc
                      error, invalid config, or the exit through which connect() leaves — the attempt
                      RUNS Hy.Connect.newClient, the straight-line model of NewClient/connect over packet
                      conn, transport and QUIC conn; `res` keeps that run per factory socket and the
                      census bit `sock` is computed from it)
    callEnd g r       f(client) returned r ; on ClosedError the second lock region
    kill c            environment: the server connection of client c is lost
    close             rc.Close()
  A schedule is a `List Label`; a label that is not enabled leaves the state unchanged, so
  every list is a schedule and "for every interleaving / fault history" is `∀ tr`.

  What f(client) returns is an INPUT (`FRes`), not constrained by the state: quic-go may report
  any error at any time and `wrapIfConnectionClosed` turns every error except the stream limit
  into ClosedError, even on a connection that is alive. The theorems hold for all of them.

  `Cfg.closeOnDrop = true` is the repaired clientDo (the dropped client is closed — fixes/D4.patch);
  `false` is the pinned tree (rc.client = nil only). Core Lean only (linked into hydrv).
-/
namespace Hy.Reconnect

/-- what the environment answers to one reconnect attempt: configFunc fails, verifyAndFill
    rejects the configuration, or connect() leaves through one of its exits (Hy.Connect.Exit) -/
inductive Att
  | cfgErr    -- configFunc returned an error
  | badCfg    -- Config.verifyAndFill rejected the configuration (before ConnFactory.New)
  | newErr    -- ConnFactory.New returned an error
  | dialErr   -- tr.DialEarly failed (handshake error / timeout): no quic.Conn was obtained
  | rtErr     -- RoundTrip failed after DialEarly succeeded (connection lost during authentication)
  | authErr   -- the server answered the auth request with a status other than 233
  | ok
deriving DecidableEq, Repr

/-- the exit of connect() an answer stands for (irrelevant for cfgErr / badCfg: connect is not reached) -/
def Att.exit : Att → Connect.Exit
  | .newErr => .factoryErr
  | .dialErr => .dialErr
  | .rtErr => .roundTripErr
  | .authErr => .authErr
  | _ => .ok

/-- what `f(client)` (client.TCP / client.UDP) returned -/
inductive FRes
  | ok
  | closedErr     -- errors.ClosedError
  | recoverable   -- quic.StreamLimitReachedError, passed through unwrapped
  | other         -- e.g. DialError (server refused the target)
deriving DecidableEq, Repr

/-- what a call on the reconnectable client returned to its caller -/
inductive Ret
  | ok | closed | recoverable | other | cfgErr | badCfg | newErr | connErr
deriving DecidableEq, Repr

inductive Pc
  | idle
  | using (c : Nat)   -- between the two lock regions, running f on client c
deriving DecidableEq, Repr

inductive Ev
  | cfg                      -- configFunc evaluated
  | new (c : Nat)            -- ConnFactory.New returned socket c
  | connected (n : Nat)      -- connectedFunc(rc, info, n)
  | ret (g : Nat) (r : Ret)  -- a TCP()/UDP() call of goroutine g returned r
  | startRet (r : Option Ret) -- NewReconnectableClient returned (none = a client)
deriving DecidableEq, Repr

inductive Label
  | start (lazy : Bool) (a : Att)
  | callBegin (g : Nat) (a : Att)
  | callEnd (g : Nat) (r : FRes)
  | kill (c : Nat)
  | close
deriving DecidableEq, Repr

structure Cfg where
  closeOnDrop : Bool

def fixed : Cfg := ⟨true⟩
def pinned : Cfg := ⟨false⟩

/-- pointwise update of a finite map represented as a function -/
def upd {α} (f : Nat → α) (i : Nat) (v : α) : Nat → α := fun j => if j = i then v else f j

structure St where
  started : Bool := false              -- a reconnectableClientImpl has been handed out
  client  : Option Nat := none         -- rc.client
  count   : Nat := 0                   -- rc.count
  closed  : Bool := false              -- rc.closed
  nextId  : Nat := 0                   -- sockets obtained from the factory so far
  sock    : Nat → Option Bool := fun _ => none
  res     : Nat → Option Connect.R3 := fun _ => none   -- the three resources behind each factory socket
  dead    : Nat → Bool := fun _ => false
  pc      : Nat → Pc := fun _ => .idle
  log     : List Ev := []              -- newest first

def init : St := {}

def FRes.toRet : FRes → Ret
  | .ok => .ok | .closedErr => .closed | .recoverable => .recoverable | .other => .other

/-- clientImpl.Close(): conn.CloseWithError, tr.Close, pktConn.Close -/
def closeSock (s : St) (c : Nat) : St :=
  { s with sock := upd s.sock c (some false), res := upd s.res c ((s.res c).map Connect.close) }

/-- `if rc.client != nil { _ = rc.client.Close() }` -/
def closeOld (s : St) : St :=
  match s.client with
  | some c => closeSock s c
  | none => s

def CRet.toRet : Connect.CRet → Ret
  | .newErr => .newErr | .connectErr => .connErr | .authErr => .connErr | .cfgErr => .badCfg | .ok => .ok

/-- configFunc, then NewClient (Hy.Connect.newClient: verifyAndFill, ConnFactory.New, connect — every
    failing exit of connect closes what it acquired), and on success count++ and connectedFunc(count).
    `rc.client, info, err = NewClient(config)` assigns nil on failure. A factory socket enters the
    census when ConnFactory.New returned one (`r.pkt ≠ none`); whether it is still open afterwards
    is COMPUTED from connect's run (`Connect.held r`), not assumed. Returns the error (none = success). -/
def attempt (s : St) (a : Att) : St × Option Ret :=
  let s := { s with log := .cfg :: s.log }
  match a with
  | .cfgErr => (s, some .cfgErr)
  | _ =>
    let (r, cr, returned) := Connect.newClient (a != .badCfg) a.exit
    match r.pkt with
    | none => ({ s with client := none }, some (CRet.toRet cr))
    | some _ =>
      let c := s.nextId
      let s := { s with nextId := c + 1, sock := upd s.sock c (some (Connect.held r)),
                        res := upd s.res c (some r), log := .new c :: s.log }
      if returned then
        ({ s with client := some c, count := s.count + 1, log := .connected (s.count + 1) :: s.log }, none)
      else ({ s with client := none }, some (CRet.toRet cr))

/-- rc.reconnect() -/
def reconnect (s : St) (a : Att) : St × Option Ret := attempt (closeOld s) a

/-- `client := rc.client; rc.m.Unlock()` — goroutine g goes on to run f on that client -/
def enter (s : St) (g : Nat) : St :=
  match s.client with
  | some c => { s with pc := upd s.pc g (.using c) }
  | none => s

def step (cfg : Cfg) (s : St) : Label → St
  | .start lazy a =>
    if s.started then s
    else if lazy then { s with started := true, log := .startRet none :: s.log }
    else match reconnect s a with
      | (s', none) => { s' with started := true, log := .startRet none :: s'.log }
      | (s', some e) => { s' with log := .startRet (some e) :: s'.log }   -- (nil, err): nothing handed out
  | .callBegin g a =>
    if !s.started then s
    else match s.pc g with
      | .using _ => s
      | .idle =>
        if s.closed then { s with log := .ret g .closed :: s.log }
        else match s.client with
          | some _ => enter s g
          | none =>
            match reconnect s a with
            | (s', some e) => { s' with log := .ret g e :: s'.log }
            | (s', none) => enter s' g
  | .callEnd g r =>
    match s.pc g with
    | .idle => s
    | .using c =>
      let s1 := { s with pc := upd s.pc g .idle, log := .ret g r.toRet :: s.log }
      if r = .closedErr then
        if s1.client = some c then
          let s2 := if cfg.closeOnDrop then closeSock s1 c else s1
          { s2 with client := none }
        else s1
      else s1
  | .kill c =>
    if s.sock c = some true then { s with dead := upd s.dead c true } else s
  | .close =>
    if !s.started then s
    else
      let s1 := { s with closed := true }
      match s.client with
      | some c => closeSock s1 c
      | none => s1

def run (cfg : Cfg) (s : St) (tr : List Label) : St := tr.foldl (step cfg) s

/-- factory sockets currently open, oldest first -/
def openList (s : St) : List Nat := (List.range s.nextId).filter (fun c => s.sock c == some true)

/-- number of configFunc evaluations in a log -/
def cfgCount : List Ev → Nat
  | [] => 0
  | .cfg :: l => cfgCount l + 1
  | _ :: l => cfgCount l

/-- count arguments handed to connectedFunc, newest first -/
def connArgs : List Ev → List Nat
  | [] => []
  | .connected n :: l => n :: connArgs l
  | _ :: l => connArgs l

/-- sockets obtained from the factory, newest first -/
def newSocks : List Ev → List Nat
  | [] => []
  | .new c :: l => c :: newSocks l
  | _ :: l => newSocks l

/-- [n, n-1, …, 1] -/
def countdown : Nat → List Nat
  | 0 => []
  | n + 1 => (n + 1) :: countdown n

/-! ### The settled environment used for sequential histories (driver side)

In a sequential history the harness waits after every kill until the client has seen the
CONNECTION_CLOSE, and holds streams open to saturate the server's stream limit. Then what f
returns is a function of (dead, saturated, refused target). -/

inductive Kind | tcp | tcpRefused | udp
deriving DecidableEq, Repr

def settled (s : St) (sat : Option Nat) (c : Nat) (k : Kind) : FRes :=
  if s.dead c then .closedErr
  else if s.sock c != some true then .closedErr
  else match k with
    | .udp => .ok
    | .tcp => if sat = some c then .recoverable else .ok
    | .tcpRefused => if sat = some c then .recoverable else .other

/-! ### the configuration function (app/cmd/client.go `(*clientConfig).Config`)

In the model a reconnect attempt starts with ONE fresh evaluation of configFunc (`Ev.cfg`). What
"fresh" means for the application's function: the k-th evaluation sees the k-th answer of the
resolver — nothing resolved earlier is kept. -/
def configEvals {α} (answers : List α) : List α := answers.map id

end Hy.Reconnect
