/-
  C16 — model of core/client/reconnect.go (reconnectableClientImpl).

  State: rc.client / rc.count / rc.closed, the census of every socket the ConnFactory ever
  returned (allocation mark `nextId`, `sock c = some true` open, `some false` closed), which
  clients lost their server connection (`dead`, environment), a program counter per calling
  goroutine and the log of externally visible events (configFunc evaluations, factory
  sockets, connectedFunc calls with their count argument, what every call returned).

  Atomic steps (labels) — one per lock region / environment action:
    start lazy a      NewReconnectableClient (eager: rc.reconnect() before anyone shares rc)
    callBegin g a     clientDo, first lock region: closed? ; client = nil → reconnect() ; unlock
                      (`a` = what the environment answers IF a reconnect attempt is made)
    callEnd g r       f(client) returned r ; on ClosedError the second lock region
    kill c            environment: the server connection of client c is lost
    close             rc.Close()
  A schedule is a `List Label`; a label that is not enabled leaves the state unchanged, so
  every list is a schedule and "for every interleaving / fault history" is `∀ tr`.

  What f(client) returns is an INPUT (`FRes`), not constrained by the state: quic-go may report
  any error at any time and `wrapIfConnectionClosed` turns every error except the stream limit
  into ClosedError, even on a connection that is alive. The theorems hold for all of them.

  `Cfg.closeOnDrop = true` is the repaired clientDo (the dropped client is closed — fixes/D4.patch);
  `false` is the pinned tree (rc.client = nil only). Core Lean only (linked into hydrv).
-/
namespace Hy.Reconnect

/-- what the environment answers to one reconnect attempt -/
inductive Att
  | cfgErr    -- configFunc returned an error
  | badCfg    -- Config.verifyAndFill rejected the configuration (before ConnFactory.New)
  | newErr    -- ConnFactory.New returned an error
  | connErr   -- handshake / authentication failed after the socket was obtained
  | ok
deriving DecidableEq, Repr

/-- what `f(client)` (client.TCP / client.UDP) returned -/
inductive FRes
  | ok
  | closedErr     -- errors.ClosedError
  | recoverable   -- quic.StreamLimitReachedError, passed through unwrapped
  | other         -- e.g. DialError (server refused the target)
deriving DecidableEq, Repr

/-- what a call on the reconnectable client returned to its caller -/
inductive Ret
  | ok | closed | recoverable | other | cfgErr | badCfg | newErr | connErr
deriving DecidableEq, Repr

inductive Pc
  | idle
  | using (c : Nat)   -- between the two lock regions, running f on client c
deriving DecidableEq, Repr

inductive Ev
  | cfg                      -- configFunc evaluated
  | new (c : Nat)            -- ConnFactory.New returned socket c
  | connected (n : Nat)      -- connectedFunc(rc, info, n)
  | ret (g : Nat) (r : Ret)  -- a TCP()/UDP() call of goroutine g returned r
  | startRet (r : Option Ret) -- NewReconnectableClient returned (none = a client)
deriving DecidableEq, Repr

inductive Label
  | start (lazy : Bool) (a : Att)
  | callBegin (g : Nat) (a : Att)
  | callEnd (g : Nat) (r : FRes)
  | kill (c : Nat)
  | close
deriving DecidableEq, Repr

structure Cfg where
  closeOnDrop : Bool

def fixed : Cfg := ⟨true⟩
def pinned : Cfg := ⟨false⟩

/-- pointwise update of a finite map represented as a function -/
def upd {α} (f : Nat → α) (i : Nat) (v : α) : Nat → α := fun j => if j = i then v else f j

structure St where
  started : Bool := false              -- a reconnectableClientImpl has been handed out
  client  : Option Nat := none         -- rc.client
  count   : Nat := 0                   -- rc.count
  closed  : Bool := false              -- rc.closed
  nextId  : Nat := 0                   -- sockets obtained from the factory so far
  sock    : Nat → Option Bool := fun _ => none
  dead    : Nat → Bool := fun _ => false
  pc      : Nat → Pc := fun _ => .idle
  log     : List Ev := []              -- newest first

def init : St := {}

def FRes.toRet : FRes → Ret
  | .ok => .ok | .closedErr => .closed | .recoverable => .recoverable | .other => .other

/-- clientImpl.Close(): conn.CloseWithError, tr.Close, pktConn.Close -/
def closeSock (s : St) (c : Nat) : St := { s with sock := upd s.sock c (some false) }

/-- `if rc.client != nil { _ = rc.client.Close() }` -/
def closeOld (s : St) : St :=
  match s.client with
  | some c => closeSock s c
  | none => s

/-- configFunc, then NewClient: verifyAndFill, ConnFactory.New, connect — a failed connect closes
    its own socket — and on success count++ and connectedFunc(count).
    `rc.client, info, err = NewClient(config)` assigns nil on failure. Returns the error (none = success). -/
def attempt (s : St) (a : Att) : St × Option Ret :=
  let s := { s with log := .cfg :: s.log }
  match a with
  | .cfgErr => (s, some .cfgErr)
  | .badCfg => ({ s with client := none }, some .badCfg)
  | .newErr => ({ s with client := none }, some .newErr)
  | .connErr =>
    let c := s.nextId
    ({ s with client := none, nextId := c + 1, sock := upd s.sock c (some false),
              log := .new c :: s.log }, some .connErr)
  | .ok =>
    let c := s.nextId
    ({ s with client := some c, nextId := c + 1, sock := upd s.sock c (some true),
              count := s.count + 1, log := .connected (s.count + 1) :: .new c :: s.log }, none)

/-- rc.reconnect() -/
def reconnect (s : St) (a : Att) : St × Option Ret := attempt (closeOld s) a

/-- `client := rc.client; rc.m.Unlock()` — goroutine g goes on to run f on that client -/
def enter (s : St) (g : Nat) : St :=
  match s.client with
  | some c => { s with pc := upd s.pc g (.using c) }
  | none => s

def step (cfg : Cfg) (s : St) : Label → St
  | .start lazy a =>
    if s.started then s
    else if lazy then { s with started := true, log := .startRet none :: s.log }
    else match reconnect s a with
      | (s', none) => { s' with started := true, log := .startRet none :: s'.log }
      | (s', some e) => { s' with log := .startRet (some e) :: s'.log }   -- (nil, err): nothing handed out
  | .callBegin g a =>
    if !s.started then s
    else match s.pc g with
      | .using _ => s
      | .idle =>
        if s.closed then { s with log := .ret g .closed :: s.log }
        else match s.client with
          | some _ => enter s g
          | none =>
            match reconnect s a with
            | (s', some e) => { s' with log := .ret g e :: s'.log }
            | (s', none) => enter s' g
  | .callEnd g r =>
    match s.pc g with
    | .idle => s
    | .using c =>
      let s1 := { s with pc := upd s.pc g .idle, log := .ret g r.toRet :: s.log }
      if r = .closedErr then
        if s1.client = some c then
          let s2 := if cfg.closeOnDrop then closeSock s1 c else s1
          { s2 with client := none }
        else s1
      else s1
  | .kill c =>
    if s.sock c = some true then { s with dead := upd s.dead c true } else s
  | .close =>
    if !s.started then s
    else
      let s1 := { s with closed := true }
      match s.client with
      | some c => closeSock s1 c
      | none => s1

def run (cfg : Cfg) (s : St) (tr : List Label) : St := tr.foldl (step cfg) s

/-- factory sockets currently open, oldest first -/
def openList (s : St) : List Nat := (List.range s.nextId).filter (fun c => s.sock c == some true)

/-- number of configFunc evaluations in a log -/
def cfgCount : List Ev → Nat
  | [] => 0
  | .cfg :: l => cfgCount l + 1
  | _ :: l => cfgCount l

/-- count arguments handed to connectedFunc, newest first -/
def connArgs : List Ev → List Nat
  | [] => []
  | .connected n :: l => n :: connArgs l
  | _ :: l => connArgs l

/-- sockets obtained from the factory, newest first -/
def newSocks : List Ev → List Nat
  | [] => []
  | .new c :: l => c :: newSocks l
  | _ :: l => newSocks l

/-- [n, n-1, …, 1] -/
def countdown : Nat → List Nat
  | 0 => []
  | n + 1 => (n + 1) :: countdown n

/-! ### The settled environment used for sequential histories (driver side)

In a sequential history the harness waits after every kill until the client has seen the
CONNECTION_CLOSE, and holds streams open to saturate the server's stream limit. Then what f
returns is a function of (dead, saturated, refused target). -/

inductive Kind | tcp | tcpRefused | udp
deriving DecidableEq, Repr

def settled (s : St) (sat : Option Nat) (c : Nat) (k : Kind) : FRes :=
  if s.dead c then .closedErr
  else if s.sock c != some true then .closedErr
  else match k with
    | .udp => .ok
    | .tcp => if sat = some c then .recoverable else .ok
    | .tcpRefused => if sat = some c then .recoverable else .other

end Hy.Reconnect
