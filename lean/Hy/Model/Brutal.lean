/-
  Model of core/internal/congestion/brutal/brutal.go (BrutalSender).

  * The five one-second `pktInfo` slots and `updateAckRate` are modelled exactly; the
    loss-compensation factor `ackRate` is kept as the exact rational it denotes
    (`AckRate`: 1, the clamp 4/5, or acked/(acked+lost)) — Go holds the float64 nearest to it.
  * The two places where Go does float64 arithmetic with it,
        getBandwidth = ByteCount(float64(bps) / ackRate)
        cwnd         = ByteCount(float64(bps) * rtt.Seconds() * 2 / ackRate)
    are inputs of the operations here (`bw`, `raw`), like `getBandwidth` is an input of
    the pacer.  `bandwidthQ` / `rawWindowQ` are their exact-rational values (floor); the
    driver (Hy.Drv.Brutal) supplies the IEEE values for the differential.  Theorems that
    need a number are stated for every `bw` / `raw` within stated bounds, so they cover both.
  * Event times are `Nat` nanoseconds: `monotime.Time` is never negative (quic-go's
    monotime.Now() is the time since an instant one hour before process start).
  * `uint64` counters are unbounded `Nat` (2^64 packets in one second is out of scope).
-/
import Hy.Model.Pacer
namespace Hy.Brutal
open Hy Hy.Pacer

structure PktInfo where
  ts : Nat       -- Timestamp (whole seconds)
  ack : Nat      -- AckCount
  loss : Nat     -- LossCount
  deriving Repr, DecidableEq, Inhabited

/-- the value of `BrutalSender.ackRate` as an exact rational -/
inductive AckRate where
  | one                            -- 1 (not enough samples, or compensation disabled)
  | floor                          -- minAckRate = 0.8
  | ratio (ack total : Nat)        -- float64(ackCount) / float64(ackCount+lossCount)
  deriving Repr, DecidableEq, Inhabited

def AckRate.num : AckRate → Nat
  | .one => 1
  | .floor => 4
  | .ratio a _ => a

def AckRate.den : AckRate → Nat
  | .one => 1
  | .floor => 5
  | .ratio _ t => t

structure Sender where
  bps : Nat
  maxDatagramSize : Int
  pacer : Pacer
  slots : Nat → PktInfo            -- pktInfoSlots[i] for i < pktInfoSlotCount
  ackRate : AckRate
  disableLossCompensation : Bool

/-- NewBrutalSender (brutal.go:48-61) -/
def new (bps : Nat) (disableLossCompensation : Bool) : Sender :=
  { bps := bps
    maxDatagramSize := (Gen.InitialPacketSize : Nat)
    pacer := Pacer.new
    slots := fun _ => ⟨0, 0, 0⟩
    ackRate := .one
    disableLossCompensation := disableLossCompensation }

/-- Σ_{i<n} f i — the `for _, info := range b.pktInfoSlots` loop -/
def sumTo (f : Nat → Nat) : Nat → Nat
  | 0 => 0
  | n+1 => sumTo f n + f n

/-- slots older than `currentTimestamp - pktInfoSlotCount` are skipped (brutal.go:143-150);
    the comparison is on int64, so for small timestamps nothing is skipped -/
def inWindow (now : Nat) (i : PktInfo) : Bool :=
  !decide ((i.ts : Int) < (now : Int) - (Gen.pktInfoSlotCount : Nat))

def windowAck (slots : Nat → PktInfo) (now : Nat) : Nat :=
  sumTo (fun i => if inWindow now (slots i) then (slots i).ack else 0) Gen.pktInfoSlotCount

def windowLoss (slots : Nat → PktInfo) (now : Nat) : Nat :=
  sumTo (fun i => if inWindow now (slots i) then (slots i).loss else 0) Gen.pktInfoSlotCount

/-- the value updateAckRate assigns given the window totals (brutal.go:151-171);
    `rate < minAckRate` on the exact rationals is 5·ack < 4·(ack+loss) -/
def rateOf (ack loss : Nat) : AckRate :=
  if ack + loss < Gen.minSampleCount then .one
  else if 5 * ack < 4 * (ack + loss) then .floor
  else .ratio ack (ack + loss)

/-- updateAckRate (brutal.go:137-171) -/
def updateAckRate (s : Sender) (now : Nat) : Sender :=
  if s.disableLossCompensation then { s with ackRate := .one }
  else { s with ackRate := rateOf (windowAck s.slots now) (windowLoss s.slots now) }

def upd (f : Nat → PktInfo) (i : Nat) (v : PktInfo) : Nat → PktInfo :=
  fun j => if j = i then v else f j

/-- the slot rotation of OnCongestionEventEx (brutal.go:111-123) -/
def rotate (slots : Nat → PktInfo) (ts nAck nLoss : Nat) : Nat → PktInfo :=
  let slot := ts % Gen.pktInfoSlotCount
  let old := slots slot
  if old.ts = ts then
    upd slots slot { ts := ts, ack := old.ack + nAck, loss := old.loss + nLoss }
  else
    upd slots slot { ts := ts, ack := nAck, loss := nLoss }

/-- OnCongestionEventEx (brutal.go:109-125): `eventTime` in ns, the lengths of the two lists -/
def onCongestionEventEx (s : Sender) (eventTime nAck nLoss : Nat) : Sender :=
  let ts := eventTime / 1000000000
  updateAckRate { s with slots := rotate s.slots ts nAck nLoss } ts

/-- SetMaxDatagramSize (brutal.go:127-133) -/
def setMaxDatagramSize (s : Sender) (size : Int) : Sender :=
  { s with maxDatagramSize := size, pacer := Hy.Pacer.setMaxDatagramSize s.pacer size }

/-- OnPacketSent (brutal.go:91-95); `bw` is what getBandwidth() returns -/
def onPacketSent (s : Sender) (bw sentTime bytes : Int) : Sender :=
  { s with pacer := Hy.Pacer.sentPacket s.pacer bw sentTime bytes }

/-- HasPacingBudget (brutal.go:67-69) -/
def hasPacingBudget (s : Sender) (bw now : Int) : Bool :=
  decide (Hy.Pacer.budget s.pacer bw now ≥ s.maxDatagramSize)

/-- TimeUntilSend (brutal.go:63-65) -/
def timeUntilSend (s : Sender) (bw : Int) : Res Int := Hy.Pacer.timeUntilSend s.pacer bw

/-- GetCongestionWindow (brutal.go:75-85): `rtt` is SmoothedRTT in ns, `raw` the float
    product converted to ByteCount -/
def getCongestionWindow (s : Sender) (rtt raw : Int) : Int :=
  if rtt ≤ 0 then (Gen.brutalNoRttWindow : Nat)
  else if raw < s.maxDatagramSize then s.maxDatagramSize else raw

/-- CanSend (brutal.go:71-73) -/
def canSend (s : Sender) (rtt raw bytesInFlight : Int) : Bool :=
  decide (bytesInFlight ≤ getCongestionWindow s rtt raw)

/-! ### exact-rational values of the two float expressions -/

/-- ⌊bps / ackRate⌋ -/
def bandwidthQ (bps : Nat) (r : AckRate) : Nat := bps * r.den / r.num

/-- ⌊bps · rtt · congestionWindowMultiplier / ackRate⌋ with rtt in ns -/
def rawWindowQ (bps : Nat) (r : AckRate) (rtt : Nat) : Nat :=
  bps * rtt * Gen.congestionWindowMultiplier * r.den / (1000000000 * r.num)

end Hy.Brutal
