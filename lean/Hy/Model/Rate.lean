/-
  Rate negotiation (C10): executable model of

    core/internal/protocol/http.go   AuthRequest{From,To}Header, AuthResponse{From,To}Header
                                     (the Hysteria-CC-RX header: strconv.FormatUint / strconv.ParseUint
                                     with the error IGNORED, and the literal "auto")
    core/server/server.go            h3sHandler.ServeHTTP, authenticated branch (actualTx)
    core/client/client.go            clientImpl.connect, after the 233 response (actualTx)
    core/internal/congestion/utils.go UseBrutal / UseConfigured / UseBBR (which controller)

  Numbers are `Nat`; Go's `uint64` is the range `≤ U64Max`, and the only place where
  the width matters (ParseUint's cutoff / wrap test) is modelled explicitly.
  Header values are byte strings (`Bytes`), exactly what `http.Header.Get` returns.
  Core Lean only (linked into hydrv).
-/
import Hy.Base.Bytes
namespace Hy.Rate
open Hy

/-- `math.MaxUint64` -/
def U64Max : Nat := 18446744073709551615
/-- strconv's `cutoff = maxUint64/10 + 1`: the smallest n with n*10 > maxUint64 -/
def cutoff : Nat := 1844674407370955162

/-! ### strconv.ParseUint(s, 10, 64) -/

/-- error kind of `*strconv.NumError` (the callers in http.go discard it) -/
inductive PErr where
  | none | syntax | range
  deriving DecidableEq, Repr

/-- the digit loop of ParseUint for base 10 / bitSize 64, `acc` = `n` so far.
    Events are taken in the order Go takes them, byte by byte: a non-digit (this covers
    sign characters, blanks, '_' — base is not 0 —, letters: their digit value is ≥ 10)
    is a syntax error that returns 0; `n ≥ cutoff` or a wrap of `n*10 + d` is a range
    error that returns maxVal = 2^64-1. So "99999999999999999999x" is a RANGE error. -/
def parseGo (acc : Nat) : Bytes → Nat × PErr
  | [] => (acc, .none)
  | c :: cs =>
    if 48 ≤ c.val ∧ c.val ≤ 57 then
      if cutoff ≤ acc then (U64Max, .range)
      else
        let n1 := acc * 10 + (c.val - 48)
        if U64Max < n1 then (U64Max, .range) else parseGo n1 cs
    else (0, .syntax)

/-- `strconv.ParseUint(s, 10, 64)`: value and error kind -/
def parseUintE (s : Bytes) : Nat × PErr :=
  if s = [] then (0, .syntax) else parseGo 0 s

/-- `rx, _ := strconv.ParseUint(s, 10, 64)`: the value with the error dropped -/
def parseUint (s : Bytes) : Nat := (parseUintE s).1

/-! ### strconv.FormatUint(n, 10) -/

/-- decimal digits, most significant first -/
def decDigits (n : Nat) : List Nat :=
  if n < 10 then [n] else decDigits (n / 10) ++ [n % 10]
termination_by n
decreasing_by omega

def digitByte (d : Nat) : Byte := byte (48 + d)

def formatUint (n : Nat) : Bytes := (decDigits n).map digitByte

/-- bytes of an ASCII literal (kernel-reducible, unlike `String.toUTF8`) -/
def ascii (s : String) : Bytes := s.toList.map (fun c => byte c.toNat)

/-- the literal "auto" -/
def autoStr : Bytes := [byte 97, byte 117, byte 116, byte 111]

/-! ### the header codec of http.go (only the Hysteria-CC-RX part) -/

/-- `http.Header.Get(key)`: first value stored under the canonical key, "" if none -/
def hget (vals : List Bytes) : Bytes := vals.head?.getD []

/-- `AuthRequestFromHeader(h).Rx` -/
def authRequestFromHeader (vals : List Bytes) : Nat := parseUint (hget vals)

/-- value `AuthRequestToHeader` sets for Hysteria-CC-RX -/
def authRequestToHeader (rx : Nat) : Bytes := formatUint rx

/-- the two rate fields of `protocol.AuthResponse` -/
structure AuthResp where
  rx : Nat
  rxAuto : Bool
  deriving DecidableEq, Repr

def authResponseFromHeader (vals : List Bytes) : AuthResp :=
  let s := hget vals
  if s = autoStr then { rx := 0, rxAuto := true } else { rx := parseUint s, rxAuto := false }

def authResponseToHeader (r : AuthResp) : Bytes :=
  if r.rxAuto then autoStr else formatUint r.rx

/-! ### the two rules -/

/-- which congestion controller the code asks for -/
inductive Ctl where
  /-- `congestion.UseBrutal(conn, r, …)` -/
  | brutal (r : Nat)
  /-- `congestion.UseConfigured(conn, type, profile)` -/
  | configured
  deriving DecidableEq, Repr

/-- what one side does after a successful authentication -/
structure Outcome where
  /-- controller requested -/
  ctl : Ctl
  /-- value handed to the application: server `EventLogger.Connect(_, _, tx)`,
      client `HandshakeInfo.Tx` -/
  reported : Nat
  deriving DecidableEq, Repr

/-- server.go ServeHTTP: `clientRx` = `authReq.Rx`, `maxTx` = `BandwidthConfig.MaxTx`,
    `ignore` = `IgnoreClientBandwidth`. (The authenticator is called with `clientRx`
    before any of this.) The local `actualTx` is the variable of the same name. -/
def serverTx (clientRx maxTx : Nat) (ignore : Bool) : Outcome :=
  let actualTx := clientRx
  if ignore then
    -- UseConfigured; actualTx = 0
    { ctl := .configured, reported := 0 }
  else
    let actualTx := if 0 < maxTx ∧ maxTx < actualTx then maxTx else actualTx
    if 0 < actualTx then { ctl := .brutal actualTx, reported := actualTx }
    else { ctl := .configured, reported := actualTx }

/-- client.go connect: `resp` = `AuthResponseFromHeader(resp.Header)`, `maxTx` = the
    client's `BandwidthConfig.MaxTx`. `var actualTx uint64` starts at 0. -/
def clientTx (resp : AuthResp) (maxTx : Nat) : Outcome :=
  if resp.rxAuto then
    { ctl := .configured, reported := 0 }
  else
    let actualTx := resp.rx
    let actualTx := if actualTx = 0 ∨ maxTx < actualTx then maxTx else actualTx
    if 0 < actualTx then { ctl := .brutal actualTx, reported := actualTx }
    else { ctl := .configured, reported := actualTx }

/-- `server.Config.fill`: a non-zero MaxTx / MaxRx below 65536 is a configuration error
    (client.Config has no such floor) -/
def serverLimitOK (v : Nat) : Bool := v == 0 || decide (65536 ≤ v)

/-! ### controller installation (congestion/utils.go) -/

/-- what ends up on the `quic.Conn` -/
inductive Installed where
  /-- `SetCongestionControl(brutal.NewBrutalSender(r, …))` -/
  | brutal (r : Nat)
  /-- `SetCongestionControl(bbr.NewBbrSender(…))` -/
  | bbr
  /-- no `SetCongestionControl` call: quic-go's built-in controller stays (type "reno") -/
  | builtin
  deriving DecidableEq, Repr

/-- `UseConfigured`: `case TypeReno: return; default: UseBBR` -/
def useConfigured (reno : Bool) : Installed := if reno then .builtin else .bbr

def install (reno : Bool) : Ctl → Installed
  | .brutal r => .brutal r
  | .configured => useConfigured reno

/-! ### a whole handshake through the wire codec -/

structure Handshake where
  /-- `tx` argument of `Authenticator.Authenticate` -/
  authTx : Nat
  server : Outcome
  client : Outcome
  /-- Hysteria-CC-RX of the request and of the 233 response, as sent -/
  reqHdr : Bytes
  respHdr : Bytes
  deriving DecidableEq, Repr

/-- client config (cUp = MaxTx, cDown = MaxRx), server config (sUp = MaxTx, sDown = MaxRx,
    ignore = IgnoreClientBandwidth); a transport that delivers header values unchanged. -/
def handshake (cUp cDown sUp sDown : Nat) (ignore : Bool) : Handshake :=
  let reqHdr := authRequestToHeader cDown
  let clientRx := authRequestFromHeader [reqHdr]
  let respHdr := authResponseToHeader { rx := sDown, rxAuto := ignore }
  let resp := authResponseFromHeader [respHdr]
  { authTx := clientRx, server := serverTx clientRx sUp ignore, client := clientTx resp cUp,
    reqHdr := reqHdr, respHdr := respHdr }

end Hy.Rate
