/-
  C12(c) — exact executable model of core/internal/congestion/bbr/bandwidth_sampler.go and
  windowed_filter.go.

  Number types as in Go: ByteCount / monotime.Time / time.Duration / PacketNumber are int64
  (`Int` here, every +, −, × wrapped by `i64`), Bandwidth and roundTripCount are uint64 (`Nat`,
  wrapped by `u64`); `/` on int64 truncates toward zero (`Int.tdiv`).  The per-packet records live
  in the packet-number queue model of layer (a) (`Hy.Pnq.PNQ ConnState`), the A0 candidates in
  the ring model (`Hy.Ring.RB AckPoint`), so their panics are explicit.  The only float
  expression of the file, `ByteCount(ackAggregationBandwidthThreshold*float64(expectedBytesAcked))`,
  has threshold ∈ {1.0, 2.0} and |expectedBytesAcked| ≤ 2^63/(8·10^9) < 2^31, so it is the exact
  integer product `threshold * expectedBytesAcked`.
  `WindowedFilter.estimates` always has length 3 (`make(…, 3, 3)` in the constructor and in
  Clear), so it is a triple here.
  Core Lean only (linked into hydrv).
-/
import Hy.Model.Pnq
namespace Hy.Sampler
open Hy Hy.Ring Hy.Pnq

/-! ### Go integer arithmetic -/

def two63 : Int := 9223372036854775808
def two64 : Int := 18446744073709551616

/-- wrap to int64 -/
def i64 (x : Int) : Int := (x + two63) % two64 - two63
/-- wrap to uint64 -/
def u64 (x : Int) : Nat := (x % two64).toNat

def maxU64 : Nat := 18446744073709551615
def infBandwidth : Nat := maxU64
def infRTT : Int := 9223372036854775807
def invalidPn : Int := -1

/-- `BandwidthFromDelta(bytes, delta)` (bandwidth.go): all in uint64; faults when `Bandwidth(delta)` is 0 -/
def bandwidthFromDelta (bytes delta : Int) : Res Nat :=
  let d := u64 delta
  if d = 0 then .panic
  else .ok (u64 ((u64 ((u64 bytes : Int) * 1000000000) / d : Nat) * 8))

/-- `bytesFromBandwidthAndTimeDelta(bandwidth, delta)`: int64 product (wraps), truncating division -/
def bytesFromBandwidthAndTimeDelta (bandwidth : Nat) (delta : Int) : Int :=
  Int.tdiv (i64 (i64 (bandwidth : Int) * delta)) 8000000000

/-! ### WindowedFilter[V, T] with T = uint64 -/

structure WFilter (V : Type) where
  windowLength : Nat
  e0 : V × Nat
  e1 : V × Nat
  e2 : V × Nat
  deriving Repr, DecidableEq

namespace WFilter
variable {V : Type}

/-- `NewWindowedFilter` / `Clear()` -/
def new (zero : V) (windowLength : Nat) : WFilter V :=
  { windowLength := windowLength, e0 := (zero, 0), e1 := (zero, 0), e2 := (zero, 0) }

def clear (zero : V) (f : WFilter V) : WFilter V :=
  { f with e0 := (zero, 0), e1 := (zero, 0), e2 := (zero, 0) }

def getBest (f : WFilter V) : V := f.e0.1
def getSecondBest (f : WFilter V) : V := f.e1.1
def getThirdBest (f : WFilter V) : V := f.e2.1

/-- `Reset(newSample, newTime)` -/
def reset (f : WFilter V) (v : V) (t : Nat) : WFilter V :=
  { f with e0 := (v, t), e1 := (v, t), e2 := (v, t) }

/-- uint64 subtraction `newTime - e.time` -/
def age (t et : Nat) : Nat := u64 ((t : Int) - (et : Int))

/-- `Update(newSample, newTime)` for a comparator that orders by `key` (MaxFilter on the value
    itself, maxExtraAckedEventFunc on `extraAcked`); `kz` = key of the zero value of V -/
def update (key : V → Int) (kz : Int) (f : WFilter V) (v : V) (t : Nat) : WFilter V :=
  if key f.e0.1 = kz ∨ key v ≥ key f.e0.1 ∨ age t f.e2.2 > f.windowLength then f.reset v t
  else
    let f := if key v ≥ key f.e1.1 then { f with e1 := (v, t), e2 := (v, t) }
             else if key v ≥ key f.e2.1 then { f with e2 := (v, t) } else f
    if age t f.e0.2 > f.windowLength then
      let f := { f with e0 := f.e1, e1 := f.e2, e2 := (v, t) }
      if age t f.e0.2 > f.windowLength then { f with e0 := f.e1, e1 := f.e2 } else f
    else if key f.e1.1 = key f.e0.1 ∧ age t f.e1.2 > f.windowLength / 4 then
      { f with e1 := (v, t), e2 := (v, t) }
    else if key f.e2.1 = key f.e1.1 ∧ age t f.e2.2 > f.windowLength / 2 then
      { f with e2 := (v, t) }
    else f

end WFilter

/-! ### records -/

structure SendTimeState where
  isValid : Bool
  isAppLimited : Bool
  totalBytesSent : Int
  totalBytesAcked : Int
  totalBytesLost : Int
  bytesInFlight : Int
  deriving Repr, DecidableEq, Inhabited

/-- `connectionStateOnSentPacket` -/
structure ConnState where
  sentTime : Int
  size : Int
  totalBytesSentAtLastAckedPacket : Int
  lastAckedPacketSentTime : Int
  lastAckedPacketAckTime : Int
  sts : SendTimeState
  deriving Repr, DecidableEq, Inhabited

structure ExtraAckedEvent where
  extraAcked : Int
  bytesAcked : Int
  timeDelta : Int
  round : Nat
  deriving Repr, DecidableEq, Inhabited

structure AckPoint where
  ackTime : Int
  totalBytesAcked : Int
  deriving Repr, DecidableEq, Inhabited

/-- `maxAckHeightTracker` -/
structure Tracker where
  filter : WFilter ExtraAckedEvent
  epochStart : Int
  epochBytes : Int
  lastSentBeforeEpoch : Int
  numEpochs : Nat
  threshold : Int                      -- ackAggregationBandwidthThreshold (1.0 or 2.0)
  startNewAfterFullRound : Bool
  reduceOnIncrease : Bool
  deriving Repr, DecidableEq

structure BandwidthSample where
  bandwidth : Nat
  rtt : Int
  sendRate : Nat
  stateAtSend : SendTimeState
  deriving Repr, DecidableEq

/-- `congestionEventSample` -/
structure EventSample where
  sampleMaxBandwidth : Nat
  sampleIsAppLimited : Bool
  sampleRtt : Int
  sampleMaxInflight : Int
  lastPacketSendState : SendTimeState
  extraAcked : Int
  deriving Repr, DecidableEq

structure Sampler where
  totalBytesSent : Int
  totalBytesAcked : Int
  totalBytesLost : Int
  totalBytesNeutered : Int
  totalBytesSentAtLastAckedPacket : Int
  lastAckedPacketSentTime : Int
  lastAckedPacketAckTime : Int
  lastSentPacket : Int
  lastAckedPacket : Int
  isAppLimited : Bool
  endOfAppLimitedPhase : Int
  map : PNQ ConnState
  recent0 : AckPoint
  recent1 : AckPoint
  a0 : RB AckPoint
  tracker : Tracker
  totalBytesAckedAfterLastAckEvent : Int
  overestimateAvoidance : Bool
  limitBySendRate : Bool
  deriving Repr, DecidableEq

def zeroEvent : ExtraAckedEvent := default
def evKey (e : ExtraAckedEvent) : Int := e.extraAcked

/-! ### maxAckHeightTracker -/

def Tracker.new (windowLength : Nat) : Tracker :=
  { filter := WFilter.new zeroEvent windowLength, epochStart := 0, epochBytes := 0,
    lastSentBeforeEpoch := invalidPn, numEpochs := 0, threshold := 1,
    startNewAfterFullRound := false, reduceOnIncrease := false }

/-- `Get()` -/
def Tracker.get (m : Tracker) : Int := m.filter.getBest.extraAcked

/-- `Reset(newHeight, newTime)` -/
def Tracker.reset (m : Tracker) (newHeight : Int) (newTime : Nat) : Tracker :=
  { m with filter := m.filter.reset { zeroEvent with extraAcked := newHeight, round := newTime } newTime }

/-- re-insert one saved estimate after `Clear()` (bandwidth_sampler.go:150-164) -/
def reinsert (bw : Nat) (f : WFilter ExtraAckedEvent) (e : ExtraAckedEvent) : WFilter ExtraAckedEvent :=
  let expected := bytesFromBandwidthAndTimeDelta bw e.timeDelta
  if expected < e.bytesAcked then
    f.update evKey 0 { e with extraAcked := i64 (e.bytesAcked - expected) } e.round
  else f

/-- `maxAckHeightTracker.Update` (bandwidth_sampler.go:131-209) -/
def Tracker.update (m : Tracker) (bwEst : Nat) (isNewMax : Bool) (rtc : Nat)
    (lastSentPn lastAckedPn : Int) (ackTime bytesAcked : Int) : Tracker × Int :=
  let m :=
    if m.reduceOnIncrease ∧ isNewMax then
      let best := m.filter.getBest
      let second := m.filter.getSecondBest
      let third := m.filter.getThirdBest
      let f := m.filter.clear zeroEvent
      let f := reinsert bwEst f best
      let f := reinsert bwEst f second
      let f := reinsert bwEst f third
      { m with filter := f }
    else m
  let force := m.startNewAfterFullRound ∧ m.lastSentBeforeEpoch ≠ invalidPn ∧ lastAckedPn ≠ invalidPn ∧
      lastAckedPn > m.lastSentBeforeEpoch
  if m.epochStart = 0 ∨ force then
    ({ m with epochBytes := bytesAcked, epochStart := ackTime, lastSentBeforeEpoch := lastSentPn,
              numEpochs := m.numEpochs + 1 }, 0)
  else
    let delta := i64 (ackTime - m.epochStart)
    let expected := bytesFromBandwidthAndTimeDelta bwEst delta
    if m.epochBytes ≤ m.threshold * expected then
      ({ m with epochBytes := bytesAcked, epochStart := ackTime, lastSentBeforeEpoch := lastSentPn,
                numEpochs := m.numEpochs + 1 }, 0)
    else
      let eb := i64 (m.epochBytes + bytesAcked)
      let extra := i64 (eb - expected)
      let ev : ExtraAckedEvent := { extraAcked := extra, bytesAcked := eb, timeDelta := delta, round := 0 }
      ({ m with epochBytes := eb, filter := m.filter.update evKey 0 ev rtc }, extra)

/-! ### bandwidthSampler -/

/-- `newBandwidthSampler(windowLength)` with the two queue sizes of the package -/
def Sampler.new (windowLength mapSize candSize : Nat) : Sampler :=
  { totalBytesSent := 0, totalBytesAcked := 0, totalBytesLost := 0, totalBytesNeutered := 0,
    totalBytesSentAtLastAckedPacket := 0, lastAckedPacketSentTime := 0, lastAckedPacketAckTime := 0,
    lastSentPacket := invalidPn, lastAckedPacket := invalidPn, isAppLimited := false,
    endOfAppLimitedPhase := invalidPn, map := Pnq.new mapSize, recent0 := default, recent1 := default,
    a0 := Ring.init candSize, tracker := Tracker.new windowLength,
    totalBytesAckedAfterLastAckEvent := 0, overestimateAvoidance := false, limitBySendRate := false }

/-- `EnableOverestimateAvoidance()` -/
def Sampler.enableOverestimateAvoidance (b : Sampler) : Sampler :=
  if b.overestimateAvoidance then b
  else { b with overestimateAvoidance := true, tracker := { b.tracker with threshold := 2 } }

def Sampler.setReduceExtraAcked (b : Sampler) (v : Bool) : Sampler :=
  { b with tracker := { b.tracker with reduceOnIncrease := v } }

/-- `recentAckPoints.Update` -/
def recentUpdate (b : Sampler) (ackTime total : Int) : Sampler :=
  let b :=
    if ackTime < b.recent1.ackTime then { b with recent1 := { b.recent1 with ackTime := ackTime } }
    else if ackTime > b.recent1.ackTime then
      { b with recent0 := b.recent1, recent1 := { b.recent1 with ackTime := ackTime } }
    else b
  { b with recent1 := { b.recent1 with totalBytesAcked := total } }

/-- `LessRecentPoint()` -/
def lessRecent (b : Sampler) : AckPoint :=
  if b.recent0.totalBytesAcked ≠ 0 then b.recent0 else b.recent1

/-- `OnAppLimited()` -/
def Sampler.onAppLimited (b : Sampler) : Sampler :=
  { b with isAppLimited := true, endOfAppLimitedPhase := b.lastSentPacket }

/-- `ResetMaxAckHeightTracker` -/
def Sampler.resetMaxAckHeightTracker (b : Sampler) (h : Int) (t : Nat) : Sampler :=
  { b with tracker := b.tracker.reset h t }

/-- `MaxAckHeight()` -/
def Sampler.maxAckHeight (b : Sampler) : Int := b.tracker.get

/-- `RemoveObsoletePackets(leastUnacked)` -/
def Sampler.removeObsoletePackets (b : Sampler) (leastUnacked : Int) : Res Sampler := do
  let m ← b.map.removeUpTo leastUnacked
  pure { b with map := m }

/-- `OnPacketSent` (bandwidth_sampler.go:554-596) -/
def Sampler.onPacketSent (b : Sampler) (sentTime pn bytes inflight : Int) (retransmittable : Bool) :
    Res Sampler := do
  let b := { b with lastSentPacket := pn }
  if !retransmittable then pure b
  else
    let b := { b with totalBytesSent := i64 (b.totalBytesSent + bytes) }
    let b ←
      if inflight = 0 then do
        let b := { b with lastAckedPacketAckTime := sentTime }
        let b ←
          if b.overestimateAvoidance then do
            let b := { b with recent0 := default, recent1 := default }
            let b := recentUpdate b sentTime b.totalBytesAcked
            let a ← b.a0.clear.pushBack b.recent1
            pure { b with a0 := a }
          else pure b
        pure { b with totalBytesSentAtLastAckedPacket := b.totalBytesSent, lastAckedPacketSentTime := sentTime }
      else pure b
    let st : ConnState :=
      { sentTime := sentTime, size := bytes,
        totalBytesSentAtLastAckedPacket := b.totalBytesSentAtLastAckedPacket,
        lastAckedPacketSentTime := b.lastAckedPacketSentTime,
        lastAckedPacketAckTime := b.lastAckedPacketAckTime,
        sts := { isValid := true, isAppLimited := b.isAppLimited, totalBytesSent := b.totalBytesSent,
                 totalBytesAcked := b.totalBytesAcked, totalBytesLost := b.totalBytesLost,
                 bytesInFlight := i64 (inflight + bytes) } }
    let (_, m) ← b.map.emplace pn (some st)
    pure { b with map := m }

/-- `sentPacketToSendTimeState` -/
def toSendTimeState (c : ConnState) : SendTimeState := { c.sts with isValid := true }

/-- `OnPacketLost` -/
def Sampler.onPacketLost (b : Sampler) (pn bytesLost : Int) : Res (Sampler × SendTimeState) := do
  let b := { b with totalBytesLost := i64 (b.totalBytesLost + bytesLost) }
  let e ← b.map.getEntry pn
  match e with
  | some c => pure (b, toSendTimeState c)
  | none => pure (b, default)

/-- pop `n` elements -/
def popN : Nat → RB AckPoint → Res (RB AckPoint)
  | 0, r => .ok r
  | n + 1, r => do
    let (_, r') ← r.popFront
    popN n r'

/-- `for k := 0; k < Len()-1; k++ { PopFront() }` — `Len()` is re-evaluated while the buffer shrinks -/
def popWhileK : Nat → Nat → RB AckPoint → Res (RB AckPoint)
  | 0, _, r => .ok r
  | fuel + 1, k, r =>
    if (k : Int) < (r.len : Int) - 1 then do
      let (_, r') ← r.popFront
      popWhileK fuel (k + 1) r'
    else .ok r

/-- the search loop of `chooseA0Point`: first `i ≥ 1` with `Offset(i).totalBytesAcked > total` -/
def findA0 (total : Int) : Nat → Nat → RB AckPoint → Res (Option Nat)
  | 0, _, _ => .ok none
  | fuel + 1, i, r =>
    if i < r.len then do
      let p ← r.offset (i : Int)
      if p.totalBytesAcked > total then pure (some i) else findA0 total fuel (i + 1) r
    else .ok none

/-- `chooseA0Point(totalBytesAcked, &a0)` -/
def Sampler.chooseA0Point (b : Sampler) (total : Int) : Res (Sampler × Option AckPoint) := do
  if b.a0.empty then pure (b, none)
  else if b.a0.len = 1 then do
    let p ← b.a0.front
    pure (b, some p)
  else do
    let found ← findA0 total b.a0.len 1 b.a0
    match found with
    | some i => do
      let p ← b.a0.offset ((i : Int) - 1)
      let a ← if i > 1 then popN (i - 1) b.a0 else pure b.a0
      pure ({ b with a0 := a }, some p)
    | none => do
      let p ← b.a0.back
      let a ← popWhileK b.a0.len 0 b.a0
      pure ({ b with a0 := a }, some p)

def newBandwidthSample : BandwidthSample :=
  { bandwidth := 0, rtt := 0, sendRate := infBandwidth, stateAtSend := default }

/-- `onPacketAcknowledged` (bandwidth_sampler.go:762-833) -/
def Sampler.onPacketAcknowledged (b : Sampler) (ackTime pn : Int) : Res (Sampler × BandwidthSample) := do
  let b := { b with lastAckedPacket := pn }
  let e ← b.map.getEntry pn
  match e with
  | none => pure (b, newBandwidthSample)
  | some c =>
    let b := { b with totalBytesAcked := i64 (b.totalBytesAcked + c.size),
                      totalBytesSentAtLastAckedPacket := c.sts.totalBytesSent,
                      lastAckedPacketSentTime := c.sentTime,
                      lastAckedPacketAckTime := ackTime }
    let b := if b.overestimateAvoidance then recentUpdate b ackTime b.totalBytesAcked else b
    let b := if b.isAppLimited ∧ (b.endOfAppLimitedPhase = invalidPn ∨ pn > b.endOfAppLimitedPhase)
             then { b with isAppLimited := false } else b
    if c.lastAckedPacketSentTime = 0 then pure (b, newBandwidthSample)
    else do
      let sendRate ←
        if c.sentTime > c.lastAckedPacketSentTime then
          bandwidthFromDelta (i64 (c.sts.totalBytesSent - c.totalBytesSentAtLastAckedPacket))
            (i64 (c.sentTime - c.lastAckedPacketSentTime))
        else pure infBandwidth
      let (b, a0) ←
        if b.overestimateAvoidance then do
          let (b', p) ← b.chooseA0Point c.sts.totalBytesAcked
          match p with
          | some p => pure (b', p)
          | none => pure (b', ({ ackTime := c.lastAckedPacketAckTime, totalBytesAcked := c.sts.totalBytesAcked } : AckPoint))
        else pure (b, ({ ackTime := c.lastAckedPacketAckTime, totalBytesAcked := c.sts.totalBytesAcked } : AckPoint))
      if i64 (ackTime - a0.ackTime) ≤ 0 then pure (b, newBandwidthSample)
      else do
        let ackRate ← bandwidthFromDelta (i64 (b.totalBytesAcked - a0.totalBytesAcked)) (i64 (ackTime - a0.ackTime))
        pure (b, { bandwidth := min sendRate ackRate, rtt := i64 (ackTime - c.sentTime), sendRate := sendRate,
                   stateAtSend := toSendTimeState c })

/-- `onAckEventEnd` -/
def Sampler.onAckEventEnd (b : Sampler) (bwEst : Nat) (isNewMax : Bool) (rtc : Nat) : Res (Sampler × Int) := do
  let newly := i64 (b.totalBytesAcked - b.totalBytesAckedAfterLastAckEvent)
  if newly = 0 then pure (b, 0)
  else
    let b := { b with totalBytesAckedAfterLastAckEvent := b.totalBytesAcked }
    let (t, extra) := b.tracker.update bwEst isNewMax rtc b.lastSentPacket b.lastAckedPacket b.lastAckedPacketAckTime newly
    let b := { b with tracker := t }
    if b.overestimateAvoidance ∧ extra = 0 then do
      let a ← b.a0.pushBack (lessRecent b)
      pure ({ b with a0 := a }, extra)
    else pure (b, extra)

/-- the loop over lost packets -/
def lostLoop : List (Int × Int) → Sampler → SendTimeState → Res (Sampler × SendTimeState)
  | [], b, st => .ok (b, st)
  | (pn, bytes) :: rest, b, st => do
    let (b, s) ← b.onPacketLost pn bytes
    lostLoop rest b (if s.isValid then s else st)

structure AckAcc where
  es : EventSample
  lastAcked : SendTimeState
  maxSendRate : Nat

/-- the loop over acked packets (bandwidth_sampler.go:626-648) -/
def ackLoop (ackTime : Int) : List (Int × Int) → Sampler → AckAcc → Res (Sampler × AckAcc)
  | [], b, a => .ok (b, a)
  | (pn, _) :: rest, b, a => do
    let (b, s) ← b.onPacketAcknowledged ackTime pn
    if !s.stateAtSend.isValid then ackLoop ackTime rest b a
    else
      let es := a.es
      let es := if s.rtt ≠ 0 then { es with sampleRtt := min es.sampleRtt s.rtt } else es
      let es := if s.bandwidth > es.sampleMaxBandwidth then
          { es with sampleMaxBandwidth := s.bandwidth, sampleIsAppLimited := s.stateAtSend.isAppLimited } else es
      let msr := if s.sendRate ≠ infBandwidth then max a.maxSendRate s.sendRate else a.maxSendRate
      let infl := i64 (b.totalBytesAcked - s.stateAtSend.totalBytesAcked)
      let es := if infl > es.sampleMaxInflight then { es with sampleMaxInflight := infl } else es
      ackLoop ackTime rest b { es := es, lastAcked := s.stateAtSend, maxSendRate := msr }

def newEventSample : EventSample :=
  { sampleMaxBandwidth := 0, sampleIsAppLimited := false, sampleRtt := infRTT, sampleMaxInflight := 0,
    lastPacketSendState := default, extraAcked := 0 }

/-- `OnCongestionEvent` (bandwidth_sampler.go:598-675); packets are (number, bytes) -/
def Sampler.onCongestionEvent (b : Sampler) (ackTime : Int) (acked lost : List (Int × Int))
    (maxBandwidth upperBound : Nat) (rtc : Nat) : Res (Sampler × EventSample) := do
  let (b, lastLost) ← lostLoop lost b default
  if acked.isEmpty then pure (b, { newEventSample with lastPacketSendState := lastLost })
  else do
    let (b, acc) ← ackLoop ackTime acked b { es := newEventSample, lastAcked := default, maxSendRate := 0 }
    let es := acc.es
    let lps ←
      if !lastLost.isValid then pure acc.lastAcked
      else if !acc.lastAcked.isValid then pure lastLost
      else do
        -- lostPackets[len(lostPackets)-1] / ackedPackets[len(ackedPackets)-1]
        let ll ← match lost.getLast? with | some p => Res.ok p | none => Res.panic
        let la ← match acked.getLast? with | some p => Res.ok p | none => Res.panic
        pure (if ll.1 > la.1 then lastLost else acc.lastAcked)
    let es := { es with lastPacketSendState := lps }
    let isNewMax := decide (es.sampleMaxBandwidth > maxBandwidth)
    let mb := max maxBandwidth es.sampleMaxBandwidth
    let mb := if b.limitBySendRate then max mb acc.maxSendRate else mb
    let (b, extra) ← b.onAckEventEnd (min upperBound mb) isNewMax rtc
    pure (b, { es with extraAcked := extra })

end Hy.Sampler
