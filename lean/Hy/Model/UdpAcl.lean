/-
  C08 — destination handling of `udpSessionEntry.Feed` (core/server/udp.go:96-175).

  What is modelled (one session entry, only the receive loop touches this state):

    Feed(msg):  dfMsg := defrag(msg)            -- not here: ops are complete datagrams
                if e.conn == nil {
                    initConn(dfMsg)              -- closed check; DialFunc = Hook → log → io.UDP
                    if OverrideAddr == "" { aclCache = {dfMsg.Addr: nil} }
                }
                addr := dfMsg.Addr
                if OverrideAddr != "" { addr = OverrideAddr }
                else if err := checkAddr(addr); err != nil { return }
                conn.WriteTo(data, addr)
    checkAddr:  cache hit → cached verdict
                miss → verdict := IO.CheckUDP(addr);
                       if len(cache) >= maxSessionACLCache { delete ONE key (map order) }
                       cache[addr] = verdict
    receiveLoop: rAddr := OriginalAddr if OriginalAddr != "" else the packet's source

  The policy is `P : Addr → Bool` (true = CheckUDP returns nil), fixed for the session.
  The victim of an eviction is an INPUT (Go's map iteration order); if the input names a
  key that is not cached the model falls back to the head of its list, so every input is
  a legal Go behaviour and every Go behaviour is some input.
  The empty string is Go's "no override / no original" sentinel and is modelled as such.
  Core Lean only (linked into hydrv).
-/
namespace Hy.UdpAcl

abbrev Addr := String

/-- `aclCache`: key ↦ verdict (true = allowed).  Keys are unique (theorem `keys_nodup`). -/
abbrev Cache := List (Addr × Bool)

def lookup (c : Cache) (a : Addr) : Option Bool :=
  match c with
  | [] => none
  | (k, v) :: rest => if k = a then some v else lookup rest a

def erase (c : Cache) (a : Addr) : Cache := c.filter (fun e => e.1 ≠ a)

/-- `for k := range cache { delete(cache, k); break }` with the iteration's first key as input. -/
def evict (c : Cache) (victim : Addr) : Cache :=
  if (lookup c victim).isSome then erase c victim else c.drop 1

/-- `checkAddr`: (cache', verdict, whether IO.CheckUDP was called). -/
def checkAddr (P : Addr → Bool) (cap : Nat) (c : Cache) (a victim : Addr) : Cache × Bool × Bool :=
  match lookup c a with
  | some v => (c, v, false)
  | none =>
    let v := P a
    let c1 := if c.length ≥ cap then evict c victim else c
    ((a, v) :: c1, v, true)

/-- Per-entry address state: `OverrideAddr`, `OriginalAddr`, `aclCache`. -/
structure St where
  override : Addr := ""
  original : Addr := ""
  cache    : Cache := []
  deriving DecidableEq, Repr

/-- State right after a successful `initConn(first)` whose DialFunc dialled `actual`
    (= `first` unless the request hook rewrote it), including the cache seeding in `Feed`. -/
def afterDial (first actual : Addr) : St :=
  if first ≠ actual then
    if actual = "" then { override := "", original := first, cache := [(first, true)] }
    else { override := actual, original := first, cache := [] }
  else { override := "", original := "", cache := [(first, true)] }

/-- The part of `Feed` after the connection exists: (state', CheckUDP called?, WriteTo target or
    `none` when the policy verdict is an error). -/
def route (P : Addr → Bool) (cap : Nat) (st : St) (a victim : Addr) : St × Bool × Option Addr :=
  if st.override ≠ "" then (st, false, some st.override)
  else
    let r := checkAddr P cap st.cache a victim
    ({ st with cache := r.1 }, r.2.2, if r.2.1 then some a else none)

/-- Source address the reply loop reports upstream for a packet read from `r`. -/
def replyFrom (st : St) (r : Addr) : Addr := if st.original ≠ "" then st.original else r

/-! ### One session as a sequence of operations -/

/-- Result of DialFunc: the hook failed; the hook produced `actual` and io.UDP failed; or succeeded. -/
inductive DialRes where
  | hookErr
  | fail (actual : Addr)
  | ok (actual : Addr)
  deriving DecidableEq, Repr

inductive Op where
  /-- a complete datagram for destination `addr`; `d` is consumed only if no socket exists yet,
      `victim` only if an eviction happens -/
  | dg (addr : Addr) (d : DialRes) (victim : Addr)
  /-- a packet from `raddr` arrives on the session's socket -/
  | reply (raddr : Addr)
  deriving DecidableEq, Repr

inductive Ev where
  | dial (a : Addr) (ok : Bool)   -- io.UDP(a)
  | check (a : Addr)              -- io.CheckUDP(a)
  | write (a : Addr)              -- conn.WriteTo(_, a)
  | up (src : Addr)               -- SendMessage with Addr = src
  deriving DecidableEq, Repr

structure Sess where
  conn   : Bool := false
  closed : Bool := false
  acl    : St := {}
  deriving DecidableEq, Repr

def writeEvs (called : Bool) (a : Addr) (tgt : Option Addr) : List Ev :=
  (if called then [Ev.check a] else []) ++ (match tgt with | some t => [Ev.write t] | none => [])

def feedConn (P : Addr → Bool) (cap : Nat) (s : Sess) (addr victim : Addr) : Sess × List Ev :=
  let r := route P cap s.acl addr victim
  ({ s with acl := r.1 }, writeEvs r.2.1 addr r.2.2)

def stepOp (P : Addr → Bool) (cap : Nat) (s : Sess) : Op → Sess × List Ev
  | .dg addr d victim =>
    if s.conn then feedConn P cap s addr victim
    else if s.closed then (s, [])                       -- initConn: "session is closed"
    else match d with
      | .hookErr => ({ s with closed := true }, [])
      | .fail a => ({ s with closed := true }, [Ev.dial a false])
      | .ok a =>
        let s1 : Sess := { s with conn := true, acl := afterDial addr a }
        let r := feedConn P cap s1 addr victim
        (r.1, Ev.dial a true :: r.2)
  | .reply raddr =>
    if s.conn then (s, [Ev.up (replyFrom s.acl raddr)]) else (s, [])

/-- run a history, collecting the events -/
def run (P : Addr → Bool) (cap : Nat) : Sess → List Op → Sess × List Ev
  | s, [] => (s, [])
  | s, op :: rest =>
    let r := stepOp P cap s op
    let r2 := run P cap r.1 rest
    (r2.1, r.2 ++ r2.2)

/-- The contract on `Outbound` the property rests on: `UDP(a)` succeeds only for destinations
    `CheckUDP` allows (DESIGN §6 C08; `aclEngine` satisfies it by construction). -/
def DialContract (P : Addr → Bool) : Op → Prop
  | .dg _ (.ok a) _ => P a = true
  | _ => True

instance (P : Addr → Bool) (op : Op) : Decidable (DialContract P op) := by
  unfold DialContract; split <;> exact inferInstance

end Hy.UdpAcl
