/-
  C01 — the server's per-connection authentication gate (core/server/server.go:
  handleClient, h3sHandler.ServeHTTP, ProxyStreamHijacker, handleTCPRequest, and the UDP
  session manager started in the auth-ok branch).  Core Lean only (linked into `hydrv`).

  One `Conn` per accepted QUIC connection (= per h3sHandler).  The goroutines of a
  connection are small programs of ATOMIC STEPS (`Act`); a schedule is a `List Label`
  (label = connection + act), `run = foldl step`, and a step whose label is not enabled is
  the identity, so "for every interleaving, on any number of connections" is `∀ sched`.
  The authenticator's verdict, what a TCPRequest decodes to, whether the request hook
  fires, whether a dial succeeds, chunk sizes: all INPUTS carried by the labels.

  Effects (`Eff`) are what the environment can observe; `St.log` keeps them newest first,
  `effects` is the chronological list.
-/
import Hy.Gen.Core
namespace Hy.Auth

abbrev ConnId := Nat

/-- progress of the ServeHTTP call that holds `authMutex` -/
inductive Phase where
  | idle                 -- mutex free
  | calling              -- `Authenticator.Authenticate` has been called and has not returned
  | decided (v : Bool)   -- it returned `v`; the handler has not acted on it yet
  deriving DecidableEq, Repr

/-- program counter of one `handleTCPRequest` goroutine -/
inductive TcpPc where
  | reading                                    -- before `ReadTCPRequest`
  | dialing (a : String) (hooked : Bool)       -- request read (hook consulted), before `Outbound.TCP`
  | responding (a : String) (hooked : Bool)    -- dial succeeded, before `WriteTCPResponse(ok)`
  | relaying (a : String)                      -- inside copyTwoWay
  | done
  deriving DecidableEq, Repr

structure Conn where
  authed : Bool := false                       -- h3sHandler.authenticated
  phase  : Phase := .idle
  udpUp  : Bool := false                       -- the UDP session manager goroutine exists
  dgq    : List (Option (String × Nat)) := []  -- datagrams quic-go holds for this connection (none = not a UDPMessage)
  sess   : Nat := 0                            -- UDP sessions with an outbound socket
  tcp    : List TcpPc := []                    -- handleTCPRequest goroutines, in spawn order
  closed : Bool := false                       -- handleClient has returned
  deriving DecidableEq, Repr

inductive RelayKind where
  | tcpUp | tcpDown | udpUp | udpDown
  deriving DecidableEq, Repr

inductive Eff where
  | authCall (c : ConnId) (cred : String)   -- Authenticator.Authenticate invoked
  | verdict (c : ConnId) (ok : Bool)        -- ... and returned
  | resp233 (c : ConnId)                    -- status 233 + Hysteria-* headers written
  | masq (c : ConnId)                       -- request handed to the masquerade handler
  | online (c : ConnId) (up : Bool)         -- LogOnlineState / Connect / Disconnect
  | dialTCP (c : ConnId) (a : String)       -- Outbound.TCP
  | tcpResp (c : ConnId) (ok : Bool)        -- TCPResponse bytes written to the client
  | dialUDP (c : ConnId) (a : String)       -- Outbound.UDP
  | relay (c : ConnId) (k : RelayKind) (a : String) (n : Nat)  -- payload forwarded
  deriving DecidableEq, Repr

def Eff.conn : Eff → ConnId
  | .authCall c _ | .verdict c _ | .resp233 c | .masq c | .online c _
  | .dialTCP c _ | .tcpResp c _ | .dialUDP c _ | .relay c _ _ _ => c

/-- opens an outbound socket or forwards payload (C01) -/
def Eff.isProxy : Eff → Bool
  | .dialTCP .. | .dialUDP .. | .relay .. => true
  | _ => false

/-- Hysteria protocol bytes sent to the client on a proxy stream / as a datagram (C02) -/
def Eff.isReply : Eff → Bool
  | .tcpResp .. | .relay _ .tcpDown _ _ | .relay _ .udpDown _ _ => true
  | _ => false

/-- everything that must be preceded by an accepted authentication of the same connection -/
def Eff.gated (e : Eff) : Bool := e.isProxy || e.isReply

/-- the acceptance event of connection `c`: the configured authenticator returned ok -/
abbrev accepted (c : ConnId) : Eff := .verdict c true

inductive Act where
  | authBegin (cred : String)      -- auth-shaped request: take authMutex; authed → 233, else call the authenticator
  | authVerdict (v : Bool)         -- ENVIRONMENT: the authenticator returns (arbitrarily late)
  | authCommit                     -- act on the verdict (flag, 233, online, UDP manager | masquerade); unlock
  | http                           -- any other HTTP/3 request
  | stream (ft : Nat)              -- a bidirectional stream whose first varint is `ft` reaches the dispatcher
  | tcpRead (h : Nat) (req : Option String) (hooked : Bool)  -- handler h: ReadTCPRequest (none = error) + RequestHook.Check
  | tcpDial (h : Nat) (ok : Bool)  -- handler h: Outbound.TCP returns
  | tcpRespond (h : Nat)           -- handler h: WriteTCPResponse(true, "Connected")
  | tcpRelay (h : Nat) (up : Bool) (n : Nat)   -- handler h: one chunk forwarded
  | tcpEnd (h : Nat)               -- handler h: copy finished
  | dgramIn (m : Option (String × Nat))  -- quic-go receives a datagram on this connection
  | udpRecv (dialOk : Bool)        -- UDP manager: ReceiveMessage + feed (new session: Outbound.UDP; WriteTo)
  | udpReply (a : String) (n : Nat)  -- a session's receive loop sends a UDPMessage to the client
  | connEnd                        -- ServeQUICConn returned; handleClient logs the disconnect
  deriving DecidableEq, Repr

structure Label where
  conn : ConnId
  act  : Act
  deriving DecidableEq, Repr

structure Cfg where
  udp : Bool    -- !Config.DisableUDP
  deriving DecidableEq, Repr

def setPc (k : Conn) (h : Nat) (pc : TcpPc) : Conn := { k with tcp := k.tcp.set h pc }

/-- one atomic step of connection `c` in local state `k`: new local state and the effects
    it emits, in chronological order.  A disabled act returns `(k, [])`. -/
def cstep (cfg : Cfg) (c : ConnId) (k : Conn) : Act → Conn × List Eff
  | .authBegin cred =>
    if k.closed then (k, []) else
    match k.phase with
    | .idle => if k.authed then (k, [.resp233 c]) else ({ k with phase := .calling }, [.authCall c cred])
    | _ => (k, [])                     -- authMutex is held by the request in progress
  | .authVerdict v =>
    match k.phase with
    | .calling => ({ k with phase := .decided v }, [.verdict c v])
    | _ => (k, [])
  | .authCommit =>
    match k.phase with
    | .decided true => ({ k with phase := .idle, authed := true, udpUp := cfg.udp }, [.resp233 c, .online c true])
    | .decided false => ({ k with phase := .idle }, [.masq c])
    | _ => (k, [])
  | .http => if k.closed then (k, []) else (k, [.masq c])
  | .stream ft =>
    if k.closed || !k.authed then (k, [])             -- `if err != nil || !h.authenticated { return false, nil }`
    else if ft = Gen.FrameTypeTCPRequest then ({ k with tcp := k.tcp ++ [.reading] }, [])
    else (k, [])
  | .tcpRead h req hooked =>
    match k.tcp[h]? with
    | some .reading =>
      match req with
      | none => (setPc k h .done, [])
      | some a => (setPc k h (.dialing a hooked), if hooked then [.tcpResp c true] else [])
    | _ => (k, [])
  | .tcpDial h ok =>
    match k.tcp[h]? with
    | some (.dialing a hooked) =>
      if ok then (setPc k h (.responding a hooked), [.dialTCP c a])
      else (setPc k h .done, .dialTCP c a :: (if hooked then [] else [.tcpResp c false]))
    | _ => (k, [])
  | .tcpRespond h =>
    match k.tcp[h]? with
    | some (.responding a hooked) => (setPc k h (.relaying a), if hooked then [] else [.tcpResp c true])
    | _ => (k, [])
  | .tcpRelay h up n =>
    match k.tcp[h]? with
    | some (.relaying a) => (k, [.relay c (if up then .tcpUp else .tcpDown) a n])
    | _ => (k, [])
  | .tcpEnd h =>
    match k.tcp[h]? with
    | some (.relaying _) => (setPc k h .done, [])
    | _ => (k, [])
  | .dgramIn m => if k.closed then (k, []) else ({ k with dgq := k.dgq ++ [m] }, [])
  | .udpRecv dialOk =>
    if k.udpUp then
      match k.dgq with
      | [] => (k, [])
      | none :: q => ({ k with dgq := q }, [])
      | some (a, n) :: q =>
        if dialOk then ({ k with dgq := q, sess := k.sess + 1 }, [.dialUDP c a, .relay c .udpUp a n])
        else ({ k with dgq := q }, [.dialUDP c a])
    else (k, [])
  | .udpReply a n =>
    if k.udpUp && decide (0 < k.sess) then (k, [.relay c .udpDown a n]) else (k, [])
  | .connEnd =>
    if k.closed then (k, []) else
    match k.phase with
    | .idle => ({ k with closed := true }, if k.authed then [.online c false] else [])
    | _ => (k, [])                     -- ServeQUICConn waits for the handlers

structure St where
  conn : ConnId → Conn := fun _ => {}
  log  : List Eff := []           -- newest first

def upd (f : ConnId → Conn) (i : ConnId) (v : Conn) : ConnId → Conn := fun j => if j = i then v else f j

def step (cfg : Cfg) (s : St) (l : Label) : St :=
  let r := cstep cfg l.conn (s.conn l.conn) l.act
  { conn := upd s.conn l.conn r.1, log := r.2.reverse ++ s.log }

def run (cfg : Cfg) (s : St) (sched : List Label) : St := sched.foldl (step cfg) s

/-- the effects in chronological order -/
def St.effects (s : St) : List Eff := s.log.reverse

/-! ### executable property monitors over a chronological effect log (what the Go oracle checks) -/

/-- O1: every gated effect of a connection comes after an acceptance of that connection -/
def gateMonitorFrom (seen : List ConnId) : List Eff → Bool
  | [] => true
  | e :: r =>
    (!e.gated || seen.contains e.conn) &&
      gateMonitorFrom (match e with
        | .verdict c true => c :: seen
        | _ => seen) r

def gateMonitor (effs : List Eff) : Bool := gateMonitorFrom [] effs

/-- O2: the authenticator is never called for a connection after it accepted that connection -/
def reevalMonitorFrom (seen : List ConnId) : List Eff → Bool
  | [] => true
  | e :: r =>
    (match e with
      | .authCall c _ => !seen.contains c
      | _ => true) &&
      reevalMonitorFrom (match e with
        | .verdict c true => c :: seen
        | _ => seen) r

def reevalMonitor (effs : List Eff) : Bool := reevalMonitorFrom [] effs

/-- local run of one connection (used by the locality theorem) -/
def crun (cfg : Cfg) (c : ConnId) (k : Conn) (acts : List Act) : Conn := acts.foldl (fun k a => (cstep cfg c k a).1) k

/-- the acts of connection `c` in a schedule -/
def actsOf (c : ConnId) (sched : List Label) : List Act := (sched.filter (fun l => l.conn = c)).map (·.act)

end Hy.Auth
