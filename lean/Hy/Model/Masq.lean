/-
  C02 — h3sHandler.ServeHTTP (core/server/server.go:158-233) as a function of the request,
  the connection's flag, the authenticator and the configured masquerade handler
  (h3sHandler.masqHandler: Config.MasqHandler, default http.NotFound).  Core Lean only.

  The request is what net/http + quic-go/http3 hand to the handler: `Method`, `Host`,
  `URL.Path` (parsing is assumed, the triple is an input).  The masquerade handler is a
  PARAMETER `masq : Req → Resp`; so is the authenticator `auth : Req → Bool` and the random
  `Hysteria-Padding` value.
-/
import Hy.Gen.Core
namespace Hy.Masq

structure Req where
  method : String
  host   : String
  path   : String      -- r.URL.Path
  deriving DecidableEq, Repr

structure Resp where
  status  : Nat
  headers : List (String × String)
  body    : String     -- opaque
  deriving DecidableEq, Repr

structure Cfg where
  udp    : Bool   -- !DisableUDP
  maxRx  : Nat    -- BandwidthConfig.MaxRx
  rxAuto : Bool   -- IgnoreClientBandwidth
  deriving DecidableEq, Repr

/-- `r.Method == http.MethodPost && r.Host == protocol.URLHost && r.URL.Path == protocol.URLPath` -/
def isAuthShape (r : Req) : Bool :=
  r.method == Gen.MethodPost && r.host == Gen.URLHost && r.path == Gen.URLPath

/-- strconv.FormatBool -/
def boolStr (b : Bool) : String := if b then "true" else "false"

/-- protocol.AuthResponseToHeader + WriteHeader(StatusAuthOK) -/
def authOK (cfg : Cfg) (pad : String) : Resp :=
  { status := Gen.StatusAuthOK,
    headers := [(Gen.ResponseHeaderUDPEnabled, boolStr cfg.udp),
                (Gen.CommonHeaderCCRX, if cfg.rxAuto then "auto" else toString cfg.maxRx),
                (Gen.CommonHeaderPadding, pad)],
    body := "" }

/-- ServeHTTP: the response and the connection's flag afterwards -/
def serve (masq : Req → Resp) (auth : Req → Bool) (cfg : Cfg) (pad : String)
    (authed : Bool) (r : Req) : Resp × Bool :=
  if isAuthShape r then
    if authed then (authOK cfg pad, true)
    else if auth r then (authOK cfg pad, true)
    else (masq r, false)
  else (masq r, authed)

/-- is the authenticator consulted for this request? -/
def authCalled (authed : Bool) (r : Req) : Bool := isAuthShape r && !authed

def lowerChars (s : String) : List Char := s.toList.map Char.toLower

/-- header names are case-insensitive: a name is Hysteria-specific if it starts with "hysteria-" -/
def isHysteriaHeader (name : String) : Bool :=
  (lowerChars name).take 9 == ['h', 'y', 's', 't', 'e', 'r', 'i', 'a', '-']

/-- http.NotFound -/
def notFound : Req → Resp := fun _ =>
  { status := 404,
    headers := [("Content-Type", "text/plain; charset=utf-8"), ("X-Content-Type-Options", "nosniff")],
    body := "404 page not found\n" }

end Hy.Masq
