/-
  Model of extras/sniff/sniff.go (Sniffer.TCP, teeReader, the host/port rewriting) — C17.
  Core Lean only (linked into `hydrv`).

  * The stream (`Stream`) is the list of chunks in which the transport delivers the client's
    bytes, plus an optional point at which the read deadline fires (`dl = some n`: `n` more
    Read calls succeed, every later one returns an error and consumes nothing), plus a flag
    saying whether EOF is reported together with the last bytes (quic-go does that) or by a
    separate `(0, EOF)` read.  An empty chunk is a `(0, nil)` read.
  * The HTTP parser (bufio + io.LimitReader + net/http.ReadRequest) is a PARAMETER: an
    arbitrary list of `Read` buffer sizes and an arbitrary function from the bytes it was
    handed to an optional Host.  utls.UnmarshalClientHello is a parameter as well.
  * net.SplitHostPort / net.JoinHostPort are modelled on byte strings (Go strings are bytes).
  * Every Go slice expression of Sniffer.TCP is a `Res` primitive, so a panic is explicit.
  * `Cfg.stripBrackets` = the D12 repair (a port-less bracketed, non-empty IPv6 Host loses its
    brackets before JoinHostPort adds its own); `pinned` is the tree as it was.
-/
import Hy.Base.Bytes
import Hy.Base.Res
namespace Hy.Sniff
open Hy

/-! ### net.SplitHostPort / net.JoinHostPort on byte strings -/

def cColon : Byte := 0x3a
def cLB : Byte := 0x5b
def cRB : Byte := 0x5d

/-- split at the LAST ':' (`bytealg.LastIndexByteString`): `(hostport[:i], hostport[i+1:])` -/
def splitLast : Bytes → Option (Bytes × Bytes)
  | [] => none
  | c :: r =>
    match splitLast r with
    | some (a, b) => some (c :: a, b)
    | none => if c = cColon then some ([], r) else none

/-- net.SplitHostPort; `none` = any of its errors.  With `hostport = a ++ ":" ++ port`
    (last colon): the bracketed form needs `a = "[" ++ h ++ "]"` with the FIRST `]` of the
    whole string being that last byte of `a`, no `[` after position 0 and no `]` after it;
    the plain form needs no colon in `a` and no bracket anywhere. -/
def splitHostPort (s : Bytes) : Option (Bytes × Bytes) :=
  match splitLast s with
  | none => none
  | some (a, port) =>
    match a with
    | c :: rest =>
      if c = cLB then
        if rest.getLast? = some cRB ∧ cRB ∉ rest.dropLast ∧ cLB ∉ rest.dropLast
            ∧ cLB ∉ port ∧ cRB ∉ port then some (rest.dropLast, port) else none
      else
        if cColon ∈ a ∨ cLB ∈ s ∨ cRB ∈ s then none else some (a, port)
    | [] => if cLB ∈ port ∨ cRB ∈ port then none else some ([], port)

/-- net.JoinHostPort -/
def joinHostPort (host port : Bytes) : Bytes :=
  if cColon ∈ host then cLB :: (host ++ cRB :: cColon :: port) else host ++ cColon :: port

structure Cfg where
  /-- D12 repair: strip the brackets of a port-less `[v6]` Host before joining -/
  stripBrackets : Bool
deriving DecidableEq, Repr

def fixed : Cfg := ⟨true⟩
def pinned : Cfg := ⟨false⟩

/-- sniff.go:114-120 (+ the repair): the host part of `req.Host` -/
def hostOfHeader (cfg : Cfg) (h : Bytes) : Bytes :=
  match splitHostPort h with
  | some (host, _) => host
  | none =>
    if cfg.stripBrackets then
      match h with
      | c :: rest => if c = cLB ∧ rest.getLast? = some cRB ∧ rest.dropLast ≠ [] then rest.dropLast else h
      | [] => h
    else h

/-! ### the stream -/

structure Stream where
  chunks : List Bytes
  dl : Option Nat
  fin : Bool
deriving DecidableEq, Repr

def Stream.unread (s : Stream) : Bytes := s.chunks.flatten

def decDl : Option Nat → Option Nat
  | some (n + 1) => some n
  | d => d

/-- one `stream.Read(p)` with `len(p) = k`: (bytes delivered, error reported, stream after) -/
def Stream.read (s : Stream) (k : Nat) : Bytes × Bool × Stream :=
  match s.dl with
  | some 0 => ([], true, s)
  | _ =>
    match s.chunks with
    | [] => ([], true, s)
    | c :: rest =>
      let n := min k c.length
      let cs' := if n = c.length then rest else c.drop n :: rest
      (c.take n, s.fin && cs'.isEmpty, { s with chunks := cs', dl := decDl s.dl })

/-- io.ReadFull(stream, buf) with `len(buf) = need`, as io.ReadAtLeast runs it: Read until
    `need` bytes have arrived or a Read reports an error.  Returns (bytes read, err == nil). -/
def readFullAux : Nat → Nat → Stream → Bytes × Bool × Stream
  | _, 0, s => ([], true, s)
  | 0, _ + 1, s => ([], false, s)            -- unreachable: fuel = number of chunks + 1
  | fuel + 1, need + 1, s =>
    let (bs, err, s') := s.read (need + 1)
    if bs.length ≥ need + 1 then (bs, true, s')
    else if err then (bs, false, s')
    else
      let (bs2, ok, s'') := readFullAux fuel (need + 1 - bs.length) s'
      (bs ++ bs2, ok, s'')

def Stream.readFull (s : Stream) (need : Nat) : Bytes × Bool × Stream :=
  readFullAux (s.chunks.length + 1) need s

/-! ### teeReader (sniff.go:176-199) -/

structure Tee where
  pre : Bytes       -- c.Pre: probe bytes not yet handed to the parser
  buf : Bytes       -- c.buf: everything handed to the parser so far
  s : Stream
deriving DecidableEq, Repr

/-- `teeReader.Read(b)`, `len(b) = k` -/
def Tee.read (t : Tee) (k : Nat) : Tee :=
  match t.pre with
  | _ :: _ =>
    let n := min k t.pre.length
    { t with pre := t.pre.drop n, buf := t.buf ++ t.pre.take n }
  | [] =>
    let (bs, _, s') := t.s.read k
    { t with buf := t.buf ++ bs, s := s' }

/-- `teeReader.Buffer()` -/
def Tee.buffer (t : Tee) : Bytes := t.pre ++ t.buf

def runReads (t : Tee) : List Nat → Tee
  | [] => t
  | k :: ks => runReads (t.read k) ks

/-! ### the parsers (parameters) -/

structure Parsers where
  /-- buffer sizes of the Read calls the HTTP parser issues on the tee reader -/
  reads : List Nat
  /-- `req.Host` of http.ReadRequest as a function of the bytes it was handed (`none`: no request) -/
  httpHost : Bytes → Option Bytes
  /-- `ServerName` of utls.UnmarshalClientHello on a handshake body (`none`: no hello) -/
  sni : Bytes → Option Bytes

/-! ### Sniffer.TCP -/

structure TcpOut where
  putback : Bytes
  addr : Bytes
  s : Stream
deriving DecidableEq, Repr

def isLetter (b : Byte) : Bool :=
  (0x41 ≤ b.val && b.val ≤ 0x5a) || (0x61 ≤ b.val && b.val ≤ 0x7a)

def isHTTP (b : Bytes) : Bool :=
  match b with
  | [x, y, z] => isLetter x && isLetter y && isLetter z
  | _ => false

def isTLS (b : Bytes) : Bool :=
  match b with
  | [x, y, z] => (0x16 ≤ x.val && x.val ≤ 0x17) && y.val == 0x03 && z.val ≤ 0x09
  | _ => false

/-- `make([]byte, n)` filled by a ReadFull that delivered `got` -/
def filled (n : Nat) (got : Bytes) : Bytes := got ++ List.replicate (n - got.length) (0 : Byte)

/-- the rewrite step shared by the three sniffers: `reject` = `return nil, err` -/
def rewrite (addr host : Bytes) : Res Bytes :=
  match splitHostPort addr with
  | none => .reject
  | some (_, port) => .ok (joinHostPort host port)

def sniffTCP (cfg : Cfg) (P : Parsers) (addr : Bytes) (s : Stream) : Res TcpOut :=
  let (got, ok, s1) := s.readFull 3
  let pre := filled 3 got
  if !ok then do
    let pb ← Res.sliceTo pre got.length                        -- pre[:n]
    pure ⟨pb, addr, s1⟩
  else if isHTTP pre then
    let t := runReads ⟨pre, [], s1⟩ P.reads
    match P.httpHost t.buf with
    | some h =>
      if h ≠ [] then do
        let addr' ← rewrite addr (hostOfHeader cfg h)
        pure ⟨t.buffer, addr', t.s⟩
      else pure ⟨t.buffer, addr, t.s⟩
    | none => pure ⟨t.buffer, addr, t.s⟩
  else if isTLS pre then
    let (got2, ok2, s2) := s1.readFull 2
    let pre5 := pre ++ filled 2 got2                            -- append(pre, make([]byte, 2)...)
    if !ok2 then do
      let pb ← Res.sliceTo pre5 (3 + got2.length)               -- pre[:3+n]
      pure ⟨pb, addr, s2⟩
    else do
      let b3 ← Res.idx pre5 3
      let b4 ← Res.idx pre5 4
      let contentLength := b3.val * 256 + b4.val
      let (got3, ok3, s3) := s2.readFull contentLength
      let rec5 := pre5 ++ filled contentLength got3             -- append(pre, make([]byte, contentLength)...)
      if !ok3 then do
        let pb ← Res.sliceTo rec5 (5 + got3.length)             -- pre[:5+n]
        pure ⟨pb, addr, s3⟩
      else do
        let body ← Res.sliceFrom rec5 5                         -- pre[5:]
        match P.sni body with
        | some name =>
          if name ≠ [] then do
            let addr' ← rewrite addr name
            pure ⟨rec5, addr', s3⟩
          else pure ⟨rec5, addr, s3⟩
        | none => pure ⟨rec5, addr, s3⟩
  else pure ⟨pre, addr, s1⟩

end Hy.Sniff
