/-
  Model of core/internal/utils/qstream.go (QStream: a *quic.Stream whose Close also stops
  the receive side) and of the write/close/deadline half of the client's tcpConn
  (core/client/client.go), over an ABSTRACT quic stream with its two independent halves.

  The abstract stream (`Q`, functions `Q.*`) is the CONTRACT of quic-go's *quic.Stream as
  read from its source (send_stream.go / receive_stream.go of the pinned fork) — trusted,
  not verified:
    Write        accepted bytes are appended to `sent`; fails once the send side is
                 finished or reset
    Close        send side: FIN after everything written so far; a no-op returning nil when
                 already finished; on a reset stream it marks it finished and returns an error
    CancelWrite  send side reset: what was written but not yet delivered may be lost
                 (also after Close); a no-op when already reset
    CancelRead   receive side stopped (STOP_SENDING); duplicate calls are no-ops
    Read         next chunk / EOF after the peer's FIN; fails once cancelled
    Set*Deadline recorded

  QStream's and tcpConn's methods are written as PROGRAMS (`List Stmt`) over those
  primitives; `render` prints a program as the Go statements it stands for, and
  Hy.Props.C06 decides that the rendering equals the statements go/ast extracts from the
  current source (Hy.Gen.QShape), so the composition proved about is the one in the file.
  Core Lean only.
-/
import Hy.Base.Bytes
import Hy.Model.Frame
namespace Hy.QStream
open Hy

/-- state of the send half -/
inductive SendSt where
  | open
  /-- FIN queued after `sent` -/
  | fin
  /-- reset with `code`; `finished`: Close has been called as well -/
  | reset (code : Nat) (finished : Bool)
  deriving DecidableEq, Repr

/-- a call on the embedded *quic.Stream -/
inductive Call where
  | read
  | write (n : Nat)
  | close
  | cancelRead (code : Nat)
  | cancelWrite (code : Nat)
  | setDeadline (t : Nat)
  | setReadDeadline (t : Nat)
  | setWriteDeadline (t : Nat)
  deriving DecidableEq, Repr

structure Q where
  /-- bytes accepted by Write, in order -/
  sent : Bytes := []
  send : SendSt := .open
  /-- code of the first CancelRead -/
  recvCancelled : Option Nat := none
  /-- chunks the peer's data arrives in; after them the peer's FIN -/
  incoming : List Bytes := []
  readDeadline : Option Nat := none
  writeDeadline : Option Nat := none
  /-- calls made on the stream, newest first -/
  calls : List Call := []
  deriving DecidableEq, Repr

/-- result of a call: a value or an error -/
inductive Ret where
  | ok
  | n (k : Nat)
  | data (d : Bytes)
  | eof
  | err
  deriving DecidableEq, Repr

/-! ### the contract of *quic.Stream -/

def Q.write (q : Q) (p : Bytes) : Q × Ret :=
  let q := { q with calls := .write p.length :: q.calls }
  match q.send with
  | .open => ({ q with sent := q.sent ++ p }, .n p.length)
  | _ => (q, .err)

def Q.close (q : Q) : Q × Ret :=
  let q := { q with calls := .close :: q.calls }
  match q.send with
  | .open => ({ q with send := .fin }, .ok)
  | .fin => (q, .ok)
  | .reset c false => ({ q with send := .reset c true }, .err)
  | .reset _ true => (q, .ok)

def Q.cancelWrite (q : Q) (code : Nat) : Q × Ret :=
  let q := { q with calls := .cancelWrite code :: q.calls }
  match q.send with
  | .open => ({ q with send := .reset code false }, .ok)
  | .fin => ({ q with send := .reset code true }, .ok)
  | .reset _ _ => (q, .ok)

def Q.cancelRead (q : Q) (code : Nat) : Q × Ret :=
  let q := { q with calls := .cancelRead code :: q.calls }
  match q.recvCancelled with
  | none => ({ q with recvCancelled := some code }, .ok)
  | some _ => (q, .ok)

def Q.read (q : Q) : Q × Ret :=
  let q := { q with calls := .read :: q.calls }
  match q.recvCancelled with
  | some _ => (q, .err)
  | none =>
    match q.incoming with
    | [] => (q, .eof)
    | c :: cs => ({ q with incoming := cs }, .data c)

def Q.setDeadline (q : Q) (t : Nat) : Q × Ret :=
  ({ q with readDeadline := some t, writeDeadline := some t, calls := .setDeadline t :: q.calls }, .ok)
def Q.setReadDeadline (q : Q) (t : Nat) : Q × Ret :=
  ({ q with readDeadline := some t, calls := .setReadDeadline t :: q.calls }, .ok)
def Q.setWriteDeadline (q : Q) (t : Nat) : Q × Ret :=
  ({ q with writeDeadline := some t, calls := .setWriteDeadline t :: q.calls }, .ok)

/-- what the peer is guaranteed to receive -/
inductive Wire where
  /-- `sent` so far, more may follow -/
  | open (sent : Bytes)
  /-- exactly `sent`, then FIN -/
  | finAfter (sent : Bytes)
  /-- a reset: some prefix of `sent`, no guarantee which -/
  | aborted (sent : Bytes)
  deriving DecidableEq, Repr

def Q.wire (q : Q) : Wire :=
  match q.send with
  | .open => .open q.sent
  | .fin => .finAfter q.sent
  | .reset _ _ => .aborted q.sent

/-! ### methods as programs over the embedded stream -/

/-- where an argument comes from: a literal in the source, or the method's parameter -/
inductive ArgSrc where
  /-- the literal `0` -/
  | zero
  | param
  deriving DecidableEq, Repr

inductive Prim where
  | read
  | write
  | close
  | cancelRead (a : ArgSrc)
  | cancelWrite (a : ArgSrc)
  | setDeadline
  | setReadDeadline
  | setWriteDeadline
  deriving DecidableEq, Repr

inductive Stmt where
  /-- `recv.X(…)` as a statement: result discarded -/
  | call (p : Prim)
  /-- `return recv.X(…)` -/
  | ret (p : Prim)
  deriving DecidableEq, Repr

/-- the actual parameters of a method call: the byte slice, the code / time -/
structure Args where
  p : Bytes := []
  num : Nat := 0

def ArgSrc.val (a : ArgSrc) (x : Args) : Nat :=
  match a with
  | .zero => 0
  | .param => x.num

def Prim.exec (pr : Prim) (x : Args) (q : Q) : Q × Ret :=
  match pr with
  | .read => q.read
  | .write => q.write x.p
  | .close => q.close
  | .cancelRead a => q.cancelRead (a.val x)
  | .cancelWrite a => q.cancelWrite (a.val x)
  | .setDeadline => q.setDeadline x.num
  | .setReadDeadline => q.setReadDeadline x.num
  | .setWriteDeadline => q.setWriteDeadline x.num

/-- run a method body; the result is that of its `return` statement -/
def exec (x : Args) : List Stmt → Q → Q × Ret
  | [], q => (q, .ok)
  | .call p :: rest, q => exec x rest (p.exec x q).1
  | .ret p :: _, q => p.exec x q

def ArgSrc.render (a : ArgSrc) (name : String) : String :=
  match a with
  | .zero => "0"
  | .param => name

/-- the Go call `recv.Method(args)`; parameter names as in the source -/
def Prim.render (recv : String) : Prim → String
  | .read => recv ++ ".Read(p)"
  | .write => recv ++ ".Write(p)"
  | .close => recv ++ ".Close()"
  | .cancelRead a => recv ++ ".CancelRead(" ++ a.render "code" ++ ")"
  | .cancelWrite a => recv ++ ".CancelWrite(" ++ a.render "code" ++ ")"
  | .setDeadline => recv ++ ".SetDeadline(t)"
  | .setReadDeadline => recv ++ ".SetReadDeadline(t)"
  | .setWriteDeadline => recv ++ ".SetWriteDeadline(t)"

def Stmt.render (recv : String) : Stmt → String
  | .call p => p.render recv
  | .ret p => "return " ++ p.render recv

def render (recv : String) (body : List Stmt) : List String := body.map (Stmt.render recv)

/-! ### QStream (qstream.go): receiver `s`, embedded stream `s.Stream` -/

def QStream.readP : List Stmt := [.ret .read]
def QStream.writeP : List Stmt := [.ret .write]
/-- `s.Stream.CancelRead(0); return s.Stream.Close()` -/
def QStream.closeP : List Stmt := [.call (.cancelRead .zero), .ret .close]
def QStream.cancelReadP : List Stmt := [.call (.cancelRead .param)]
def QStream.cancelWriteP : List Stmt := [.call (.cancelWrite .param)]
def QStream.setDeadlineP : List Stmt := [.ret .setDeadline]
def QStream.setReadDeadlineP : List Stmt := [.ret .setReadDeadline]
def QStream.setWriteDeadlineP : List Stmt := [.ret .setWriteDeadline]

def QStream.read (q : Q) : Q × Ret := exec {} QStream.readP q
def QStream.write (q : Q) (p : Bytes) : Q × Ret := exec { p := p } QStream.writeP q
def QStream.close (q : Q) : Q × Ret := exec {} QStream.closeP q
def QStream.cancelRead (q : Q) (code : Nat) : Q × Ret := exec { num := code } QStream.cancelReadP q
def QStream.cancelWrite (q : Q) (code : Nat) : Q × Ret := exec { num := code } QStream.cancelWriteP q

/-! ### tcpConn (client.go): receiver `c`, wrapped QStream `c.Orig`.  Its methods are
    programs over QStream's methods, which in turn are the programs above. -/

/-- a QStream method -/
inductive QMeth where
  | read | write | close | setDeadline | setReadDeadline | setWriteDeadline
  deriving DecidableEq, Repr

def QMeth.body : QMeth → List Stmt
  | .read => QStream.readP
  | .write => QStream.writeP
  | .close => QStream.closeP
  | .setDeadline => QStream.setDeadlineP
  | .setReadDeadline => QStream.setReadDeadlineP
  | .setWriteDeadline => QStream.setWriteDeadlineP

def QMeth.render : QMeth → String
  | .read => "return c.Orig.Read(b)"
  | .write => "return c.Orig.Write(b)"
  | .close => "return c.Orig.Close()"
  | .setDeadline => "return c.Orig.SetDeadline(t)"
  | .setReadDeadline => "return c.Orig.SetReadDeadline(t)"
  | .setWriteDeadline => "return c.Orig.SetWriteDeadline(t)"

/-- tcpConn's pass-through methods: each is `return c.Orig.<Method>(…)` -/
def tcpWriteM : QMeth := .write
def tcpCloseM : QMeth := .close
def tcpSetDeadlineM : QMeth := .setDeadline
def tcpSetReadDeadlineM : QMeth := .setReadDeadline
def tcpSetWriteDeadlineM : QMeth := .setWriteDeadline
/-- the last statement of tcpConn.Read (after the lazy response read) -/
def tcpReadTailM : QMeth := .read

/-- the client's conn: the stream, and whether the response has been read -/
structure TcpC where
  orig : Q
  established : Bool
  deriving DecidableEq, Repr

/-- `Client.TCP(addr)` up to the response: open a stream (fresh, `incoming` = what the
    server will send) and `WriteTCPRequest` — one Write of the framed request; `pad` is
    the writer's random padding.  (Without fast open the response is then read by
    `TCP` itself: Hy.Relay.clientTCP.) -/
def tcpOpen (fastOpen : Bool) (addr pad : Bytes) (incoming : List Bytes) : TcpC :=
  { orig := (QStream.write { incoming := incoming } (Frame.writeRequest addr pad)).1,
    established := !fastOpen }

/-- what an application does with the conn between `TCP()` and `Close()` -/
inductive COp where
  | write (b : Bytes)
  /-- a Read that times out before anything arrives (Hy.Relay.RdEv.timeout) -/
  | readTimeout
  | setDeadline (t : Nat)
  | setReadDeadline (t : Nat)
  | setWriteDeadline (t : Nat)
  deriving DecidableEq, Repr

def TcpC.op (c : TcpC) : COp → TcpC
  | .write b => { c with orig := (exec { p := b } tcpWriteM.body c.orig).1 }
  | .readTimeout => c
  | .setDeadline t => { c with orig := (exec { num := t } tcpSetDeadlineM.body c.orig).1 }
  | .setReadDeadline t => { c with orig := (exec { num := t } tcpSetReadDeadlineM.body c.orig).1 }
  | .setWriteDeadline t => { c with orig := (exec { num := t } tcpSetWriteDeadlineM.body c.orig).1 }

def TcpC.run (c : TcpC) (ops : List COp) : TcpC := ops.foldl TcpC.op c

def TcpC.close (c : TcpC) : TcpC × Ret :=
  ({ c with orig := (exec {} tcpCloseM.body c.orig).1 }, (exec {} tcpCloseM.body c.orig).2)

/-- the bytes an op list writes -/
def writesOf : List COp → Bytes
  | [] => []
  | .write b :: r => b ++ writesOf r
  | _ :: r => writesOf r

end Hy.QStream
