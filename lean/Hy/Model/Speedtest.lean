/-
  Model of extras/outbounds/speedtest: the in-memory speed-test server (`server`,
  `handleDownload`, `handleUpload` of server.go), the request/response codecs of
  protocol.go, and the transfer loops of the server (upload) and the client
  (download), whose only arithmetic is `remaining -= uint32(n)` on a uint32 and the
  slice `buf[:n]` of a `chunkSize` buffer.

  Streams are the `Frame.Ops` of Hy.Model.Frame (`take n` = io.ReadFull / binary.Read),
  so "however the peer's bytes are chunked" is the same simulation argument as for C04.
  Core Lean only.
-/
import Hy.Base.Bytes
import Hy.Base.Res
import Hy.Model.Frame
namespace Hy.Speedtest
open Hy Hy.Frame

def chunkSize : Nat := 65536
def typeDownload : Nat := 1
def typeUpload : Nat := 2

/-- big-endian value of a byte string -/
def beVal (bs : Bytes) : Nat := bs.foldl (fun a b => a * 256 + b.val) 0

/-- what the server decides after reading the request header -/
inductive Req (σ : Type) where
  | eof                         -- the peer went away inside the 5-byte header: connection closed, nothing written
  | unknown (t : Nat)           -- unknown request type: closed, nothing written
  | download (l : Nat) (s : σ)  -- responds `00 0002 "OK"`, then l bytes
  | upload (l : Nat) (s : σ)    -- responds `00 0002 "OK"`, reads l bytes, then the 8-byte summary
  deriving Repr, DecidableEq

def readReq {σ} (O : Ops σ) (s : σ) : Req σ :=
  match O.take 1 s with
  | none => .eof
  | some (t, s1) =>
    let tv := beVal t
    if tv = typeDownload then
      match O.take 4 s1 with
      | none => .eof
      | some (l, s2) => .download (beVal l) s2
    else if tv = typeUpload then
      match O.take 4 s1 with
      | none => .eof
      | some (l, s2) => .upload (beVal l) s2
    else .unknown tv

/-- write{Download,Upload}Response -/
def writeResponse (ok : Bool) (msg : Bytes) : Bytes :=
  [if ok then byte 0 else byte 1] ++ be16 msg.length ++ msg

def respOK : Bytes := writeResponse true [byte 0x4f, byte 0x4b]

/-- writeUploadSummary (duration already in milliseconds, truncated to uint32 by the code) -/
def writeSummary (ms l : Nat) : Bytes := be32 ms ++ be32 l

/-- read{Download,Upload}Response as a client sees a (possibly hostile) server's reply:
    the message buffer is `make([]byte, msgLen)` with msgLen a uint16, so ≤ 65535 bytes. -/
inductive Resp (σ : Type) where
  | eof
  | ok (status : Bool) (msg : Bytes) (s : σ)
  deriving Repr, DecidableEq

def readReply {σ} (O : Ops σ) (s : σ) : Resp σ :=
  match O.take 1 s with
  | none => .eof
  | some (st, s1) =>
    match O.take 2 s1 with
    | none => .eof
    | some (l, s2) =>
      if beVal l = 0 then .ok (decide (st = [byte 0])) [] s2
      else match O.take (beVal l) s2 with
        | none => .eof
        | some (m, s3) => .ok (decide (st = [byte 0])) m s3

def replyAlloc {σ} (O : Ops σ) (s : σ) : Nat :=
  match O.take 1 s with
  | none => 0
  | some (_, s1) =>
    match O.take 2 s1 with
    | none => 0
    | some (l, _) => beVal l

/-- readUploadSummary -/
def readSummary {σ} (O : Ops σ) (s : σ) : Option ((Nat × Nat) × σ) :=
  match O.take 4 s with
  | none => none
  | some (d, s1) =>
    match O.take 4 s1 with
    | none => none
    | some (l, s2) => some ((beVal d, beVal l), s2)

/-! ### the transfer loop (server upload / client download in size mode)

  `remaining : uint32`; each round `n := min remaining chunkSize`; `conn.Read(buf[:n])`
  returns `(rn, err)`; `remaining -= uint32(rn)`.  The reads are the environment's:
  a list of `(rn, eof?)`.  The model keeps the Go arithmetic: the slice can panic, the
  subtraction wraps modulo 2^32. -/

inductive LoopEnd where
  | done            -- remaining reached 0
  | err             -- a read failed before that (connection closed early)
  | starved         -- the environment's list of reads ran out (only in the model)
  deriving Repr, DecidableEq

def loop (bufLen : Nat) : (fuel : Nat) → (remaining : Nat) → List (Nat × Bool) → Res (LoopEnd × Nat)
  | 0, rem, _ => .ok (.starved, rem)
  | fuel+1, rem, reads =>
    if rem = 0 then .ok (.done, 0)
    else
      let n := if rem > chunkSize then chunkSize else rem
      if n > bufLen then .panic             -- buf[:n]
      else match reads with
        | [] => .ok (.starved, rem)
        | (rn, eof) :: rest =>
          let rem' := (rem + 4294967296 - rn % 4294967296) % 4294967296   -- remaining -= uint32(rn)
          if eof ∧ ¬ (rem' = 0) then .ok (.err, rem')
          else loop bufLen fuel rem' rest

end Hy.Speedtest
