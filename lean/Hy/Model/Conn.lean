/-
  A net.Conn's read side as the list of chunks in which the transport delivers the
  peer's bytes (any chunking; an empty chunk is a `(0, nil)` read), with the two ways the
  inbound servers read from it:
    `takeC n`  = io.ReadFull(conn, make([]byte, n))   exactly n bytes or an error
    `readC n`  = conn.Read(make([]byte, n))           at most n bytes of the head chunk
  Core Lean only.
-/
import Hy.Base.Bytes
namespace Hy.Conn
open Hy

abbrev Stream := List Bytes

/-- io.ReadFull(conn, make([]byte, n)): exactly n bytes or an error (EOF /
    ErrUnexpectedEOF – the callers do not distinguish). -/
def takeC (n : Nat) : Stream → Option (Bytes × Stream)
  | [] => if n = 0 then some ([], []) else none
  | c :: cs =>
    if n ≤ c.length then some (c.take n, c.drop n :: cs)
    else match takeC (n - c.length) cs with
      | some (bs, r) => some (c ++ bs, r)
      | none => none

/-- one `Read` with a buffer of n bytes: what is returned, and the stream afterwards.
    At end of stream the read returns nothing (EOF). A zero-length buffer on a
    non-empty chunk returns nothing and consumes nothing. -/
def readC (n : Nat) : Stream → Bytes × Stream
  | [] => ([], [])
  | c :: cs => if c.length ≤ n then (c, cs) else (c.take n, c.drop n :: cs)

end Hy.Conn
