/-
  Model of app/internal/proxymux/manager.go on top of Hy.Model.Mux: the public
  ListenSOCKS(address) / ListenHTTP(address), muxManager.GetOrCreate, the map
  canonical address ↦ muxListener, the deleteFunc each mux runs when its mainLoop exits.

  * Addresses are their canonical form (net.ResolveTCPAddr(…).String(), an external function):
    a `key : Nat`. Two spellings of one address are the same key.
  * Every muxListener ever created is kept (`muxes`, id = index): a mux that has left the map
    still has goroutines finishing. `table` is muxManager.listeners.
  * A public Listen call is TWO atomic steps, as in the code: `call k key ok` = GetOrCreate (one
    region under the manager's lock: look up, else create the base listener — `ok` is whether
    correctnet.Listen succeeds, the environment's choice — and the mux), then `register id k` =
    ml.ListenSOCKS()/ListenHTTP() (one region under the mux's lock). Other steps may run between.
  * Each mux evolves ONLY by `Mux.step Mux.fixed` (so everything proved about the mux transition
    system holds for every mux reached through the manager), under two extra guards that the
    abstract mux model merged away and that matter for RELEASE (a liveness matter): mainLoop
    reads the sub-listeners' close channels only at its loop head (`capture`), then blocks in
    select on the captured ones; `atTop` says it is at the loop head.
    A sub-listener registered after the capture is invisible to mainLoop until something else
    wakes it (a connection handed over, another captured sub-listener closing): that is the
    code as it is, `wake := false`, and what drivers and theorems use. `wake := true` is a
    HYPOTHETICAL variant (registration wakes mainLoop) kept only to show what the hypothesis of
    `release_on_last_close` buys; it is not in the code.
  * mainLoop's deferred function (deleteFunc(); base.Close(); close(closeChan)) is the mux step
    `exitA`; at manager level it removes the map entry and closes the base listener.
  Core Lean only.
-/
import Hy.Model.Mux
namespace Hy.MuxMgr
open Hy Hy.Mux

structure MuxW where
  key : Nat
  st : St := {}
  cap : Option Nat × Option Nat := (none, none)   -- (socksCloseChan, httpCloseChan) of mainLoop
  atTop : Bool := true                            -- mainLoop at its loop head (will capture next)
  baseOpen : Bool := true                         -- the base net.Listener is open

inductive CallRes where
  | listenErr                 -- GetOrCreate: correctnet.Listen failed
  | reg (k : Kind) (r : ListenRes)   -- what ml.ListenSOCKS()/ListenHTTP() returned
  deriving DecidableEq, Repr

structure MSt where
  muxes : List MuxW := []
  table : Nat → Option Nat := fun _ => none     -- muxManager.listeners
  pending : List (Kind × Nat) := []             -- calls between GetOrCreate and ml.ListenX
  results : List CallRes := []                  -- newest first

def minit : MSt := {}

inductive MLabel where
  | call (k : Kind) (key : Nat) (ok : Bool)   -- GetOrCreate of a ListenSOCKS/ListenHTTP(address)
  | register (id : Nat) (k : Kind)            -- the ml.ListenX() that follows
  | capture (id : Nat)                        -- mainLoop's loop head
  | mux (id : Nat) (l : Label)                -- any other step of mux id
  deriving DecidableEq, Repr

def capOf (w : MuxW) : Kind → Option Nat
  | .socks => w.cap.1
  | .http => w.cap.2

/-- is the hand-over acceptLoop → mainLoop enabled in the abstract mux -/
def handEnabled (s : St) : Bool :=
  match s.aloop with
  | .holding _ => s.phase = .running
  | _ => false

/-- a step of one mux other than registration, with mainLoop's capture made explicit -/
def stepMux (w : MuxW) : Label → MuxW
  | .listen _ => w
  | .mainSeesSubClosed k =>
    if w.atTop ∨ w.st.phase ≠ .running then w
    else match capOf w k with
      | some t =>
        if subClosed w.st.subs t then
          -- the captured channel fired; the slot changes only if it still holds t
          if w.st.slot k = some t then { w with st := step fixed w.st (.mainSeesSubClosed k), atTop := true }
          else { w with atTop := true }
        else w
      | none => w
  | .handToMain =>
    if w.atTop then w
    else if handEnabled w.st then { w with st := step fixed w.st .handToMain, atTop := true }
    else w
  | .mainSeesAcceptClosed =>
    if w.atTop then w else { w with st := step fixed w.st .mainSeesAcceptClosed }
  | .exitA =>
    if w.st.phase = .exiting then { w with st := step fixed w.st .exitA, baseOpen := false } else w
  | l => { w with st := step fixed w.st l }

def capture (w : MuxW) : MuxW :=
  if w.atTop ∧ w.st.phase = .running then { w with cap := (w.st.socks, w.st.http), atTop := false } else w

/-- ml.ListenSOCKS()/ListenHTTP() -/
def register (wake : Bool) (w : MuxW) (k : Kind) : MuxW :=
  let st' := step fixed w.st (.listen k)
  { w with st := st', atTop := w.atTop || (wake && decide (w.st.subs.length < st'.subs.length)) }

def lastRes (s : St) : ListenRes :=
  match s.log with
  | .listen _ r :: _ => r
  | _ => .errClosed

def setMux (m : MSt) (id : Nat) (w : MuxW) : MSt := { m with muxes := m.muxes.set id w }

def removeFirst (p : Kind × Nat) : List (Kind × Nat) → List (Kind × Nat)
  | [] => []
  | x :: xs => if x = p then xs else x :: removeFirst p xs

def mstep (wake : Bool) (m : MSt) : MLabel → MSt
  | .call k key ok =>
    match m.table key with
    | some id => { m with pending := m.pending ++ [(k, id)] }
    | none =>
      if ok then
        { m with muxes := m.muxes ++ [{ key := key }],
                 table := fun x => if x = key then some m.muxes.length else m.table x,
                 pending := m.pending ++ [(k, m.muxes.length)] }
      else { m with results := .listenErr :: m.results }
  | .register id k =>
    if (k, id) ∈ m.pending then
      match m.muxes[id]? with
      | some w =>
        let w' := register wake w k
        { setMux m id w' with pending := removeFirst (k, id) m.pending,
                              results := .reg k (lastRes w'.st) :: m.results }
      | none => m
    else m
  | .capture id =>
    match m.muxes[id]? with
    | some w => setMux m id (capture w)
    | none => m
  | .mux id l =>
    match m.muxes[id]? with
    | some w =>
      let w' := stepMux w l
      let m1 := setMux m id w'
      -- deleteFunc: delete(m.listeners, key), when the deferred function of mainLoop runs
      if w.baseOpen ∧ ¬ w'.baseOpen then { m1 with table := fun x => if x = w.key then none else m1.table x }
      else m1
    | none => m

def mrun (wake : Bool) (m : MSt) (sched : List MLabel) : MSt := sched.foldl (mstep wake) m

/-- mainLoop's own next steps once every sub-listener of mux id is closed -/
def releaseSched (id : Nat) : List MLabel :=
  [.capture id, .mux id (.mainSeesSubClosed .socks), .capture id, .mux id (.mainSeesSubClosed .http),
   .mux id .exitA]

def allClosed (w : MuxW) : Bool := w.st.subs.all (·.closed) && !w.st.subs.isEmpty

end Hy.MuxMgr
