/-
  Model of the TCP relay (C06):

    core/server/copy.go      copyBufferLog, copyTwoWayEx (copyTwoWay = the same loop with a
                             logger that always answers true)
    core/server/server.go    handleTCPRequest: dial, TCPResponse, relay, teardown
    core/client/client.go    Client.TCP: eager response read, or lazy on the first Read
                             with fast open; DialError carries the server's message

  One goroutine running copyBufferLog is a small program of atomic steps (`gstep`), one
  per call into its environment: `src.Read`, `log`, `dst.Write`, and the send of the
  result on `errChan`.  Everything the environment decides is an INPUT: the source's
  sequence of read results (bytes and the error returned with them), the logger's verdict
  per chunk, the sink's write result per chunk.  `copyLoop` is that program run alone;
  the two-way relay is two of them plus the steps of copyTwoWayEx / handleTCPRequest's
  teardown, composed under an arbitrary schedule (`List Label`, a step on a label that is
  not enabled is the identity).

  The model is of the code WITH the repairs D5 (message bounded to MaxMessageLength where
  the response is written) and D11 (the logger's refusal closes the connection where it
  is observed); `Variant.pinned` keeps the behaviour of the pinned tree for the witnesses.
  Core Lean only.
-/
import Hy.Base.Bytes
import Hy.Model.Frame
import Hy.Gen.Core
namespace Hy.Relay
open Hy

/-- one result of `src.Read(buf)`: the bytes, and the error returned WITH them
    (`none` = nil, `some true` = io.EOF, `some false` = any other error) -/
structure Rd where
  data : Bytes
  err : Option Bool
  deriving DecidableEq, Repr

/-- what copyBufferLog returns: nil | errDisconnect | the writer's error | the reader's error -/
inductive Out where
  | done | disconnect | writeErr | readErr
  deriving DecidableEq, Repr

/-- calls into the environment, as they happen -/
inductive Ev where
  | read (n : Nat) (e : Option Bool)
  | log (n : Nat) (v : Bool)
  /-- `dst.Write(buf[0:n])` accepted `acc` bytes (`acc < n` only together with an error) -/
  | write (n : Nat) (acc : Nat)
  deriving DecidableEq, Repr

inductive Pc where
  | read
  | log (d : Bytes) (e : Option Bool)
  | write (d : Bytes) (e : Option Bool)
  | ret (o : Out)
  | fin
  deriving DecidableEq, Repr

/-- one direction of the relay -/
structure G where
  pc : Pc := .read
  /-- remaining script of the source: what each further `Read` returns -/
  src : List Rd
  /-- remaining logger verdicts (exhausted = true) -/
  verd : List Bool
  /-- remaining write results: `none` = all accepted, `some k` = error after `k` bytes
      (exhausted = none) -/
  wres : List (Option Nat)
  /-- every byte `src.Read` has returned so far -/
  consumed : Bytes := []
  /-- bytes accepted by `dst.Write`, one entry per call, oldest first -/
  written : List Bytes := []
  /-- Σ n over `log(n)` calls answered true -/
  logged : Nat := 0
  /-- Σ n over all `log(n)` calls (what `stats.Tx/Rx.Add` and the logger were handed) -/
  offered : Nat := 0
  /-- the part of the last chunk that was logged but that `dst.Write` did not accept -/
  dropped : Bytes := []
  /-- the chunk the logger refused -/
  veto : Option Bytes := none
  /-- the value copyBufferLog returned -/
  out : Option Out := none
  /-- environment calls, newest first -/
  trace : List Ev := []
  deriving Repr

def headV : List Bool → Bool
  | [] => true
  | b :: _ => b

def headW : List (Option Nat) → Option Nat
  | [] => none
  | w :: _ => w

/-- `src.Read`: a closed source fails; an exhausted script is `(0, io.EOF)` -/
def nextRead (closed : Bool) (src : List Rd) : Rd × List Rd :=
  if closed then (⟨[], some false⟩, src)
  else match src with
    | [] => (⟨[], some true⟩, [])
    | r :: rs => (r, rs)

def finishWith (g : G) (o : Out) : G := { g with pc := .ret o, out := some o }

/-- `if er != nil { if er == io.EOF { return nil }; return er }` -/
def afterChunk (g : G) (e : Option Bool) : G :=
  match e with
  | none => { g with pc := .read }
  | some true => finishWith g .done
  | some false => finishWith g .readErr

/-- `nr, er := src.Read(buf)`; `nr = 0` goes straight to the error test -/
def stepRead (closed : Bool) (g : G) : G :=
  let r := (nextRead closed g.src).1
  let g1 : G := { g with src := (nextRead closed g.src).2, consumed := g.consumed ++ r.data,
                         trace := .read r.data.length r.err :: g.trace }
  if r.data = [] then afterChunk g1 r.err else { g1 with pc := .log r.data r.err }

/-- `if !log(uint64(nr)) { return errDisconnect }` -/
def stepLog (g : G) (d : Bytes) (e : Option Bool) : G :=
  let g1 : G := { g with verd := g.verd.tail, offered := g.offered + d.length,
                         trace := .log d.length (headV g.verd) :: g.trace }
  if headV g.verd then { g1 with logged := g.logged + d.length, pc := .write d e }
  else finishWith { g1 with veto := some d } .disconnect

/-- `_, ew := dst.Write(buf[0:nr]); if ew != nil { return ew }` then the error test -/
def stepWrite (closed : Bool) (g : G) (d : Bytes) (e : Option Bool) : G :=
  match (if closed then some 0 else headW g.wres) with
  | none =>
    afterChunk { g with wres := g.wres.tail, written := g.written ++ [d],
                        trace := .write d.length d.length :: g.trace } e
  | some k =>
    finishWith { g with wres := if closed then g.wres else g.wres.tail,
                        written := g.written ++ [d.take k], dropped := d.drop k,
                        trace := .write d.length (min k d.length) :: g.trace } .writeErr

/-- what a step does to the rest of the system -/
inductive Eff where
  | none
  /-- the logger answered false -/
  | refused
  /-- `errChan <- o` -/
  | sent (o : Out)
  deriving DecidableEq, Repr

/-- one atomic step of a copy goroutine; `sc`/`dc`: its source / sink has been closed -/
def gstep (sc dc : Bool) (g : G) : G × Eff :=
  match g.pc with
  | .read => (stepRead sc g, .none)
  | .log d e => (stepLog g d e, if headV g.verd then .none else .refused)
  | .write d e => (stepWrite dc g d e, .none)
  | .ret o => ({ g with pc := .fin }, .sent o)
  | .fin => (g, .none)

def G.init (src : List Rd) (verd : List Bool) (wres : List (Option Nat)) : G :=
  { src := src, verd := verd, wres := wres }

/-- everything the source produces: what has been read plus what the script still holds -/
def G.source (g : G) : Bytes := g.consumed ++ (g.src.map (·.data)).flatten

/-- the chunk between `Read` and the completion of `Write` -/
def G.pending (g : G) : Bytes :=
  match g.pc with
  | .write d _ => d
  | _ => []

/-- logged but not (yet) forwarded -/
def G.inflight (g : G) : Nat := g.pending.length + g.dropped.length

/-! ### the io.Reader contract: a Read returns at most len(buf) bytes -/

/-- a source that has `d` available hands it out in pieces of at most `buf` bytes; the
    error arrives with the last piece -/
def splitData (buf : Nat) (err : Option Bool) : Nat → Bytes → List Rd
  | 0, d => [⟨d, err⟩]
  | f + 1, d => if d.length ≤ buf then [⟨d, err⟩] else ⟨d.take buf, none⟩ :: splitData buf err f (d.drop buf)

def deliver (buf : Nat) (src : List Rd) : List Rd :=
  src.flatMap (fun r => splitData buf r.err r.data.length r.data)

/-! ### copyBufferLog run alone -/

def gnext (g : G) : G := (gstep false false g).1

def runG : Nat → G → G
  | 0, g => g
  | n + 1, g => runG n (gnext g)

/-- copyBufferLog: the goroutine's program run to completion on its own (three steps per
    read at most, so `3·|src| + 1` steps always suffice — `Props.C06.copyLoop_returns`) -/
def copyLoop (src : List Rd) (verd : List Bool) (wres : List (Option Nat)) : G :=
  runG (3 * src.length + 1) (G.init src verd wres)

/-! ### the two-way relay: copyTwoWayEx + the tail of handleTCPRequest -/

inductive Variant where
  /-- with the D11 repair: the traffic logger's refusal closes the connection where it
      is observed -/
  | fixed
  /-- pinned tree: only the first result that reaches `errChan` is looked at -/
  | pinned
  deriving DecidableEq, Repr

inductive Label where
  /-- goroutine copying stream → target (tx) -/
  | up
  /-- goroutine copying target → stream (rx) -/
  | down
  /-- handleTCPRequest itself -/
  | main
  deriving DecidableEq, Repr

inductive MPc where
  /-- `return <-errChan` -/
  | recv
  /-- `tConn.Close()` -/
  | closeTarget
  /-- `stream.Close()` -/
  | closeStream
  /-- `if err == errDisconnect { conn.CloseWithError }` -/
  | closeConn
  | done
  deriving DecidableEq, Repr

structure St where
  up : G
  down : G
  /-- `errChan` (capacity 2, two senders: a send never blocks) -/
  chan : List Out := []
  mpc : MPc := .recv
  /-- what copyTwoWayEx returned -/
  ret : Option Out := none
  targetClosed : Bool := false
  streamClosed : Bool := false
  connClosed : Bool := false
  deriving Repr

def applyEff (v : Variant) (s : St) : Eff → St
  | .none => s
  | .refused => match v with
    | .fixed => { s with connClosed := true }
    | .pinned => s
  | .sent o => { s with chan := s.chan ++ [o] }

def stepMain (s : St) : St :=
  match s.mpc with
  | .recv =>
    match s.chan with
    | [] => s
    | o :: rest => { s with chan := rest, ret := some o, mpc := .closeTarget }
  | .closeTarget => { s with targetClosed := true, mpc := .closeStream }
  | .closeStream =>
    { s with streamClosed := true, mpc := if s.ret = some .disconnect then .closeConn else .done }
  | .closeConn => { s with connClosed := true, mpc := .done }
  | .done => s

def step (v : Variant) (s : St) : Label → St
  | .up =>
    let r := gstep (s.streamClosed || s.connClosed) s.targetClosed s.up
    applyEff v { s with up := r.1 } r.2
  | .down =>
    let r := gstep s.targetClosed (s.streamClosed || s.connClosed) s.down
    applyEff v { s with down := r.1 } r.2
  | .main => stepMain s

def run (v : Variant) (s : St) (sched : List Label) : St := sched.foldl (step v) s

def St.init (up down : G) : St := { up := up, down := down }

def St.dir (s : St) : Label → G
  | .down => s.down
  | _ => s.up

/-! ### dial, TCPResponse, and the client's side of it -/

/-- "Connected" -/
def connectedMsg : Bytes := [byte 67, byte 111, byte 110, byte 110, byte 101, byte 99, byte 116, byte 101, byte 100]

/-- D5 repair: the message is cut to what the client's ReadTCPResponse accepts -/
def boundMsg (s : Bytes) : Bytes := s.take Gen.MaxMessageLength

/-- handleTCPRequest between the dial and the relay (no request hook): the bytes written
    to the stream, and whether the relay is entered.  `dial = some s`: `Outbound.TCP`
    failed and `err.Error() = s`.  The padding is the writer's random choice. -/
def serverRespond (v : Variant) (dial : Option Bytes) (pad : Bytes) : Bytes × Bool :=
  match dial with
  | some s =>
    (Frame.writeResponse false (match v with | .fixed => boundMsg s | .pinned => s) pad, false)
  | none => (Frame.writeResponse true connectedMsg pad, true)

inductive OpenRes where
  /-- a `tcpConn`; the rest of the stream is what its Reads deliver -/
  | established (rest : List Bytes)
  | dialError (msg : Bytes)
  /-- the response could not be read: eager → `ClosedError{err}` from `TCP()`;
      fast open → the first `Read` returns `err` as it is -/
  | failed (proto : Bool)
  deriving DecidableEq, Repr

/-- Client.TCP followed by the first Read (fast open defers the response read to that
    Read; the decision is the same, only the call that reports it differs).  `stream` is
    the chunks in which the transport delivers the server's bytes. -/
def clientOpen (stream : List Bytes) : OpenRes :=
  match Frame.readResponse Frame.chunked stream with
  | .ok (true, _) rest => .established rest
  | .ok (false, msg) _ => .dialError msg
  | .eof => .failed false
  | .proto _ => .failed true

/-- what `Client.TCP` returns -/
inductive TcpRes where
  | conn
  | dialError (msg : Bytes)
  /-- `wrapIfConnectionClosed(err)`: the caller treats the whole connection as lost -/
  | closedError
  deriving DecidableEq, Repr

/-- what the first `Read` on the returned conn yields -/
inductive ReadRes where
  | payload (rest : List Bytes)
  | dialError (msg : Bytes)
  | error (proto : Bool)
  deriving DecidableEq, Repr

/-- eager: the response is read before `TCP` returns; fast open: a conn is returned at once -/
def clientTCP (fastOpen : Bool) (stream : List Bytes) : TcpRes :=
  if fastOpen then .conn
  else match clientOpen stream with
    | .established _ => .conn
    | .dialError m => .dialError m
    | .failed _ => .closedError

/-- `tcpConn.Read`: with fast open the first Read reads the response first (`Established =
    false`); without, the response has been consumed by `TCP` and Read sees what follows -/
def clientFirstRead (stream : List Bytes) : ReadRes :=
  match clientOpen stream with
  | .established rest => .payload rest
  | .dialError m => .dialError m
  | .failed p => .error p

/-! ### a configured RequestHook, and every response header of one request -/

inductive Hook where
  /-- `config.RequestHook == nil` -/
  | absent
  /-- configured, `Check` returns false: the request is handled as if there were no hook -/
  | declines
  /-- configured, `Check` returns true (outside the property as far as dial errors go) -/
  | intercepts
  deriving DecidableEq, Repr

/-- "RequestHook enabled" -/
def hookMsg : Bytes :=
  [byte 82, byte 101, byte 113, byte 117, byte 101, byte 115, byte 116, byte 72, byte 111, byte 111, byte 107,
   byte 32, byte 101, byte 110, byte 97, byte 98, byte 108, byte 101, byte 100]

/-- every TCPResponse handleTCPRequest writes for ONE request, in the order of the code:
    `if hook != nil { hooked = Check(); if hooked { write ok } }`, the dial, then
    `if !hooked { write }` in either branch; and whether the relay is entered. -/
def serverResponses (v : Variant) (hook : Hook) (dial : Option Bytes) (pad1 pad2 : Bytes) : List Bytes × Bool :=
  let hooked := decide (hook = .intercepts)
  let r1 := if hooked then [Frame.writeResponse true hookMsg pad1] else []
  let r2 := if !hooked then [(serverRespond v dial pad2).1] else []
  (r1 ++ r2, dial.isNone)

/-! ### the client's conn over several Reads (fast open: `Established` is set only after a
    response has been read successfully) -/

structure TcpConn where
  established : Bool
  /-- what the transport still delivers, in chunks -/
  stream : List Bytes
  deriving DecidableEq, Repr

/-- what the environment does to one `Read`: it times out before anything of the stream is
    consumed (read deadline shorter than the server's dial), or it proceeds -/
inductive RdEv where
  | timeout
  | go
  deriving DecidableEq, Repr

inductive RdOut where
  | data (d : Bytes)
  | eof
  | dialError (msg : Bytes)
  | error (proto : Bool)
  | timeout
  deriving DecidableEq, Repr

/-- the conn `Client.TCP` hands out (none: it returned an error instead) -/
def connAfterTCP (fastOpen : Bool) (stream : List Bytes) : Option TcpConn :=
  if fastOpen then some ⟨false, stream⟩
  else match clientOpen stream with
    | .established rest => some ⟨true, rest⟩
    | _ => none

/-- `Orig.Read` -/
def nextChunk : List Bytes → RdOut × List Bytes
  | [] => (.eof, [])
  | c :: cs => (.data c, cs)

/-- `tcpConn.Read` -/
def connRead (c : TcpConn) : RdEv → RdOut × TcpConn
  | .timeout => (.timeout, c)
  | .go =>
    if c.established then ((nextChunk c.stream).1, { c with stream := (nextChunk c.stream).2 })
    else match Frame.readResponse Frame.chunked c.stream with
      | .ok (true, _) rest => ((nextChunk rest).1, ⟨true, (nextChunk rest).2⟩)
      | .ok (false, msg) rest => (.dialError msg, { c with stream := rest })
      | .eof => (.error false, { c with stream := [] })
      | .proto s => (.error true, { c with stream := s })

def appReads : TcpConn → List RdEv → List RdOut
  | _, [] => []
  | c, e :: es => (connRead c e).1 :: appReads (connRead c e).2 es

/-- the bytes the application has been handed -/
def dataOf : List RdOut → Bytes
  | [] => []
  | .data d :: r => d ++ dataOf r
  | _ :: r => dataOf r

/-! ### what an observer of a running relay can see, and the relations the theorems give -/

/-- the logger calls in a trace, newest first -/
def logsOf : List Ev → List (Nat × Bool)
  | [] => []
  | .log n v :: t => (n, v) :: logsOf t
  | _ :: t => logsOf t

def approvedSum : List (Nat × Bool) → Nat
  | [] => 0
  | p :: rest => (if p.2 then p.1 else 0) + approvedSum rest

/-- observation of one direction: the bytes the sending side offered, the bytes the
    receiving side got, the logger calls `(n, verdict)` of that direction, newest first -/
structure Obs where
  sent : Bytes
  got : Bytes
  logs : List (Nat × Bool)
  deriving Repr

/-- name of the first relation the observation breaks.
    mode 0: `got` may lag behind what was forwarded (a receiver behind a transport);
    mode 1: `got` is what the sink accepted, so at most one chunk is in flight;
    mode 2: the observer knows that nothing is in flight. -/
def Obs.check (buf : Nat) (mode : Nat) (o : Obs) : Option String :=
  if !(o.got.isPrefixOf o.sent) then some "prefix"
  else if !(o.logs.all (fun p => decide (1 ≤ p.1 ∧ p.1 ≤ buf))) then some "chunk"
  else if !(o.logs.tail.all (·.2)) then some "after-veto"
  else if !(decide (o.got.length ≤ approvedSum o.logs)) then some "unapproved"
  else if decide (1 ≤ mode) && !(decide (approvedSum o.logs ≤ o.got.length + buf)) then some "accounting"
  else if decide (2 ≤ mode) && !(decide (approvedSum o.logs = o.got.length)) then some "exact"
  else none

/-- what the model's direction `g` shows to such an observer -/
def G.obs (g : G) : Obs := { sent := g.source, got := g.written.flatten, logs := logsOf g.trace }

end Hy.Relay
