/-
  Model of the Gecko layer of extras/obfs (gecko.go, gecko_frame.go), C14.

  What is modelled (the layer the property talks about):
    * sender  : WriteTo / writeFragmented / randomPadLen / encodeFrame
    * codec   : encodeFrame / decodeFrame, every Go index and slice through `Res`
    * receiver: ReadFrom's loop body (one inner datagram per step), acceptChunk,
                gcExpired, dropEntryLocked, evictOldestLocked, the gcLoop ticker
  What is a parameter:
    * the inner (Salamander) conn is the identity on payloads and adds `smSaltLen`
      bytes on the wire (that is C13's property); its ReadFrom hands over at most
      `geckoBufferSize` bytes of a datagram.
    * sources are `Nat` (Go keys the table by `addr.String()`); time is a `Nat` of
      nanoseconds since the connection was created.
  Nondeterministic choices of the code are INPUTS: number of chunks, message id
  (an atomic counter in Go; the driver also checks it against a counter), the
  random draw of every pad length and the pad bytes, the eviction victim among
  the entries with the smallest deadline (Go iterates a map).

  Finite maps are association lists without duplicate keys (`aget/adel/aput`):
  executable in O(size) for the driver and easy to reason about by induction.
  Core Lean only (linked into `hydrv`).
-/
import Hy.Base.Bytes
import Hy.Base.Res
import Hy.Gen.Extras
namespace Hy.Gecko
open Hy

/-! ### constants (regenerated from the compiled package) -/
def saltLen : Nat := Gen.smSaltLen
def headerSize : Nat := Gen.geckoHeaderSize
def minChunks : Nat := Gen.geckoMinFragmentChunks
def maxChunks : Nat := Gen.geckoMaxFragmentChunks
def ttl : Nat := Gen.geckoReassemblyTTL
def maxTable : Nat := Gen.geckoMaxReassembly
def maxPerSource : Nat := Gen.geckoMaxPerSource
def bufferSize : Nat := Gen.geckoBufferSize

/-! ### association lists -/
section AL
variable {κ α : Type} [DecidableEq κ]

def aget : List (κ × α) → κ → Option α
  | [], _ => none
  | (k', v) :: r, k => if k' = k then some v else aget r k

/-- remove the first binding of `k` -/
def adel : List (κ × α) → κ → List (κ × α)
  | [], _ => []
  | (k', v) :: r, k => if k' = k then r else (k', v) :: adel r k

/-- bind `k` to `v` (the binding moves to the front; map order is not observable) -/
def aput (l : List (κ × α)) (k : κ) (v : α) : List (κ × α) := (k, v) :: adel l k

def akeys (l : List (κ × α)) : List κ := l.map Prod.fst
end AL

/-! ### frame codec (gecko_frame.go) -/

structure Hdr where
  pad : Nat     -- uint16
  mid : Nat     -- uint8
  idx : Nat     -- uint8
  total : Nat   -- uint8
deriving DecidableEq, Repr

/-- result of a codec call that did not panic: Go's `(value, nil)`, `errFrameTruncated`, `errFrameInvalid` -/
inductive Dec (α : Type) where
  | val : α → Dec α
  | truncated : Dec α
  | invalid : Dec α
deriving DecidableEq, Repr

/-- `out[i] = v` -/
def setAt (out : Bytes) (i : Nat) (v : Byte) : Res Bytes :=
  if i < out.length then .ok (out.take i ++ v :: out.drop (i + 1)) else .panic

/-- `copy(out[off:], src)` : slicing panics when `off > len(out)`; copy is clipped to the room left -/
def copyAt (out : Bytes) (off : Nat) (src : Bytes) : Res Bytes :=
  if off ≤ out.length then
    let n := min src.length (out.length - off)
    .ok (out.take off ++ src.take n ++ out.drop (off + n))
  else .panic

/-- `rand.Read` fills a region of `n` bytes: the random bytes are an input; a short
    input is completed with zeros so that the function is total -/
def fill (n : Nat) (rnd : Bytes) : Bytes := (rnd ++ List.replicate n (0 : Byte)).take n

/-- encodeFrame(h, payload, out) with `len(out) = outLen`, `rnd` = what rand.Read writes
    into the padding region. Returns the written prefix `out[:n]`. -/
def encodeFrame (h : Hdr) (payload : Bytes) (outLen : Nat) (rnd : Bytes) : Res (Dec Bytes) :=
  if h.total < minChunks ∨ h.total > maxChunks then .ok .invalid
  else if h.idx ≥ h.total then .ok .invalid
  else
    let needed := headerSize + h.pad + payload.length
    if outLen < needed then .ok .truncated
    else
      let out0 : Bytes := List.replicate outLen 0
      (setAt out0 0 (byte 128)).bind fun out1 =>
      (setAt out1 1 (byte h.mid)).bind fun out2 =>
      -- h.chunkIdx<<4 | h.totalChunks&0x0f  on uint8 (the shifted value has a zero low nibble)
      (setAt out2 2 (byte ((h.idx * 16) % 256 + h.total % 16))).bind fun out3 =>
      (Res.slice out3 3 5).bind fun _ =>                      -- out[3:5]
      (setAt out3 3 (byte (h.pad / 256))).bind fun out4 =>    -- PutUint16
      (setAt out4 4 (byte h.pad)).bind fun out5 =>
      (Res.slice out5 headerSize (headerSize + h.pad)).bind fun _ =>  -- out[5:5+pad]
      (copyAt out5 headerSize (fill h.pad rnd)).bind fun out6 =>      -- rand.Read
      (copyAt out6 (headerSize + h.pad) payload).bind fun out7 =>     -- copy(out[5+pad:], payload)
      (Res.sliceTo out7 needed).bind fun fr =>                         -- caller: buf[:n]
      .ok (.val fr)

/-- decodeFrame(in) -/
def decodeFrame (inp : Bytes) : Res (Dec (Hdr × Bytes)) :=
  if inp.length < headerSize then .ok .truncated
  else
    (Res.idx inp 0).bind fun b0 =>
    if b0.val / 128 % 2 = 0 then .ok .invalid          -- in[0] & 0x80 == 0
    else
      (Res.idx inp 1).bind fun b1 =>
      (Res.idx inp 2).bind fun b2 =>
      (Res.slice inp 3 5).bind fun s =>
      (Res.idx s 0).bind fun hi =>
      (Res.idx s 1).bind fun lo =>
      let h : Hdr := { mid := b1.val, idx := b2.val / 16, total := b2.val % 16,
                       pad := hi.val * 256 + lo.val }
      if h.total < minChunks ∨ h.total > maxChunks then .ok .invalid
      else if h.idx ≥ h.total then .ok .invalid
      else if headerSize + h.pad > inp.length then .ok .truncated
      else
        (Res.sliceFrom inp (headerSize + h.pad)).bind fun pl =>
        .ok (.val (h, pl))

/-- the frame the encoder produces for a valid header, as a formula -/
def frameOf (h : Hdr) (padBytes payload : Bytes) : Bytes :=
  [byte 128, byte h.mid, byte (h.idx * 16 + h.total), byte (h.pad / 256), byte h.pad] ++ padBytes ++ payload

/-! ### sender (gecko.go WriteTo, writeFragmented, randomPadLen) -/

structure Cfg where
  minPkt : Nat
  maxPkt : Nat
deriving DecidableEq, Repr

/-- `n` in `randIntn(n)` of randomPadLen: the draw `r` ranges over `[0, max 1 n)` -/
def padDrawBound (c : Cfg) (chunkLen : Nat) : Nat :=
  let base := saltLen + headerSize + chunkLen
  let lo := max c.minPkt base
  c.maxPkt - lo + 1

/-- randomPadLen with the random draw `r` as input; the result is converted to uint16 -/
def randomPadLen (c : Cfg) (chunkLen r : Nat) : Nat :=
  let base := saltLen + headerSize + chunkLen
  let lo := max c.minPkt base
  if lo > c.maxPkt then 0 else (lo - base + r) % 65536

/-- one iteration of writeFragmented's loop: the frame handed to the inner conn -/
def fragment (c : Cfg) (p : Bytes) (chunks mid i r : Nat) (rnd : Bytes) : Res (Dec Bytes) :=
  let chunkSize := p.length / chunks
  let start := i * chunkSize
  let stop := if i < chunks - 1 then start + chunkSize else p.length
  (Res.slice p start stop).bind fun chunk =>
  let padLen := randomPadLen c chunk.length r
  -- buf := make([]byte, geckoHeaderSize+int(padLen)+len(chunk))
  encodeFrame { pad := padLen, mid := mid % 256, idx := i % 256, total := chunks % 256 } chunk
    (headerSize + padLen + chunk.length) rnd

/-- the loop `for i := range chunks`, from index `i`, `draws` = (random draw, pad bytes) per chunk
    (a missing draw is 0 / no bytes). An encoder error aborts the write (`reject`). -/
def fragLoop (c : Cfg) (p : Bytes) (chunks mid : Nat) : Nat → Nat → List (Nat × Bytes) → Res (List Bytes)
  | 0, _, _ => .ok []
  | n + 1, i, draws =>
    let d := draws.headD (0, [])
    (fragment c p chunks mid i d.1 d.2).bind fun fr =>
    match fr with
    | .val f => (fragLoop c p chunks mid n (i + 1) draws.tail).bind fun rest => .ok (f :: rest)
    | _ => .reject

/-- writeFragmented: `len(p) / chunks` panics on a zero divisor -/
def split (c : Cfg) (p : Bytes) (chunks mid : Nat) (draws : List (Nat × Bytes)) : Res (List Bytes) :=
  if chunks = 0 then .panic else fragLoop c p chunks mid chunks 0 draws

/-- WriteTo: the datagrams handed to the inner conn -/
def writeTo (c : Cfg) (p : Bytes) (chunks mid : Nat) (draws : List (Nat × Bytes)) : Res (List Bytes) :=
  if p.length = 0 then .ok []
  else
    (Res.idx p 0).bind fun b0 =>
    if b0.val / 128 % 2 ≠ 0 then split c p chunks mid draws   -- p[0]&0x80 != 0 : long header
    else .ok [p]                                             -- short header: pass through

/-- WrapPacketConnGecko's resolution of the configured size range (Go `int`s) -/
def resolveCfg (mn mx : Int) : Option Cfg :=
  let mn := if mn = 0 then (Gen.geckoDefaultMinPacket : Int) else mn
  let mx := if mx = 0 then (Gen.geckoDefaultMaxPacket : Int) else mx
  if mn ≤ 0 ∨ mn > mx ∨ mx > (Gen.geckoBufferSize : Int) then none
  else some { minPkt := mn.toNat, maxPkt := mx.toNat }

/-! ### receiver state -/

structure Key where
  src : Nat
  mid : Nat
deriving DecidableEq, Repr

structure Ent where
  chunks : List (Option Bytes)   -- nil slot = none
  received : Nat
  total : Nat
  deadline : Nat
deriving DecidableEq, Repr

structure St where
  tab : List (Key × Ent) := []   -- g.reassembly
  per : List (Nat × Nat) := []   -- g.perSource (absent = 0)
deriving DecidableEq, Repr

def perGet (per : List (Nat × Nat)) (s : Nat) : Nat := (aget per s).getD 0

/-- `g.perSource[a]--; if g.perSource[a] <= 0 { delete }` -/
def perDec (per : List (Nat × Nat)) (s : Nat) : List (Nat × Nat) :=
  let v := perGet per s - 1
  if v = 0 then adel per s else aput per s v

/-- `g.perSource[a]++` -/
def perInc (per : List (Nat × Nat)) (s : Nat) : List (Nat × Nat) := aput per s (perGet per s + 1)

/-- dropEntryLocked -/
def dropEntry (st : St) (k : Key) : St :=
  match aget st.tab k with
  | none => st
  | some _ => { tab := adel st.tab k, per := perDec st.per k.src }

/-- smallest deadline in the table -/
def minDeadline : List (Key × Ent) → Option Nat
  | [] => none
  | (_, e) :: r =>
    match minDeadline r with
    | none => some e.deadline
    | some m => some (min e.deadline m)

def firstWithDeadline (d : Nat) : List (Key × Ent) → Option Key
  | [] => none
  | (k, e) :: r => if e.deadline = d then some k else firstWithDeadline d r

/-- the key evictOldestLocked removes: an entry with the smallest deadline; which one
    among equals depends on Go's map iteration order, so the choice `tie` is an input
    (honoured when it names an entry with the smallest deadline). -/
def victimOf (tab : List (Key × Ent)) (tie : Key) : Option Key :=
  match minDeadline tab with
  | none => none
  | some m =>
    match aget tab tie with
    | some e => if e.deadline = m then some tie else firstWithDeadline m tab
    | none => firstWithDeadline m tab

/-- evictOldestLocked -/
def evictOldest (st : St) (tie : Key) : St :=
  match victimOf st.tab tie with
  | none => st
  | some k => dropEntry st k

/-- the reassembled packet: concatenation of the chunk slots (a nil slot contributes nothing) -/
def assemble (cs : List (Option Bytes)) : Bytes := (cs.map (fun o => o.getD [])).flatten

/-- first half of acceptChunk: look the entry up or open a new one; `none` = frame dropped -/
def admitEntry (st : St) (k : Key) (total now : Nat) (tie : Key) : Option (St × Ent) :=
  match aget st.tab k with
  | some e => if e.total ≠ total then none else some (st, e)
  | none =>
    if perGet st.per k.src ≥ maxPerSource then none
    else
      let s1 := if st.tab.length ≥ maxTable then evictOldest st tie else st
      let e : Ent := { chunks := List.replicate total none, received := 0, total := total,
                       deadline := now + ttl }
      some ({ tab := aput s1.tab k e, per := perInc s1.per k.src }, e)

/-- second half of acceptChunk (total form): store the chunk; deliver when complete -/
def place (s2 : St) (k : Key) (e : Ent) (idx : Nat) (payload : Bytes) : St × Option Bytes :=
  match e.chunks[idx]? with
  | some none =>
    let e' : Ent := { e with chunks := e.chunks.set idx (some payload), received := e.received + 1 }
    let s3 : St := { s2 with tab := aput s2.tab k e' }
    if e'.received < e'.total then (s3, none)
    else (dropEntry s3 k, some (assemble e'.chunks))
  | _ => (s2, none)   -- index out of range, or duplicate

/-- acceptChunk, total form -/
def acceptT (st : St) (k : Key) (h : Hdr) (payload : Bytes) (now : Nat) (tie : Key) : St × Option Bytes :=
  match admitEntry st k h.total now tie with
  | none => (st, none)
  | some (s2, e) => place s2 k e h.idx payload

/-- acceptChunk as written in Go: the slot is read with an index expression behind a length guard -/
def acceptChunk (st : St) (k : Key) (h : Hdr) (payload : Bytes) (now : Nat) (tie : Key) :
    Res (St × Option Bytes) :=
  match admitEntry st k h.total now tie with
  | none => .ok (st, none)
  | some (s2, e) =>
    if h.idx ≥ e.chunks.length then .ok (s2, none)
    else
      (Res.idx e.chunks h.idx).bind fun slot =>
      match slot with
      | some _ => .ok (s2, none)
      | none =>
        let e' : Ent := { e with chunks := e.chunks.set h.idx (some payload), received := e.received + 1 }
        let s3 : St := { s2 with tab := aput s2.tab k e' }
        if e'.received < e'.total then .ok (s3, none)
        else .ok (dropEntry s3 k, some (assemble e'.chunks))

/-- gcExpired(now): every entry with `now.After(deadline)` is dropped -/
def gcExpired (st : St) (now : Nat) : St :=
  ((st.tab.filter (fun ke => decide (ke.2.deadline < now))).map Prod.fst).foldl dropEntry st

/-! ### ReadFrom -/

/-- what one iteration of ReadFrom's loop does with one datagram of the inner conn -/
inductive Out where
  | drop                              -- `continue`
  | pass (src : Nat) (data : Bytes)   -- short header / not a fragment: returned as is
  | msg (k : Key) (data : Bytes)      -- reassembled packet (the key is ghost information)
deriving DecidableEq, Repr

/-- one loop iteration: datagram `d` from `src` at time `now`; `pcap = len(p)` of the caller -/
def rxStep (st : St) (src : Nat) (d : Bytes) (now : Nat) (tie : Key) (pcap : Nat) : Res (St × Out) :=
  let buf := d.take bufferSize               -- inner.ReadFrom(buf): n ≤ len(buf)
  if buf.length = 0 then .ok (st, .drop)     -- n <= 0
  else
    (Res.idx buf 0).bind fun b0 =>
    if b0.val / 128 % 2 = 0 then .ok (st, .pass src (buf.take pcap))
    else
      (decodeFrame buf).bind fun r =>
      match r with
      | .val (h, pl) =>
        (acceptChunk st { src := src, mid := h.mid } h pl now tie).bind fun (st', o) =>
        match o with
        | none => .ok (st', .drop)
        | some out => .ok (st', .msg { src := src, mid := h.mid } (out.take pcap))
      | _ => .ok (st, .drop)                  -- malformed: dropped silently

/-- events seen by the receiver: a datagram from the inner conn, or a gc run -/
inductive Ev where
  | dgram (src : Nat) (d : Bytes) (now : Nat) (tie : Key) (pcap : Nat)
  | gc (now : Nat)
deriving DecidableEq, Repr

def step (st : St) : Ev → Res (St × Out)
  | .dgram src d now tie pcap => rxStep st src d now tie pcap
  | .gc now => .ok (gcExpired st now, .drop)

/-- total forms (proved equal to the `Res` forms in Hy.Proofs.Gecko: nothing panics) -/
def decodeT (inp : Bytes) : Dec (Hdr × Bytes) :=
  if inp.length < headerSize then .truncated
  else if (inp.getD 0 0).val < 128 then .invalid
  else
    let h : Hdr := { mid := (inp.getD 1 0).val, idx := (inp.getD 2 0).val / 16, total := (inp.getD 2 0).val % 16,
                     pad := (inp.getD 3 0).val * 256 + (inp.getD 4 0).val }
    if h.total < minChunks ∨ h.total > maxChunks then .invalid
    else if h.idx ≥ h.total then .invalid
    else if headerSize + h.pad > inp.length then .truncated
    else .val (h, inp.drop (headerSize + h.pad))

def rxT (st : St) (src : Nat) (d : Bytes) (now : Nat) (tie : Key) (pcap : Nat) : St × Out :=
  let buf := d.take bufferSize
  if buf.length = 0 then (st, .drop)
  else if (buf.getD 0 0).val < 128 then (st, .pass src (buf.take pcap))
  else
    match decodeT buf with
    | .val (h, pl) =>
      match acceptT st { src := src, mid := h.mid } h pl now tie with
      | (st', none) => (st', .drop)
      | (st', some out) => (st', .msg { src := src, mid := h.mid } (out.take pcap))
    | _ => (st, .drop)

def stepT (st : St) : Ev → St × Out
  | .dgram src d now tie pcap => rxT st src d now tie pcap
  | .gc now => (gcExpired st now, .drop)

/-- a run of the receiver: final state and everything ReadFrom returned, in order -/
def runT (st : St) : List Ev → St × List Out
  | [] => (st, [])
  | ev :: evs =>
    let r := stepT st ev
    let rr := runT r.1 evs
    (rr.1, r.2 :: rr.2)

/-- ReadFrom: consume queued datagrams until one yields a packet; returns the state, the
    unread queue and the result (`drop` = the inner conn ran dry / returned an error) -/
def readFrom (st : St) (now : Nat) (pcap : Nat) : List (Nat × Bytes × Key) → Res (St × List (Nat × Bytes × Key) × Out)
  | [] => .ok (st, [], .drop)
  | (src, d, tie) :: q =>
    (rxStep st src d now tie pcap).bind fun (st', o) =>
    match o with
    | .drop => readFrom st' now pcap q
    | o => .ok (st', q, o)

/-! ### gcLoop: a ticker of period TTL/2 calling gcExpired(tick time) -/

def tickPeriod : Nat := ttl / 2

structure Rx where
  st : St := {}
  nextTick : Nat := tickPeriod
deriving Repr

/-- let the clock reach `to`: every tick `≤ to` runs gcExpired with the tick's time -/
def advanceN : Nat → Rx → Nat → Rx
  | 0, rx, _ => rx
  | fuel + 1, rx, to =>
    if rx.nextTick ≤ to then
      advanceN fuel { st := gcExpired rx.st rx.nextTick, nextTick := rx.nextTick + tickPeriod } to
    else rx

def advance (rx : Rx) (to : Nat) : Rx := advanceN ((to - rx.nextTick) / tickPeriod + 1) rx to

end Hy.Gecko
