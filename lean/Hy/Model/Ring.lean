/-
  C12(a) — RingBuffer[T] of core/internal/congestion/bbr/ringbuffer.go, exactly as written:
  a backing slice, headPos, tailPos and the `full` flag, with `grow()` doubling the slice and
  unrolling the contents to the front.  Go's explicit `panic(...)` calls (PopFront / Offset /
  Front / Back on an empty buffer, Offset past the end) AND the implicit index / slice-bound
  panics are `Res.panic`, so "does not panic" is a theorem and not an artefact of `getD`.

  `T`'s zero value (`*new(T)`, fresh `make([]T, n)`) is `default`.
  `Offset(index int)` takes a Go `int`: the model takes an `Int` and computes Go's truncated
  `%` (`Int.tmod`), so the behaviour on negative indexes (a stale slot or an index panic) is
  part of the model.  headPos/tailPos are only ever assigned 0, `len(old)` or incremented, so
  they are `Nat`.
  Core Lean only (linked into hydrv).
-/
import Hy.Base.Res
namespace Hy.Ring
open Hy

structure RB (α : Type) where
  ring : List α
  head : Nat
  tail : Nat
  full : Bool
  deriving Repr, DecidableEq

variable {α : Type} [Inhabited α]

/-- `len(r.ring)` -/
def RB.cap (r : RB α) : Nat := r.ring.length

/-- the zero value of the struct (`var r RingBuffer[T]`) followed by `Init(size)`;
    `Init 0` is the zero value itself -/
def init (size : Nat) : RB α :=
  { ring := List.replicate size default, head := 0, tail := 0, full := false }

/-- `Len()` (ringbuffer.go:17-25) -/
def RB.len (r : RB α) : Nat :=
  if r.full then r.cap
  else if r.tail ≥ r.head then r.tail - r.head
  else r.tail + r.cap - r.head

/-- `Empty()` -/
def RB.empty (r : RB α) : Bool := !r.full && r.head == r.tail

/-- raw slot read with Go's bounds check -/
def RB.slot (r : RB α) (j : Nat) : Res α := Res.idx r.ring j

/-- `grow()` (ringbuffer.go:95-106): `oldRing[r.headPos:]` and `oldRing[:r.headPos]` are bound-checked -/
def RB.grow (r : RB α) : Res (RB α) := do
  let newSize := if r.cap * 2 = 0 then 1 else r.cap * 2
  let hd ← Res.sliceFrom r.ring r.head
  let tl ← Res.sliceTo r.ring r.head
  -- `make([]T, newSize)`, `headLen := copy(r.ring, hd)`, `copy(r.ring[headLen:], tl)`
  let copied := hd ++ tl
  pure { ring := copied ++ List.replicate (newSize - copied.length) default,
         head := 0, tail := r.cap, full := false }

/-- `PushBack(t)` (ringbuffer.go:34-47) -/
def RB.pushBack (r : RB α) (x : α) : Res (RB α) := do
  let r1 ← if r.full || r.cap == 0 then r.grow else pure r
  if r1.tail < r1.cap then            -- r.ring[r.tailPos] = t
    let t1 := r1.tail + 1
    let t2 := if t1 = r1.cap then 0 else t1
    pure { r1 with ring := r1.ring.set r1.tail x, tail := t2,
                   full := if t2 = r1.head then true else r1.full }
  else Res.panic

/-- `PopFront()` (ringbuffer.go:52-64): returns the element and the new buffer -/
def RB.popFront (r : RB α) : Res (α × RB α) := do
  if r.empty then Res.panic           -- panic("... pop from an empty queue")
  else
    let t ← r.slot r.head             -- t := r.ring[r.headPos]
    let h1 := r.head + 1
    let h2 := if h1 = r.cap then 0 else h1
    pure (t, { r with ring := r.ring.set r.head default, head := h2, full := false })

/-- position computed by `Offset`: Go's `(r.headPos + index) % len(r.ring)` on ints -/
def RB.offsetPos (r : RB α) (i : Int) : Res Nat :=
  if r.empty || i ≥ (r.len : Int) then Res.panic      -- panic("... offset from invalid index")
  else
    let off := Int.tmod ((r.head : Int) + i) (r.cap : Int)
    if 0 ≤ off ∧ off.toNat < r.cap then Res.ok off.toNat else Res.panic   -- &r.ring[offset]

/-- `Offset(index)` read through the returned pointer -/
def RB.offset (r : RB α) (i : Int) : Res α := do
  let p ← r.offsetPos i
  r.slot p

/-- a write through the pointer returned by `Offset(index)` -/
def RB.modifyOffset (r : RB α) (i : Int) (f : α → α) : Res (RB α) := do
  let p ← r.offsetPos i
  let v ← r.slot p
  pure { r with ring := r.ring.set p (f v) }

/-- `Front()` -/
def RB.front (r : RB α) : Res α :=
  if r.empty then Res.panic else r.slot r.head

/-- `Back()` -/
def RB.back (r : RB α) : Res α :=
  if r.empty then Res.panic else r.offset ((r.len : Int) - 1)

/-- `Clear()` -/
def RB.clear (r : RB α) : RB α :=
  { ring := List.replicate r.cap default, head := 0, tail := 0, full := false }

/-! ### abstraction: the queue contents front to back -/

/-- element `i` of the queue (total; meaningful for `i < len`) -/
def RB.get (r : RB α) (i : Nat) : α := r.ring.getD ((r.head + i) % r.cap) default

def RB.toList (r : RB α) : List α := (List.range r.len).map r.get

/-- representation invariant (every buffer reachable from `init` satisfies it) -/
structure RB.WF (r : RB α) : Prop where
  h0 : r.cap = 0 → r.head = 0 ∧ r.tail = 0 ∧ r.full = false
  hh : 0 < r.cap → r.head < r.cap
  ht : 0 < r.cap → r.tail < r.cap
  hf : r.full = true → r.head = r.tail ∧ 0 < r.cap

end Hy.Ring

namespace Hy.Ring
variable {α : Type} [Inhabited α]

/-! ### one step of the ring / of the list-deque it refines (used by the driver and by
    `ring_refines_deque`) -/

inductive ROp (α : Type) where
  | push (x : α) | pop | offset (i : Int) | front | back | clear | len | empty | grow
  deriving Repr

inductive Out (α : Type) where
  | unit | val (a : α) | num (n : Nat) | flag (b : Bool)
  deriving Repr, DecidableEq

/-- the implementation -/
def implStep (r : RB α) : ROp α → Res (RB α × Out α)
  | .push x => do let r' ← r.pushBack x; pure (r', .unit)
  | .pop => do let (x, r') ← r.popFront; pure (r', .val x)
  | .offset i => do let x ← r.offset i; pure (r, .val x)
  | .front => do let x ← r.front; pure (r, .val x)
  | .back => do let x ← r.back; pure (r, .val x)
  | .clear => pure (r.clear, .unit)
  | .len => pure (r, .num r.len)
  | .empty => pure (r, .flag r.empty)
  | .grow => do let r' ← r.grow; pure (r', .unit)

/-- the specification: a plain list used as a deque; `Offset i` is specified for `0 ≤ i`
    (for a negative index the Go code reads a stale slot or faults, see `offset_negative_stale`) -/
def specStep (l : List α) : ROp α → Res (List α × Out α)
  | .push x => pure (l ++ [x], .unit)
  | .pop => match l with
    | [] => Res.panic
    | x :: xs => pure (xs, .val x)
  | .offset i => match l[i.toNat]? with
    | some x => pure (l, .val x)
    | none => Res.panic
  | .front => match l with
    | [] => Res.panic
    | x :: _ => pure (l, .val x)
  | .back => match l.getLast? with
    | none => Res.panic
    | some x => pure (l, .val x)
  | .clear => pure ([], .unit)
  | .len => pure (l, .num l.length)
  | .empty => pure (l, .flag l.isEmpty)
  | .grow => pure (l, .unit)

/-- an op is inside the specified domain: `Offset` with a non-negative index, `grow()` only
    where PushBack calls it -/
def ROp.inDomain (r : RB α) : ROp α → Prop
  | .offset i => 0 ≤ i
  | .grow => r.full = true ∨ r.cap = 0
  | _ => True

end Hy.Ring
